package sym

// verifSchedWindow(n int) - harness API (declare `func verifSchedWindow(n int) {}` in the harness,
// like verifAbstractLen; natively a no-op). Introduced for C25b: a long scenario whose
// interleavings matter only in one short window.
//
//	verifSchedWindow(n), n >= 0: from here on, whatever the entry's "sched_first"/"max_preempt" say,
//	    a running goroutine can lose the processor at a synchronisation operation up to n times
//	    (counted from here), to any other runnable goroutine (a decision of the path); when the
//	    running goroutine blocks or ends, the first runnable one continues, as with "sched_first"
//	    (preemption bounding over one base schedule - exploring every order at every blocking
//	    point as well is what an entry without "sched_first" does, and is far more expensive);
//	verifSchedWindow(-1): back to the entry's own configuration.
//
// Scheduling points are recorded as everywhere else, so a forced-schedule replay follows the path.

var schedWindowSlot value

type schedWindow struct {
	on         bool
	maxPreempt int
}

// verifSchedWindowAPI is registered in verifAPI (intrinsics.go).
func verifSchedWindowAPI(in *Interp, fr *frame, a []value) value {
	n := in.concInt(a[0], "verifSchedWindow")
	w, _ := in.sideState[&schedWindowSlot].(*schedWindow)
	if w == nil {
		w = &schedWindow{}
		in.sideState[&schedWindowSlot] = w
	}
	if n < 0 {
		w.on = false
		return nil
	}
	w.on, w.maxPreempt = true, int(n)
	in.sched.switches = 0
	return nil
}

// schedMode returns what is in force - the entry's configuration, or the window opened by
// verifSchedWindow: the preemption bound, "no scheduler choice at all" (sched_first), and "no
// choice when the running goroutine blocks or ends" (window).
func (in *Interp) schedMode() (maxPreempt int, schedFirst, blockFirst bool) {
	if len(in.sideState) != 0 {
		if w, _ := in.sideState[&schedWindowSlot].(*schedWindow); w != nil && w.on {
			return w.maxPreempt, false, true
		}
	}
	return in.cfg.MaxPreempt, in.cfg.SchedFirst, false
}
