package sym

// Model clock. A model instant is a time.Time in monotonic form: wall = hasMonotonic | K,
// ext = nanoseconds on the model clock (possibly symbolic). The real methods of time.Time
// (Sub, Before, After, Equal, Compare, IsZero) are executed from their SSA and take the
// monotonic path. Add is an intrinsic for model instants (the real body divides by 10^9).

import (
	"go/token"
	"go/types"
)

const modelWall = uint64(1)<<63 | uint64(5_000_000_000)<<30

func (in *Interp) timeValue(ns value) value {
	var loc value = (*value)(nil)
	return structure{modelWall, ns, loc}
}

func isModelTime(v value) (structure, bool) {
	s, ok := v.(structure)
	if !ok || len(s) != 3 {
		return nil, false
	}
	w, ok := s[0].(uint64)
	return s, ok && w == modelWall
}

type timerState = timer

func init() {
	reg := func(name string, h handler) { intrinsics[name] = h }
	i64 := types.Typ[types.Int64]

	reg("time.Now", func(in *Interp, fr *frame, a []value) value { return in.timeValue(in.clock) })
	reg("time.Since", func(in *Interp, fr *frame, a []value) value {
		sub := in.methodOf(in.P.timeType(), "Sub")
		return in.call(fr, token.NoPos, sub, []value{in.timeValue(in.clock), a[0]})
	})
	reg("time.Until", func(in *Interp, fr *frame, a []value) value {
		sub := in.methodOf(in.P.timeType(), "Sub")
		return in.call(fr, token.NoPos, sub, []value{a[0], in.timeValue(in.clock)})
	})
	reg("(time.Time).Add", func(in *Interp, fr *frame, a []value) value {
		s, ok := isModelTime(a[0])
		if !ok {
			return notHandled
		}
		return structure{s[0], in.binop(token.ADD, i64, i64, s[1], a[1]), s[2]}
	})
	reg("(time.Time).UnixNano", func(in *Interp, fr *frame, a []value) value {
		s, ok := isModelTime(a[0])
		if !ok {
			return notHandled
		}
		return s[1]
	})
	reg("time.Sleep", func(in *Interp, fr *frame, a []value) value {
		// the sleeper resumes once the clock has passed its deadline; other goroutines may run
		deadline := in.binop(token.ADD, i64, i64, in.clock, a[0])
		t := &timer{deadline: deadline, active: true}
		woke := false
		t.fn = &nativeFunc{name: "sleep-wake", f: func(in *Interp, caller *frame, _ []value) value { woke = true; return nil }}
		in.timers = append(in.timers, t)
		in.block("sleep", func() bool { return woke })
		return nil
	})
	newTimer := func(in *Interp, d value, fn value, period value) (*value, *timer) {
		tt := in.P.Pkgs["time"].Type("Timer").Type()
		var cell value = zero(tt)
		t := &timer{deadline: in.binop(token.ADD, i64, i64, in.clock, d), active: true, fn: fn, period: period}
		if fn == nil {
			t.ch = in.newChan(1, in.P.timeType())
			st := cell.(structure)
			// field C is the first field of Timer/Ticker
			st[0] = t.ch
		}
		in.timers = append(in.timers, t)
		p := &cell
		in.sideState[p] = t
		return p, t
	}
	reg("time.NewTimer", func(in *Interp, fr *frame, a []value) value {
		p, _ := newTimer(in, a[0], nil, nil)
		return p
	})
	reg("time.After", func(in *Interp, fr *frame, a []value) value {
		_, t := newTimer(in, a[0], nil, nil)
		return t.ch
	})
	reg("time.AfterFunc", func(in *Interp, fr *frame, a []value) value {
		p, _ := newTimer(in, a[0], a[1], nil)
		return p
	})
	reg("time.NewTicker", func(in *Interp, fr *frame, a []value) value {
		tt := in.P.Pkgs["time"].Type("Ticker").Type()
		var cell value = zero(tt)
		t := &timer{deadline: in.binop(token.ADD, i64, i64, in.clock, a[0]), active: true, period: a[0]}
		t.ch = in.newChan(1, in.P.timeType())
		cell.(structure)[0] = t.ch
		in.timers = append(in.timers, t)
		p := &cell
		in.sideState[p] = t
		return p
	})
	reg("time.Tick", func(in *Interp, fr *frame, a []value) value {
		t := &timer{deadline: in.binop(token.ADD, i64, i64, in.clock, a[0]), active: true, period: a[0]}
		t.ch = in.newChan(1, in.P.timeType())
		in.timers = append(in.timers, t)
		return t.ch
	})
	stop := func(in *Interp, fr *frame, a []value) value {
		t, _ := in.sideState[a[0].(*value)].(*timer)
		if t == nil {
			in.runtimePanic("time: Stop called on uninitialized Timer")
		}
		was := t.active
		t.active = false
		if t.ch != nil {
			t.ch.buf = nil // Go 1.23+: no stale value after Stop
		}
		return was
	}
	reg("(*time.Timer).Stop", stop)
	reg("(*time.Ticker).Stop", func(in *Interp, fr *frame, a []value) value { stop(in, fr, a); return nil })
	reg("(*time.Timer).Reset", func(in *Interp, fr *frame, a []value) value {
		t, _ := in.sideState[a[0].(*value)].(*timer)
		if t == nil {
			in.runtimePanic("time: Reset called on uninitialized Timer")
		}
		was := t.active
		t.deadline = in.binop(token.ADD, i64, i64, in.clock, a[1])
		t.active = true
		// Go 1.23+: Reset discards a stale value in the channel
		if t.ch != nil {
			t.ch.buf = nil
		}
		return was
	})
	reg("(*time.Ticker).Reset", func(in *Interp, fr *frame, a []value) value {
		t, _ := in.sideState[a[0].(*value)].(*timer)
		t.deadline = in.binop(token.ADD, i64, i64, in.clock, a[1])
		t.period = a[1]
		t.active = true
		return nil
	})
}

func (P *Program) timeType() types.Type {
	return P.Pkgs["time"].Type("Time").Type()
}
