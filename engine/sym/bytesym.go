package sym

// Byte-decomposition tracking for bit-vector terms. Serialisation code moves integers through
// bytes (byte(v>>24), uint32(b[0])<<24|...); keeping a symbolic integer as a vector of byte
// parts lets the engine rebuild the original term (or a canonical concat) instead of handing
// the solver towers of shifts, ors and extracts. Purely a term rewrite: every rule below is an
// identity of fixed-width bit-vector arithmetic.

import (
	"fmt"
	"go/token"
	"strings"
)

// bpart is one byte of a value: a constant, or byte idx (0 = least significant) of src.
type bpart struct {
	isConst bool
	c       uint8
	src     *sym
	idx     int
}

func constParts(v uint64, w int) []bpart {
	out := make([]bpart, w/8)
	for i := range out {
		out[i] = bpart{isConst: true, c: uint8(v >> (8 * uint(i)))}
	}
	return out
}

// partsOf returns the byte parts of an integer value of width w, or nil if unknown.
func partsOf(v value, w int) []bpart {
	if w%8 != 0 || w == 0 {
		return nil
	}
	switch v := v.(type) {
	case uint64:
		return constParts(v, w)
	case *sym:
		if v.k != sBV || v.w != w {
			return nil
		}
		if v.by != nil {
			return v.by
		}
		// any other term is its own source: its bytes are extracts of itself
		out := make([]bpart, w/8)
		for i := range out {
			out[i] = bpart{src: v, idx: i}
		}
		return out
	}
	return nil
}

// fromParts builds the canonical value for a byte vector.
func (in *Interp) fromParts(parts []bpart) value {
	w := 8 * len(parts)
	allConst := true
	for _, p := range parts {
		if !p.isConst {
			allConst = false
			break
		}
	}
	if allConst {
		var v uint64
		for i, p := range parts {
			v |= uint64(p.c) << (8 * uint(i))
		}
		return v
	}
	// the whole of one source?
	if s := parts[0].src; s != nil && s.w == w {
		whole := true
		for i, p := range parts {
			if p.isConst || p.src.t != s.t || p.src.w != s.w || p.idx != i {
				whole = false
				break
			}
		}
		if whole {
			return s
		}
	}
	// canonical text: concat of maximal runs, most significant first
	var pieces []string
	for i := len(parts) - 1; i >= 0; {
		p := parts[i]
		if p.isConst {
			j := i
			var cv uint64
			n := 0
			for j >= 0 && parts[j].isConst && n < 8 {
				cv = cv<<8 | uint64(parts[j].c)
				j--
				n++
			}
			pieces = append(pieces, bvLit(8*n, cv))
			i = j
			continue
		}
		j := i
		for j-1 >= 0 && !parts[j-1].isConst && parts[j-1].src.t == p.src.t && parts[j-1].src.w == p.src.w && parts[j-1].idx == parts[j].idx-1 {
			j--
		}
		hi, lo := 8*p.idx+7, 8*parts[j].idx
		if lo == 0 && hi == p.src.w-1 {
			pieces = append(pieces, p.src.t)
		} else {
			pieces = append(pieces, fmt.Sprintf("((_ extract %d %d) %s)", hi, lo, p.src.t))
		}
		i = j - 1
	}
	text := pieces[0]
	if len(pieces) > 1 {
		text = "(concat " + strings.Join(pieces, " ") + ")"
	}
	r := in.mk(sBV, w, text)
	r.by = append([]bpart(nil), parts...)
	return r
}

// byteBinop tries to compute x op y on byte parts; ok=false means "use the generic path".
func (in *Interp) byteBinop(op token.Token, w int, x, y value) (value, bool) {
	if w%8 != 0 {
		return nil, false
	}
	_, xs := x.(*sym)
	_, ys := y.(*sym)
	if !xs && !ys {
		return nil, false
	}
	px, py := partsOf(x, w), partsOf(y, w)
	if px == nil || py == nil {
		return nil, false
	}
	zero := func(p bpart) bool { return p.isConst && p.c == 0 }
	switch op {
	case token.OR, token.XOR, token.ADD:
		out := make([]bpart, len(px))
		for i := range px {
			switch {
			case zero(px[i]):
				out[i] = py[i]
			case zero(py[i]):
				out[i] = px[i]
			case px[i].isConst && py[i].isConst && op != token.ADD:
				c := px[i].c | py[i].c
				if op == token.XOR {
					c = px[i].c ^ py[i].c
				}
				out[i] = bpart{isConst: true, c: c}
			default:
				return nil, false
			}
		}
		return in.fromParts(out), true
	case token.AND:
		out := make([]bpart, len(px))
		for i := range px {
			a, b := px[i], py[i]
			if !b.isConst {
				a, b = b, a
			}
			switch {
			case !b.isConst:
				return nil, false
			case b.c == 0:
				out[i] = bpart{isConst: true}
			case b.c == 0xff:
				out[i] = a
			case a.isConst:
				out[i] = bpart{isConst: true, c: a.c & b.c}
			default:
				return nil, false
			}
		}
		return in.fromParts(out), true
	}
	return nil, false
}

// byteShift handles shifts of a tracked value by a concrete multiple of 8.
func (in *Interp) byteShift(op token.Token, w int, signed bool, x value, cnt uint64) (value, bool) {
	if _, ok := x.(*sym); !ok || w%8 != 0 || cnt%8 != 0 {
		return nil, false
	}
	px := partsOf(x, w)
	if px == nil {
		return nil, false
	}
	n := len(px)
	k := int(cnt / 8)
	out := make([]bpart, n)
	for i := range out {
		out[i] = bpart{isConst: true}
	}
	switch op {
	case token.SHL:
		for i := 0; i+k < n; i++ {
			out[i+k] = px[i]
		}
	case token.SHR:
		if signed {
			top := px[n-1]
			if !top.isConst || top.c&0x80 != 0 {
				return nil, false
			}
		}
		for i := k; i < n; i++ {
			out[i-k] = px[i]
		}
	default:
		return nil, false
	}
	return in.fromParts(out), true
}

// byteConv handles integer width changes of a tracked value.
func (in *Interp) byteConv(wd, ws int, srcSigned bool, x value) (value, bool) {
	if _, ok := x.(*sym); !ok || wd%8 != 0 || ws%8 != 0 {
		return nil, false
	}
	px := partsOf(x, ws)
	if px == nil {
		return nil, false
	}
	if wd <= ws {
		return in.fromParts(px[:wd/8]), true
	}
	if srcSigned {
		top := px[len(px)-1]
		if !top.isConst || top.c&0x80 != 0 {
			return nil, false
		}
	}
	out := make([]bpart, wd/8)
	copy(out, px)
	for i := len(px); i < len(out); i++ {
		out[i] = bpart{isConst: true}
	}
	return in.fromParts(out), true
}
