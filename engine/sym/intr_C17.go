package sym

// internal/godebug settings read by the standard library (net/url.ParseQuery consults
// "urlmaxqueryparams", ...): no GODEBUG overrides exist in the modelled process, so every
// setting has its default value "". (stdlib.go registers these under a name the SSA form does
// not use; the method names below are the ones ssa.Function.String() produces.)
func init() {
	intrinsics["(*internal/godebug.Setting).Value"] = func(in *Interp, fr *frame, a []value) value { return "" }
	intrinsics["(*internal/godebug.Setting).IncNonDefault"] = func(in *Interp, fr *frame, a []value) value { return nil }
}
