package sym

// Witness preference (added for C29's abstract-size entry).
//
//	func verifPrefer(c bool) bool { return c }     // declared in the harness; this is its native body
//
// Symbolically: when the current path together with c is satisfiable, c is ASSUMED and the call
// returns true; otherwise nothing is assumed and the call returns false. It never forks. It is
// meant for the moment a harness has found a failing check and is about to report it: among the
// inputs that fail, prefer those with a property the native replay needs (for C29: lengths that
// the replay can build as a real payload), and fall back to any failing input when none has it.
// Natively the call returns c for the replayed values, i.e. the same answer.
//
// Using it anywhere else only narrows the path condition (it can hide inputs, never invent them),
// so it must not be placed on paths that go on to prove something.
//
// The function is registered under the full name of the harness package that declares it, without
// touching the shared verif* table.

func init() {
	intrinsics["github.com/rqlite/rqlite/v10/command.verifPrefer"] = func(in *Interp, fr *frame, a []value) value {
		switch c := a[0].(type) {
		case bool:
			return c
		case *sym:
			if v, known := in.pcKnown(c.t); known {
				return v
			}
			if in.solver.Check(c.t) == "sat" {
				in.assertPC(c.t)
				return true
			}
			return false
		}
		panic(unsupported{"verifPrefer: argument must be a bool"})
	}
}
