package sym

// Value model (derived from golang.org/x/tools/go/ssa/interp, BSD licence, heavily changed):
//
//   bool            Go bool, or *sym of sort Bool
//   every integer   uint64 holding the value's bits zero-extended from its width
//                   (signedness and width come from the static type), or *sym of sort BitVec w
//   floats          float64 (opaque: moved and compared, arithmetic only when concrete)
//   string          Go string, bstr (vector of bytes, each uint64 or *sym BV8), or *sym of sort String
//   pointer         *value (nil pointer = (*value)(nil))
//   slice           []value (shares backing store like Go)
//   array/struct    array / structure
//   interface       iface{t, v}; nil interface = iface{}
//   map             *omap (insertion ordered, deterministic)
//   chan            *channel
//   func            *ssa.Function, *closure, *ssa.Builtin
//   tuple           multi-value results

import (
	"fmt"
	"go/types"
	"strings"

	"golang.org/x/tools/go/ssa"
)

type value any

type tuple []value
type array []value
type structure []value

// bstr is a string whose bytes may be symbolic; its length is concrete.
type bstr []value

type iface struct {
	t types.Type
	v value
}

type closure struct {
	Fn  *ssa.Function
	Env []value
}

type bad struct{}

// omap is a deterministic map. Keys are compared with concrete equality when both are
// concrete, and by forking on a symbolic equality otherwise.
type omap struct {
	kt      types.Type
	keys    []value
	vals    []value
	deleted []bool
	n       int
}

func (m *omap) live() int { return m.n }

type iter interface {
	next(in *Interp) tuple
}

// isConcrete reports whether v contains no symbolic leaf (shallow for pointers).
func isConcrete(v value) bool {
	switch v := v.(type) {
	case *sym:
		return false
	case bstr:
		for _, b := range v {
			if _, ok := b.(*sym); ok {
				return false
			}
		}
	case structure:
		for _, f := range v {
			if !isConcrete(f) {
				return false
			}
		}
	case array:
		for _, f := range v {
			if !isConcrete(f) {
				return false
			}
		}
	case iface:
		return isConcrete(v.v)
	}
	return true
}

// bstrToString converts a fully concrete bstr to a Go string.
func bstrToString(b bstr) (string, bool) {
	out := make([]byte, len(b))
	for i, x := range b {
		u, ok := x.(uint64)
		if !ok {
			return "", false
		}
		out[i] = byte(u)
	}
	return string(out), true
}

func stringToBstr(s string) bstr {
	out := make(bstr, len(s))
	for i := 0; i < len(s); i++ {
		out[i] = uint64(s[i])
	}
	return out
}

// normStr collapses a concrete bstr to a Go string.
func normStr(v value) value {
	if b, ok := v.(bstr); ok {
		if s, ok := bstrToString(b); ok {
			return s
		}
	}
	return v
}

// load returns a copy of the value of type T in *addr.
func load(T types.Type, addr *value) value {
	switch T := T.Underlying().(type) {
	case *types.Struct:
		v := (*addr).(structure)
		a := make(structure, len(v))
		for i := range a {
			a[i] = load(T.Field(i).Type(), &v[i])
		}
		return a
	case *types.Array:
		v := (*addr).(array)
		a := make(array, len(v))
		for i := range a {
			a[i] = load(T.Elem(), &v[i])
		}
		return a
	default:
		return *addr
	}
}

// store stores value v of type T into *addr.
func store(T types.Type, addr *value, v value) {
	switch T := T.Underlying().(type) {
	case *types.Struct:
		lhs := (*addr).(structure)
		rhs := v.(structure)
		for i := range lhs {
			store(T.Field(i).Type(), &lhs[i], rhs[i])
		}
	case *types.Array:
		lhs := (*addr).(array)
		rhs := v.(array)
		for i := range lhs {
			store(T.Elem(), &lhs[i], rhs[i])
		}
	default:
		*addr = v
	}
}

// copyVal makes an unaliased copy of an aggregate value.
func copyVal(v value) value {
	switch v := v.(type) {
	case structure:
		a := make(structure, len(v))
		for i := range v {
			a[i] = copyVal(v[i])
		}
		return a
	case array:
		a := make(array, len(v))
		for i := range v {
			a[i] = copyVal(v[i])
		}
		return a
	}
	return v
}

func toString(v value) string {
	var b strings.Builder
	writeValue(&b, v, 0)
	return b.String()
}

func writeValue(buf *strings.Builder, v value, depth int) {
	if depth > 6 {
		buf.WriteString("…")
		return
	}
	switch v := v.(type) {
	case nil:
		buf.WriteString("<nil>")
	case bool, uint64, float64, string:
		fmt.Fprintf(buf, "%v", v)
	case *sym:
		buf.WriteString(v.t)
	case bstr:
		if s, ok := bstrToString(v); ok {
			fmt.Fprintf(buf, "%q", s)
		} else {
			buf.WriteString("bstr[")
			for i, e := range v {
				if i > 0 {
					buf.WriteString(" ")
				}
				writeValue(buf, e, depth+1)
			}
			buf.WriteString("]")
		}
	case *omap:
		buf.WriteString("map[")
		sep := ""
		for i, k := range v.keys {
			if v.deleted[i] {
				continue
			}
			buf.WriteString(sep)
			sep = " "
			writeValue(buf, k, depth+1)
			buf.WriteString(":")
			writeValue(buf, v.vals[i], depth+1)
		}
		buf.WriteString("]")
	case *value:
		if v == nil {
			buf.WriteString("<nil>")
		} else {
			fmt.Fprintf(buf, "&")
			writeValue(buf, *v, depth+1)
		}
	case iface:
		if v.t == nil {
			buf.WriteString("<nil-iface>")
			return
		}
		fmt.Fprintf(buf, "(%s, ", v.t)
		writeValue(buf, v.v, depth+1)
		buf.WriteString(")")
	case structure:
		buf.WriteString("{")
		for i, e := range v {
			if i > 0 {
				buf.WriteString(" ")
			}
			writeValue(buf, e, depth+1)
		}
		buf.WriteString("}")
	case array:
		buf.WriteString("[")
		for i, e := range v {
			if i > 0 {
				buf.WriteString(" ")
			}
			writeValue(buf, e, depth+1)
		}
		buf.WriteString("]")
	case []value:
		buf.WriteString("[")
		for i, e := range v {
			if i > 0 {
				buf.WriteString(" ")
			}
			writeValue(buf, e, depth+1)
		}
		buf.WriteString("]")
	case *ssa.Function:
		if v == nil {
			buf.WriteString("<nil-func>")
		} else {
			buf.WriteString(v.String())
		}
	case *closure:
		buf.WriteString("closure:" + v.Fn.String())
	case *ssa.Builtin:
		buf.WriteString(v.Name())
	case tuple:
		buf.WriteString("(")
		for i, e := range v {
			if i > 0 {
				buf.WriteString(", ")
			}
			writeValue(buf, e, depth+1)
		}
		buf.WriteString(")")
	default:
		fmt.Fprintf(buf, "<%T>", v)
	}
}
