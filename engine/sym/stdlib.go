package sym

// Intrinsics for the parts of the standard library that have no Go body (runtime, atomics,
// bytealg), that block (sync, time), or that depend on reflection (fmt, errors.Is/As).

import (
	"fmt"
	"go/token"
	"go/types"
	"strings"

	"golang.org/x/tools/go/ssa"
)

var intrinsics = map[string]handler{}

func init() {
	reg := func(name string, h handler) { intrinsics[name] = h }

	// ---- sync ----------------------------------------------------------
	type mutexState struct {
		locked  bool
		readers int
		// RWMutex, as the Go runtime does it: a writer first announces itself (wmu: it holds the
		// internal writer mutex) and then waits for the readers to leave; from the announcement
		// until its Unlock NEW readers park (rwait), and that Unlock admits every reader parked
		// at that moment (gen counts Unlocks) before a later writer can get in.
		wmu   bool
		rwait int
		gen   int
	}
	mstate := func(in *Interp, p value) *mutexState {
		ptr := p.(*value)
		if ptr == nil {
			in.runtimePanic("invalid memory address or nil pointer dereference")
		}
		if s, ok := in.sideState[ptr]; ok {
			return s.(*mutexState)
		}
		s := &mutexState{}
		in.sideState[ptr] = s
		return s
	}
	reg("(*sync.Mutex).Lock", func(in *Interp, fr *frame, a []value) value {
		m := mstate(in, a[0])
		in.yield()
		in.block("mutex", func() bool { return !m.locked })
		m.locked = true
		return nil
	})
	reg("(*sync.Mutex).TryLock", func(in *Interp, fr *frame, a []value) value {
		m := mstate(in, a[0])
		in.yield()
		if m.locked {
			return false
		}
		m.locked = true
		return true
	})
	reg("(*sync.Mutex).Unlock", func(in *Interp, fr *frame, a []value) value {
		m := mstate(in, a[0])
		if !m.locked {
			panic(pathEnd{"panic", "fatal error: sync: unlock of unlocked mutex at " + in.pos()})
		}
		m.locked = false
		return nil
	})
	reg("(*sync.RWMutex).Lock", func(in *Interp, fr *frame, a []value) value {
		m := mstate(in, a[0])
		in.yield()
		in.block("rwmutex-w", func() bool { return !m.wmu })
		m.wmu = true // pending writer: new readers park from here on
		in.block("rwmutex-w", func() bool { return m.readers == 0 })
		m.locked = true
		return nil
	})
	reg("(*sync.RWMutex).Unlock", func(in *Interp, fr *frame, a []value) value {
		m := mstate(in, a[0])
		if !m.locked {
			panic(pathEnd{"panic", "fatal error: sync: Unlock of unlocked RWMutex at " + in.pos()})
		}
		m.locked = false
		m.wmu = false
		m.readers += m.rwait // the parked readers hold their read locks from now on
		m.rwait = 0
		m.gen++
		return nil
	})
	reg("(*sync.RWMutex).RLock", func(in *Interp, fr *frame, a []value) value {
		m := mstate(in, a[0])
		in.yield()
		if m.wmu {
			m.rwait++
			g := m.gen
			in.block("rwmutex-r", func() bool { return m.gen > g })
			return nil
		}
		m.readers++
		return nil
	})
	reg("(*sync.RWMutex).RUnlock", func(in *Interp, fr *frame, a []value) value {
		m := mstate(in, a[0])
		if m.readers <= 0 {
			panic(pathEnd{"panic", "fatal error: sync: RUnlock of unlocked RWMutex at " + in.pos()})
		}
		m.readers--
		return nil
	})
	reg("(*sync.RWMutex).TryLock", func(in *Interp, fr *frame, a []value) value {
		m := mstate(in, a[0])
		if m.wmu || m.readers > 0 {
			return false
		}
		m.wmu = true
		m.locked = true
		return true
	})
	reg("(*sync.RWMutex).TryRLock", func(in *Interp, fr *frame, a []value) value {
		m := mstate(in, a[0])
		if m.wmu {
			return false
		}
		m.readers++
		return true
	})
	// sync.Once
	type onceState struct{ done, running bool }
	reg("(*sync.Once).Do", func(in *Interp, fr *frame, a []value) value {
		ptr := a[0].(*value)
		st, _ := in.sideState[ptr].(*onceState)
		if st == nil {
			st = &onceState{}
			in.sideState[ptr] = st
		}
		if st.done {
			return nil
		}
		if st.running {
			in.block("once", func() bool { return st.done })
			return nil
		}
		st.running = true
		func() {
			defer func() { st.done = true; st.running = false }()
			in.call(fr, token.NoPos, a[1], nil)
		}()
		return nil
	})
	// sync.WaitGroup
	type wgState struct{ n int64 }
	wg := func(in *Interp, p value) *wgState {
		ptr := p.(*value)
		st, _ := in.sideState[ptr].(*wgState)
		if st == nil {
			st = &wgState{}
			in.sideState[ptr] = st
		}
		return st
	}
	reg("(*sync.WaitGroup).Add", func(in *Interp, fr *frame, a []value) value {
		st := wg(in, a[0])
		st.n += sext(a[1].(uint64), 64)
		if st.n < 0 {
			in.runtimePanic("sync: negative WaitGroup counter")
		}
		return nil
	})
	reg("(*sync.WaitGroup).Done", func(in *Interp, fr *frame, a []value) value {
		st := wg(in, a[0])
		st.n--
		if st.n < 0 {
			in.runtimePanic("sync: negative WaitGroup counter")
		}
		return nil
	})
	reg("(*sync.WaitGroup).Wait", func(in *Interp, fr *frame, a []value) value {
		st := wg(in, a[0])
		in.yield()
		in.block("waitgroup", func() bool { return st.n == 0 })
		return nil
	})
	reg("(*sync.WaitGroup).Go", func(in *Interp, fr *frame, a []value) value {
		st := wg(in, a[0])
		st.n++
		f := a[1]
		in.spawn(&nativeFunc{name: "wg.Go", f: func(in *Interp, caller *frame, _ []value) value {
			defer func() { st.n-- }()
			in.call(caller, token.NoPos, f, nil)
			return nil
		}}, nil, token.NoPos)
		return nil
	})
	// sync.Cond: L is field 1 of Cond{noCopy, L, notify, checker}
	type condState struct{ waiters []*goroutine }
	cs := func(in *Interp, p value) *condState {
		ptr := p.(*value)
		st, _ := in.sideState[ptr].(*condState)
		if st == nil {
			st = &condState{}
			in.sideState[ptr] = st
		}
		return st
	}
	condLocker := func(in *Interp, p value) iface {
		st := (*p.(*value)).(structure)
		for _, f := range st {
			if i, ok := f.(iface); ok && i.t != nil {
				return i
			}
		}
		panic(unsupported{"sync.Cond without Locker"})
	}
	callLocker := func(in *Interp, fr *frame, l iface, meth string) {
		f := in.P.Prog.LookupMethod(l.t, nil, meth)
		if f == nil {
			panic(unsupported{"Locker method " + meth})
		}
		in.call(fr, token.NoPos, f, []value{l.v})
	}
	reg("(*sync.Cond).Wait", func(in *Interp, fr *frame, a []value) value {
		st := cs(in, a[0])
		l := condLocker(in, a[0])
		me := in.sched.cur
		st.waiters = append(st.waiters, me)
		callLocker(in, fr, l, "Unlock")
		in.block("cond", func() bool {
			for _, w := range st.waiters {
				if w == me {
					return false
				}
			}
			return true
		})
		callLocker(in, fr, l, "Lock")
		return nil
	})
	reg("(*sync.Cond).Signal", func(in *Interp, fr *frame, a []value) value {
		st := cs(in, a[0])
		if len(st.waiters) > 0 {
			k := 0
			if len(st.waiters) > 1 {
				k = in.choose(len(st.waiters), "cond-signal")
			}
			st.waiters = append(st.waiters[:k:k], st.waiters[k+1:]...)
		}
		return nil
	})
	reg("(*sync.Cond).Broadcast", func(in *Interp, fr *frame, a []value) value {
		st := cs(in, a[0])
		st.waiters = nil
		return nil
	})
	// sync.Pool: no reuse (unless the harness called verifPoolReuse(): intr_C30c.go)
	reg("(*sync.Pool).Get", func(in *Interp, fr *frame, a []value) value {
		if r, ok := poolReuseGet(in, fr, a); ok {
			return r
		}
		st := (*a[0].(*value)).(structure)
		for i := len(st) - 1; i >= 0; i-- {
			switch f := st[i].(type) {
			case *ssa.Function:
				if f != nil {
					return in.call(fr, token.NoPos, f, nil)
				}
			case *closure:
				if f != nil {
					return in.call(fr, token.NoPos, f, nil)
				}
			}
		}
		return iface{}
	})
	reg("(*sync.Pool).Put", func(in *Interp, fr *frame, a []value) value {
		poolReusePut(in, fr, a)
		return nil
	})

	// ---- sync/atomic ---------------------------------------------------
	for _, ty := range []struct {
		n string
		t types.Type
	}{{"Int32", types.Typ[types.Int32]}, {"Int64", types.Typ[types.Int64]}, {"Uint32", types.Typ[types.Uint32]}, {"Uint64", types.Typ[types.Uint64]}, {"Uintptr", types.Typ[types.Uintptr]}} {
		t := ty.t
		reg("sync/atomic.Load"+ty.n, func(in *Interp, fr *frame, a []value) value { return *a[0].(*value) })
		reg("sync/atomic.Store"+ty.n, func(in *Interp, fr *frame, a []value) value { *a[0].(*value) = a[1]; return nil })
		reg("sync/atomic.Add"+ty.n, func(in *Interp, fr *frame, a []value) value {
			p := a[0].(*value)
			*p = in.binop(token.ADD, t, t, *p, a[1])
			return *p
		})
		reg("sync/atomic.Swap"+ty.n, func(in *Interp, fr *frame, a []value) value {
			p := a[0].(*value)
			old := *p
			*p = a[1]
			return old
		})
		reg("sync/atomic.CompareAndSwap"+ty.n, func(in *Interp, fr *frame, a []value) value {
			p := a[0].(*value)
			eq := in.binop(token.EQL, t, t, *p, a[1])
			b, ok := eq.(bool)
			if !ok {
				b = in.branch(eq.(*sym), "cas")
			}
			if b {
				*p = a[2]
			}
			return b
		})
		reg("sync/atomic.And"+ty.n, func(in *Interp, fr *frame, a []value) value {
			p := a[0].(*value)
			old := *p
			*p = in.binop(token.AND, t, t, *p, a[1])
			return old
		})
		reg("sync/atomic.Or"+ty.n, func(in *Interp, fr *frame, a []value) value {
			p := a[0].(*value)
			old := *p
			*p = in.binop(token.OR, t, t, *p, a[1])
			return old
		})
	}
	reg("sync/atomic.LoadPointer", func(in *Interp, fr *frame, a []value) value { return *a[0].(*value) })
	reg("sync/atomic.StorePointer", func(in *Interp, fr *frame, a []value) value { *a[0].(*value) = a[1]; return nil })
	reg("sync/atomic.SwapPointer", func(in *Interp, fr *frame, a []value) value {
		p := a[0].(*value)
		old := *p
		*p = a[1]
		return old
	})
	reg("sync/atomic.CompareAndSwapPointer", func(in *Interp, fr *frame, a []value) value {
		p := a[0].(*value)
		if (*p).(*value) == a[1].(*value) {
			*p = a[2]
			return true
		}
		return false
	})
	// atomic.Value keeps its content in a side table
	reg("(*sync/atomic.Value).Load", func(in *Interp, fr *frame, a []value) value {
		if v, ok := in.sideState[a[0].(*value)]; ok {
			return v.(iface)
		}
		return iface{}
	})
	reg("(*sync/atomic.Value).Store", func(in *Interp, fr *frame, a []value) value {
		if a[1].(iface).t == nil {
			in.runtimePanic("sync/atomic: store of nil value into Value")
		}
		in.sideState[a[0].(*value)] = a[1]
		return nil
	})
	reg("(*sync/atomic.Value).Swap", func(in *Interp, fr *frame, a []value) value {
		old, ok := in.sideState[a[0].(*value)]
		in.sideState[a[0].(*value)] = a[1]
		if ok {
			return old.(iface)
		}
		return iface{}
	})
	reg("(*sync/atomic.Value).CompareAndSwap", func(in *Interp, fr *frame, a []value) value {
		old, ok := in.sideState[a[0].(*value)]
		var oi iface
		if ok {
			oi = old.(iface)
		}
		eq := in.equals(types.NewInterfaceType(nil, nil), oi, a[1])
		if b, _ := eq.(bool); b {
			in.sideState[a[0].(*value)] = a[2]
			return true
		}
		return false
	})

	// ---- runtime / misc -------------------------------------------------
	reg("runtime.Gosched", func(in *Interp, fr *frame, a []value) value { in.yield(); return nil })
	reg("runtime.GC", func(in *Interp, fr *frame, a []value) value { return nil })
	reg("runtime.KeepAlive", func(in *Interp, fr *frame, a []value) value { return nil })
	reg("runtime.SetFinalizer", func(in *Interp, fr *frame, a []value) value { return nil })
	reg("runtime.NumCPU", func(in *Interp, fr *frame, a []value) value { return uint64(4) })
	reg("runtime.GOMAXPROCS", func(in *Interp, fr *frame, a []value) value { return uint64(4) })
	reg("internal/race.Enable", func(in *Interp, fr *frame, a []value) value { return nil })
	reg("internal/race.Disable", func(in *Interp, fr *frame, a []value) value { return nil })
	reg("internal/godebug.(*Setting).Value", func(in *Interp, fr *frame, a []value) value { return "" })
	reg("internal/godebug.(*Setting).IncNonDefault", func(in *Interp, fr *frame, a []value) value { return nil })
	reg("os.Getenv", func(in *Interp, fr *frame, a []value) value { return "" })
	reg("os.Getpid", func(in *Interp, fr *frame, a []value) value { return uint64(4242) })

	// ---- internal/bytealg ------------------------------------------------
	u8 := types.Typ[types.Uint8]
	indexByte := func(in *Interp, bs []value, c value) value {
		for i, b := range bs {
			eq := in.binop(token.EQL, u8, u8, b, c)
			hit, ok := eq.(bool)
			if !ok {
				hit = in.branch(eq.(*sym), "indexbyte")
			}
			if hit {
				return uint64(i)
			}
		}
		return minusOne
	}
	strBytes := func(in *Interp, v value) []value {
		switch s := v.(type) {
		case string:
			return []value(stringToBstr(s))
		case bstr:
			return []value(s)
		case *sym:
			return []value(in.concretizeString(s))
		}
		panic("strBytes")
	}
	reg("internal/bytealg.IndexByte", func(in *Interp, fr *frame, a []value) value {
		return indexByte(in, a[0].([]value), a[1])
	})
	reg("internal/bytealg.IndexByteString", func(in *Interp, fr *frame, a []value) value {
		if s, ok := a[0].(string); ok {
			if c, ok := a[1].(uint64); ok {
				return trunc(uint64(int64(strings.IndexByte(s, byte(c)))), 64)
			}
		}
		return indexByte(in, strBytes(in, a[0]), a[1])
	})
	reg("internal/bytealg.LastIndexByteString", func(in *Interp, fr *frame, a []value) value {
		s, c := in.concStr(a[0], "LastIndexByteString"), byte(in.concInt(a[1], "LastIndexByteString"))
		return trunc(uint64(int64(strings.LastIndexByte(s, c))), 64)
	})
	reg("internal/bytealg.LastIndexByte", func(in *Interp, fr *frame, a []value) value {
		bs := a[0].([]value)
		for i := len(bs) - 1; i >= 0; i-- {
			eq := in.binop(token.EQL, u8, u8, bs[i], a[1])
			hit, ok := eq.(bool)
			if !ok {
				hit = in.branch(eq.(*sym), "lastindexbyte")
			}
			if hit {
				return uint64(i)
			}
		}
		return minusOne
	})
	bytesEqual := func(in *Interp, x, y []value) value {
		if len(x) != len(y) {
			return false
		}
		var r value = true
		for i := range x {
			r = in.and(r, in.binop(token.EQL, u8, u8, x[i], y[i]))
		}
		return r
	}
	reg("internal/bytealg.Equal", func(in *Interp, fr *frame, a []value) value {
		return bytesEqual(in, a[0].([]value), a[1].([]value))
	})
	reg("bytes.Equal", func(in *Interp, fr *frame, a []value) value {
		return bytesEqual(in, a[0].([]value), a[1].([]value))
	})
	reg("internal/bytealg.Count", func(in *Interp, fr *frame, a []value) value {
		n := 0
		for _, b := range a[0].([]value) {
			eq := in.binop(token.EQL, u8, u8, b, a[1])
			hit, ok := eq.(bool)
			if !ok {
				hit = in.branch(eq.(*sym), "count")
			}
			if hit {
				n++
			}
		}
		return uint64(n)
	})
	reg("internal/bytealg.CountString", func(in *Interp, fr *frame, a []value) value {
		n := 0
		for _, b := range strBytes(in, a[0]) {
			eq := in.binop(token.EQL, u8, u8, b, a[1])
			hit, ok := eq.(bool)
			if !ok {
				hit = in.branch(eq.(*sym), "count")
			}
			if hit {
				n++
			}
		}
		return uint64(n)
	})
	reg("internal/bytealg.Compare", func(in *Interp, fr *frame, a []value) value {
		x, y := a[0].([]value), a[1].([]value)
		for i := 0; i < len(x) && i < len(y); i++ {
			lt := in.binop(token.LSS, u8, u8, x[i], y[i])
			b, ok := lt.(bool)
			if !ok {
				b = in.branch(lt.(*sym), "cmp")
			}
			if b {
				return minusOne
			}
			gt := in.binop(token.GTR, u8, u8, x[i], y[i])
			b, ok = gt.(bool)
			if !ok {
				b = in.branch(gt.(*sym), "cmp")
			}
			if b {
				return uint64(1)
			}
		}
		switch {
		case len(x) < len(y):
			return minusOne
		case len(x) > len(y):
			return uint64(1)
		}
		return uint64(0)
	})
	reg("internal/bytealg.IndexString", func(in *Interp, fr *frame, a []value) value {
		return trunc(uint64(int64(strings.Index(in.concStr(a[0], "IndexString"), in.concStr(a[1], "IndexString")))), 64)
	})
	reg("internal/bytealg.MakeNoZero", func(in *Interp, fr *frame, a []value) value {
		n := int(in.concInt(a[0], "MakeNoZero"))
		out := make([]value, n)
		for i := range out {
			out[i] = uint64(0)
		}
		return out
	})

	// ---- errors ---------------------------------------------------------
	reg("errors.Is", func(in *Interp, fr *frame, a []value) value {
		return in.errorsIs(fr, a[0].(iface), a[1].(iface), 0)
	})
	reg("errors.As", func(in *Interp, fr *frame, a []value) value {
		return in.errorsAs(fr, a[0].(iface), a[1].(iface), 0)
	})

	// ---- fmt ------------------------------------------------------------
	reg("fmt.Sprintf", func(in *Interp, fr *frame, a []value) value {
		s, _ := in.sprintf(fr, a[0], a[1].([]value))
		return s
	})
	reg("fmt.Sprint", func(in *Interp, fr *frame, a []value) value {
		return in.sprint(fr, a[0].([]value), false)
	})
	reg("fmt.Sprintln", func(in *Interp, fr *frame, a []value) value {
		return in.sprint(fr, a[0].([]value), true)
	})
	reg("fmt.Errorf", func(in *Interp, fr *frame, a []value) value {
		return in.errorf(fr, a[0], a[1].([]value))
	})
	for _, n := range []string{"fmt.Printf", "fmt.Println", "fmt.Print"} {
		reg(n, func(in *Interp, fr *frame, a []value) value { return tuple{uint64(0), iface{}} })
	}
	reg("fmt.Fprintf", func(in *Interp, fr *frame, a []value) value {
		s, _ := in.sprintf(fr, a[1], a[2].([]value))
		return in.writeTo(fr, a[0].(iface), s)
	})
	reg("fmt.Fprint", func(in *Interp, fr *frame, a []value) value {
		return in.writeTo(fr, a[0].(iface), in.sprint(fr, a[1].([]value), false))
	})
	reg("fmt.Fprintln", func(in *Interp, fr *frame, a []value) value {
		return in.writeTo(fr, a[0].(iface), in.sprint(fr, a[1].([]value), true))
	})

	// ---- strconv (concrete call-through) -----------------------------------
	reg("strconv.Itoa", func(in *Interp, fr *frame, a []value) value {
		if u, ok := a[0].(uint64); ok {
			return fmt.Sprint(int64(u))
		}
		return in.newNondet("strconv.Itoa", "str", 0, false)
	})
	reg("strconv.FormatInt", func(in *Interp, fr *frame, a []value) value {
		return notHandled
	})
}

// writeTo calls w.Write([]byte(s)).
func (in *Interp) writeTo(fr *frame, w iface, s value) value {
	if w.t == nil {
		in.runtimePanic("nil io.Writer")
	}
	f := in.P.Prog.LookupMethod(w.t, nil, "Write")
	if f == nil {
		panic(unsupported{"Write method not found on " + w.t.String()})
	}
	var bs []value
	switch s := s.(type) {
	case string:
		bs = []value(stringToBstr(s))
	case bstr:
		bs = []value(s)
	case *sym:
		bs = []value(in.concretizeString(s))
	}
	return in.call(fr, token.NoPos, f, []value{w.v, bs})
}

// ---------------------------------------------------------------------------
// errors.Is / errors.As over the interpreter's values

func (in *Interp) methodOf(t types.Type, name string) *ssa.Function {
	ms := in.P.Prog.MethodSets.MethodSet(t)
	for i := 0; i < ms.Len(); i++ {
		sel := ms.At(i)
		if sel.Obj().Name() == name {
			return in.P.Prog.MethodValue(sel)
		}
	}
	return nil
}

func (in *Interp) errorsIs(fr *frame, err, target iface, depth int) value {
	if depth > 20 {
		return false
	}
	if err.t == nil || target.t == nil {
		return err.t == nil && target.t == nil
	}
	for {
		if types.Identical(err.t, target.t) && types.Comparable(target.t) {
			eq := in.equals(err.t, err.v, target.v)
			b, ok := eq.(bool)
			if !ok {
				b = in.branch(eq.(*sym), "errors.Is")
			}
			if b {
				return true
			}
		}
		if m := in.methodOf(err.t, "Is"); m != nil && m.Signature.Params().Len() == 1 && m.Signature.Results().Len() == 1 {
			r := in.call(fr, token.NoPos, m, []value{err.v, target})
			b, ok := r.(bool)
			if !ok {
				b = in.branch(r.(*sym), "errors.Is-method")
			}
			if b {
				return true
			}
		}
		m := in.methodOf(err.t, "Unwrap")
		if m == nil {
			return false
		}
		r := in.call(fr, token.NoPos, m, []value{err.v})
		switch r := r.(type) {
		case iface:
			if r.t == nil {
				return false
			}
			err = r
		case []value:
			for _, e := range r {
				if b, _ := in.errorsIs(fr, e.(iface), target, depth+1).(bool); b {
					return true
				}
			}
			return false
		default:
			return false
		}
	}
}

func (in *Interp) errorsAs(fr *frame, err, target iface, depth int) value {
	if target.t == nil {
		in.runtimePanic("errors: target cannot be nil")
	}
	pt, ok := target.t.Underlying().(*types.Pointer)
	if !ok {
		in.runtimePanic("errors: target must be a non-nil pointer")
	}
	tt := pt.Elem()
	for depth < 20 {
		if err.t == nil {
			return false
		}
		assignable := false
		if it, ok := tt.Underlying().(*types.Interface); ok {
			assignable = types.Implements(err.t, it)
		} else {
			assignable = types.Identical(err.t, tt)
		}
		if assignable {
			p := target.v.(*value)
			if _, isI := tt.Underlying().(*types.Interface); isI {
				*p = err
			} else {
				*p = err.v
			}
			return true
		}
		if m := in.methodOf(err.t, "As"); m != nil {
			r := in.call(fr, token.NoPos, m, []value{err.v, target})
			if b, _ := r.(bool); b {
				return true
			}
		}
		m := in.methodOf(err.t, "Unwrap")
		if m == nil {
			return false
		}
		r := in.call(fr, token.NoPos, m, []value{err.v})
		switch r := r.(type) {
		case iface:
			err = r
		case []value:
			for _, e := range r {
				if b, _ := in.errorsAs(fr, e.(iface), target, depth+1).(bool); b {
					return true
				}
			}
			return false
		default:
			return false
		}
		depth++
	}
	return false
}

// ---------------------------------------------------------------------------
// fmt: concrete arguments are formatted natively; anything symbolic becomes an opaque string.

type fmtStringer string

func (s fmtStringer) String() string { return string(s) }

type fmtErr struct {
	msg string
}

func (e fmtErr) Error() string { return e.msg }

// nativeOf converts an interface value to a Go value for fmt; ok=false if symbolic.
func (in *Interp) nativeOf(fr *frame, v value) (any, bool) {
	i, isI := v.(iface)
	if !isI {
		return toString(v), true
	}
	if i.t == nil {
		return nil, true
	}
	if !isConcrete(i.v) {
		return nil, false
	}
	// error / Stringer
	if m := in.methodOf(i.t, "Error"); m != nil && m.Signature.Params().Len() == 0 {
		if p, ok := i.v.(*value); ok && p == nil {
			return "<nil>", true
		}
		r := in.call(fr, token.NoPos, m, []value{i.v})
		if s, ok := normStr(r).(string); ok {
			return fmtErr{s}, true
		}
		return nil, false
	}
	if m := in.methodOf(i.t, "String"); m != nil && m.Signature.Params().Len() == 0 && m.Signature.Results().Len() == 1 {
		if p, ok := i.v.(*value); ok && p == nil {
			return "<nil>", true
		}
		r := in.call(fr, token.NoPos, m, []value{i.v})
		if s, ok := normStr(r).(string); ok {
			return fmtStringer(s), true
		}
		return nil, false
	}
	switch u := i.t.Underlying().(type) {
	case *types.Basic:
		switch {
		case u.Info()&types.IsBoolean != 0:
			return i.v.(bool), true
		case u.Info()&types.IsString != 0:
			return i.v.(string), true
		case u.Info()&types.IsFloat != 0:
			return i.v.(float64), true
		case u.Info()&types.IsInteger != 0:
			w, signed, _ := intInfo(u)
			x := i.v.(uint64)
			if signed {
				switch w {
				case 8:
					return int8(x), true
				case 16:
					return int16(x), true
				case 32:
					return int32(x), true
				}
				if u.Kind() == types.Int {
					return int(x), true
				}
				return int64(x), true
			}
			switch w {
			case 8:
				return uint8(x), true
			case 16:
				return uint16(x), true
			case 32:
				return uint32(x), true
			}
			if u.Kind() == types.Uint {
				return uint(x), true
			}
			return x, true
		}
	case *types.Slice:
		if b, ok := u.Elem().Underlying().(*types.Basic); ok && b.Kind() == types.Uint8 {
			xs := i.v.([]value)
			out := make([]byte, len(xs))
			for k, x := range xs {
				out[k] = byte(x.(uint64))
			}
			return out, true
		}
		if b, ok := u.Elem().Underlying().(*types.Basic); ok && b.Info()&types.IsString != 0 {
			xs := i.v.([]value)
			out := make([]string, len(xs))
			for k, x := range xs {
				out[k], _ = normStr(x).(string)
			}
			return out, true
		}
	}
	return toString(i.v), true
}

func (in *Interp) sprintf(fr *frame, format value, args []value) (value, value) {
	f, ok := normStr(format).(string)
	if !ok {
		return in.newNondet("fmt", "str", 0, false), nil
	}
	var wrapped value
	natives := make([]any, len(args))
	allConc := true
	// find %w operand
	argi := 0
	for k := 0; k < len(f); k++ {
		if f[k] != '%' {
			continue
		}
		k++
		for k < len(f) && strings.IndexByte("+-# 0123456789.[]*", f[k]) >= 0 {
			k++
		}
		if k >= len(f) {
			break
		}
		if f[k] == '%' {
			continue
		}
		if f[k] == 'w' && argi < len(args) {
			wrapped = args[argi]
		}
		argi++
	}
	for k, a := range args {
		n, ok := in.nativeOf(fr, a)
		if !ok {
			allConc = false
		}
		natives[k] = n
	}
	if !allConc {
		return in.newNondet("fmt", "str", 0, false), wrapped
	}
	return fmt.Sprintf(strings.ReplaceAll(f, "%w", "%v"), natives...), wrapped
}

func (in *Interp) sprint(fr *frame, args []value, ln bool) value {
	natives := make([]any, len(args))
	for k, a := range args {
		n, ok := in.nativeOf(fr, a)
		if !ok {
			return in.newNondet("fmt", "str", 0, false)
		}
		natives[k] = n
	}
	if ln {
		return fmt.Sprintln(natives...)
	}
	return fmt.Sprint(natives...)
}

func (in *Interp) errorf(fr *frame, format value, args []value) value {
	msg, wrapped := in.sprintf(fr, format, args)
	if wrapped != nil {
		if w, ok := wrapped.(iface); ok && w.t != nil && in.methodOf(w.t, "Error") != nil {
			if fp := in.P.Pkgs["fmt"]; fp != nil {
				if wt := fp.Type("wrapError"); wt != nil {
					var cell value = structure{msg, w}
					return iface{t: types.NewPointer(wt.Type()), v: &cell}
				}
			}
		}
	}
	var cell value = structure{msg}
	return iface{t: in.P.errorStringType, v: &cell}
}

// ---------------------------------------------------------------------------
// package initialisation

func (in *Interp) initPackages() {
	want := map[string]bool{}
	for _, p := range in.cfg.InitPkgs {
		want[p] = true
	}
	in.initWant = want
	for _, path := range in.cfg.InitPkgs {
		p := in.P.Pkgs[path]
		if p == nil {
			panic(unsupported{"init: package not loaded: " + path})
		}
		in.allocGlobals(p)
	}
	for _, path := range in.cfg.InitPkgs {
		p := in.P.Pkgs[path]
		if f := p.Func("init"); f != nil {
			in.callSSA(nil, token.NoPos, f, nil, nil)
		}
	}
	in.steps = 0
	in.funcsSeen = map[string]int{}
}

// lazyInit runs the initializer of p (only p: imports are initialised when first touched).
func (in *Interp) lazyInit(p *ssa.Package) {
	path := p.Pkg.Path()
	if in.initWant[path] {
		return
	}
	in.initWant[path] = true
	in.allocGlobals(p)
	if len(in.P.initRefs(p)) == 0 {
		return
	}
	if f := p.Func("init"); f != nil {
		saved := in.steps
		pos := in.curPos
		in.callSSA(nil, token.NoPos, f, nil, nil)
		in.steps = saved
		in.curPos = pos
		in.stubsSeen["lazy-init:"+path]++
	}
}

func (in *Interp) allocGlobals(p *ssa.Package) {
	for _, m := range p.Members {
		if g, ok := m.(*ssa.Global); ok {
			if _, done := in.globals[g]; !done {
				cell := zero(deref(g.Type()))
				in.globals[g] = &cell
			}
		}
	}
}
