package sym

import (
	"fmt"
	"go/constant"
	"go/token"
	"go/types"
	"math"
	"strings"

	"golang.org/x/tools/go/ssa"
)

// targetPanic is a Go panic raised by the interpreted program.
type targetPanic struct {
	v       value // the panic value (an iface)
	runtime string
}

func (p targetPanic) String() string {
	if p.runtime != "" {
		return "runtime error: " + p.runtime
	}
	return toString(p.v)
}

// intInfo returns width and signedness of an integer type.
func intInfo(t types.Type) (w int, signed bool, ok bool) {
	b, isBasic := t.Underlying().(*types.Basic)
	if !isBasic {
		return 0, false, false
	}
	switch b.Kind() {
	case types.Int, types.Int64, types.UntypedInt:
		return 64, true, true
	case types.Int8:
		return 8, true, true
	case types.Int16:
		return 16, true, true
	case types.Int32, types.UntypedRune:
		return 32, true, true
	case types.Uint, types.Uint64, types.Uintptr:
		return 64, false, true
	case types.Uint8:
		return 8, false, true
	case types.Uint16:
		return 16, false, true
	case types.Uint32:
		return 32, false, true
	}
	return 0, false, false
}

func isFloat(t types.Type) bool {
	b, ok := t.Underlying().(*types.Basic)
	return ok && b.Info()&types.IsFloat != 0
}
func isString(t types.Type) bool {
	b, ok := t.Underlying().(*types.Basic)
	return ok && b.Info()&types.IsString != 0
}
func isBool(t types.Type) bool {
	b, ok := t.Underlying().(*types.Basic)
	return ok && b.Info()&types.IsBoolean != 0
}

func mask(w int) uint64 {
	if w >= 64 {
		return ^uint64(0)
	}
	return (uint64(1) << uint(w)) - 1
}
func trunc(v uint64, w int) uint64 { return v & mask(w) }
func sext(v uint64, w int) int64 {
	if w >= 64 {
		return int64(v)
	}
	sh := uint(64 - w)
	return int64(v<<sh) >> sh
}

func constValue(c *ssa.Const) value {
	if c.Value == nil {
		return zero(c.Type())
	}
	t := c.Type().Underlying()
	if b, ok := t.(*types.Basic); ok {
		switch {
		case b.Info()&types.IsBoolean != 0:
			return constant.BoolVal(c.Value)
		case b.Info()&types.IsInteger != 0:
			w, signed, _ := intInfo(b)
			if signed {
				return trunc(uint64(c.Int64()), w)
			}
			return trunc(c.Uint64(), w)
		case b.Info()&types.IsFloat != 0:
			return c.Float64()
		case b.Info()&types.IsString != 0:
			if c.Value.Kind() == constant.String {
				return constant.StringVal(c.Value)
			}
			return string(rune(c.Int64()))
		case b.Info()&types.IsComplex != 0:
			return c.Complex128()
		}
	}
	panic(fmt.Sprintf("constValue: %s", c))
}

// zero returns the zero value of type t.
func zero(t types.Type) value {
	switch t := t.(type) {
	case *types.Basic:
		if t.Kind() == types.UntypedNil {
			panic("untyped nil has no zero value")
		}
		if t.Info()&types.IsUntyped != 0 {
			t = types.Default(t).(*types.Basic)
		}
		switch {
		case t.Info()&types.IsBoolean != 0:
			return false
		case t.Info()&types.IsInteger != 0:
			return uint64(0)
		case t.Info()&types.IsFloat != 0:
			return float64(0)
		case t.Info()&types.IsComplex != 0:
			return complex128(0)
		case t.Info()&types.IsString != 0:
			return ""
		case t.Kind() == types.UnsafePointer:
			return (*value)(nil)
		}
		panic(fmt.Sprint("zero for unexpected type:", t))
	case *types.Pointer:
		return (*value)(nil)
	case *types.Array:
		a := make(array, t.Len())
		for i := range a {
			a[i] = zero(t.Elem())
		}
		return a
	case *types.Named, *types.Alias:
		return zero(t.Underlying())
	case *types.Interface:
		return iface{}
	case *types.Slice:
		return []value(nil)
	case *types.Struct:
		s := make(structure, t.NumFields())
		for i := range s {
			s[i] = zero(t.Field(i).Type())
		}
		return s
	case *types.Tuple:
		if t.Len() == 1 {
			return zero(t.At(0).Type())
		}
		s := make(tuple, t.Len())
		for i := range s {
			s[i] = zero(t.At(i).Type())
		}
		return s
	case *types.Chan:
		return (*channel)(nil)
	case *types.Map:
		return (*omap)(nil)
	case *types.Signature:
		return (*ssa.Function)(nil)
	case *types.TypeParam:
		panic("zero of type parameter (program not instantiated)")
	}
	panic(fmt.Sprint("zero: unexpected ", t))
}

// ---------------------------------------------------------------------------
// term builders

// mk creates a symbolic value, naming large terms so that term text stays small.
func (in *Interp) mk(k sortKind, w int, text string) *sym {
	if len(text) > 160 {
		// name large terms once per path (identical terms get the identical name)
		if in.termNames == nil {
			in.termNames = map[string]string{}
		}
		name, ok := in.termNames[text]
		if !ok {
			in.solver.nname++
			name = fmt.Sprintf("t!%d", in.solver.nname)
			in.solver.Send(fmt.Sprintf("(define-fun %s () %s %s)", name, sortText(k, w), text))
			in.termNames[text] = name
		}
		text = name
	}
	return &sym{k: k, w: w, t: text}
}

// bvOf returns the SMT text of an integer value of the given width.
func bvOf(v value, w int) string {
	switch v := v.(type) {
	case uint64:
		return bvLit(w, v)
	case *sym:
		if v.k != sBV || v.w != w {
			panic(fmt.Sprintf("bvOf: sort mismatch: have %v/%d want bv%d (%s)", v.k, v.w, w, v.t))
		}
		return v.t
	case bool:
		if v {
			return bvLit(w, 1)
		}
		return bvLit(w, 0)
	}
	panic(fmt.Sprintf("bvOf: %T", v))
}

func boolOf(v value) string {
	switch v := v.(type) {
	case bool:
		return boolLit(v)
	case *sym:
		if v.k != sBool {
			panic("boolOf: not Bool: " + v.t)
		}
		return v.t
	}
	panic(fmt.Sprintf("boolOf: %T", v))
}

// strOf returns an SMT String term for a string value.
func (in *Interp) strOf(v value) string {
	switch v := v.(type) {
	case string:
		return strLit(v)
	case *sym:
		if v.k != sStr {
			panic("strOf: not String: " + v.t)
		}
		return v.t
	case bstr:
		if s, ok := bstrToString(v); ok {
			return strLit(s)
		}
		parts := make([]string, 0, len(v))
		run := []byte{}
		flush := func() {
			if len(run) > 0 {
				parts = append(parts, strLit(string(run)))
				run = run[:0]
			}
		}
		for _, b := range v {
			switch b := b.(type) {
			case uint64:
				run = append(run, byte(b))
			case *sym:
				flush()
				parts = append(parts, "(str.from_code (bv2nat "+b.t+"))")
			}
		}
		flush()
		if len(parts) == 1 {
			return parts[0]
		}
		return in.mk(sStr, 0, "(str.++ "+strings.Join(parts, " ")+")").t
	}
	panic(fmt.Sprintf("strOf: %T", v))
}

func (in *Interp) not(v value) value {
	switch v := v.(type) {
	case bool:
		return !v
	case *sym:
		if strings.HasPrefix(v.t, "(not ") {
			return &sym{k: sBool, t: v.t[5 : len(v.t)-1]}
		}
		return &sym{k: sBool, t: "(not " + v.t + ")"}
	}
	panic(fmt.Sprintf("not: %T", v))
}

func (in *Interp) and(x, y value) value {
	if b, ok := x.(bool); ok {
		if !b {
			return false
		}
		return y
	}
	if b, ok := y.(bool); ok {
		if !b {
			return false
		}
		return x
	}
	return in.mk(sBool, 0, "(and "+boolOf(x)+" "+boolOf(y)+")")
}

func (in *Interp) or(x, y value) value {
	if b, ok := x.(bool); ok {
		if b {
			return true
		}
		return y
	}
	if b, ok := y.(bool); ok {
		if b {
			return true
		}
		return x
	}
	return in.mk(sBool, 0, "(or "+boolOf(x)+" "+boolOf(y)+")")
}

// ite builds (ite c a b) over scalar values of static type t.
func (in *Interp) ite(c value, t types.Type, a, b value) value {
	if cb, ok := c.(bool); ok {
		if cb {
			return a
		}
		return b
	}
	cs := c.(*sym)
	if w, _, ok := intInfo(t); ok {
		if au, ok := a.(uint64); ok {
			if bu, ok := b.(uint64); ok && au == bu {
				return a
			}
		}
		return in.mk(sBV, w, "(ite "+cs.t+" "+bvOf(a, w)+" "+bvOf(b, w)+")")
	}
	if isBool(t) {
		return in.mk(sBool, 0, "(ite "+cs.t+" "+boolOf(a)+" "+boolOf(b)+")")
	}
	if isString(t) {
		return in.mk(sStr, 0, "(ite "+cs.t+" "+in.strOf(a)+" "+in.strOf(b)+")")
	}
	panic(fmt.Sprintf("ite over unsupported type %s", t))
}

// ---------------------------------------------------------------------------
// binary operators

func (in *Interp) runtimePanic(msg string) {
	debugRuntimePanic(in, msg)
	panic(targetPanic{runtime: msg})
}

func (in *Interp) binop(op token.Token, tx, ty types.Type, x, y value) value {
	// integers
	if w, signed, ok := intInfo(tx); ok {
		switch op {
		case token.SHL, token.SHR:
			return in.shift(op, w, signed, ty, x, y)
		}
		xs, xsym := x.(*sym)
		ys, ysym := y.(*sym)
		if !xsym && !ysym {
			return concreteIntOp(in, op, w, signed, x.(uint64), y.(uint64))
		}
		_ = xs
		_ = ys
		if r, ok := in.byteBinop(op, w, x, y); ok {
			return r
		}
		a, b := bvOf(x, w), bvOf(y, w)
		if a == b {
			// syntactically identical terms
			switch op {
			case token.EQL, token.LEQ, token.GEQ:
				return true
			case token.NEQ, token.LSS, token.GTR:
				return false
			case token.SUB, token.XOR:
				return uint64(0)
			}
		}
		bv := func(f string) value { return in.mk(sBV, w, "("+f+" "+a+" "+b+")") }
		bl := func(f string) value { return in.mk(sBool, 0, "("+f+" "+a+" "+b+")") }
		switch op {
		case token.ADD:
			return bv("bvadd")
		case token.SUB:
			return bv("bvsub")
		case token.MUL:
			return bv("bvmul")
		case token.QUO, token.REM:
			// division by zero panics
			if in.branch(in.mk(sBool, 0, "(= "+b+" "+bvLit(w, 0)+")"), "divzero") {
				in.runtimePanic("integer divide by zero")
			}
			if op == token.QUO {
				if signed {
					return bv("bvsdiv")
				}
				return bv("bvudiv")
			}
			if signed {
				return bv("bvsrem")
			}
			return bv("bvurem")
		case token.AND:
			return bv("bvand")
		case token.OR:
			return bv("bvor")
		case token.XOR:
			return bv("bvxor")
		case token.AND_NOT:
			return in.mk(sBV, w, "(bvand "+a+" (bvnot "+b+"))")
		case token.EQL:
			return bl("=")
		case token.NEQ:
			return in.mk(sBool, 0, "(not (= "+a+" "+b+"))")
		case token.LSS:
			if signed {
				return bl("bvslt")
			}
			return bl("bvult")
		case token.LEQ:
			if signed {
				return bl("bvsle")
			}
			return bl("bvule")
		case token.GTR:
			if signed {
				return bl("bvsgt")
			}
			return bl("bvugt")
		case token.GEQ:
			if signed {
				return bl("bvsge")
			}
			return bl("bvuge")
		}
		panic("binop int: " + op.String())
	}
	if isBool(tx) {
		switch op {
		case token.EQL:
			return in.boolEq(x, y)
		case token.NEQ:
			return in.not(in.boolEq(x, y))
		// SSA does not produce && / ||, but AND/OR on bools may appear via generics
		case token.LAND, token.AND:
			return in.and(x, y)
		case token.LOR, token.OR:
			return in.or(x, y)
		}
		panic("binop bool: " + op.String())
	}
	if isFloat(tx) {
		xf, ok1 := x.(float64)
		yf, ok2 := y.(float64)
		if !ok1 || !ok2 {
			panic(unsupported{"symbolic float arithmetic"})
		}
		f32 := tx.Underlying().(*types.Basic).Kind() == types.Float32
		r := func(f float64) value {
			if f32 {
				return float64(float32(f))
			}
			return f
		}
		switch op {
		case token.ADD:
			return r(xf + yf)
		case token.SUB:
			return r(xf - yf)
		case token.MUL:
			return r(xf * yf)
		case token.QUO:
			return r(xf / yf)
		case token.EQL:
			return xf == yf
		case token.NEQ:
			return xf != yf
		case token.LSS:
			return xf < yf
		case token.LEQ:
			return xf <= yf
		case token.GTR:
			return xf > yf
		case token.GEQ:
			return xf >= yf
		}
		panic("binop float: " + op.String())
	}
	if isString(tx) {
		return in.stringOp(op, x, y)
	}
	switch op {
	case token.EQL:
		return in.equals(tx, x, y)
	case token.NEQ:
		return in.not(in.equals(tx, x, y))
	}
	panic(fmt.Sprintf("binop: unsupported %s on %s", op, tx))
}

func (in *Interp) boolEq(x, y value) value {
	xb, ok1 := x.(bool)
	yb, ok2 := y.(bool)
	switch {
	case ok1 && ok2:
		return xb == yb
	case ok1:
		if xb {
			return y
		}
		return in.not(y)
	case ok2:
		if yb {
			return x
		}
		return in.not(x)
	}
	return in.mk(sBool, 0, "(= "+boolOf(x)+" "+boolOf(y)+")")
}

func concreteIntOp(in *Interp, op token.Token, w int, signed bool, x, y uint64) value {
	sx, sy := sext(x, w), sext(y, w)
	switch op {
	case token.ADD:
		return trunc(x+y, w)
	case token.SUB:
		return trunc(x-y, w)
	case token.MUL:
		return trunc(x*y, w)
	case token.QUO:
		if y == 0 {
			in.runtimePanic("integer divide by zero")
		}
		if signed {
			if sy == -1 {
				return trunc(uint64(-sx), w)
			}
			return trunc(uint64(sx/sy), w)
		}
		return trunc(x/y, w)
	case token.REM:
		if y == 0 {
			in.runtimePanic("integer divide by zero")
		}
		if signed {
			if sy == -1 {
				return uint64(0)
			}
			return trunc(uint64(sx%sy), w)
		}
		return trunc(x%y, w)
	case token.AND:
		return x & y
	case token.OR:
		return x | y
	case token.XOR:
		return trunc(x^y, w)
	case token.AND_NOT:
		return x &^ y
	case token.EQL:
		return x == y
	case token.NEQ:
		return x != y
	case token.LSS:
		if signed {
			return sx < sy
		}
		return x < y
	case token.LEQ:
		if signed {
			return sx <= sy
		}
		return x <= y
	case token.GTR:
		if signed {
			return sx > sy
		}
		return x > y
	case token.GEQ:
		if signed {
			return sx >= sy
		}
		return x >= y
	}
	panic("concreteIntOp: " + op.String())
}

func (in *Interp) shift(op token.Token, w int, signed bool, ty types.Type, x, y value) value {
	wy, ysigned, _ := intInfo(ty)
	if yu, ok := y.(uint64); ok {
		if ysigned && sext(yu, wy) < 0 {
			in.runtimePanic("negative shift amount")
		}
		if xu, ok := x.(uint64); ok {
			switch op {
			case token.SHL:
				if yu >= uint64(w) {
					return uint64(0)
				}
				return trunc(xu<<yu, w)
			default:
				if signed {
					if yu >= uint64(w) {
						yu = uint64(w - 1)
					}
					return trunc(uint64(sext(xu, w)>>yu), w)
				}
				if yu >= uint64(w) {
					return uint64(0)
				}
				return xu >> yu
			}
		}
		if yu >= uint64(w) {
			if op == token.SHR && signed {
				yu = uint64(w - 1)
			} else {
				return uint64(0)
			}
		}
		if r, ok := in.byteShift(op, w, signed, x, yu); ok {
			return r
		}
		f := "bvshl"
		if op == token.SHR {
			f = "bvlshr"
			if signed {
				f = "bvashr"
			}
		}
		return in.mk(sBV, w, "("+f+" "+bvOf(x, w)+" "+bvLit(w, yu)+")")
	}
	// symbolic count
	ys := y.(*sym)
	if ysigned {
		if in.branch(in.mk(sBool, 0, "(bvslt "+ys.t+" "+bvLit(wy, 0)+")"), "negshift") {
			in.runtimePanic("negative shift amount")
		}
	}
	// bring the count to width w, saturating
	var cnt, big string
	switch {
	case wy == w:
		cnt = ys.t
		big = "(bvuge " + ys.t + " " + bvLit(w, uint64(w)) + ")"
	case wy < w:
		cnt = fmt.Sprintf("((_ zero_extend %d) %s)", w-wy, ys.t)
		big = "(bvuge " + cnt + " " + bvLit(w, uint64(w)) + ")"
	default:
		cnt = fmt.Sprintf("((_ extract %d 0) %s)", w-1, ys.t)
		big = "(bvuge " + ys.t + " " + bvLit(wy, uint64(w)) + ")"
	}
	a := bvOf(x, w)
	switch op {
	case token.SHL:
		return in.mk(sBV, w, "(ite "+big+" "+bvLit(w, 0)+" (bvshl "+a+" "+cnt+"))")
	default:
		if signed {
			return in.mk(sBV, w, "(ite "+big+" (bvashr "+a+" "+bvLit(w, uint64(w-1))+") (bvashr "+a+" "+cnt+"))")
		}
		return in.mk(sBV, w, "(ite "+big+" "+bvLit(w, 0)+" (bvlshr "+a+" "+cnt+"))")
	}
}

func (in *Interp) stringOp(op token.Token, x, y value) value {
	x, y = normStr(x), normStr(y)
	xs, ok1 := x.(string)
	ys, ok2 := y.(string)
	if ok1 && ok2 {
		switch op {
		case token.ADD:
			return xs + ys
		case token.EQL:
			return xs == ys
		case token.NEQ:
			return xs != ys
		case token.LSS:
			return xs < ys
		case token.LEQ:
			return xs <= ys
		case token.GTR:
			return xs > ys
		case token.GEQ:
			return xs >= ys
		}
	}
	// byte-vector strings
	xb, xIsB := asBstr(x)
	yb, yIsB := asBstr(y)
	if xIsB && yIsB {
		switch op {
		case token.ADD:
			out := make(bstr, 0, len(xb)+len(yb))
			out = append(out, xb...)
			out = append(out, yb...)
			return normStr(out)
		case token.EQL, token.NEQ:
			var r value = len(xb) == len(yb)
			if r.(bool) {
				for i := range xb {
					r = in.and(r, in.binop(token.EQL, types.Typ[types.Uint8], types.Typ[types.Uint8], xb[i], yb[i]))
				}
			}
			if op == token.NEQ {
				return in.not(r)
			}
			return r
		}
	}
	a, b := in.strOf(x), in.strOf(y)
	switch op {
	case token.ADD:
		return in.mk(sStr, 0, "(str.++ "+a+" "+b+")")
	case token.EQL:
		return in.mk(sBool, 0, "(= "+a+" "+b+")")
	case token.NEQ:
		return in.mk(sBool, 0, "(not (= "+a+" "+b+"))")
	case token.LSS:
		return in.mk(sBool, 0, "(str.< "+a+" "+b+")")
	case token.LEQ:
		return in.mk(sBool, 0, "(str.<= "+a+" "+b+")")
	case token.GTR:
		return in.mk(sBool, 0, "(str.< "+b+" "+a+")")
	case token.GEQ:
		return in.mk(sBool, 0, "(str.<= "+b+" "+a+")")
	}
	panic("stringOp: " + op.String())
}

// asBstr views a concrete string or bstr as a bstr.
func asBstr(v value) (bstr, bool) {
	switch v := v.(type) {
	case string:
		return stringToBstr(v), true
	case bstr:
		return v, true
	}
	return nil, false
}

// equals implements == for type t; the result is a bool or a Bool term.
func (in *Interp) equals(t types.Type, x, y value) value {
	switch tt := t.Underlying().(type) {
	case *types.Basic:
		switch {
		case tt.Info()&types.IsInteger != 0, tt.Info()&types.IsBoolean != 0, tt.Info()&types.IsFloat != 0, tt.Info()&types.IsString != 0:
			return in.binop(token.EQL, t, t, x, y)
		case tt.Kind() == types.UnsafePointer:
			return x.(*value) == y.(*value)
		case tt.Info()&types.IsComplex != 0:
			return x.(complex128) == y.(complex128)
		}
	case *types.Pointer:
		return x.(*value) == y.(*value)
	case *types.Chan:
		return x.(*channel) == y.(*channel)
	case *types.Struct:
		xs, ys := x.(structure), y.(structure)
		var r value = true
		for i := 0; i < tt.NumFields(); i++ {
			f := tt.Field(i)
			if f.Name() == "_" {
				continue
			}
			r = in.and(r, in.equals(f.Type(), xs[i], ys[i]))
			if b, ok := r.(bool); ok && !b {
				return false
			}
		}
		return r
	case *types.Array:
		xs, ys := x.(array), y.(array)
		var r value = true
		for i := range xs {
			r = in.and(r, in.equals(tt.Elem(), xs[i], ys[i]))
			if b, ok := r.(bool); ok && !b {
				return false
			}
		}
		return r
	case *types.Interface:
		xi, yi := x.(iface), y.(iface)
		if xi.t == nil || yi.t == nil {
			return xi.t == nil && yi.t == nil
		}
		if !types.Identical(xi.t, yi.t) {
			return false
		}
		if !types.Comparable(xi.t) {
			panic(targetPanic{runtime: "comparing uncomparable type " + xi.t.String()})
		}
		return in.equals(xi.t, xi.v, yi.v)
	case *types.Slice:
		// only comparison with nil reaches here
		xs, _ := x.([]value)
		ys, _ := y.([]value)
		return xs == nil && ys == nil
	case *types.Map:
		xm, _ := x.(*omap)
		ym, _ := y.(*omap)
		return xm == ym
	case *types.Signature:
		return isNilFunc(x) && isNilFunc(y)
	}
	panic(fmt.Sprintf("equals: unsupported type %s", t))
}

func isNilFunc(v value) bool {
	switch f := v.(type) {
	case *ssa.Function:
		return f == nil
	case *closure:
		return f == nil
	case *ssa.Builtin:
		return f == nil
	case nil:
		return true
	}
	return false
}

// ---------------------------------------------------------------------------
// unary operators, conversions

func (in *Interp) unop(instr *ssa.UnOp, x value) value {
	switch instr.Op {
	case token.ARROW:
		return in.chanRecv(x.(*channel), instr.CommaOk, instr.X.Type().Underlying().(*types.Chan).Elem())
	case token.MUL:
		p := x.(*value)
		if p == nil {
			in.runtimePanic("invalid memory address or nil pointer dereference")
		}
		if pz, bad := (*p).(poison); bad {
			panic(unsupported{"read of a variable whose package initializer could not be executed: " + pz.why})
		}
		return load(instr.Type(), p)
	case token.NOT:
		return in.not(x)
	case token.SUB:
		t := instr.X.Type()
		if w, _, ok := intInfo(t); ok {
			if u, ok := x.(uint64); ok {
				return trunc(-u, w)
			}
			return in.mk(sBV, w, "(bvneg "+bvOf(x, w)+")")
		}
		if isFloat(t) {
			return -x.(float64)
		}
	case token.XOR:
		t := instr.X.Type()
		if w, _, ok := intInfo(t); ok {
			if u, ok := x.(uint64); ok {
				return trunc(^u, w)
			}
			return in.mk(sBV, w, "(bvnot "+bvOf(x, w)+")")
		}
	}
	panic(fmt.Sprintf("unop: unsupported %s on %s", instr.Op, instr.X.Type()))
}

func (in *Interp) conv(tdst, tsrc types.Type, x value) value {
	ud, us := tdst.Underlying(), tsrc.Underlying()
	wd, _, dInt := intInfo(ud)
	ws, sSigned, sInt := intInfo(us)
	switch {
	case dInt && sInt:
		if u, ok := x.(uint64); ok {
			if sSigned {
				return trunc(uint64(sext(u, ws)), wd)
			}
			return trunc(u, wd)
		}
		s := x.(*sym)
		if wd != ws {
			if r, ok := in.byteConv(wd, ws, sSigned, x); ok {
				return r
			}
		}
		switch {
		case wd == ws:
			return s
		case wd < ws:
			return in.mk(sBV, wd, fmt.Sprintf("((_ extract %d 0) %s)", wd-1, s.t))
		case sSigned:
			return in.mk(sBV, wd, fmt.Sprintf("((_ sign_extend %d) %s)", wd-ws, s.t))
		default:
			return in.mk(sBV, wd, fmt.Sprintf("((_ zero_extend %d) %s)", wd-ws, s.t))
		}
	case isFloat(ud) && sInt:
		u, ok := x.(uint64)
		if !ok {
			panic(unsupported{"symbolic int to float conversion"})
		}
		var f float64
		if sSigned {
			f = float64(sext(u, ws))
		} else {
			f = float64(u)
		}
		if ud.(*types.Basic).Kind() == types.Float32 {
			f = float64(float32(f))
		}
		return f
	case dInt && isFloat(us):
		f := x.(float64)
		_, dSigned, _ := intInfo(ud)
		if dSigned {
			return trunc(uint64(int64(f)), wd)
		}
		return trunc(uint64(f), wd)
	case isFloat(ud) && isFloat(us):
		f := x.(float64)
		if ud.(*types.Basic).Kind() == types.Float32 {
			f = float64(float32(f))
		}
		return f
	case isString(ud) && sInt:
		u, ok := x.(uint64)
		if !ok {
			panic(unsupported{"string(symbolic rune)"})
		}
		return string(rune(sext(u, ws)))
	case isString(ud) && isString(us):
		return x
	}
	// string <-> []byte / []rune
	if isString(ud) {
		if sl, ok := us.(*types.Slice); ok {
			el := sl.Elem().Underlying().(*types.Basic)
			xs := x.([]value)
			if el.Kind() == types.Uint8 {
				b := make(bstr, len(xs))
				copy(b, xs)
				return normStr(b)
			}
			if el.Kind() == types.Int32 {
				var sb strings.Builder
				for _, r := range xs {
					u, ok := r.(uint64)
					if !ok {
						panic(unsupported{"string([]rune) with symbolic rune"})
					}
					sb.WriteRune(rune(sext(u, 32)))
				}
				return sb.String()
			}
		}
	}
	if sl, ok := ud.(*types.Slice); ok && isString(us) {
		el := sl.Elem().Underlying().(*types.Basic)
		if el.Kind() == types.Uint8 {
			switch s := x.(type) {
			case string:
				out := make([]value, len(s))
				for i := 0; i < len(s); i++ {
					out[i] = uint64(s[i])
				}
				return out
			case bstr:
				out := make([]value, len(s))
				copy(out, s)
				return out
			case *sym:
				b := in.concretizeString(s)
				out := make([]value, len(b))
				copy(out, b)
				return out
			}
		}
		if el.Kind() == types.Int32 {
			s, ok := normStr(x).(string)
			if !ok {
				panic(unsupported{"[]rune(symbolic string)"})
			}
			var out []value
			for _, r := range s {
				out = append(out, trunc(uint64(r), 32))
			}
			if out == nil {
				out = []value{}
			}
			return out
		}
	}
	// pointer / unsafe conversions and identical underlying types
	if types.Identical(ud, us) {
		return x
	}
	if _, ok := ud.(*types.Pointer); ok {
		return x
	}
	if b, ok := ud.(*types.Basic); ok && b.Kind() == types.UnsafePointer {
		return x
	}
	panic(unsupported{fmt.Sprintf("conversion %s -> %s", tsrc, tdst)})
}

// concretizeString turns a String-sorted term into a bstr by forking on its length.
func (in *Interp) concretizeString(s *sym) bstr {
	max := in.strMax[s.t]
	if max == 0 {
		max = 64
	}
	n := 0
	for ; n < max; n++ {
		if in.branch(in.mk(sBool, 0, fmt.Sprintf("(= (str.len %s) %d)", s.t, n)), "strlen") {
			break
		}
	}
	out := make(bstr, n)
	for i := 0; i < n; i++ {
		out[i] = in.mk(sBV, 8, fmt.Sprintf("((_ int2bv 8) (str.to_code (str.at %s %d)))", s.t, i))
	}
	return out
}

// ---------------------------------------------------------------------------
// slicing, indexing

func (in *Interp) asIndex(v value, t types.Type, what string, limit int) int {
	w, signed, ok := intInfo(t)
	if !ok {
		w, signed = 64, true
	}
	switch v := v.(type) {
	case uint64:
		if signed {
			return clampInt(sext(v, w))
		}
		if v > math.MaxInt32 {
			return math.MaxInt32
		}
		return int(v)
	case *sym:
		// concretise by forking over 0..limit, then "out of range"
		return in.concretizeIndex(v, w, signed, limit, what)
	}
	panic(fmt.Sprintf("asIndex: %T", v))
}

func clampInt(x int64) int {
	if x > math.MaxInt32 {
		return math.MaxInt32
	}
	if x < math.MinInt32 {
		return math.MinInt32
	}
	return int(x)
}

// concretizeIndex forks over the values 0..limit of v; any other value yields -1
// (always out of range for the callers).
func (in *Interp) concretizeIndex(v *sym, w int, signed bool, limit int, what string) int {
	for k := 0; k <= limit; k++ {
		if in.branch(in.mk(sBool, 0, "(= "+v.t+" "+bvLit(w, uint64(k))+")"), what) {
			return k
		}
	}
	return -1
}

func (in *Interp) sliceOp(instr *ssa.Slice, x, lo, hi, max value) value {
	var Len, Cap int
	switch x := x.(type) {
	case string:
		Len = len(x)
	case bstr:
		Len = len(x)
	case *sym:
		// solver-level string with concrete bounds: one bounds check, then str.substr
		lc, lok := lo.(uint64)
		hc, hok := hi.(uint64)
		if (lo == nil || lok) && (hi == nil || hok) {
			need := lc
			if hi != nil && hc > need {
				need = hc
			}
			if hi != nil && lc > hc {
				in.runtimePanic("slice bounds out of range")
			}
			if need > 0 {
				short := in.mk(sBool, 0, fmt.Sprintf("(< (str.len %s) %d)", x.t, need))
				if in.branch(short, "strslice-bounds") {
					in.runtimePanic(fmt.Sprintf("slice bounds out of range [:%d] with a shorter string", need))
				}
			}
			var t string
			if hi == nil {
				t = fmt.Sprintf("(str.substr %s %d (str.len %s))", x.t, lc, x.t)
			} else {
				t = fmt.Sprintf("(str.substr %s %d %d)", x.t, lc, hc-lc)
			}
			r := in.mk(sStr, 0, t)
			if m, ok := in.strMax[x.t]; ok {
				in.strMax[r.t] = m
			}
			return r
		}
		b := in.concretizeString(x)
		return in.sliceOp2(instr, b, lo, hi, max, len(b), len(b))
	case []value:
		Len, Cap = len(x), cap(x)
	case *value: // *array
		if x == nil {
			in.runtimePanic("invalid memory address or nil pointer dereference")
		}
		a := (*x).(array)
		Len, Cap = len(a), cap(a)
	}
	return in.sliceOp2(instr, x, lo, hi, max, Len, Cap)
}

func (in *Interp) sliceOp2(instr *ssa.Slice, x, lo, hi, max value, Len, Cap int) value {
	_, isStr := x.(string)
	_, isB := x.(bstr)
	if isStr || isB {
		Cap = Len
	}
	l, h, m := 0, Len, Cap
	if lo != nil {
		l = in.asIndex(lo, instr.Low.Type(), "slice-lo", Cap)
	}
	if hi != nil {
		h = in.asIndex(hi, instr.High.Type(), "slice-hi", Cap)
	}
	if max != nil {
		m = in.asIndex(max, instr.Max.Type(), "slice-max", Cap)
	}
	if l < 0 || h < 0 || m < 0 || l > h || h > m || m > Cap {
		in.runtimePanic(fmt.Sprintf("slice bounds out of range [%d:%d:%d] with capacity %d", l, h, m, Cap))
	}
	switch x := x.(type) {
	case string:
		return x[l:h]
	case bstr:
		return normStr(x[l:h])
	case []value:
		if x == nil {
			return x
		}
		return x[l:h:m]
	case *value:
		return []value((*x).(array)[l:h:m])
	}
	panic(fmt.Sprintf("slice: unexpected X type: %T", x))
}

func (in *Interp) typeAssert(instr *ssa.TypeAssert, itf iface) value {
	var v value
	err := ""
	if itf.t == nil {
		err = fmt.Sprintf("interface conversion: interface is nil, not %s", instr.AssertedType)
	} else if idst, ok := instr.AssertedType.Underlying().(*types.Interface); ok {
		v = itf
		if meth, _ := types.MissingMethod(itf.t, idst, true); meth != nil {
			err = fmt.Sprintf("interface conversion: %v is not %v: missing method %s", itf.t, idst, meth.Name())
		}
	} else if types.Identical(itf.t, instr.AssertedType) {
		v = itf.v
	} else {
		err = fmt.Sprintf("interface conversion: interface is %s, not %s", itf.t, instr.AssertedType)
	}
	if err != "" {
		if !instr.CommaOk {
			panic(targetPanic{runtime: err})
		}
		return tuple{zero(instr.AssertedType), false}
	}
	if instr.CommaOk {
		return tuple{v, true}
	}
	return v
}
