package sym

var minusOne = ^uint64(0)

// zeroInitOK lists packages whose init only tunes for CPU features; their globals may stay
// zero (generic code paths are taken).
var zeroInitOK = map[string]bool{
	"internal/bytealg": true,
	"internal/cpu":     true,
}
