package sym

var minusOne = ^uint64(0)
