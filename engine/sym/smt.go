package sym

// SMT-LIB2 terms and the pipe to a live solver process.

import (
	"bufio"
	"fmt"
	"io"
	"os"
	"os/exec"
	"sort"
	"strconv"
	"strings"
	"time"
)

type sortKind int

const (
	sBool sortKind = iota
	sBV
	sStr
	sInt // mathematical integer (only for string lengths / indexes)
)

// sym is a symbolic scalar: an SMT term of a known sort.
type sym struct {
	k sortKind
	w int    // bit width for sBV
	t string // SMT-LIB2 term text (small: big terms are named with define-fun)

	atom bool    // a declared constant (its bytes can be tracked)
	by   []bpart // byte decomposition, least significant first (nil = unknown)
}

func (s *sym) String() string { return s.t }

func sortText(k sortKind, w int) string {
	switch k {
	case sBool:
		return "Bool"
	case sBV:
		return fmt.Sprintf("(_ BitVec %d)", w)
	case sStr:
		return "String"
	case sInt:
		return "Int"
	}
	panic("sort")
}

func bvLit(w int, v uint64) string {
	if w < 64 {
		v &= (1 << uint(w)) - 1
	}
	if w%4 == 0 {
		return fmt.Sprintf("#x%0*x", w/4, v)
	}
	return fmt.Sprintf("#b%0*b", w, v)
}

func boolLit(b bool) string {
	if b {
		return "true"
	}
	return "false"
}

// strLit renders a Go byte string as an SMT-LIB string literal (bytes = code points 0..255).
func strLit(s string) string {
	var b strings.Builder
	b.WriteByte('"')
	for i := 0; i < len(s); i++ {
		c := s[i]
		switch {
		case c == '"':
			b.WriteString(`""`)
		case c == '\\':
			b.WriteString(`\u{5c}`)
		case c >= 0x20 && c < 0x7f:
			b.WriteByte(c)
		default:
			fmt.Fprintf(&b, `\u{%x}`, c)
		}
	}
	b.WriteByte('"')
	return b.String()
}

// parseStrLit decodes a solver-printed string literal.
func parseStrLit(s string) (string, bool) {
	s = strings.TrimSpace(s)
	if len(s) < 2 || s[0] != '"' || s[len(s)-1] != '"' {
		return "", false
	}
	s = s[1 : len(s)-1]
	var out []byte
	for i := 0; i < len(s); i++ {
		c := s[i]
		if c == '"' && i+1 < len(s) && s[i+1] == '"' {
			out = append(out, '"')
			i++
			continue
		}
		if c == '\\' && i+1 < len(s) && s[i+1] == 'u' {
			// \u{X..} or \uXXXX
			j := i + 2
			var hex string
			if j < len(s) && s[j] == '{' {
				k := strings.IndexByte(s[j:], '}')
				if k < 0 {
					return "", false
				}
				hex = s[j+1 : j+k]
				i = j + k
			} else if j+4 <= len(s) {
				hex = s[j : j+4]
				i = j + 3
			} else {
				return "", false
			}
			n, err := strconv.ParseUint(hex, 16, 32)
			if err != nil {
				return "", false
			}
			if n > 255 {
				out = append(out, []byte(string(rune(n)))...)
			} else {
				out = append(out, byte(n))
			}
			continue
		}
		if c == '\\' && i+1 < len(s) && s[i+1] == 'x' && i+3 < len(s) {
			n, err := strconv.ParseUint(s[i+2:i+4], 16, 8)
			if err == nil {
				out = append(out, byte(n))
				i += 3
				continue
			}
		}
		out = append(out, c)
	}
	return string(out), true
}

// parseBVLit decodes #x.. / #b.. / (_ bvN w).
func parseBVLit(s string) (uint64, bool) {
	s = strings.TrimSpace(s)
	if strings.HasPrefix(s, "#x") {
		n, err := strconv.ParseUint(s[2:], 16, 64)
		return n, err == nil
	}
	if strings.HasPrefix(s, "#b") {
		n, err := strconv.ParseUint(s[2:], 2, 64)
		return n, err == nil
	}
	if strings.HasPrefix(s, "(_ bv") {
		f := strings.Fields(s[5:])
		if len(f) > 0 {
			n, err := strconv.ParseUint(f[0], 10, 64)
			return n, err == nil
		}
	}
	return 0, false
}

// ---------------------------------------------------------------------------

// SolverStats accumulates query counts.
type SolverStats struct {
	Sat, Unsat, Unknown, Errors int
	Seconds                     float64
	Resets                      int
}

// Solver is one live solver process driven over a pipe.
type Solver struct {
	Kind   string // "z3", "z3-new", "cvc5"
	cmd    *exec.Cmd
	in     io.WriteCloser
	out    *bufio.Reader
	script []string // everything sent since the last reset (for standalone dumps)
	Stats  SolverStats
	nname  int
	nslow  int
	TimeMS int
	dead   bool
	// folded regular-expression memberships (see DefineMemb)
	membAtoms map[string]membAtom
	memb      map[string][]string
	relaxed   bool
}

func solverArgv(kind string, timeoutMS int) []string {
	switch kind {
	case "z3":
		return []string{"z3", "-in", fmt.Sprintf("-t:%d", timeoutMS)}
	case "z3-new":
		return []string{"z3-new", "-in", fmt.Sprintf("-t:%d", timeoutMS)}
	case "cvc5":
		return []string{"cvc5", "--incremental", "--lang", "smt2", "--produce-models", "--strings-exp", fmt.Sprintf("--tlimit-per=%d", timeoutMS)}
	}
	panic("unknown solver " + kind)
}

func NewSolver(kind string, timeoutMS int) (*Solver, error) {
	argv := solverArgv(kind, timeoutMS)
	cmd := exec.Command(argv[0], argv[1:]...)
	in, err := cmd.StdinPipe()
	if err != nil {
		return nil, err
	}
	outp, err := cmd.StdoutPipe()
	if err != nil {
		return nil, err
	}
	cmd.Stderr = cmd.Stdout
	if err := cmd.Start(); err != nil {
		return nil, err
	}
	s := &Solver{Kind: kind, cmd: cmd, in: in, out: bufio.NewReaderSize(outp, 1<<16), TimeMS: timeoutMS}
	s.prelude()
	return s, nil
}

func (s *Solver) prelude() {
	s.raw("(set-option :produce-models true)")
	s.raw("(set-logic ALL)")
}

func (s *Solver) raw(line string) {
	if s.dead {
		return
	}
	if _, err := io.WriteString(s.in, line+"\n"); err != nil {
		s.dead = true
	}
}

// Send adds a declaration/definition/assertion to the current scope.
func (s *Solver) Send(line string) {
	if strings.HasPrefix(line, "(assert ") && len(s.membAtoms) > 0 {
		if v, re, ok := s.membLit(line[len("(assert ") : len(line)-1]); ok {
			s.memb[v] = append(s.memb[v], re)
			return
		}
	}
	s.script = append(s.script, line)
	s.raw(line)
}

// ---------------------------------------------------------------------------------------------
// Regular-expression memberships of one string variable are kept out of the assertion stack and
// handed to the solver as ONE membership in the intersection (negated ones as complements, the
// declared maximal length as a bounded loop) with every query: z3's derivative-based regex
// solver decides that in well under a second where the same constraints as separate (negated)
// memberships plus an arithmetic length bound run for minutes. Same models, same verdicts.

type membAtom struct{ v, re string }

// DefineMemb names the atom (str.in_re v re); asserting the name or its negation is folded.
func (s *Solver) DefineMemb(v, re string) string {
	if s.membAtoms == nil {
		s.membAtoms = map[string]membAtom{}
		s.memb = map[string][]string{}
	}
	for n, a := range s.membAtoms {
		if a.v == v && a.re == re {
			return n
		}
	}
	s.nname++
	name := fmt.Sprintf("m!%d", s.nname)
	s.Send("(define-fun " + name + " () Bool (str.in_re " + v + " " + re + "))")
	s.membAtoms[name] = membAtom{v, re}
	return name
}

// SetMaxLen bounds the length of string variable v (folded like a membership).
func (s *Solver) SetMaxLen(v string, n int) {
	if s.membAtoms == nil {
		s.membAtoms = map[string]membAtom{}
		s.memb = map[string][]string{}
	}
	s.memb[v] = append(s.memb[v], fmt.Sprintf("((_ re.loop 0 %d) re.allchar)", n))
}

// HasNegMemb reports whether negative memberships have been folded on this path.
func (s *Solver) HasNegMemb() bool {
	for _, rs := range s.memb {
		for _, r := range rs {
			if strings.HasPrefix(r, "(re.comp ") {
				return true
			}
		}
	}
	return false
}

// RefutedRelaxed reports whether extra is unsatisfiable already without the negative memberships
// accumulated on the path (then it is unsatisfiable with them). false = no information.
func (s *Solver) RefutedRelaxed(extra string) bool {
	s.relaxed = true
	r := s.Check(extra)
	s.relaxed = false
	if r != "unsat" { // not a verdict about the path: undo the statistics
		switch r {
		case "sat":
			s.Stats.Sat--
		default:
			s.Stats.Unknown--
		}
	}
	return r == "unsat"
}

// membLit recognises NAME / (not NAME) for a named membership atom.
func (s *Solver) membLit(t string) (v, re string, ok bool) {
	if a, ok := s.membAtoms[t]; ok {
		return a.v, a.re, true
	}
	if strings.HasPrefix(t, "(not ") {
		if a, ok := s.membAtoms[t[5:len(t)-1]]; ok {
			return a.v, "(re.comp " + a.re + ")", true
		}
	}
	return "", "", false
}

// scopeAsserts returns the assertions to add (inside a push) for one query: the folded
// memberships and the extra condition (folded too when it is a membership literal).
func (s *Solver) scopeAsserts(extra string) []string {
	var out []string
	relaxed := s.relaxed
	var ev, ere string
	folded := false
	if extra != "" && len(s.membAtoms) > 0 {
		ev, ere, folded = s.membLit(extra)
	}
	vars := make([]string, 0, len(s.memb))
	for v := range s.memb {
		vars = append(vars, v)
	}
	if folded {
		if _, ok := s.memb[ev]; !ok {
			vars = append(vars, ev)
		}
	}
	sort.Strings(vars)
	for _, v := range vars {
		res := s.memb[v]
		if relaxed {
			// drop the accumulated negative memberships (sound for an "unsat" answer only)
			var pos []string
			for _, r := range res {
				if !strings.HasPrefix(r, "(re.comp ") {
					pos = append(pos, r)
				}
			}
			res = pos
		}
		if folded && v == ev {
			res = append(append([]string{}, res...), ere)
		}
		if len(res) == 1 {
			out = append(out, "(assert (str.in_re "+v+" "+res[0]+"))")
		} else if len(res) > 1 {
			out = append(out, "(assert (str.in_re "+v+" (re.inter "+strings.Join(res, " ")+")))")
		}
	}
	if extra != "" && !folded {
		out = append(out, "(assert "+extra+")")
	}
	return out
}

// Reset clears all declarations and assertions (start of a new path).
func (s *Solver) Reset() {
	s.script = s.script[:0]
	s.membAtoms, s.memb = nil, nil
	s.nname = 0
	s.Stats.Resets++
	s.raw("(reset)")
	s.prelude()
}

func (s *Solver) Close() {
	if s.cmd != nil {
		s.in.Close()
		s.cmd.Process.Kill()
		s.cmd.Wait()
	}
}

const endMark = "<<END-OF-REPLY>>"

// roundTrip sends cmd and returns all output lines produced before the end marker.
func (s *Solver) roundTrip(cmd string) []string {
	s.raw(cmd)
	s.raw(`(echo "` + endMark + `")`)
	var lines []string
	for {
		line, err := s.out.ReadString('\n')
		if strings.Contains(line, endMark) {
			break
		}
		if t := strings.TrimSpace(line); t != "" {
			lines = append(lines, t)
		}
		if err != nil {
			s.dead = true
			lines = append(lines, "(error \"solver pipe closed\")")
			break
		}
	}
	return lines
}

// Check decides the current assertions plus the optional extra assertion.
// Result: "sat", "unsat", or "unknown" (timeouts, errors and anything else).
func (s *Solver) Check(extra string) string {
	t0 := time.Now()
	var lines []string
	if as := s.scopeAsserts(extra); len(as) > 0 {
		s.raw("(push 1)")
		for _, a := range as {
			s.raw(a)
		}
		lines = s.roundTrip("(check-sat)")
		s.raw("(pop 1)")
	} else {
		lines = s.roundTrip("(check-sat)")
	}
	s.Stats.Seconds += time.Since(t0).Seconds()
	if d := os.Getenv("VERIF_SLOWQ"); d != "" && time.Since(t0) > 5*time.Second {
		s.nslow++
		os.WriteFile(fmt.Sprintf("%s/slowq-%d-%d.smt2", d, os.Getpid(), s.nslow), []byte(s.Script(extra)), 0o644)
	}
	res := "unknown"
	bad := false
	for _, l := range lines {
		switch {
		case strings.HasPrefix(l, "(error"):
			bad = true
		case l == "sat" || l == "unsat":
			res = l
		}
	}
	if bad {
		s.Stats.Errors++
		res = "unknown"
	}
	switch res {
	case "sat":
		s.Stats.Sat++
	case "unsat":
		s.Stats.Unsat++
	default:
		s.Stats.Unknown++
	}
	return res
}

// QuickCheck is Check(extra) under a short time limit (z3 only; other solvers answer "unknown"
// at once). "sat"/"unsat" are as definitive as from Check; "unknown" only means: ask again in full.
func (s *Solver) QuickCheck(extra string, ms int) string {
	if !strings.HasPrefix(s.Kind, "z3") || s.dead {
		return "unknown"
	}
	t0 := time.Now()
	s.raw(fmt.Sprintf("(set-option :timeout %d)", ms))
	s.raw("(push 1)")
	for _, a := range s.scopeAsserts(extra) {
		s.raw(a)
	}
	lines := s.roundTrip("(check-sat)")
	s.raw("(pop 1)")
	s.raw(fmt.Sprintf("(set-option :timeout %d)", s.TimeMS))
	s.Stats.Seconds += time.Since(t0).Seconds()
	res := "unknown"
	for _, l := range lines {
		switch {
		case strings.HasPrefix(l, "(error"):
			return "unknown"
		case l == "sat" || l == "unsat":
			res = l
		}
	}
	switch res {
	case "sat":
		s.Stats.Sat++
	case "unsat":
		s.Stats.Unsat++
	}
	return res
}

// CheckModel is Check(extra) that, on sat, also returns the values of names.
func (s *Solver) CheckModel(extra string, names []string) (string, map[string]string) {
	t0 := time.Now()
	defer func() { s.Stats.Seconds += time.Since(t0).Seconds() }()
	if as := s.scopeAsserts(extra); len(as) > 0 {
		s.raw("(push 1)")
		for _, a := range as {
			s.raw(a)
		}
		defer s.raw("(pop 1)")
	}
	lines := s.roundTrip("(check-sat)")
	res := "unknown"
	for _, l := range lines {
		if strings.HasPrefix(l, "(error") {
			s.Stats.Errors++
			s.Stats.Unknown++
			return "unknown", nil
		}
		if l == "sat" || l == "unsat" {
			res = l
		}
	}
	switch res {
	case "unsat":
		s.Stats.Unsat++
		return res, nil
	case "unknown":
		s.Stats.Unknown++
		return res, nil
	}
	s.Stats.Sat++
	vals := map[string]string{}
	for i := 0; i < len(names); i += 40 {
		j := i + 40
		if j > len(names) {
			j = len(names)
		}
		out := strings.Join(s.roundTrip("(get-value ("+strings.Join(names[i:j], " ")+"))"), " ")
		for k, v := range parseGetValue(out) {
			vals[k] = v
		}
	}
	return res, vals
}

// Script returns a standalone SMT-LIB2 script deciding the current path plus extra.
func (s *Solver) Script(extra string) string {
	var b strings.Builder
	b.WriteString("(set-logic ALL)\n")
	for _, l := range s.script {
		b.WriteString(l)
		b.WriteByte('\n')
	}
	for _, a := range s.scopeAsserts(extra) {
		b.WriteString(a + "\n")
	}
	b.WriteString("(check-sat)\n")
	return b.String()
}

// parseGetValue parses "((a v) (b v) ...)" into a map.
func parseGetValue(s string) map[string]string {
	res := map[string]string{}
	toks := sexprSplitTop(s)
	if len(toks) != 1 {
		return res
	}
	inner := strings.TrimSpace(toks[0])
	if len(inner) < 2 {
		return res
	}
	for _, pair := range sexprSplitTop(inner[1 : len(inner)-1]) {
		pair = strings.TrimSpace(pair)
		if len(pair) < 2 || pair[0] != '(' {
			continue
		}
		kv := sexprSplitTop(pair[1 : len(pair)-1])
		if len(kv) == 2 {
			res[kv[0]] = kv[1]
		}
	}
	return res
}

// sexprSplitTop splits s into its top-level s-expressions / atoms.
func sexprSplitTop(s string) []string {
	var out []string
	depth := 0
	start := -1
	inStr := false
	for i := 0; i < len(s); i++ {
		c := s[i]
		if inStr {
			if c == '"' {
				if i+1 < len(s) && s[i+1] == '"' {
					i++
					continue
				}
				inStr = false
				if depth == 0 {
					out = append(out, s[start:i+1])
					start = -1
				}
			}
			continue
		}
		switch c {
		case '"':
			inStr = true
			if depth == 0 && start < 0 {
				start = i
			}
		case '(':
			if depth == 0 && start < 0 {
				start = i
			}
			depth++
		case ')':
			depth--
			if depth == 0 && start >= 0 {
				out = append(out, s[start:i+1])
				start = -1
			}
		case ' ', '\t', '\n', '\r':
			if depth == 0 && start >= 0 {
				out = append(out, s[start:i])
				start = -1
			}
		default:
			if depth == 0 && start < 0 {
				start = i
			}
		}
	}
	if start >= 0 {
		out = append(out, s[start:])
	}
	return out
}

// RunStandalone decides a script with a fresh process of the given solver kind.
func RunStandalone(kind, script string, timeoutMS int) string {
	argv := solverArgv(kind, timeoutMS)
	cmd := exec.Command(argv[0], argv[1:]...)
	cmd.Stdin = strings.NewReader(script)
	out, _ := cmd.CombinedOutput()
	res := "unknown"
	for _, l := range strings.Split(string(out), "\n") {
		l = strings.TrimSpace(l)
		if strings.HasPrefix(l, "(error") {
			return "unknown"
		}
		if l == "sat" || l == "unsat" {
			res = l
		}
	}
	return res
}

// fallbackKinds lists the solvers tried (as fresh processes on the standalone script) when the
// live solver answers unknown for an obligation or a model request.
func fallbackKinds(kind string) []string {
	switch kind {
	case "z3":
		return []string{"z3-new", "cvc5"}
	case "z3-new":
		return []string{"cvc5", "z3"}
	}
	return []string{"z3-new", "z3"}
}

// FallbackCheck re-decides the current path plus extra with the other solvers.
func (s *Solver) FallbackCheck(extra string) string {
	script := s.Script(extra)
	for _, k := range fallbackKinds(s.Kind) {
		t0 := time.Now()
		r := RunStandalone(k, script, s.TimeMS)
		s.Stats.Seconds += time.Since(t0).Seconds()
		if r == "sat" || r == "unsat" {
			return r
		}
	}
	return "unknown"
}

// FallbackModel asks the other solvers for a model of the current path plus extra.
func (s *Solver) FallbackModel(extra string, names []string) (string, map[string]string) {
	if len(names) == 0 {
		return s.FallbackCheck(extra), map[string]string{}
	}
	script := "(set-option :produce-models true)\n" + strings.TrimSuffix(s.Script(extra), "(check-sat)\n") + "(check-sat)\n(get-value (" + strings.Join(names, " ") + "))\n"
	for _, k := range fallbackKinds(s.Kind) {
		argv := solverArgv(k, s.TimeMS)
		var args []string
		for _, a := range argv[1:] {
			if a != "-in" && a != "--incremental" {
				args = append(args, a)
			}
		}
		if k != "cvc5" {
			args = append(args, "-in")
		}
		cmd := exec.Command(argv[0], args...)
		cmd.Stdin = strings.NewReader(script)
		t0 := time.Now()
		out, _ := cmd.CombinedOutput()
		s.Stats.Seconds += time.Since(t0).Seconds()
		text := string(out)
		if strings.Contains(text, "(error") {
			continue
		}
		lines := strings.SplitN(strings.TrimSpace(text), "\n", 2)
		if len(lines) == 0 {
			continue
		}
		switch strings.TrimSpace(lines[0]) {
		case "unsat":
			return "unsat", nil
		case "sat":
			if len(lines) > 1 {
				return "sat", parseGetValue(strings.Join(strings.Fields(lines[1]), " "))
			}
		}
	}
	return "unknown", nil
}
