package sym

// More intrinsics: unsafe helpers, reflection-dependent std entry points, sort.Slice.

import (
	"go/token"
	"go/types"

	"golang.org/x/tools/go/ssa"
)

func init() {
	reg := func(name string, h handler) { intrinsics[name] = h }

	reg("internal/abi.NoEscape", func(in *Interp, fr *frame, a []value) value { return a[0] })
	reg("internal/abi.Escape", func(in *Interp, fr *frame, a []value) value { return a[0] })
	reg("(*strings.Builder).copyCheck", func(in *Interp, fr *frame, a []value) value { return nil })

	// context.WithValue: the real body asks reflectlite whether the key is comparable
	reg("context.WithValue", func(in *Interp, fr *frame, a []value) value {
		parent := a[0].(iface)
		if parent.t == nil {
			in.runtimePanic("cannot create context from nil parent")
		}
		key := a[1].(iface)
		if key.t == nil {
			in.runtimePanic("nil key")
		}
		if !types.Comparable(key.t) {
			in.runtimePanic("key is not comparable")
		}
		vt := in.P.Pkgs["context"].Type("valueCtx").Type()
		var cell value = structure{parent, key, a[2]}
		return iface{t: types.NewPointer(vt), v: &cell}
	})

	// sort.Slice / sort.SliceStable / sort.SliceIsSorted: insertion sort through the less func
	sortSlice := func(in *Interp, fr *frame, a []value) value {
		x := a[0].(iface)
		xs, ok := x.v.([]value)
		if !ok {
			in.runtimePanic("sort.Slice: not a slice")
		}
		less := a[1]
		lt := func(i, j int) bool {
			r := in.call(fr, token.NoPos, less, []value{uint64(i), uint64(j)})
			switch r := r.(type) {
			case bool:
				return r
			case *sym:
				return in.branch(r, "sort-less")
			}
			panic("sort less result")
		}
		for i := 1; i < len(xs); i++ {
			for j := i; j > 0 && lt(j, j-1); j-- {
				xs[j], xs[j-1] = xs[j-1], xs[j]
			}
		}
		return nil
	}
	reg("sort.Slice", sortSlice)
	reg("sort.SliceStable", sortSlice)
	reg("sort.SliceIsSorted", func(in *Interp, fr *frame, a []value) value {
		xs := a[0].(iface).v.([]value)
		for i := len(xs) - 1; i > 0; i-- {
			r := in.call(fr, token.NoPos, a[1], []value{uint64(i), uint64(i - 1)})
			b, ok := r.(bool)
			if !ok {
				b = in.branch(r.(*sym), "sort-less")
			}
			if b {
				return false
			}
		}
		return true
	})
}

// unsafe builtins of go/ssa: unsafe.String, StringData, Slice, SliceData, Add.
type rawData struct {
	s []value
}

func (in *Interp) callUnsafeBuiltin(fn *ssa.Builtin, args []value) (value, bool) {
	switch fn.Name() {
	case "SliceData":
		xs := args[0].([]value)
		return &rawData{s: xs[:cap(xs)]}, true
	case "StringData":
		switch s := args[0].(type) {
		case string:
			return &rawData{s: []value(stringToBstr(s))}, true
		case bstr:
			return &rawData{s: []value(s)}, true
		}
	case "String":
		n := int(in.concInt(args[1], "unsafe.String"))
		switch p := args[0].(type) {
		case *rawData:
			return normStr(bstr(append([]value(nil), p.s[:n]...))), true
		case *value:
			if n == 0 {
				return "", true
			}
			if n == 1 && p != nil {
				return normStr(bstr{*p}), true
			}
		}
	case "Slice":
		n := int(in.concInt(args[1], "unsafe.Slice"))
		switch p := args[0].(type) {
		case *rawData:
			return p.s[:n:n], true
		case *value:
			if n == 0 || p == nil {
				return []value(nil), true
			}
		}
	}
	return nil, false
}
