package sym

// strings.ToLower / ToUpper on a solver-level string with a solver that has no case mapping
// (z3): the result is the term (verif!lower s) of an uninterpreted function. Tests of that
// result against a CONCRETE pattern (strings.Contains / HasPrefix / HasSuffix) are expressed
// exactly (for ASCII subjects, which the harnesses assume) as regular-language membership of the
// ORIGINAL string: contains(lower(s), c) <=> s in .* fold(c) .*  when c has no upper-case
// letter, and false otherwise. Every other use of the result sees an unconstrained string of the
// same length (an over-approximation: spurious counterexamples fail the native replay).

import (
	"strings"
)

const lowerViewDecl = "(declare-fun verif!lower (String) String)"
const upperViewDecl = "(declare-fun verif!upper (String) String)"

func (in *Interp) caseView(s *sym, op string) value {
	decl := lowerViewDecl
	if op == "upper" {
		decl = upperViewDecl
	}
	have := false
	for _, l := range in.solver.script {
		if l == decl {
			have = true
			break
		}
	}
	if !have {
		in.solver.Send(decl)
	}
	r := &sym{k: sStr, t: "(verif!" + op + " " + s.t + ")"}
	in.solver.Send("(assert (= (str.len " + r.t + ") (str.len " + s.t + ")))")
	if m, ok := in.strMax[s.t]; ok {
		in.strMax[r.t] = m
	}
	return r
}

// caseViewTest handles name(view, concrete) for Contains/HasPrefix/HasSuffix; nil = not a case view.
func (in *Interp) caseViewTest(name string, a []value) value {
	if b, ok := a[0].(bstr); ok && name == "strings.Contains" {
		return in.bstrContains(b, a[1])
	}
	v, ok := isSymStr(a[0])
	if !ok {
		return nil
	}
	op := ""
	switch {
	case strings.HasPrefix(v.t, "(verif!lower "):
		op = "lower"
	case strings.HasPrefix(v.t, "(verif!upper "):
		op = "upper"
	default:
		return nil
	}
	c, ok := normStr(a[1]).(string)
	if !ok {
		return nil
	}
	inner := v.t[len("(verif!lower ") : len(v.t)-1]
	for i := 0; i < len(c); i++ {
		ch := c[i]
		if ch >= 0x80 {
			panic(unsupported{name + " of a case-mapped solver-level string with a non-ASCII pattern"})
		}
		if (op == "lower" && ch >= 'A' && ch <= 'Z') || (op == "upper" && ch >= 'a' && ch <= 'z') {
			return false
		}
	}
	all := "(re.* re.allchar)"
	var re string
	switch name {
	case "strings.Contains":
		re = "(re.++ " + all + " " + foldRe(c) + " " + all + ")"
	case "strings.HasPrefix":
		re = "(re.++ " + foldRe(c) + " " + all + ")"
	case "strings.HasSuffix":
		re = "(re.++ " + all + " " + foldRe(c) + ")"
	default:
		return nil
	}
	return in.mk(sBool, 0, "(str.in_re "+inner+" "+re+")")
}

// bstrContains: strings.Contains of a byte-vector string with symbolic bytes and a concrete
// pattern as one bit-vector formula (no fork): OR over the positions of AND of byte equalities.
func (in *Interp) bstrContains(b bstr, pat value) value {
	if _, conc := bstrToString(b); conc {
		return nil
	}
	c, ok := normStr(pat).(string)
	if !ok {
		return nil
	}
	if len(c) == 0 {
		return true
	}
	var alts []string
	for i := 0; i+len(c) <= len(b); i++ {
		var eqs []string
		possible := true
		for j := 0; j < len(c) && possible; j++ {
			switch x := b[i+j].(type) {
			case uint64:
				if byte(x) != c[j] {
					possible = false
				}
			case *sym:
				eqs = append(eqs, "(= "+x.t+" "+bvLit(8, uint64(c[j]))+")")
			}
		}
		if !possible {
			continue
		}
		switch len(eqs) {
		case 0:
			return true
		case 1:
			alts = append(alts, eqs[0])
		default:
			alts = append(alts, "(and "+strings.Join(eqs, " ")+")")
		}
	}
	switch len(alts) {
	case 0:
		return false
	case 1:
		return in.mk(sBool, 0, alts[0])
	}
	return in.mk(sBool, 0, "(or "+strings.Join(alts, " ")+")")
}
