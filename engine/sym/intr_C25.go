package sym

// os.NewFile (introduced for C25): the initializer of package os builds Stdin/Stdout/Stderr with
// NewFile, which reaches the body-less internal/syscall/unix.fcntl, so the three variables used
// to be poisoned and a mere `log.New(os.Stderr, ...)` in a constructor ended the path as
// unsupported. NewFile now yields an opaque *os.File (zero value); any I/O on it still runs into
// the unsupported file-descriptor code and stops the path (fail closed), loggers are skipped anyway.

func init() {
	intrinsics["os.NewFile"] = func(in *Interp, fr *frame, a []value) value {
		t := in.P.Pkgs["os"].Type("File").Type()
		var cell value = zero(t)
		return &cell
	}
}
