package sym

// strings.* on solver-level strings (SMT String sort): expressed as string-theory terms, so
// that code which pre-processes a symbolic text (TrimSpace, HasPrefix, EqualFold, slicing) does
// not fork per byte. With concrete arguments the real bodies run from SSA.

import (
	"fmt"
	"strings"
	"unicode"
)

func isSymStr(v value) (*sym, bool) {
	s, ok := v.(*sym)
	return s, ok && s.k == sStr
}

// foldRe returns a RegLan matching s under simple ASCII case folding.
func foldRe(s string) string {
	if s == "" {
		return `(str.to_re "")`
	}
	var parts []string
	for i := 0; i < len(s); i++ {
		c := rune(s[i])
		if c < 0x80 && unicode.IsLetter(c) {
			parts = append(parts, "(re.union "+regChar(unicode.ToLower(c))+" "+regChar(unicode.ToUpper(c))+")")
		} else {
			parts = append(parts, regChar(c))
		}
	}
	if len(parts) == 1 {
		return parts[0]
	}
	return "(re.++ " + strings.Join(parts, " ") + ")"
}

const wsRe = `(re.union (str.to_re " ") (re.range "\u{9}" "\u{d}"))` // ASCII white space of unicode.IsSpace below 0x80

// freshStr declares an auxiliary (not harness-visible) string constant.
func (in *Interp) freshStr(hint string) *sym {
	in.solver.nname++
	name := fmt.Sprintf("aux!%s!%d", hint, in.solver.nname)
	in.solver.Send("(declare-const " + name + " String)")
	return &sym{k: sStr, t: name}
}

func init() {
	reg := func(name string, h handler) { intrinsics[name] = h }

	reg("strings.TrimSpace", func(in *Interp, fr *frame, a []value) value {
		s, ok := isSymStr(a[0])
		if !ok {
			return notHandled
		}
		pre, mid, post := in.freshStr("pre"), in.freshStr("trim"), in.freshStr("post")
		in.solver.Send("(assert (= " + s.t + " (str.++ " + pre.t + " " + mid.t + " " + post.t + ")))")
		in.solver.Send("(assert (str.in_re " + pre.t + " (re.* " + wsRe + ")))")
		in.solver.Send("(assert (str.in_re " + post.t + " (re.* " + wsRe + ")))")
		in.solver.Send("(assert (not (str.in_re " + mid.t + " (re.++ " + wsRe + " (re.* re.allchar)))))")
		in.solver.Send("(assert (not (str.in_re " + mid.t + " (re.++ (re.* re.allchar) " + wsRe + "))))")
		if m, ok := in.strMax[s.t]; ok {
			in.strMax[mid.t] = m
		}
		return mid
	})
	reg("strings.EqualFold", func(in *Interp, fr *frame, a []value) value {
		x, xs := isSymStr(a[0])
		y, ys := isSymStr(a[1])
		switch {
		case xs && !ys:
			if c, ok := normStr(a[1]).(string); ok {
				return in.mk(sBool, 0, "(str.in_re "+x.t+" "+foldRe(c)+")")
			}
		case ys && !xs:
			if c, ok := normStr(a[0]).(string); ok {
				return in.mk(sBool, 0, "(str.in_re "+y.t+" "+foldRe(c)+")")
			}
		case !xs && !ys:
			return notHandled
		}
		panic(unsupported{"strings.EqualFold on two symbolic strings"})
	})
	two := func(name, op string, swap bool) {
		reg(name, func(in *Interp, fr *frame, a []value) value {
			if v := in.caseViewTest(name, a); v != nil { // intr_C14.go
				return v
			}
			_, xs := isSymStr(a[0])
			_, ys := isSymStr(a[1])
			if !xs && !ys {
				return notHandled
			}
			x, y := in.strOf(a[0]), in.strOf(a[1])
			if swap {
				x, y = y, x
			}
			return in.mk(sBool, 0, "("+op+" "+x+" "+y+")")
		})
	}
	two("strings.HasPrefix", "str.prefixof", true)
	two("strings.HasSuffix", "str.suffixof", true)
	two("strings.Contains", "str.contains", false)
	reg("strings.Index", func(in *Interp, fr *frame, a []value) value {
		_, xs := isSymStr(a[0])
		_, ys := isSymStr(a[1])
		if !xs && !ys {
			return notHandled
		}
		// -1 or the index: int2bv of a negative Int wraps to 2^64-1 = -1 as int
		return in.mk(sBV, 64, "((_ int2bv 64) (str.indexof "+in.strOf(a[0])+" "+in.strOf(a[1])+" 0))")
	})
	reg("strings.TrimPrefix", func(in *Interp, fr *frame, a []value) value {
		s, xs := isSymStr(a[0])
		if !xs {
			return notHandled
		}
		p := in.strOf(a[1])
		return in.mk(sStr, 0, "(ite (str.prefixof "+p+" "+s.t+") (str.substr "+s.t+" (str.len "+p+") (str.len "+s.t+")) "+s.t+")")
	})
	reg("strings.TrimSuffix", func(in *Interp, fr *frame, a []value) value {
		s, xs := isSymStr(a[0])
		if !xs {
			return notHandled
		}
		p := in.strOf(a[1])
		return in.mk(sStr, 0, "(ite (str.suffixof "+p+" "+s.t+") (str.substr "+s.t+" 0 (- (str.len "+s.t+") (str.len "+p+"))) "+s.t+")")
	})
	lower := func(op string) handler {
		return func(in *Interp, fr *frame, a []value) value {
			s, xs := isSymStr(a[0])
			if !xs {
				if b, ok := a[0].(bstr); ok {
					// byte vector: per-byte ite, no fork
					out := make(bstr, len(b))
					for i, c := range b {
						cs, isSym := c.(*sym)
						if !isSym {
							r := rune(c.(uint64))
							if op == "lower" && r >= 'A' && r <= 'Z' {
								r += 'a' - 'A'
							}
							if op == "upper" && r >= 'a' && r <= 'z' {
								r -= 'a' - 'A'
							}
							out[i] = uint64(r)
							continue
						}
						lo, hi, d := "#x41", "#x5a", "#x20"
						f := "bvadd"
						if op == "upper" {
							lo, hi, f = "#x61", "#x7a", "bvsub"
						}
						out[i] = in.mk(sBV, 8, "(ite (and (bvuge "+cs.t+" "+lo+") (bvule "+cs.t+" "+hi+")) ("+f+" "+cs.t+" "+d+") "+cs.t+")")
					}
					return out
				}
				return notHandled
			}
			if in.solver.Kind == "cvc5" {
				return in.mk(sStr, 0, "(str.to_"+op+" "+s.t+")")
			}
			return in.caseView(s, op) // z3 has no case mapping: see intr_C14.go
		}
	}
	reg("strings.ToLower", lower("lower"))
	reg("strings.ToUpper", lower("upper"))
}
