package sym

// sync.Pool with reuse (added for C30c: ownership of encoded results).
//
// The default Pool intrinsic (stdlib.go) never hands an object out twice: Put drops it, Get calls
// New. That is a legal behaviour of sync.Pool, but it hides every defect of the form "something
// that was put back into the pool is still referenced". A harness that calls verifPoolReuse()
// (declare `func verifPoolReuse() {}` in the harness, like verifAbstractLen) switches, for the
// rest of the path, to a pool that remembers what was Put:
//
//   - Get called from the instrumented package (spec "package" / "instr_pkgs") returns one of the
//     objects currently in the pool or a fresh New() - which one is a choice (one path each; the
//     first explored path takes the object put last, what a single P does natively);
//   - Get and Put called from the instrumented package are scheduling points: the executor may
//     switch before the operation, and - for Put - also right after it (an object that is back in
//     the pool while its former owner still runs is the interesting window). Both are recorded in
//     the scheduling-point trace (before and after the statement), which is where the native
//     instrumentation places verifSP() (instrument.go spCallees);
//   - a deferred Get/Put is not a scheduling point (the native instrumentation has no place for
//     it), the pool semantics are the same;
//   - pools used by other packages (encoding/json's scanner pool, fmt ...) keep the default
//     behaviour: no reuse, no fork.

import (
	"go/token"

	"golang.org/x/tools/go/ssa"
)

type poolState struct{ items []value }

// poolReuseKey marks the opt-in in Interp.sideState (per path).
var poolReuseKey = new(value)

// verifPoolReuseAPI is registered in verifAPI (intrinsics.go).
func verifPoolReuseAPI(in *Interp, fr *frame, a []value) value {
	in.sideState[poolReuseKey] = true
	return nil
}

func (in *Interp) poolReuseOn(fr *frame) bool {
	if _, on := in.sideState[poolReuseKey]; !on {
		return false
	}
	return fr.caller != nil && in.instrumented(fr.caller.fn)
}

func (in *Interp) poolStateOf(p value) *poolState {
	ptr := p.(*value)
	if ptr == nil {
		in.runtimePanic("invalid memory address or nil pointer dereference")
	}
	st, _ := in.sideState[ptr].(*poolState)
	if st == nil {
		st = &poolState{}
		in.sideState[ptr] = st
	}
	return st
}

// poolCallDeferred: the call being dispatched in fr is one of the deferred calls of its caller.
func poolCallDeferred(fr *frame) bool {
	for d := fr.caller.defers; d != nil; d = d.tail {
		if f, ok := d.fn.(*ssa.Function); ok && f == fr.fn && len(d.args) > 0 {
			return true
		}
	}
	return false
}

// poolNew calls the pool's New function, if it has one (the function-typed field of the struct).
func poolNew(in *Interp, fr *frame, a []value) value {
	st := (*a[0].(*value)).(structure)
	for i := len(st) - 1; i >= 0; i-- {
		switch f := st[i].(type) {
		case *ssa.Function:
			if f != nil {
				return in.call(fr, token.NoPos, f, nil)
			}
		case *closure:
			if f != nil {
				return in.call(fr, token.NoPos, f, nil)
			}
		}
	}
	return iface{}
}

// poolReuseGet implements (*sync.Pool).Get in reuse mode; ok=false: not in reuse mode.
func poolReuseGet(in *Interp, fr *frame, a []value) (value, bool) {
	if !in.poolReuseOn(fr) {
		return nil, false
	}
	st := in.poolStateOf(a[0])
	sp := !poolCallDeferred(fr)
	if sp {
		in.spPending = true
		in.yield()
	}
	var r value
	taken := false
	if n := len(st.items); n > 0 {
		if k := in.choose(n+1, "pool-get"); k < n {
			i := n - 1 - k
			r = st.items[i]
			st.items = append(st.items[:i:i], st.items[i+1:]...)
			taken = true
		}
	}
	if !taken {
		r = poolNew(in, fr, a)
	}
	if sp {
		in.spPost(fr.caller.fn)
	}
	return r, true
}

// poolReusePut implements (*sync.Pool).Put in reuse mode; false: not in reuse mode.
func poolReusePut(in *Interp, fr *frame, a []value) bool {
	if !in.poolReuseOn(fr) {
		return false
	}
	st := in.poolStateOf(a[0])
	sp := !poolCallDeferred(fr)
	if sp {
		in.spPending = true
		in.yield()
	}
	if x, isIface := a[1].(iface); !isIface || x.t != nil { // Put(nil) is a no-op
		st.items = append(st.items, a[1])
	}
	if sp {
		// "operation completed" scheduling point, with a switch possible before it
		in.spPending = true
		in.yield()
	}
	return true
}
