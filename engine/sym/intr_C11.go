package sym

// Intrinsics added for C11 (snapshot LockingStreamer idle timer).
//
// time.Unix(0, ns): the code under test stores time.Now().UnixNano() in an atomic and later
// rebuilds the instant with time.Unix(0, ns) to compute time.Since(). On the model clock
// (time.Time).UnixNano of a model instant is its model nanosecond count, so time.Unix(0, ns)
// is the model instant at ns. Any other use (sec != 0 or symbolic sec) runs the real body.

func init() {
	intrinsics["time.Unix"] = func(in *Interp, fr *frame, a []value) value {
		sec, ok := a[0].(uint64)
		if !ok || sec != 0 {
			return notHandled
		}
		return in.timeValue(a[1])
	}
}
