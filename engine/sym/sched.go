package sym

// Goroutines as cooperative coroutines, channels, select, timers and the sync intrinsics' state.
// Each interpreted goroutine runs on its own real goroutine, but only the holder of the baton
// (sched.cur) executes; hand-offs happen only at scheduling points, and every choice among
// several runnable goroutines is a recorded decision of the path (so it is explored).

import (
	"fmt"
	"go/token"
	"go/types"

	"golang.org/x/tools/go/ssa"
)

type goroutine struct {
	id      int
	wake    chan struct{}
	done    bool
	ready   func() bool // nil: runnable
	why     string
	waiting []selCase
	fired   int
	recvVal value
	recvOk  bool
	name    string
	nid     int // id in the native replay (-1: not created by instrumented code)
	parkSeq int // when it parked on its channel operation (FIFO service order)
}

type sched struct {
	gs       []*goroutine
	cur      *goroutine
	dead     bool
	switches int
	doneCh   chan pathEnd
	live     int
	parkCounter int
}

type channel struct {
	id     int
	cap    int
	buf    []value
	closed bool
	elem   types.Type
}

type selCase struct {
	ch   *channel
	send bool
	val  value
}

type timer struct {
	deadline value // int64 ns
	ch       *channel
	fn       value
	active   bool
	period   value // for tickers (nil otherwise)
	tval     value // the time.Time value to deliver
}

func (in *Interp) newChan(n int, elem types.Type) *channel {
	c := &channel{cap: n, elem: elem}
	c.id = in.objID(c)
	return c
}

func (in *Interp) objID(o any) int {
	if id, ok := in.objIDs[o]; ok {
		return id
	}
	id := len(in.objIDs) + 1
	in.objIDs[o] = id
	return id
}

// spawn starts a new interpreted goroutine (not scheduled until the next scheduling point).
func (in *Interp) spawn(fn value, args []value, pos token.Pos) *goroutine {
	s := in.sched
	g := &goroutine{id: len(s.gs), wake: make(chan struct{}), fired: -1, nid: -1}
	if f, ok := fn.(*ssa.Function); ok && f != nil {
		g.name = f.String()
	} else if c, ok := fn.(*closure); ok {
		g.name = c.Fn.String()
	}
	s.gs = append(s.gs, g)
	s.live++
	in.realWG.Add(1)
	go func() {
		defer in.realWG.Done()
		<-g.wake
		defer func() {
			r := recover()
			in.goroutineExit(g, r)
		}()
		if s.dead {
			panic(pathAbort{})
		}
		in.call(nil, pos, fn, args)
	}()
	return g
}

// goroutineExit runs on the real goroutine of g when its function returned or panicked.
func (in *Interp) goroutineExit(g *goroutine, r any) {
	s := in.sched
	g.done = true
	s.live--
	switch r := r.(type) {
	case nil:
		// normal return: hand the baton to someone else
		if g.id == 0 {
			s.finish(pathEnd{"ok", ""})
			return
		}
		func() {
			defer func() {
				if r2 := recover(); r2 != nil {
					in.goroutineExitPanic(r2)
				}
			}()
			in.reschedule(g, true)
		}()
	default:
		in.goroutineExitPanic(r)
	}
}

func (in *Interp) goroutineExitPanic(r any) {
	s := in.sched
	switch r := r.(type) {
	case pathAbort:
		s.finishAck()
	case pathEnd:
		s.finish(r)
	case unsupported:
		s.finish(pathEnd{"inconclusive", "unsupported: " + r.what + " (at " + in.pos() + ")"})
	case targetPanic:
		s.finish(pathEnd{"panic", r.String() + " (at " + in.pos() + ")"})
	default:
		s.finish(pathEnd{"inconclusive", fmt.Sprintf("engine panic: %v (at %s)", r, in.pos())})
	}
}

// finish reports the end of the path to the driver (first report wins).
func (s *sched) finish(pe pathEnd) {
	select {
	case s.doneCh <- pe:
	default:
	}
}
func (s *sched) finishAck() {}

// runnable returns the goroutines that can run now.
func (in *Interp) runnable() []*goroutine {
	var out []*goroutine
	for _, g := range in.sched.gs {
		if g.done {
			continue
		}
		if g.ready == nil || g.ready() {
			out = append(out, g)
		}
	}
	return out
}

// reschedule picks the next goroutine. If exiting is true the current goroutine is finished
// and does not wait to be woken again.
func (in *Interp) reschedule(me *goroutine, exiting bool) {
	s := in.sched
	for {
		in.fireDueTimers()
		rs := in.runnable()
		if len(rs) == 0 {
			if in.advanceClockToNextTimer() {
				continue
			}
			// deadlock
			if in.allowDead {
				panic(pathEnd{"ok", "all goroutines blocked (allowed by harness)"})
			}
			desc := ""
			for _, g := range s.gs {
				if !g.done {
					desc += fmt.Sprintf(" g%d(%s):%s", g.id, g.name, g.why)
				}
			}
			panic(pathEnd{"deadlock", "all goroutines blocked:" + desc})
		}
		// order: current first (if runnable), so that the first explored path has no switch
		idx := 0
		if len(rs) > 1 {
			for i, g := range rs {
				if g == me {
					rs[0], rs[i] = rs[i], rs[0]
				}
			}
			preempt := !exiting && rs[0] == me
			maxPreempt, schedFirst, blockFirst := in.schedMode() // entry configuration, or a verifSchedWindow
			if preempt && s.switches >= maxPreempt {
				idx = 0
			} else if schedFirst || (blockFirst && !preempt) {
				idx = 0
			} else {
				idx = in.choose(len(rs), "sched")
				if preempt && idx != 0 {
					s.switches++
				}
			}
		}
		next := rs[idx]
		if next == me && !exiting {
			return
		}
		s.cur = next
		next.wake <- struct{}{}
		if exiting {
			return
		}
		<-me.wake
		if s.dead {
			panic(pathAbort{})
		}
		return
	}
}

// yield is a scheduling point for the running goroutine.
func (in *Interp) yield() {
	s := in.sched
	if s.live <= 1 && len(in.timers) == 0 {
		in.spRecord()
		return
	}
	// the pending-scheduling-point flag belongs to this goroutine: goroutines that run while it
	// is switched out set and consume the flag for their own operations
	pending := in.spPending
	in.spPending = false
	in.reschedule(s.cur, false)
	in.spPending = pending
	in.spRecord()
}

// block parks the current goroutine until ready() holds.
func (in *Interp) block(why string, ready func() bool) {
	me := in.sched.cur
	for !ready() {
		me.ready = ready
		me.why = why
		in.reschedule(me, false)
		me.ready = nil
		me.why = ""
	}
}

// ---------------------------------------------------------------------------
// channels

// parkedOn returns the goroutine that has been parked longest on ch in the given direction
// (the Go runtime serves waiters in FIFO order).
func (in *Interp) parkedOn(ch *channel, send bool) (*goroutine, int) {
	var best *goroutine
	bj := -1
	for _, g := range in.sched.gs {
		if g.done || g == in.sched.cur || g.fired >= 0 {
			continue
		}
		for j, c := range g.waiting {
			if c.ch == ch && c.send == send {
				if best == nil || g.parkSeq < best.parkSeq {
					best, bj = g, j
				}
				break
			}
		}
	}
	return best, bj
}

func (in *Interp) caseReady(c selCase) bool {
	if c.ch == nil {
		return false
	}
	if c.send {
		if c.ch.closed {
			return true // will panic
		}
		if len(c.ch.buf) < c.ch.cap {
			return true
		}
		g, _ := in.parkedOn(c.ch, false)
		return g != nil
	}
	if len(c.ch.buf) > 0 || c.ch.closed {
		return true
	}
	g, _ := in.parkedOn(c.ch, true)
	return g != nil
}

// perform executes a ready case; for receives it returns (value, ok).
func (in *Interp) perform(c selCase) (value, bool) {
	ch := c.ch
	if c.send {
		if ch.closed {
			in.runtimePanic("send on closed channel")
		}
		if g, j := in.parkedOn(ch, false); g != nil && len(ch.buf) == 0 {
			g.fired, g.recvVal, g.recvOk = j, c.val, true
			g.waiting = nil
			return nil, false
		}
		ch.buf = append(ch.buf, c.val)
		return nil, false
	}
	if len(ch.buf) > 0 {
		v := ch.buf[0]
		ch.buf = ch.buf[1:]
		// a sender parked on the full buffer is completed right away (runtime behaviour)
		if g, j := in.parkedOn(ch, true); g != nil && !ch.closed {
			ch.buf = append(ch.buf, g.waiting[j].val)
			g.fired = j
			g.waiting = nil
		}
		return v, true
	}
	if g, j := in.parkedOn(ch, true); g != nil {
		v := g.waiting[j].val
		g.fired = j
		g.waiting = nil
		return v, true
	}
	if ch.closed {
		return zero(ch.elem), false
	}
	panic("perform: case not ready")
}

// doSelect runs a select over cases; returns chosen index (-1 default), received value, ok.
func (in *Interp) doSelect(cases []selCase, blocking bool) (int, value, bool) {
	pending := in.spPending
	in.yield()
	pre := -1
	if pending && len(in.spTrace) > 0 {
		pre = len(in.spTrace) - 1 // yield has just recorded this operation's "before" scheduling point
	}
	me := in.sched.cur
	for {
		var ready []int
		for i, c := range cases {
			if in.caseReady(c) {
				ready = append(ready, i)
			}
		}
		if len(ready) > 0 {
			k := ready[0]
			if len(ready) > 1 {
				k = ready[in.choose(len(ready), "select")]
				if pre >= 0 {
					// the native choice is random: a replay with "force_select" takes this case
					in.selTrace = append(in.selTrace, [2]int{pre, k})
				}
			}
			v, ok := in.perform(cases[k])
			return k, v, ok
		}
		if !blocking {
			return -1, nil, false
		}
		me.waiting = cases
		me.fired = -1
		in.sched.parkCounter++
		me.parkSeq = in.sched.parkCounter
		in.block("chan", func() bool {
			if me.fired >= 0 {
				return true
			}
			for _, c := range cases {
				if in.caseReady(c) {
					return true
				}
			}
			return false
		})
		me.waiting = nil
		if me.fired >= 0 {
			k := me.fired
			me.fired = -1
			if cases[k].send {
				return k, nil, false
			}
			return k, me.recvVal, me.recvOk
		}
	}
}

func (in *Interp) chanSend(ch *channel, v value) {
	if ch == nil {
		in.block("send on nil chan", func() bool { return false })
	}
	in.doSelect([]selCase{{ch: ch, send: true, val: v}}, true)
}

func (in *Interp) chanRecv(ch *channel, commaOk bool, elem types.Type) value {
	if ch == nil {
		in.block("recv on nil chan", func() bool { return false })
	}
	_, v, ok := in.doSelect([]selCase{{ch: ch}}, true)
	if !ok {
		v = zero(elem)
	}
	if commaOk {
		return tuple{v, ok}
	}
	return v
}

func (in *Interp) chanClose(ch *channel) {
	if ch == nil {
		in.runtimePanic("close of nil channel")
	}
	if ch.closed {
		in.runtimePanic("close of closed channel")
	}
	ch.closed = true
	// a sender parked on a closed channel will panic when it wakes (caseReady is true)
}

func (in *Interp) selectOp(fr *frame, instr *ssa.Select) value {
	cases := make([]selCase, len(instr.States))
	for i, st := range instr.States {
		ch, _ := fr.get(st.Chan).(*channel)
		cases[i] = selCase{ch: ch, send: st.Dir == types.SendOnly}
		if st.Send != nil {
			cases[i].val = fr.get(st.Send)
		}
	}
	chosen, rv, rok := in.doSelect(cases, instr.Blocking)
	r := tuple{uint64(int64(chosen)), rok}
	for i, st := range instr.States {
		if st.Dir == types.RecvOnly {
			var v value
			if i == chosen && rok {
				v = rv
			} else {
				v = zero(st.Chan.Type().Underlying().(*types.Chan).Elem())
			}
			r = append(r, v)
		}
	}
	if chosen < 0 {
		r[0] = minusOne
	}
	return r
}

// ---------------------------------------------------------------------------
// model clock and timers

func (in *Interp) clockGE(deadline value) bool {
	t := types.Typ[types.Int64]
	c := in.binop(token.GEQ, t, t, in.clock, deadline)
	switch c := c.(type) {
	case bool:
		return c
	case *sym:
		return in.branch(c, "timer-due")
	}
	return false
}

func (in *Interp) fireDueTimers() {
	for _, t := range in.timers {
		if t.active && in.clockGE(t.deadline) {
			in.fireTimer(t)
		}
	}
}

func (in *Interp) fireTimer(t *timer) {
	// a callback that re-arms its own timer with a zero delay never lets the path end
	in.timerFires++
	if in.timerFires > 2000 {
		panic(pathEnd{"inconclusive", "more than 2000 timer firings on one path (timer livelock?)"})
	}
	t.active = false
	if t.period != nil {
		t64 := types.Typ[types.Int64]
		t.deadline = in.binop(token.ADD, t64, t64, t.deadline, t.period)
		t.active = true
	}
	if t.fn != nil {
		in.spawn(t.fn, nil, token.NoPos)
		return
	}
	if t.ch != nil && len(t.ch.buf) < t.ch.cap {
		t.ch.buf = append(t.ch.buf, in.timeValue(in.clock))
	}
}

// advanceClockToNextTimer moves the clock to the earliest active deadline (concrete
// deadlines only); returns false if there is no active timer.
func (in *Interp) advanceClockToNextTimer() bool {
	var best *timer
	t64 := types.Typ[types.Int64]
	for _, t := range in.timers {
		if !t.active {
			continue
		}
		if best == nil {
			best = t
			continue
		}
		c := in.binop(token.LSS, t64, t64, t.deadline, best.deadline)
		less := false
		switch c := c.(type) {
		case bool:
			less = c
		case *sym:
			less = in.branch(c, "timer-order")
		}
		if less {
			best = t
		}
	}
	if best == nil {
		return false
	}
	// clock := max(clock, deadline)
	if !in.clockGE(best.deadline) {
		in.clock = best.deadline
	}
	in.fireTimer(best)
	return true
}
