package sym

// Call dispatch: harness API, models, intrinsics, havoc. Everything else with a body is
// executed from its SSA; a body-less callee without an entry here stops the run (fail closed).

import (
	"fmt"
	"go/token"
	"go/types"
	"strings"

	"golang.org/x/tools/go/ssa"
)

type handler func(in *Interp, fr *frame, args []value) value

// notHandled makes dispatch fall through to the callee's SSA body.
type notHandledT struct{}

var notHandled = notHandledT{}

func (in *Interp) dispatch(fn *ssa.Function, name string) handler {
	short := fn.Name()
	if strings.HasPrefix(short, "verif") && fn.Signature.Recv() == nil {
		if h, ok := verifAPI[short]; ok {
			return func(in *Interp, fr *frame, args []value) value {
				return h(in, fr, args)
			}
		}
	}
	if m, ok := in.cfg.Models[name]; ok {
		mf := in.P.lookupFuncByName(m)
		if mf == nil {
			panic(unsupported{"model function not found: " + m})
		}
		return func(in *Interp, fr *frame, args []value) value {
			in.stubsSeen["model:"+name]++
			return in.callSSA(fr.caller, token.NoPos, mf, args, nil)
		}
	}
	if in.cfg.Skip[name] {
		return func(in *Interp, fr *frame, args []value) value {
			in.stubsSeen["skip:"+name]++
			return zeroResults(fn)
		}
	}
	if in.cfg.Havoc[name] {
		return func(in *Interp, fr *frame, args []value) value {
			in.stubsSeen["havoc:"+name]++
			return in.havocResults(fn)
		}
	}
	if h, ok := intrinsics[name]; ok {
		isSP := spIntrinsics[name]
		return func(in *Interp, fr *frame, args []value) value {
			if isSP && fr.caller != nil && in.instrumented(fr.caller.fn) {
				in.spPending = true
				if spNoYield[name] {
					in.spRecord()
				}
			}
			r := h(in, fr, args)
			if isSP && fr.caller != nil {
				in.spPost(fr.caller.fn)
			}
			if _, nh := r.(notHandledT); nh {
				return in.interpretBody(fr, fn, args)
			}
			in.stubsSeen["intrinsic:"+name]++
			return r
		}
	}
	// loggers never influence a property: skip the standard ones
	if strings.HasPrefix(name, "(*log.Logger).") {
		switch short {
		case "Printf", "Println", "Print", "SetPrefix", "SetOutput", "SetFlags":
			return func(in *Interp, fr *frame, args []value) value {
				in.stubsSeen["skip:(*log.Logger)."+short]++
				return zeroResults(fn)
			}
		case "Fatalf", "Fatal", "Fatalln", "Panicf", "Panic", "Panicln":
			return func(in *Interp, fr *frame, args []value) value {
				panic(targetPanic{runtime: "log." + short + " called"})
			}
		}
	}
	return nil
}

// interpretBody runs fn's own SSA (used when an intrinsic declines).
func (in *Interp) interpretBody(fr *frame, fn *ssa.Function, args []value) value {
	if fn.Blocks == nil {
		panic(unsupported{"intrinsic declined and no body: " + fn.String()})
	}
	in.funcsSeen[fn.String()]++
	fr.env = make(map[ssa.Value]value, 16)
	fr.block = fn.Blocks[0]
	fr.locals = make([]value, len(fn.Locals))
	for i, l := range fn.Locals {
		fr.locals[i] = zero(deref(l.Type()))
		fr.env[l] = &fr.locals[i]
	}
	for i, p := range fn.Params {
		fr.env[p] = args[i]
	}
	for fr.block != nil {
		in.runFrame(fr)
	}
	return fr.result
}

func zeroResults(fn *ssa.Function) value {
	rs := fn.Signature.Results()
	switch rs.Len() {
	case 0:
		return nil
	case 1:
		return zero(rs.At(0).Type())
	}
	t := make(tuple, rs.Len())
	for i := range t {
		t[i] = zero(rs.At(i).Type())
	}
	return t
}

// fresh returns an unconstrained value of type t (scalars only; aggregates of scalars).
func (in *Interp) fresh(t types.Type, hint string) value {
	if w, signed, ok := intInfo(t); ok {
		return in.newNondet(hint, fmt.Sprintf("bv%d", w), w, signed)
	}
	switch u := t.Underlying().(type) {
	case *types.Basic:
		if u.Info()&types.IsBoolean != 0 {
			return in.newNondet(hint, "bool", 0, false)
		}
		if u.Info()&types.IsString != 0 {
			return in.newNondet(hint, "str", 0, false)
		}
	case *types.Struct:
		s := make(structure, u.NumFields())
		for i := range s {
			s[i] = in.fresh(u.Field(i).Type(), hint+"."+u.Field(i).Name())
		}
		return s
	case *types.Interface:
		if types.Identical(t, types.Universe.Lookup("error").Type()) {
			// an error result: nil or a fresh opaque error
			if in.choose(2, "havoc-err") == 0 {
				return iface{}
			}
			return in.newOpaqueError("havoc:" + hint)
		}
	}
	return zero(t)
}

func (in *Interp) havocResults(fn *ssa.Function) value {
	rs := fn.Signature.Results()
	switch rs.Len() {
	case 0:
		return nil
	case 1:
		return in.fresh(rs.At(0).Type(), "havoc:"+fn.Name())
	}
	t := make(tuple, rs.Len())
	for i := range t {
		t[i] = in.fresh(rs.At(i).Type(), fmt.Sprintf("havoc:%s.%d", fn.Name(), i))
	}
	return t
}

func (in *Interp) newOpaqueError(msg string) value {
	var cell value = structure{msg}
	return iface{t: in.P.errorStringType, v: &cell}
}

// newNondet declares a fresh solver constant and records it for model extraction.
func (in *Interp) newNondet(name, kind string, w int, signed bool) value {
	base := name
	for k := 2; ; k++ {
		if _, dup := in.nondetIdx[name]; !dup {
			break
		}
		name = fmt.Sprintf("%s#%d", base, k)
	}
	term := "n!" + sanitize(name)
	in.nondetIdx[name] = len(in.nondets)
	rec := nondetRec{Name: name, Kind: kind, Term: term, W: w, Sign: signed}
	in.nondets = append(in.nondets, rec)
	switch kind {
	case "bool":
		in.solver.Send("(declare-const " + term + " Bool)")
		return &sym{k: sBool, t: term}
	case "str":
		in.solver.Send("(declare-const " + term + " String)")
		return &sym{k: sStr, t: term}
	default:
		in.solver.Send(fmt.Sprintf("(declare-const %s (_ BitVec %d))", term, w))
		return &sym{k: sBV, w: w, t: term, atom: true}
	}
}

func sanitize(s string) string {
	var b strings.Builder
	for _, r := range s {
		switch {
		case r >= 'a' && r <= 'z', r >= 'A' && r <= 'Z', r >= '0' && r <= '9', r == '_', r == '.', r == '!':
			b.WriteRune(r)
		default:
			fmt.Fprintf(&b, "_%x_", r)
		}
	}
	return b.String()
}

func (P *Program) lookupFuncByName(full string) *ssa.Function {
	i := strings.LastIndex(full, ".")
	if i < 0 {
		return nil
	}
	return P.Func(full[:i], full[i+1:])
}

// argument helpers

func (in *Interp) concStr(v value, what string) string {
	s, ok := normStr(v).(string)
	if !ok {
		panic(unsupported{what + ": string argument must be concrete"})
	}
	return s
}

func (in *Interp) concInt(v value, what string) int64 {
	u, ok := v.(uint64)
	if !ok {
		panic(unsupported{what + ": integer argument must be concrete"})
	}
	return int64(u)
}

// ---------------------------------------------------------------------------
// harness API

var verifAPI map[string]handler

func init() {
	verifAPI = map[string]handler{
		"verifU64": func(in *Interp, fr *frame, a []value) value {
			return in.newNondet(in.concStr(a[0], "verifU64"), "bv64", 64, false)
		},
		"verifI64": func(in *Interp, fr *frame, a []value) value {
			return in.newNondet(in.concStr(a[0], "verifI64"), "bv64", 64, true)
		},
		"verifU32": func(in *Interp, fr *frame, a []value) value {
			return in.newNondet(in.concStr(a[0], "verifU32"), "bv32", 32, false)
		},
		"verifU8": func(in *Interp, fr *frame, a []value) value {
			return in.newNondet(in.concStr(a[0], "verifU8"), "bv8", 8, false)
		},
		"verifBool": func(in *Interp, fr *frame, a []value) value {
			return in.newNondet(in.concStr(a[0], "verifBool"), "bool", 0, false)
		},
		// verifInt(name, lo, hi): an int in [lo, hi], left symbolic
		"verifInt": func(in *Interp, fr *frame, a []value) value {
			lo, hi := in.concInt(a[1], "verifInt"), in.concInt(a[2], "verifInt")
			v := in.newNondet(in.concStr(a[0], "verifInt"), "bv64", 64, true).(*sym)
			in.assume(in.mk(sBool, 0, fmt.Sprintf("(and (bvsle %s %s) (bvsle %s %s))", bvLit(64, uint64(lo)), v.t, v.t, bvLit(64, uint64(hi)))))
			return v
		},
		// verifChoice(name, n): a concrete value 0..n-1, one path each
		"verifChoice": func(in *Interp, fr *frame, a []value) value {
			n := int(in.concInt(a[1], "verifChoice"))
			k := in.choose(n, "choice")
			name := in.concStr(a[0], "verifChoice")
			in.nondetIdx[name] = len(in.nondets)
			in.nondets = append(in.nondets, nondetRec{Name: name, Kind: "choice", Conc: uint64(k)})
			return uint64(k)
		},
		// verifBytes(name, n): n fresh bytes
		"verifBytes": func(in *Interp, fr *frame, a []value) value {
			n := int(in.concInt(a[1], "verifBytes"))
			name := in.concStr(a[0], "verifBytes")
			out := make([]value, n)
			for i := range out {
				out[i] = in.newNondet(fmt.Sprintf("%s[%d]", name, i), "bv8", 8, false)
			}
			return out
		},
		// verifString(name, maxLen): a solver-level string of at most maxLen bytes
		"verifString": func(in *Interp, fr *frame, a []value) value {
			max := int(in.concInt(a[1], "verifString"))
			s := in.newNondet(in.concStr(a[0], "verifString"), "str", 0, false).(*sym)
			in.strMax[s.t] = max
			if in.cfg.FoldRegex {
				if max > 0 { // verifString(name, 0): no length bound
					in.solver.SetMaxLen(s.t, max)
				}
				in.solver.Send("(assert " + in.solver.DefineMemb(s.t, "(re.* (re.range \"\\u{0}\" \"\\u{ff}\"))") + ")")
				return s
			}
			in.solver.Send(fmt.Sprintf("(assert (<= (str.len %s) %d))", s.t, max))
			// bytes only: every character is a code point below 256
			in.solver.Send(fmt.Sprintf("(assert (str.in_re %s (re.* (re.range \"\\u{0}\" \"\\u{ff}\"))))", s.t))
			return s
		},
		"verifAssume": func(in *Interp, fr *frame, a []value) value {
			in.assume(a[0])
			return nil
		},
		"verifAssert": func(in *Interp, fr *frame, a []value) value {
			in.obligation(in.concStr(a[0], "verifAssert"), a[1])
			return nil
		},
		"verifReach": func(in *Interp, fr *frame, a []value) value {
			in.reach(in.concStr(a[0], "verifReach"))
			return nil
		},
		"verifFinding": func(in *Interp, fr *frame, a []value) value {
			in.finding(in.concStr(a[0], "verifFinding"))
			return nil
		},
		"verifPanicsAreViolations": func(in *Interp, fr *frame, a []value) value {
			in.panicsBad = true
			return nil
		},
		"verifAllowDeadlock": func(in *Interp, fr *frame, a []value) value {
			in.allowDead = true
			return nil
		},
		"verifYield": func(in *Interp, fr *frame, a []value) value {
			in.yield()
			return nil
		},
		// verifSettle: wait until every other goroutine has finished or is blocked
		"verifSettle": func(in *Interp, fr *frame, a []value) value {
			me := in.sched.cur
			in.block("settle", func() bool {
				for _, g := range in.sched.gs {
					if g == me || g.done {
						continue
					}
					if g.ready == nil || g.ready() {
						return false
					}
				}
				return true
			})
			return nil
		},
		"verifTier": func(in *Interp, fr *frame, a []value) value { return uint64(in.cfg.Tier) },
		// strict (non-forking) boolean connectives for oracles
		"verifAnd":     func(in *Interp, fr *frame, a []value) value { return in.and(a[0], a[1]) },
		"verifOr":      func(in *Interp, fr *frame, a []value) value { return in.or(a[0], a[1]) },
		"verifImplies": func(in *Interp, fr *frame, a []value) value { return in.or(in.not(a[0]), a[1]) },
		"verifName": func(in *Interp, fr *frame, a []value) value {
			return fmt.Sprintf("%s%d", in.concStr(a[0], "verifName"), in.concInt(a[1], "verifName"))
		},
		"verifSymbolic": func(in *Interp, fr *frame, a []value) value { return true },
		"verifAbstractLen": verifAbstractLenAPI, // intr_C29.go
		"verifSchedWindow": verifSchedWindowAPI, // intr_C25b.go
		"verifPoolReuse":   verifPoolReuseAPI,   // intr_C30c.go
		// verifTime(ns): a model instant (monotonic form) at ns nanoseconds
		"verifTime": func(in *Interp, fr *frame, a []value) value {
			return in.timeValue(a[0])
		},
		"verifSetClock": func(in *Interp, fr *frame, a []value) value {
			in.clock = a[0]
			return nil
		},
		"verifClock": func(in *Interp, fr *frame, a []value) value {
			return in.clock
		},
		"verifAdvanceClock": func(in *Interp, fr *frame, a []value) value {
			t := types.Typ[types.Int64]
			in.clock = in.binop(token.ADD, t, t, in.clock, a[0])
			in.fireDueTimers()
			return nil
		},
		"verifEvent": func(in *Interp, fr *frame, a []value) value {
			kind := in.concStr(a[0], "verifEvent")
			var args []value
			if len(a) > 1 {
				for _, x := range a[1].([]value) {
					args = append(args, x)
				}
			}
			in.event(kind, args...)
			return nil
		},
		"verifEventCount": func(in *Interp, fr *frame, a []value) value {
			kind := in.concStr(a[0], "verifEventCount")
			n := 0
			for _, e := range in.events {
				if e.Kind == kind {
					n++
				}
			}
			return uint64(n)
		},
		"verifBlocked": func(in *Interp, fr *frame, a []value) value {
			// number of goroutines currently parked
			n := 0
			for _, g := range in.sched.gs {
				if !g.done && g.ready != nil {
					n++
				}
			}
			return uint64(n)
		},
	}
}
