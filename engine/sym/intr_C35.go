package sym

// Huge-allocation hook (introduced for C35, usable by any harness).
//
// When the code under test calls make() with a symbolic size that may exceed the entry's
// max_sym_alloc, the engine cannot materialise the slice. For sizes the Go runtime refuses
// (top bit set, beyond 2^48) the path continues with the runtime panic "makeslice: len out of
// range". For the others the engine records the event "huge-alloc" and - if the harness package
// defines
//
//	func verifOnHugeAlloc(size uint64)
//
// - calls it with the symbolic size, under the path condition max_sym_alloc < size <= 2^48, at the
// point of the allocation (so harness state such as "bytes the peer has delivered so far" is the
// state at that moment). The hook judges the allocation with verifAssert / verifFinding. When it
// returns, the path ends with status ok: the engine does not execute past the allocation.

import (
	"go/token"
	"go/types"
)

func (in *Interp) hugeAllocHook(v *sym, w int, signed bool) {
	for _, p := range in.P.Initial {
		f := in.P.Func(p.PkgPath, "verifOnHugeAlloc")
		if f == nil || f.Blocks == nil || f.Signature.Params().Len() != 1 {
			continue
		}
		var size value = v
		if w < 64 {
			var src types.Type
			switch {
			case w == 8 && signed:
				src = types.Typ[types.Int8]
			case w == 8:
				src = types.Typ[types.Uint8]
			case w == 16 && signed:
				src = types.Typ[types.Int16]
			case w == 16:
				src = types.Typ[types.Uint16]
			case signed:
				src = types.Typ[types.Int32]
			default:
				src = types.Typ[types.Uint32]
			}
			size = in.conv(types.Typ[types.Uint64], src, v)
		}
		in.stubsSeen["hook:verifOnHugeAlloc"]++
		in.callSSA(nil, token.NoPos, f, []value{size}, nil)
		return
	}
}
