package sym

// Abstract encoded length (introduced for C29, usable by any harness).
//
// A codec model (spec "models" for protobuf / gzip ...) produces a short, concrete byte slice that
// stands for an encoded message: {0xF5, 0xC9, key, ...}. The harness attaches a (usually symbolic)
// length to key with
//
//	verifAbstractLen(key int, n int)      // native body in the harness: a no-op
//
// From then on `len(s)`, evaluated in code of the harness's package that is NOT harness code
// (functions whose outermost name starts with verif/Verif are exempt), on a []byte s whose first
// three bytes are the concrete values 0xF5 0xC9 key, yields n instead of the concrete shape
// length. Everything else (copy, append, bytes.Buffer, io.ReadAll in other packages, the harness
// itself) keeps seeing the concrete shape, so the marker bytes travel through real byte-moving
// code unchanged. The length lives in the content, so it survives copies.

import (
	"strings"

	"golang.org/x/tools/go/ssa"
)

const (
	abstractLenMagic0 = 0xF5
	abstractLenMagic1 = 0xC9
)

// abstractLenSlot keys Interp.sideState (one table per path).
var abstractLenSlot value

type abstractLenTable struct {
	pkg  *ssa.Package
	lens map[uint64]value
}

// verifAbstractLenAPI is registered in verifAPI (intrinsics.go).
func verifAbstractLenAPI(in *Interp, fr *frame, a []value) value {
	key := uint64(in.concInt(a[0], "verifAbstractLen"))
	if key > 255 {
		panic(unsupported{"verifAbstractLen: key must be 0..255"})
	}
	t, _ := in.sideState[&abstractLenSlot].(*abstractLenTable)
	if t == nil {
		t = &abstractLenTable{pkg: fr.fn.Pkg, lens: map[uint64]value{}}
		in.sideState[&abstractLenSlot] = t
	}
	t.lens[key] = a[1]
	return nil
}

// abstractLen is consulted by the len builtin for slices.
func (in *Interp) abstractLen(caller *frame, x []value) (value, bool) {
	if len(x) < 3 || caller == nil || len(in.sideState) == 0 {
		return nil, false
	}
	t, _ := in.sideState[&abstractLenSlot].(*abstractLenTable)
	if t == nil {
		return nil, false
	}
	if m, ok := x[0].(uint64); !ok || m != abstractLenMagic0 {
		return nil, false
	}
	if m, ok := x[1].(uint64); !ok || m != abstractLenMagic1 {
		return nil, false
	}
	key, ok := x[2].(uint64)
	if !ok {
		return nil, false
	}
	n, ok := t.lens[key]
	if !ok {
		return nil, false
	}
	fn := caller.fn
	for fn.Parent() != nil {
		fn = fn.Parent()
	}
	if fn.Pkg == nil || fn.Pkg != t.pkg {
		return nil, false
	}
	if name := fn.Name(); strings.HasPrefix(name, "verif") || strings.HasPrefix(name, "Verif") {
		return nil, false
	}
	return n, true
}
