package sym

import (
	"fmt"
	"go/token"
	"go/types"
	"slices"
	"strings"

	"golang.org/x/tools/go/ssa"
)

type continuation int

const (
	kNext continuation = iota
	kReturn
	kJump
)

// unsupported is raised (as a Go panic of the engine) when the executor meets something it
// cannot encode. The path, and therefore the check, is inconclusive: fail closed.
type unsupported struct{ what string }

// pathEnd unwinds the engine stack at the end of a path.
type pathEnd struct {
	status string // "ok", "infeasible", "violation", "inconclusive", "deadlock", "panic"
	detail string
}

// pathAbort unwinds a parked goroutine once the path is over.
type pathAbort struct{}

type deferred struct {
	fn    value
	args  []value
	instr *ssa.Defer
	tail  *deferred
}

type frame struct {
	in               *Interp
	g                *goroutine
	caller           *frame
	fn               *ssa.Function
	block, prevBlock *ssa.BasicBlock
	env              map[ssa.Value]value
	locals           []value
	defers           *deferred
	result           value
	panicking        bool
	panic            any
	phitemps         []value
	symVisits        map[*ssa.BasicBlock]int
	depth            int
}

// Interp executes one path.
type Interp struct {
	termNames map[string]string
	spPending bool
	spTrace   []int
	selTrace  [][2]int // (position in spTrace of a select's "before" scheduling point, chosen case) for selects of instrumented code that had several ready cases
	nextNid   int
	pcLits map[string]bool // literal text of the asserted path constraints (branch shortcut)
	P       *Program
	cfg     *Config
	solver  *Solver
	path    *pathState
	globals map[*ssa.Global]*value
	steps   int
	sched   *sched
	strMax  map[string]int // declared max length per String symbol

	nondets   []nondetRec
	nondetIdx map[string]int
	reached   map[string]bool
	events    []Event
	funcsSeen map[string]int
	stubsSeen map[string]int
	panicsBad bool
	allowDead bool
	clock     value // model clock: int64 nanoseconds (uint64 bits or *sym BV64)
	timerFires int  // timers fired on this path (livelock guard, see fireTimer)
	timers    []*timer
	sideState map[*value]any // mutexes, conds, once, waitgroups keyed by address
	objIDs    map[any]int
	asserts   int
	trivial   int
	curPos    token.Pos
	notes     []string
	result    *PathResult
	realWG    interface{ Add(int); Done() }
	initWant  map[string]bool
}

type nondetRec struct {
	Name string
	Kind string // "bv8".."bv64","bool","str","choice"
	Term string // SMT constant name ("" for concrete choices)
	Conc value  // value for concrete choices
	W    int
	Sign bool
}

// Event is one entry of the harness-visible trace.
type Event struct {
	Kind string
	Args []value
}

func (fr *frame) get(key ssa.Value) value {
	switch key := key.(type) {
	case nil:
		return nil
	case *ssa.Function, *ssa.Builtin:
		return key
	case *ssa.Const:
		return constValue(key)
	case *ssa.Global:
		if r, ok := fr.in.globals[key]; ok {
			return r
		}
		// a global of a package whose init has not run yet: run it now (lazily, once per path)
		if key.Pkg != nil && !strings.HasSuffix(key.Name(), "init$guard") && !zeroInitOK[key.Pkg.Pkg.Path()] {
			fr.in.lazyInit(key.Pkg)
			if r, ok := fr.in.globals[key]; ok {
				return r
			}
		}
		cell := zero(deref(key.Type()))
		fr.in.globals[key] = &cell
		return &cell
	}
	if r, ok := fr.env[key]; ok {
		return r
	}
	panic(fmt.Sprintf("get: no value for %T: %v in %s", key, key.Name(), fr.fn))
}

func deref(t types.Type) types.Type {
	if p, ok := t.Underlying().(*types.Pointer); ok {
		return p.Elem()
	}
	panic("deref: not a pointer: " + t.String())
}

func (in *Interp) noteOnce(s string) {
	for _, n := range in.notes {
		if n == s {
			return
		}
	}
	in.notes = append(in.notes, s)
}

func (fr *frame) runDefer(d *deferred) {
	var ok bool
	defer func() {
		if !ok {
			r := recover()
			switch r.(type) {
			case pathEnd, pathAbort, unsupported:
				panic(r)
			}
			fr.panicking = true
			fr.panic = r
		}
	}()
	fr.in.call(fr, d.instr.Pos(), d.fn, d.args)
	ok = true
}

func (fr *frame) runDefers() {
	for d := fr.defers; d != nil; d = d.tail {
		fr.runDefer(d)
	}
	fr.defers = nil
	if fr.panicking {
		panic(fr.panic)
	}
}

func (in *Interp) lookupMethod(typ types.Type, meth *types.Func) *ssa.Function {
	return in.P.Prog.LookupMethod(typ, meth.Pkg(), meth.Name())
}

func (in *Interp) visitInstr(fr *frame, instr ssa.Instruction) continuation {
	in.steps++
	if in.steps > in.cfg.MaxSteps {
		panic(pathEnd{"inconclusive", fmt.Sprintf("step budget %d exhausted in %s", in.cfg.MaxSteps, fr.fn)})
	}
	if p := instr.Pos(); p != token.NoPos {
		in.curPos = p
	}
	switch instr := instr.(type) {
	case *ssa.DebugRef:
	case *ssa.UnOp:
		if instr.Op == token.ARROW {
			in.spPending = in.instrumented(fr.fn)
		}
		fr.env[instr] = in.unop(instr, fr.get(instr.X))
		if instr.Op == token.ARROW && !onlyReturned(instr) {
			// (`return <-ch` has no place for the native "completed" scheduling point)
			in.spPost(fr.fn)
		}
	case *ssa.BinOp:
		fr.env[instr] = in.binop(instr.Op, instr.X.Type(), instr.Y.Type(), fr.get(instr.X), fr.get(instr.Y))
	case *ssa.Call:
		fn, args := in.prepareCall(fr, &instr.Call)
		fr.env[instr] = in.call(fr, instr.Pos(), fn, args)
	case *ssa.ChangeInterface:
		fr.env[instr] = fr.get(instr.X)
	case *ssa.ChangeType:
		fr.env[instr] = fr.get(instr.X)
	case *ssa.Convert:
		fr.env[instr] = in.conv(instr.Type(), instr.X.Type(), fr.get(instr.X))
	case *ssa.SliceToArrayPointer:
		xs := fr.get(instr.X).([]value)
		n := int(instr.Type().Underlying().(*types.Pointer).Elem().Underlying().(*types.Array).Len())
		if len(xs) < n {
			in.runtimePanic("cannot convert slice to array pointer: length too short")
		}
		if xs == nil {
			fr.env[instr] = (*value)(nil)
		} else {
			var v value = array(xs[:n:n])
			fr.env[instr] = &v
		}
	case *ssa.MakeInterface:
		fr.env[instr] = iface{t: instr.X.Type(), v: fr.get(instr.X)}
	case *ssa.Extract:
		fr.env[instr] = fr.get(instr.Tuple).(tuple)[instr.Index]
	case *ssa.Slice:
		fr.env[instr] = in.sliceOp(instr, fr.get(instr.X), fr.get(instr.Low), fr.get(instr.High), fr.get(instr.Max))
	case *ssa.Return:
		switch len(instr.Results) {
		case 0:
		case 1:
			fr.result = fr.get(instr.Results[0])
		default:
			var res []value
			for _, r := range instr.Results {
				res = append(res, fr.get(r))
			}
			fr.result = tuple(res)
		}
		fr.block = nil
		return kReturn
	case *ssa.RunDefers:
		fr.runDefers()
	case *ssa.Panic:
		panic(targetPanic{v: fr.get(instr.X)})
	case *ssa.Send:
		in.spPending = in.instrumented(fr.fn)
		in.chanSend(fr.get(instr.Chan).(*channel), fr.get(instr.X))
		in.spPost(fr.fn)
	case *ssa.Store:
		p := fr.get(instr.Addr).(*value)
		if p == nil {
			in.runtimePanic("invalid memory address or nil pointer dereference")
		}
		store(deref(instr.Addr.Type()), p, fr.get(instr.Val))
	case *ssa.If:
		c := fr.get(instr.Cond)
		succ := 1
		switch c := c.(type) {
		case bool:
			if c {
				succ = 0
			}
		case *sym:
			if fr.symVisits == nil {
				fr.symVisits = map[*ssa.BasicBlock]int{}
			}
			fr.symVisits[fr.block]++
			if fr.symVisits[fr.block] > in.cfg.Unwind {
				panic(pathEnd{"inconclusive", fmt.Sprintf("unwinding bound %d exceeded at %s (%s)", in.cfg.Unwind, in.P.Fset.Position(in.curPos), fr.fn)})
			}
			if in.branch(c, "if") {
				succ = 0
			}
		}
		fr.prevBlock, fr.block = fr.block, fr.block.Succs[succ]
		return kJump
	case *ssa.Jump:
		fr.prevBlock, fr.block = fr.block, fr.block.Succs[0]
		return kJump
	case *ssa.Defer:
		fn, args := in.prepareCall(fr, &instr.Call)
		defers := &fr.defers
		if into := fr.get(instr.DeferStack); into != nil {
			defers = into.(**deferred)
		}
		*defers = &deferred{fn: fn, args: args, instr: instr, tail: *defers}
	case *ssa.Go:
		fn, args := in.prepareCall(fr, &instr.Call)
		g := in.spawn(fn, args, instr.Pos())
		if in.instrumented(fr.fn) {
			// a go statement of the instrumented package: a scheduling point of the native replay
			in.spTrace = append(in.spTrace, in.sched.cur.nid)
			in.nextNid++
			g.nid = in.nextNid
		}
	case *ssa.MakeChan:
		n := in.asIndex(fr.get(instr.Size), instr.Size.Type(), "makechan", 16)
		if n < 0 {
			in.runtimePanic("makechan: size out of range")
		}
		fr.env[instr] = in.newChan(n, instr.Type().Underlying().(*types.Chan).Elem())
	case *ssa.Alloc:
		var addr *value
		if instr.Heap {
			addr = new(value)
			fr.env[instr] = addr
		} else {
			addr = fr.env[instr].(*value)
		}
		*addr = zero(deref(instr.Type()))
	case *ssa.MakeSlice:
		tElt := instr.Type().Underlying().(*types.Slice).Elem()
		ln := in.makeSize(fr.get(instr.Len), instr.Len.Type(), "makeslice: len out of range")
		cp := in.makeSize(fr.get(instr.Cap), instr.Cap.Type(), "makeslice: cap out of range")
		if ln > cp {
			in.runtimePanic("makeslice: len larger than cap")
		}
		sl := make([]value, cp)
		for i := range sl {
			sl[i] = zero(tElt)
		}
		fr.env[instr] = sl[:ln]
	case *ssa.MakeMap:
		fr.env[instr] = &omap{kt: instr.Type().Underlying().(*types.Map).Key()}
	case *ssa.Range:
		fr.env[instr] = in.rangeIter(fr.get(instr.X), instr.X.Type())
	case *ssa.Next:
		fr.env[instr] = fr.get(instr.Iter).(iter).next(in)
	case *ssa.FieldAddr:
		p := fr.get(instr.X).(*value)
		if p == nil {
			in.runtimePanic("invalid memory address or nil pointer dereference")
		}
		fr.env[instr] = &(*p).(structure)[instr.Field]
	case *ssa.Field:
		fr.env[instr] = fr.get(instr.X).(structure)[instr.Field]
	case *ssa.IndexAddr:
		x := fr.get(instr.X)
		switch x := x.(type) {
		case []value:
			i := in.asIndex(fr.get(instr.Index), instr.Index.Type(), "index", len(x))
			if i < 0 || i >= len(x) {
				in.runtimePanic(fmt.Sprintf("index out of range [%d] with length %d", i, len(x)))
			}
			fr.env[instr] = &x[i]
		case *value:
			if x == nil {
				in.runtimePanic("invalid memory address or nil pointer dereference")
			}
			a := (*x).(array)
			i := in.asIndex(fr.get(instr.Index), instr.Index.Type(), "index", len(a))
			if i < 0 || i >= len(a) {
				in.runtimePanic(fmt.Sprintf("index out of range [%d] with length %d", i, len(a)))
			}
			fr.env[instr] = &a[i]
		default:
			panic(fmt.Sprintf("unexpected x type in IndexAddr: %T", x))
		}
	case *ssa.Index:
		x := fr.get(instr.X)
		switch x := x.(type) {
		case array:
			i := in.asIndex(fr.get(instr.Index), instr.Index.Type(), "index", len(x))
			if i < 0 || i >= len(x) {
				in.runtimePanic(fmt.Sprintf("index out of range [%d] with length %d", i, len(x)))
			}
			fr.env[instr] = copyVal(x[i])
		case string:
			i := in.asIndex(fr.get(instr.Index), instr.Index.Type(), "index", len(x))
			if i < 0 || i >= len(x) {
				in.runtimePanic(fmt.Sprintf("index out of range [%d] with length %d", i, len(x)))
			}
			fr.env[instr] = uint64(x[i])
		case bstr:
			i := in.asIndex(fr.get(instr.Index), instr.Index.Type(), "index", len(x))
			if i < 0 || i >= len(x) {
				in.runtimePanic(fmt.Sprintf("index out of range [%d] with length %d", i, len(x)))
			}
			fr.env[instr] = x[i]
		case *sym:
			b := in.concretizeString(x)
			i := in.asIndex(fr.get(instr.Index), instr.Index.Type(), "index", len(b))
			if i < 0 || i >= len(b) {
				in.runtimePanic(fmt.Sprintf("index out of range [%d] with length %d", i, len(b)))
			}
			fr.env[instr] = b[i]
		default:
			panic(fmt.Sprintf("unexpected x type in Index: %T", x))
		}
	case *ssa.Lookup:
		fr.env[instr] = in.lookup(instr, fr.get(instr.X), fr.get(instr.Index))
	case *ssa.MapUpdate:
		m := fr.get(instr.Map).(*omap)
		if m == nil {
			in.runtimePanic("assignment to entry in nil map")
		}
		in.mapInsert(m, fr.get(instr.Key), fr.get(instr.Value))
	case *ssa.TypeAssert:
		fr.env[instr] = in.typeAssert(instr, fr.get(instr.X).(iface))
	case *ssa.MakeClosure:
		var bindings []value
		for _, binding := range instr.Bindings {
			bindings = append(bindings, fr.get(binding))
		}
		fr.env[instr] = &closure{instr.Fn.(*ssa.Function), bindings}
	case *ssa.Select:
		in.spPending = in.instrumented(fr.fn)
		fr.env[instr] = in.selectOp(fr, instr)
		in.spPost(fr.fn)
	case *ssa.MultiConvert:
		fr.env[instr] = in.conv(instr.Type(), instr.X.Type(), fr.get(instr.X))
	default:
		panic(unsupported{fmt.Sprintf("instruction %T", instr)})
	}
	return kNext
}

func (in *Interp) makeSize(v value, t types.Type, msg string) int {
	w, signed, _ := intInfo(t)
	switch v := v.(type) {
	case uint64:
		var n int64
		if signed {
			n = sext(v, w)
		} else {
			if v > 1<<62 {
				in.runtimePanic(msg)
			}
			n = int64(v)
		}
		if n < 0 || n > int64(in.cfg.MaxAlloc) {
			if n < 0 || n > 1<<48 {
				in.runtimePanic(msg)
			}
			// a huge but legal allocation from concrete data: the engine cannot hold it
			panic(pathEnd{"inconclusive", fmt.Sprintf("allocation of %d elements exceeds the engine's cap %d", n, in.cfg.MaxAlloc)})
		}
		return int(n)
	case *sym:
		// A symbolic size: sizes above MaxAlloc are reported through the "alloc" hook
		// (C35), then the value is concretised over 0..MaxSymAlloc.
		lim := in.cfg.MaxSymAlloc
		big := in.mk(sBool, 0, "(bvugt "+v.t+" "+bvLit(w, uint64(lim))+")")
		if in.branch(big, "alloc-size") {
			in.onHugeAlloc(v, w, signed, msg)
		}
		n := in.concretizeIndex(v, w, signed, lim, "alloc-size")
		if n < 0 {
			in.runtimePanic(msg)
		}
		return n
	}
	panic("makeSize")
}

// onHugeAlloc handles make() with a symbolic size that can exceed the engine's cap.
func (in *Interp) onHugeAlloc(v *sym, w int, signed bool, msg string) {
	// sizes with the top bit set (or beyond maxAlloc = 2^48 bytes on 64-bit linux; exact for
	// one-byte elements) make the Go runtime panic
	neg := in.mk(sBool, 0, "(bvugt "+v.t+" "+bvLit(w, uint64(1)<<48)+")")
	if in.branch(neg, "alloc-panics") {
		in.runtimePanic(msg)
	}
	in.event("huge-alloc", v)
	in.hugeAllocHook(v, w, signed) // intr_C35.go: lets the harness judge the allocation
	panic(pathEnd{"ok", "unbounded allocation path ended (recorded as event huge-alloc)"})
}

func (in *Interp) prepareCall(fr *frame, call *ssa.CallCommon) (fn value, args []value) {
	v := fr.get(call.Value)
	if call.Method == nil {
		fn = v
	} else {
		recv := v.(iface)
		if recv.t == nil {
			in.runtimePanic("invalid memory address or nil pointer dereference (method call on nil interface)")
		}
		f := in.lookupMethod(recv.t, call.Method)
		if f == nil {
			panic(fmt.Sprintf("method set for dynamic type %v does not contain %s", recv.t, call.Method))
		}
		fn = f
		args = append(args, recv.v)
	}
	for _, arg := range call.Args {
		args = append(args, fr.get(arg))
	}
	return
}

func (in *Interp) call(caller *frame, callpos token.Pos, fn value, args []value) value {
	switch fn := fn.(type) {
	case *ssa.Function:
		if fn == nil {
			in.runtimePanic("invalid memory address or nil pointer dereference (call of nil func)")
		}
		return in.callSSA(caller, callpos, fn, args, nil)
	case *closure:
		if fn == nil {
			in.runtimePanic("invalid memory address or nil pointer dereference (call of nil func)")
		}
		return in.callSSA(caller, callpos, fn.Fn, args, fn.Env)
	case *ssa.Builtin:
		return in.callBuiltin(caller, fn, args)
	case *nativeFunc:
		return fn.f(in, caller, args)
	}
	panic(fmt.Sprintf("cannot call %T", fn))
}

// nativeFunc is an engine-provided function value.
type nativeFunc struct {
	name string
	f    func(in *Interp, caller *frame, args []value) value
}

func funcKey(fn *ssa.Function) string {
	s := fn.String()
	return s
}

func (in *Interp) callSSA(caller *frame, callpos token.Pos, fn *ssa.Function, args []value, env []value) value {
	fr := &frame{in: in, caller: caller, fn: fn}
	if caller != nil {
		fr.g = caller.g
		fr.depth = caller.depth + 1
		if fr.depth > in.cfg.MaxDepth {
			panic(pathEnd{"inconclusive", "call depth exceeded in " + fn.String()})
		}
	} else {
		fr.g = in.sched.cur
	}
	if fn.Parent() == nil {
		if fn.Synthetic == "package initializer" && fn.Pkg != nil && !in.initWant[fn.Pkg.Pkg.Path()] {
			return nil // init of a package the harness did not ask for
		}
		name := funcKey(fn)
		if h := in.dispatch(fn, name); h != nil {
			return h(in, fr, args)
		}
		if fn.Blocks == nil {
			panic(unsupported{"call of body-less function " + name + " at " + in.P.Fset.Position(callpos).String()})
		}
	}
	if fn.TypeParams().Len() > 0 && len(fn.TypeArgs()) == 0 {
		panic(unsupported{"uninstantiated generic " + fn.String()})
	}
	in.funcsSeen[fn.String()]++
	fr.env = make(map[ssa.Value]value, 16)
	fr.block = fn.Blocks[0]
	fr.locals = make([]value, len(fn.Locals))
	for i, l := range fn.Locals {
		fr.locals[i] = zero(deref(l.Type()))
		fr.env[l] = &fr.locals[i]
	}
	for i, p := range fn.Params {
		fr.env[p] = args[i]
	}
	for i, fv := range fn.FreeVars {
		fr.env[fv] = env[i]
	}
	for fr.block != nil {
		in.runFrame(fr)
	}
	return fr.result
}

func (in *Interp) runFrame(fr *frame) {
	defer func() {
		if fr.block == nil {
			return // normal return
		}
		r := recover()
		debugUnwind(fr, r)
		switch r.(type) {
		case pathEnd, pathAbort, unsupported:
			panic(r)
		case targetPanic:
		default:
			// an engine bug or an unexpected Go runtime error inside the engine
			panic(r)
		}
		fr.panicking = true
		fr.panic = r
		fr.runDefers()
		fr.block = fr.fn.Recover
		if fr.block == nil {
			// recovered in a function without named results: return zero values
			fr.result = zero(fr.fn.Signature.Results())
			if fr.fn.Signature.Results().Len() == 0 {
				fr.result = nil
			}
		}
	}()
	// every package initializer is executed tolerantly: what cannot be computed is poisoned and
	// any later use of a poisoned variable stops the run (fail closed)
	tolerant := fr.fn.Synthetic == "package initializer" && fr.fn.Pkg != nil
	for {
		nonPhis := in.executePhis(fr)
		for _, instr := range nonPhis {
			var k continuation
			if tolerant {
				k = in.visitTolerant(fr, instr)
			} else {
				k = in.visitInstr(fr, instr)
			}
			if k == kReturn {
				return
			}
		}
	}
}

// poison marks a value that a standard-library package initializer could not compute. Any use
// of it outside an initializer stops the run (fail closed).
type poison struct{ why string }

// visitTolerant executes one instruction of a std package initializer; failures of the
// engine (unsupported features, reflection, body-less callees) poison the result instead of
// ending the path.
func (in *Interp) visitTolerant(fr *frame, instr ssa.Instruction) (k continuation) {
	if iff, ok := instr.(*ssa.If); ok {
		if _, bad := fr.get(iff.Cond).(poison); bad {
			// cannot continue this initializer: poison everything it has not stored yet
			in.poisonRest(fr.fn.Pkg, "initializer aborted at a poisoned branch")
			fr.block = nil
			return kReturn
		}
	}
	defer func() {
		if r := recover(); r != nil {
			switch r.(type) {
			case pathEnd, pathAbort, targetPanic:
				panic(r)
			}
			why := fmt.Sprint(r)
			if u, ok := r.(unsupported); ok {
				why = u.what
			}
			if v, ok := instr.(ssa.Value); ok {
				fr.env[v] = poison{why}
			}
			if st, ok := instr.(*ssa.Store); ok {
				// a store of/through a poisoned operand: poison the target if it is a global
				if g, ok := st.Addr.(*ssa.Global); ok {
					if cell, ok := in.globals[g]; ok {
						*cell = poison{why}
					}
				}
			}
			k = kNext
		}
	}()
	if st, ok := instr.(*ssa.Store); ok {
		if pv, bad := fr.get(st.Val).(poison); bad {
			if p, ok := fr.get(st.Addr).(*value); ok && p != nil {
				*p = pv
			}
			return kNext
		}
	}
	return in.visitInstr(fr, instr)
}

func (in *Interp) poisonRest(p *ssa.Package, why string) {
	for _, m := range p.Members {
		if g, ok := m.(*ssa.Global); ok {
			if in.P.initRefs(p)[g] {
				if cell, ok := in.globals[g]; ok {
					*cell = poison{why}
				}
			}
		}
	}
}

func (in *Interp) executePhis(fr *frame) []ssa.Instruction {
	firstNonPhi := -1
	for i, instr := range fr.block.Instrs {
		if _, ok := instr.(*ssa.Phi); !ok {
			firstNonPhi = i
			break
		}
	}
	nonPhis := fr.block.Instrs[firstNonPhi:]
	if firstNonPhi > 0 {
		phis := fr.block.Instrs[:firstNonPhi]
		predIndex := slices.Index(fr.block.Preds, fr.prevBlock)
		fr.phitemps = fr.phitemps[:0]
		for _, phi := range phis {
			phi := phi.(*ssa.Phi)
			fr.phitemps = append(fr.phitemps, fr.get(phi.Edges[predIndex]))
		}
		for i, phi := range phis {
			fr.env[phi.(*ssa.Phi)] = fr.phitemps[i]
		}
	}
	return nonPhis
}

func (in *Interp) doRecover(caller *frame) value {
	if caller != nil && !caller.panicking && caller.caller != nil && caller.caller.panicking {
		caller.caller.panicking = false
		p := caller.caller.panic
		caller.caller.panic = nil
		switch p := p.(type) {
		case targetPanic:
			if p.runtime != "" {
				return in.runtimeErrorValue(p.runtime)
			}
			return p.v
		default:
			panic(fmt.Sprintf("unexpected panic type %T in target call to recover()", p))
		}
	}
	return iface{}
}

// runtimeErrorValue builds an error value for a recovered runtime panic.
func (in *Interp) runtimeErrorValue(msg string) value {
	if in.P.errorStringType != nil {
		var cell value = structure{"runtime error: " + msg}
		return iface{t: in.P.errorStringType, v: &cell}
	}
	return iface{t: types.Typ[types.String], v: "runtime error: " + msg}
}

// ---------------------------------------------------------------------------
// builtins

func (in *Interp) callBuiltin(caller *frame, fn *ssa.Builtin, args []value) value {
	switch fn.Name() {
	case "append":
		if len(args) == 1 {
			return args[0]
		}
		dst := args[0].([]value)
		var src []value
		switch s := args[1].(type) {
		case string:
			src = []value(stringToBstr(s))
		case bstr:
			src = []value(s)
		case *sym:
			src = []value(in.concretizeString(s))
		case []value:
			src = s
		}
		if len(src) == 0 {
			return dst
		}
		// copy elements so that aggregates are not aliased
		if len(dst)+len(src) <= cap(dst) {
			out := dst[:len(dst)+len(src)]
			for i, e := range src {
				out[len(dst)+i] = copyVal(e)
			}
			return out
		}
		newCap := 2*cap(dst) + len(src)
		out := make([]value, len(dst), newCap)
		copy(out, dst)
		for _, e := range src {
			out = append(out, copyVal(e))
		}
		// initialise the spare capacity with zero values of the element type
		if len(out) < cap(out) {
			et := fn.Type().(*types.Signature).Results().At(0).Type().Underlying().(*types.Slice).Elem()
			full := out[:cap(out)]
			for i := len(out); i < len(full); i++ {
				full[i] = zero(et)
			}
		}
		return out
	case "copy":
		dst := args[0].([]value)
		var src []value
		switch s := args[1].(type) {
		case string:
			src = []value(stringToBstr(s))
		case bstr:
			src = []value(s)
		case *sym:
			src = []value(in.concretizeString(s))
		case []value:
			src = s
		}
		n := len(dst)
		if len(src) < n {
			n = len(src)
		}
		tmp := make([]value, n)
		for i := 0; i < n; i++ {
			tmp[i] = copyVal(src[i])
		}
		copy(dst, tmp)
		return uint64(n)
	case "close":
		in.chanClose(args[0].(*channel))
		return nil
	case "delete":
		m := args[0].(*omap)
		if m != nil {
			in.mapDelete(m, args[1])
		}
		return nil
	case "clear":
		switch x := args[0].(type) {
		case *omap:
			if x != nil {
				x.keys, x.vals, x.deleted, x.n = nil, nil, nil, 0
			}
		case []value:
			et := fn.Type().(*types.Signature).Params().At(0).Type().Underlying().(*types.Slice).Elem()
			for i := range x {
				x[i] = zero(et)
			}
		}
		return nil
	case "print", "println":
		debugPrintln(args) // intr_C07.go: prints only when VERIF_PRINT is set (harness development)
		return nil
	case "len":
		switch x := args[0].(type) {
		case string:
			return uint64(len(x))
		case bstr:
			return uint64(len(x))
		case *sym:
			return in.mk(sBV, 64, "((_ int2bv 64) (str.len "+x.t+"))")
		case array:
			return uint64(len(x))
		case *value:
			if x == nil {
				return uint64(fn.Type().(*types.Signature).Params().At(0).Type().Underlying().(*types.Pointer).Elem().Underlying().(*types.Array).Len())
			}
			return uint64(len((*x).(array)))
		case []value:
			if v, ok := in.abstractLen(caller, x); ok { // intr_C29.go
				return v
			}
			return uint64(len(x))
		case *omap:
			if x == nil {
				return uint64(0)
			}
			return uint64(x.live())
		case *channel:
			if x == nil {
				return uint64(0)
			}
			return uint64(len(x.buf))
		}
		panic(fmt.Sprintf("len: illegal operand: %T", args[0]))
	case "cap":
		switch x := args[0].(type) {
		case array:
			return uint64(cap(x))
		case *value:
			return uint64(cap((*x).(array)))
		case []value:
			return uint64(cap(x))
		case *channel:
			if x == nil {
				return uint64(0)
			}
			return uint64(x.cap)
		}
		panic(fmt.Sprintf("cap: illegal operand: %T", args[0]))
	case "min", "max":
		t := fn.Type().(*types.Signature).Params().At(0).Type()
		acc := args[0]
		op := token.LSS
		if fn.Name() == "max" {
			op = token.GTR
		}
		for _, a := range args[1:] {
			c := in.binop(op, t, t, a, acc)
			if isFloat(t) {
				if c.(bool) {
					acc = a
				}
				continue
			}
			acc = in.ite(c, t, a, acc)
		}
		return acc
	case "panic":
		panic(targetPanic{v: args[0]})
	case "recover":
		return in.doRecover(caller)
	case "ssa:wrapnilchk":
		recv := args[0]
		if p, ok := recv.(*value); ok && p == nil {
			in.runtimePanic(fmt.Sprintf("value method %s.%s called using nil *%s pointer", toString(args[1]), toString(args[2]), toString(args[1])))
		}
		return recv
	case "ssa:deferstack":
		return &caller.defers
	}
	if v, ok := in.callUnsafeBuiltin(fn, args); ok {
		return v
	}
	panic(unsupported{"builtin " + fn.Name()})
}

// ---------------------------------------------------------------------------
// maps

// keyEq compares map keys; symbolic comparisons fork.
func (in *Interp) keyEq(kt types.Type, a, b value) bool {
	r := in.equals(kt, a, b)
	switch r := r.(type) {
	case bool:
		return r
	case *sym:
		return in.branch(r, "mapkey")
	}
	panic("keyEq")
}

func (in *Interp) mapFind(m *omap, k value) int {
	for i := range m.keys {
		if m.deleted[i] {
			continue
		}
		if in.keyEq(m.kt, m.keys[i], k) {
			return i
		}
	}
	return -1
}

func (in *Interp) mapInsert(m *omap, k, v value) {
	k = normStr(k)
	if i := in.mapFind(m, k); i >= 0 {
		m.vals[i] = v
		return
	}
	m.keys = append(m.keys, k)
	m.vals = append(m.vals, v)
	m.deleted = append(m.deleted, false)
	m.n++
}

func (in *Interp) mapDelete(m *omap, k value) {
	if i := in.mapFind(m, normStr(k)); i >= 0 {
		m.deleted[i] = true
		m.n--
	}
}

func (in *Interp) lookup(instr *ssa.Lookup, x, idx value) value {
	switch x := x.(type) {
	case *omap:
		vt := instr.X.Type().Underlying().(*types.Map).Elem()
		var v value
		ok := false
		if x != nil {
			if i := in.mapFind(x, normStr(idx)); i >= 0 {
				v, ok = copyVal(x.vals[i]), true
			}
		}
		if !ok {
			v = zero(vt)
		}
		if instr.CommaOk {
			return tuple{v, ok}
		}
		return v
	case string:
		i := in.asIndex(idx, instr.Index.Type(), "index", len(x))
		if i < 0 || i >= len(x) {
			in.runtimePanic(fmt.Sprintf("index out of range [%d] with length %d", i, len(x)))
		}
		return uint64(x[i])
	case bstr:
		i := in.asIndex(idx, instr.Index.Type(), "index", len(x))
		if i < 0 || i >= len(x) {
			in.runtimePanic(fmt.Sprintf("index out of range [%d] with length %d", i, len(x)))
		}
		return x[i]
	}
	panic(fmt.Sprintf("unexpected x type in Lookup: %T", x))
}

type mapIter struct {
	m    *omap
	i, n int
	rot  int
}

func (it *mapIter) next(in *Interp) tuple {
	for it.i < it.n {
		j := (it.i + it.rot) % it.n
		it.i++
		if j < len(it.m.keys) && !it.m.deleted[j] {
			return tuple{true, it.m.keys[j], copyVal(it.m.vals[j])}
		}
	}
	return tuple{false, nil, nil}
}

type stringIter struct {
	s string
	i int
}

func (it *stringIter) next(in *Interp) tuple {
	if it.i >= len(it.s) {
		return tuple{false, uint64(0), uint64(0)}
	}
	for j, r := range it.s[it.i:] {
		_ = j
		i := it.i
		it.i += len(string(r))
		if r == 0xFFFD {
			// invalid byte: advances by one
			it.i = i + 1
		}
		return tuple{true, uint64(i), trunc(uint64(r), 32)}
	}
	return tuple{false, uint64(0), uint64(0)}
}

func (in *Interp) rangeIter(x value, t types.Type) iter {
	switch x := normStr(x).(type) {
	case *omap:
		if x == nil {
			return &mapIter{m: &omap{}}
		}
		rot := 0
		if in.cfg.MapOrderChoice && x.live() > 1 {
			rot = in.choose(len(x.keys), "maporder")
		}
		return &mapIter{m: x, n: len(x.keys), rot: rot}
	case string:
		return &stringIter{s: x}
	case bstr:
		// only ASCII-range symbolic strings are ranged over: treat each byte as a rune
		// after forking on "byte < 0x80".
		panic(unsupported{"range over a string with symbolic bytes"})
	}
	panic(unsupported{fmt.Sprintf("range over %T", x)})
}

// event appends to the harness-visible trace.
func (in *Interp) event(kind string, args ...value) {
	in.events = append(in.events, Event{Kind: kind, Args: args})
}

func (in *Interp) pos() string {
	p := in.P.Fset.Position(in.curPos)
	return fmt.Sprintf("%s:%d", strings.TrimPrefix(p.Filename, "/repo/"), p.Line)
}

// onlyReturned reports whether the value of v flows only into return instructions.
func onlyReturned(v ssa.Value) bool {
	refs := v.Referrers()
	if refs == nil || len(*refs) == 0 {
		return false
	}
	for _, r := range *refs {
		switch r := r.(type) {
		case *ssa.Return:
		case *ssa.Extract:
			if !onlyReturned(r) {
				return false
			}
		case *ssa.DebugRef:
		default:
			return false
		}
	}
	return true
}
