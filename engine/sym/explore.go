package sym

// Path exploration: depth-first over recorded decision prefixes; each path is re-executed
// from the harness entry with a fresh solver scope. A decision is taken only after the solver
// has shown the branch feasible (unknown = kept, and reported).

import (
	"fmt"
	"go/token"
	"go/types"
	"sort"
	"strings"
	"sync"
	"time"

	"golang.org/x/tools/go/ssa"
)

// Config controls one harness entry.
type Config struct {
	Unwind      int // symbolic decisions per branch instruction and frame
	MaxSteps    int // SSA instructions per path
	MaxDepth    int
	MaxPaths    int
	MaxAlloc    int
	MaxSymAlloc int
	MaxPreempt  int
	SchedFirst  bool // when the running goroutine blocks or exits, continue with the first runnable one (no scheduler choice)
	Solver      string
	TimeoutMS   int
	Workers     int
	WallBudget  time.Duration
	Havoc       map[string]bool   // callee name -> return fresh values
	Models      map[string]string // callee name -> harness function (same package as the entry)
	Skip        map[string]bool   // callee name -> no-op returning zero values (loggers, metrics)
	InitPkgs    []string          // package paths whose init is executed at path start
	MapOrderChoice bool
	Seed        int64
	WitnessModels bool
	DumpObligations func(id, script string)
	Tier int
	FoldRegex bool // regular-expression memberships and length bounds of a string go to the solver as one membership (Solver.DefineMemb)
	InstrPkg string // package whose synchronisation operations are scheduling points of the native replay
	InstrMore map[string]bool // further packages instrumented the same way (spec "instr_pkgs")
	witnessed *sync.Map
}

func (c *Config) defaults() {
	if c.Unwind == 0 {
		c.Unwind = 12
	}
	if c.MaxSteps == 0 {
		c.MaxSteps = 2_000_000
	}
	if c.MaxDepth == 0 {
		c.MaxDepth = 200
	}
	if c.MaxPaths == 0 {
		c.MaxPaths = 200_000
	}
	if c.MaxAlloc == 0 {
		c.MaxAlloc = 1 << 22
	}
	if c.MaxSymAlloc == 0 {
		c.MaxSymAlloc = 16
	}
	if c.MaxPreempt == 0 {
		c.MaxPreempt = 2
	}
	if c.MaxPreempt < 0 {
		c.MaxPreempt = 0
	}
	if c.Solver == "" {
		c.Solver = "z3"
	}
	if c.TimeoutMS == 0 {
		c.TimeoutMS = 60000
	}
	if c.Workers == 0 {
		c.Workers = 8
	}
	if c.WallBudget == 0 {
		c.WallBudget = 10 * time.Minute
	}
}

type decision struct {
	choice int
	n      int
	tag    string
}

type pathState struct {
	prefix   []decision
	pos      int
	taken    []decision
	newAlts  [][]decision
	unknowns int
}

// Violation is a failed obligation (or an unlisted finding, or a panic when panics are violations).
type Violation struct {
	ID      string
	Detail  string
	Pos     string
	Values  map[string]any
	Script  string
	Entry   string
	Trace   []string
	Sched   []int
	Sel     [][2]int
}

// Finding is a witness of a recorded class (verifFinding).
type Finding struct {
	ID     string
	Pos    string
	Values map[string]any
	Entry  string
	Sched  []int
	Sel    [][2]int
}

// PathResult is what one executed path reports.
type PathResult struct {
	Status     string
	Detail     string
	Violations []Violation
	Findings   []Finding
	Reached    map[string]map[string]any // marker -> witness values (nil if no model was fetched)
	Asserts    int
	Trivial    int
	Steps      int
	Funcs      map[string]int
	Stubs      map[string]int
	Notes      []string
	Decisions  int
	Unknowns   int
}

// Result aggregates one harness entry.
type Result struct {
	Entry        string
	Paths        int
	PathsByStatus map[string]int
	States       int
	Steps        int
	Asserts      int
	TrivialAsserts int
	Violations   []Violation
	Findings     map[string]Finding
	Reached      map[string]map[string]any
	Inconclusive []string
	Funcs        map[string]int
	Stubs        map[string]int
	Notes        []string
	Solver       SolverStats
	Wall         float64
	Unknowns     int
	CapHit       string
}

// Explore runs all paths of entry.
func Explore(P *Program, entry *ssa.Function, cfg Config) *Result {
	cfg.defaults()
	cfg.witnessed = &sync.Map{}
	res := &Result{Entry: entry.Name(), PathsByStatus: map[string]int{}, Findings: map[string]Finding{}, Reached: map[string]map[string]any{},
		Funcs: map[string]int{}, Stubs: map[string]int{}}
	t0 := time.Now()
	var mu sync.Mutex
	work := [][]decision{nil}
	active := 0
	cond := sync.NewCond(&mu)
	stop := false
	var wg sync.WaitGroup
	for w := 0; w < cfg.Workers; w++ {
		wg.Add(1)
		go func() {
			defer wg.Done()
			solver, err := NewSolver(cfg.Solver, cfg.TimeoutMS)
			if err != nil {
				mu.Lock()
				res.Inconclusive = append(res.Inconclusive, "cannot start solver: "+err.Error())
				stop = true
				cond.Broadcast()
				mu.Unlock()
				return
			}
			defer func() {
				mu.Lock()
				res.Solver.Sat += solver.Stats.Sat
				res.Solver.Unsat += solver.Stats.Unsat
				res.Solver.Unknown += solver.Stats.Unknown
				res.Solver.Errors += solver.Stats.Errors
				res.Solver.Seconds += solver.Stats.Seconds
				mu.Unlock()
				solver.Close()
			}()
			for {
				mu.Lock()
				for len(work) == 0 && active > 0 && !stop {
					cond.Wait()
				}
				if stop || (len(work) == 0 && active == 0) {
					cond.Broadcast()
					mu.Unlock()
					return
				}
				prefix := work[len(work)-1]
				work = work[:len(work)-1]
				active++
				mu.Unlock()

				pr, alts := runPath(P, entry, &cfg, solver, prefix)

				mu.Lock()
				active--
				work = append(work, alts...)
				res.Paths++
				res.PathsByStatus[pr.Status]++
				res.Steps += pr.Steps
				res.States += pr.Decisions + 1
				res.Asserts += pr.Asserts
				res.TrivialAsserts += pr.Trivial
				res.Unknowns += pr.Unknowns
				for k, v := range pr.Funcs {
					res.Funcs[k] += v
				}
				for k, v := range pr.Stubs {
					res.Stubs[k] += v
				}
				for _, n := range pr.Notes {
					found := false
					for _, m := range res.Notes {
						if m == n {
							found = true
						}
					}
					if !found {
						res.Notes = append(res.Notes, n)
					}
				}
				for k, v := range pr.Reached {
					if old, ok := res.Reached[k]; !ok || (old == nil && v != nil) {
						res.Reached[k] = v
					}
				}
				for _, f := range pr.Findings {
					if _, ok := res.Findings[f.ID]; !ok {
						res.Findings[f.ID] = f
					}
				}
				if len(res.Violations) < 20 {
					res.Violations = append(res.Violations, pr.Violations...)
				}
				switch pr.Status {
				case "inconclusive", "deadlock", "panic":
					if len(res.Inconclusive) < 20 {
						res.Inconclusive = append(res.Inconclusive, pr.Status+": "+pr.Detail+" [decisions "+decString(prefixOf(pr, prefix))+"]")
					}
				}
				if res.Paths >= cfg.MaxPaths && !stop {
					res.CapHit = fmt.Sprintf("path cap %d", cfg.MaxPaths)
					stop = true
				}
				if time.Since(t0) > cfg.WallBudget && !stop {
					res.CapHit = fmt.Sprintf("wall budget %s", cfg.WallBudget)
					stop = true
				}
				if len(res.Violations) >= 8 {
					stop = true
				}
				cond.Broadcast()
				mu.Unlock()
			}
		}()
	}
	wg.Wait()
	if res.CapHit != "" && len(work) > 0 {
		res.Inconclusive = append(res.Inconclusive, "exploration stopped by "+res.CapHit+" with "+fmt.Sprint(len(work))+" unexplored prefixes")
	}
	res.Wall = time.Since(t0).Seconds()
	return res
}

func prefixOf(pr *PathResult, p []decision) []decision { return p }

func decString(ds []decision) string {
	var sb strings.Builder
	for _, d := range ds {
		fmt.Fprintf(&sb, "%d", d.choice)
	}
	return sb.String()
}

// runPath executes one path following prefix and returns its result and the new alternatives.
func runPath(P *Program, entry *ssa.Function, cfg *Config, solver *Solver, prefix []decision) (*PathResult, [][]decision) {
	solver.Reset()
	in := &Interp{P: P, cfg: cfg, solver: solver,
		path:      &pathState{prefix: prefix},
		globals:   map[*ssa.Global]*value{},
		strMax:    map[string]int{},
		nondetIdx: map[string]int{},
		reached:   map[string]bool{},
		funcsSeen: map[string]int{},
		stubsSeen: map[string]int{},
		sideState: map[*value]any{},
		objIDs:    map[any]int{},
		clock:     uint64(1_000_000_000_000),
	}
	pr := &PathResult{Reached: map[string]map[string]any{}}
	in.result = pr
	s := &sched{doneCh: make(chan pathEnd, 1)}
	in.sched = s
	g0 := &goroutine{id: 0, wake: make(chan struct{}), fired: -1, name: entry.Name()}
	s.gs = append(s.gs, g0)
	s.live = 1
	s.cur = g0
	var realWG sync.WaitGroup
	in.realWG = &realWG
	realWG.Add(1)
	go func() {
		defer realWG.Done()
		defer func() {
			r := recover()
			in.goroutineExit(g0, r)
		}()
		in.initPackages()
		in.call(nil, token.NoPos, entry, nil)
	}()
	pe := <-s.doneCh
	s.dead = true
	// wake every parked goroutine so that it unwinds
	for _, g := range s.gs {
		if g == g0 && g0.done {
			continue
		}
		if !g.done {
			select {
			case g.wake <- struct{}{}:
			case <-time.After(2 * time.Second):
			}
		}
	}
	done := make(chan struct{})
	go func() { realWG.Wait(); close(done) }()
	select {
	case <-done:
	case <-time.After(5 * time.Second):
	}
	pr.Status, pr.Detail = pe.status, pe.detail
	pr.Asserts, pr.Trivial, pr.Steps = in.asserts, in.trivial, in.steps
	pr.Funcs, pr.Stubs, pr.Notes = in.funcsSeen, in.stubsSeen, in.notes
	pr.Decisions = len(in.path.taken)
	pr.Unknowns = in.path.unknowns
	if pr.Status == "panic" && in.panicsBad {
		pr.Status = "violation"
		pr.Violations = append(pr.Violations, in.makeViolation("panic", pe.detail, ""))
	}
	return pr, in.path.newAlts
}

// ---------------------------------------------------------------------------
// decisions

func (in *Interp) assertPC(term string) {
	in.solver.Send("(assert " + term + ")")
	if in.pcLits == nil {
		in.pcLits = map[string]bool{}
	}
	in.pcLits[term] = true
}

// pcKnown reports whether term (or its negation) is literally one of the asserted path
// constraints, so that a branch on it needs no solver call (same decision record as a solved one).
func (in *Interp) pcKnown(term string) (val, known bool) {
	if in.pcLits[term] {
		return true, true
	}
	if in.pcLits["(not "+term+")"] {
		return false, true
	}
	return false, false
}

// branch decides a symbolic condition, forking when both sides are feasible.
func (in *Interp) branch(c *sym, tag string) bool {
	p := in.path
	if p.pos < len(p.prefix) {
		d := p.prefix[p.pos]
		p.pos++
		p.taken = append(p.taken, d)
		if d.n != 2 {
			panic(pathEnd{"inconclusive", fmt.Sprintf("replay divergence at decision %d (%s vs %s)", p.pos-1, d.tag, tag)})
		}
		if d.choice == 1 {
			in.assertPC(c.t)
			return true
		}
		in.assertPC("(not " + c.t + ")")
		return false
	}
	if v, known := in.pcKnown(c.t); known {
		d := decision{0, 2, tag}
		if v {
			d.choice = 1
		}
		p.taken = append(p.taken, d)
		return v
	}
	// With string constraints a "sat" answer can take very long while the opposite side is refuted
	// at once, and one refuted side settles the branch (the path itself is feasible): ask both
	// sides under a short limit first.
	rt, rf := "unknown", "unknown"
	if in.cfg.FoldRegex && in.solver.HasNegMemb() {
		// inclusion checks: most branches are refuted without the negative memberships that
		// earlier branches left on the path, and those are what makes the queries expensive
		if in.solver.RefutedRelaxed(c.t) {
			rt = "unsat"
		} else if in.solver.RefutedRelaxed("(not " + c.t + ")") {
			rf = "unsat"
		}
	} else if len(in.strMax) > 0 {
		rt = in.solver.QuickCheck(c.t, 1500)
		if rt != "unsat" {
			rf = in.solver.QuickCheck("(not "+c.t+")", 1500)
		}
	}
	if rt == "unknown" && rf != "unsat" {
		rt = in.solver.Check(c.t)
	}
	if rt == "unsat" {
		// the false side must be feasible (the path is); recorded so that replays stay aligned
		p.taken = append(p.taken, decision{0, 2, tag})
		in.assertPC("(not " + c.t + ")")
		return false
	}
	if rf == "unknown" {
		rf = in.solver.Check("(not " + c.t + ")")
	}
	if rf == "unsat" {
		p.taken = append(p.taken, decision{1, 2, tag})
		in.assertPC(c.t)
		return true
	}
	if rt == "unknown" || rf == "unknown" {
		p.unknowns++
	}
	// both feasible (or unknown): take true now, schedule false
	alt := append(append([]decision(nil), p.taken...), decision{0, 2, tag})
	p.newAlts = append(p.newAlts, alt)
	p.taken = append(p.taken, decision{1, 2, tag})
	in.assertPC(c.t)
	return true
}

// choose forks n ways without consulting the solver.
func (in *Interp) choose(n int, tag string) int {
	if n <= 1 {
		return 0
	}
	p := in.path
	if p.pos < len(p.prefix) {
		d := p.prefix[p.pos]
		p.pos++
		p.taken = append(p.taken, d)
		if d.n != n {
			panic(pathEnd{"inconclusive", fmt.Sprintf("replay divergence at decision %d (%s/%d vs %s/%d)", p.pos-1, d.tag, d.n, tag, n)})
		}
		return d.choice
	}
	for k := n - 1; k >= 1; k-- {
		alt := append(append([]decision(nil), p.taken...), decision{k, n, tag})
		p.newAlts = append(p.newAlts, alt)
	}
	p.taken = append(p.taken, decision{0, n, tag})
	return 0
}

// assume constrains the path; an unsatisfiable assumption ends it silently.
func (in *Interp) assume(c value) {
	switch c := c.(type) {
	case bool:
		if !c {
			panic(pathEnd{"infeasible", "assumption false"})
		}
	case *sym:
		in.assertPC(c.t)
		if in.path.pos >= len(in.path.prefix) {
			if in.solver.Check("") == "unsat" {
				panic(pathEnd{"infeasible", "assumption unsatisfiable"})
			}
		}
	}
}

// ---------------------------------------------------------------------------
// models and obligations

func (in *Interp) nondetNames() []string {
	var names []string
	for _, n := range in.nondets {
		if n.Term != "" {
			names = append(names, n.Term)
		}
	}
	return names
}

// modelValues fetches the values of all nondets under the current path plus extra.
func (in *Interp) modelValues(extra string) (string, map[string]any) {
	names := in.nondetNames()
	if len(names) == 0 && extra == "" {
		// every nondet on this path is concrete (verifChoice only): the path is feasible by
		// construction and there is nothing to ask the solver
		out := map[string]any{}
		for _, n := range in.nondets {
			out[n.Name] = jsonable(n.Conc)
		}
		return "sat", out
	}
	res, vals := in.solver.CheckModel(extra, names)
	if res == "unknown" {
		res, vals = in.solver.FallbackModel(extra, names)
	}
	if res != "sat" {
		return res, nil
	}
	out := map[string]any{}
	for _, n := range in.nondets {
		if n.Term == "" {
			out[n.Name] = jsonable(n.Conc)
			continue
		}
		raw, ok := vals[n.Term]
		if !ok {
			continue
		}
		switch n.Kind {
		case "bool":
			out[n.Name] = raw == "true"
		case "str":
			if s, ok := parseStrLit(raw); ok {
				out[n.Name] = bytesJSON(s)
			}
		default:
			if u, ok := parseBVLit(raw); ok {
				if n.Sign {
					out[n.Name] = sext(u, n.W)
				} else {
					out[n.Name] = u
				}
			}
		}
	}
	return res, out
}

// bytesJSON renders a byte string so that JSON round-trips it exactly.
func bytesJSON(s string) any {
	ascii := true
	for i := 0; i < len(s); i++ {
		if s[i] < 0x20 || s[i] >= 0x7f {
			ascii = false
		}
	}
	if ascii {
		return s
	}
	bs := make([]int, len(s))
	for i := 0; i < len(s); i++ {
		bs[i] = int(s[i])
	}
	return map[string]any{"bytes": bs}
}

func jsonable(v value) any {
	switch v := v.(type) {
	case uint64, bool, string, float64:
		return v
	}
	return toString(v)
}

func (in *Interp) makeViolation(id, detail, extra string) Violation {
	v := Violation{ID: id, Detail: detail, Pos: in.pos(), Entry: in.sched.gs[0].name}
	_, vals := in.modelValues(extra)
	v.Values = vals
	v.Script = in.solver.Script(extra)
	v.Sched = append([]int(nil), in.spTrace...)
	v.Sel = append([][2]int(nil), in.selTrace...)
	for _, e := range in.events {
		v.Trace = append(v.Trace, fmtEvent(e))
	}
	return v
}

func fmtEvent(e Event) string {
	parts := []string{e.Kind}
	for _, a := range e.Args {
		parts = append(parts, toString(a))
	}
	return strings.Join(parts, " ")
}

// obligation checks an assertion on the current path.
func (in *Interp) obligation(id string, c value) {
	in.asserts++
	switch c := c.(type) {
	case bool:
		if c {
			in.trivial++
			return
		}
		in.result.Violations = append(in.result.Violations, in.makeViolation(id, "assertion is false on this path", ""))
		panic(pathEnd{"violation", id})
	case *sym:
		neg := "(not " + c.t + ")"
		r := in.solver.Check(neg)
		if r == "unknown" {
			r = in.solver.FallbackCheck(neg)
		}
		switch r {
		case "unsat":
			in.assertPC(c.t)
			if in.cfg.DumpObligations != nil {
				in.cfg.DumpObligations(id, in.solver.Script(neg))
			}
			return
		case "sat":
			in.result.Violations = append(in.result.Violations, in.makeViolation(id, "assertion can fail", neg))
			panic(pathEnd{"violation", id})
		default:
			panic(pathEnd{"inconclusive", "solver answered unknown for obligation " + id + " at " + in.pos()})
		}
	}
}

func (in *Interp) reach(id string) {
	if in.reached[id] {
		return
	}
	in.reached[id] = true
	var vals map[string]any
	if in.cfg.WitnessModels {
		if _, seen := in.cfg.witnessed.LoadOrStore(id, true); !seen {
			_, vals = in.modelValues("")
		}
	}
	in.result.Reached[id] = vals
}

func (in *Interp) finding(id string) {
	_, vals := in.modelValues("")
	in.result.Findings = append(in.result.Findings, Finding{ID: id, Pos: in.pos(), Values: vals, Entry: in.sched.gs[0].name, Sched: append([]int(nil), in.spTrace...), Sel: append([][2]int(nil), in.selTrace...)})
	panic(pathEnd{"ok", "finding " + id})
}

// sortedKeys helps produce deterministic evidence.
func sortedKeys[V any](m map[string]V) []string {
	ks := make([]string, 0, len(m))
	for k := range m {
		ks = append(ks, k)
	}
	sort.Strings(ks)
	return ks
}

var _ = types.Typ
