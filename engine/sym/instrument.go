package sym

// Source instrumentation for deterministic native replay of interleavings: a verifSP() call is
// inserted before every statement of the target package that performs one of the operations the
// engine treats as a scheduling point (see spsched.go), and go statements register the new
// goroutine. The instrumented files replace the originals only in the native replay build
// (go test -overlay); /repo is not touched.

import (
	"bytes"
	"go/ast"
	"go/format"
	"go/token"
	"go/types"
	"path/filepath"
	"strconv"
	"strings"

	"golang.org/x/tools/go/packages"
)

var spCallees = map[string]bool{
	"(*sync.Mutex).Lock":     true,
	"(*sync.RWMutex).Lock":   true,
	"(*sync.RWMutex).RLock":  true,
	"(*sync.WaitGroup).Wait": true,
	"(*sync.Cond).Wait":      true,
	"(sync.Locker).Lock":     true,
	"time.Sleep":             true,
	// scheduling points only for harnesses that called verifPoolReuse() (intr_C30c.go); without a
	// forced schedule verifSP() is a no-op
	"(*sync.Pool).Get": true,
	"(*sync.Pool).Put": true,
}

// InstrumentPackage returns instrumented sources (file name -> content) of the package with
// the given import path. Files whose base name is in skip are left out.
func (P *Program) InstrumentPackage(pkgPath string, skip map[string]bool) (map[string][]byte, error) {
	var pkg *packages.Package
	packages.Visit(P.Initial, nil, func(p *packages.Package) {
		if p.PkgPath == pkgPath && len(p.Syntax) > 0 {
			pkg = p
		}
	})
	if pkg == nil {
		return nil, nil
	}
	out := map[string][]byte{}
	for i, f := range pkg.Syntax {
		name := pkg.CompiledGoFiles[i]
		if skip[filepath.Base(name)] || strings.HasSuffix(name, "_test.go") {
			continue
		}
		ins := &instrumenter{info: pkg.TypesInfo, forceSel: P.ForceSelect}
		changed := false
		for _, d := range f.Decls {
			if fd, ok := d.(*ast.FuncDecl); ok && fd.Body != nil {
				if strings.HasPrefix(fd.Name.Name, "verif") && fd.Recv == nil && fd.Name.Name != "verifC" {
					// harness helpers named verif* are instrumented like everything else
				}
				ins.block(fd.Body)
			}
		}
		changed = ins.n > 0
		if !changed {
			continue
		}
		if len(ins.rewritten) > 0 {
			// the clauses of a rewritten select are printed twice: comments inside would be misplaced
			var keep []*ast.CommentGroup
			for _, cg := range f.Comments {
				inside := false
				for _, r := range ins.rewritten {
					if cg.Pos() >= r[0] && cg.End() <= r[1] {
						inside = true
					}
				}
				if !inside {
					keep = append(keep, cg)
				}
			}
			f.Comments = keep
		}
		var buf bytes.Buffer
		if err := format.Node(&buf, P.Fset, f); err != nil {
			return nil, err
		}
		out[name] = buf.Bytes()
	}
	return out, nil
}

type instrumenter struct {
	info      *types.Info
	n         int
	forceSel  bool
	rewritten [][2]token.Pos // source ranges of the selects rewritten by forceSelect
}

// forceSelect wraps an (already instrumented) select with at least two communication clauses:
//
//	switch verifSel() {
//	case 0:  select { <clause 0> }
//	case 1:  select { <clause 1> } ...
//	default: <the select as it was>
//	}
//
// verifSel() is -1 unless the replay file says which case this execution of the select took in
// the symbolic run (it had several ready cases there; the native choice would be random). Case
// numbers count the communication clauses in source order, as ssa.Select.States does.
func (ins *instrumenter) forceSelect(s *ast.SelectStmt) ast.Stmt {
	var comms []*ast.CommClause
	for _, c := range s.Body.List {
		if cc, ok := c.(*ast.CommClause); ok && cc.Comm != nil {
			comms = append(comms, cc)
		}
	}
	if len(comms) < 2 {
		return s
	}
	labelled := false
	ast.Inspect(s, func(n ast.Node) bool {
		if _, ok := n.(*ast.LabeledStmt); ok {
			labelled = true // a label must not be declared twice
		}
		return !labelled
	})
	if labelled {
		return s
	}
	ins.rewritten = append(ins.rewritten, [2]token.Pos{s.Pos(), s.End()})
	sw := &ast.SwitchStmt{Tag: &ast.CallExpr{Fun: ast.NewIdent("verifSel")}, Body: &ast.BlockStmt{}}
	for i, cc := range comms {
		one := &ast.SelectStmt{Body: &ast.BlockStmt{List: []ast.Stmt{cc}}}
		sw.Body.List = append(sw.Body.List, &ast.CaseClause{
			List: []ast.Expr{&ast.BasicLit{Kind: token.INT, Value: strconv.Itoa(i)}},
			Body: []ast.Stmt{one},
		})
	}
	sw.Body.List = append(sw.Body.List, &ast.CaseClause{Body: []ast.Stmt{s}})
	return sw
}

func spStmt() ast.Stmt {
	return &ast.ExprStmt{X: &ast.CallExpr{Fun: ast.NewIdent("verifSP")}}
}

func (ins *instrumenter) block(b *ast.BlockStmt) {
	if b == nil {
		return
	}
	b.List = ins.list(b.List)
}

func (ins *instrumenter) list(list []ast.Stmt) []ast.Stmt {
	var out []ast.Stmt
	for _, s := range list {
		ins.nested(s)
		if g, ok := s.(*ast.GoStmt); ok {
			out = append(out, ins.goStmt(g))
			ins.n++
			continue
		}
		if ins.needsSP(s) {
			out = append(out, spStmt())
			ins.n++
			post := ins.post(s)
			if sel, ok := s.(*ast.SelectStmt); ok && ins.forceSel {
				s = ins.forceSelect(sel)
			}
			out = append(out, s)
			out = append(out, post...)
			continue
		}
		out = append(out, s)
	}
	return out
}

// post places the "operation completed" scheduling point: after simple statements, at the start
// of every clause of a select, at the start of a range-over-channel body and after the loop, at
// the start of both arms of an if whose header performs the operation.
func (ins *instrumenter) post(s ast.Stmt) []ast.Stmt {
	switch s := s.(type) {
	case *ast.SelectStmt:
		for _, c := range s.Body.List {
			if cc, ok := c.(*ast.CommClause); ok {
				cc.Body = append([]ast.Stmt{spStmt()}, cc.Body...)
			}
		}
		return nil
	case *ast.RangeStmt:
		s.Body.List = append([]ast.Stmt{spStmt()}, s.Body.List...)
		return []ast.Stmt{spStmt()}
	case *ast.IfStmt:
		s.Body.List = append([]ast.Stmt{spStmt()}, s.Body.List...)
		switch e := s.Else.(type) {
		case nil:
			s.Else = &ast.BlockStmt{List: []ast.Stmt{spStmt()}}
		case *ast.BlockStmt:
			e.List = append([]ast.Stmt{spStmt()}, e.List...)
		case *ast.IfStmt:
			s.Else = &ast.BlockStmt{List: []ast.Stmt{spStmt(), e}}
		}
		return nil
	case *ast.ReturnStmt, *ast.BranchStmt, *ast.SwitchStmt, *ast.TypeSwitchStmt, *ast.ForStmt:
		return nil // no place for it (the replay may lose alignment here)
	case *ast.ExprStmt:
		// `c.Wait()` on a *sync.Cond: the executor re-acquires c.L in a step of its own when the
		// woken goroutine's turn comes (others may take the lock in between); natively Wait
		// returns with the lock held, so the replay hands it back until that turn: verifSPRelock
		if call, ok := s.X.(*ast.CallExpr); ok {
			if sel, ok := call.Fun.(*ast.SelectorExpr); ok {
				if fn, ok := ins.info.Uses[sel.Sel].(*types.Func); ok && fn.FullName() == "(*sync.Cond).Wait" {
					return []ast.Stmt{&ast.ExprStmt{X: &ast.CallExpr{Fun: ast.NewIdent("verifSPRelock"),
						Args: []ast.Expr{&ast.SelectorExpr{X: sel.X, Sel: ast.NewIdent("L")}}}}}
				}
			}
		}
	}
	return []ast.Stmt{spStmt()}
}

// nested instruments the statement lists inside s (and function literals in its expressions).
func (ins *instrumenter) nested(s ast.Stmt) {
	switch s := s.(type) {
	case *ast.BlockStmt:
		ins.block(s)
	case *ast.IfStmt:
		ins.block(s.Body)
		if s.Else != nil {
			ins.nested(s.Else)
		}
	case *ast.ForStmt:
		ins.block(s.Body)
	case *ast.RangeStmt:
		ins.block(s.Body)
		if tv, ok := ins.info.Types[s.X]; ok {
			if _, isChan := tv.Type.Underlying().(*types.Chan); isChan && s.Body != nil {
				// one receive per iteration: SP before the loop (added by needsSP) and after each body
				s.Body.List = append(s.Body.List, spStmt())
				ins.n++
			}
		}
	case *ast.SwitchStmt:
		ins.block(s.Body)
	case *ast.TypeSwitchStmt:
		ins.block(s.Body)
	case *ast.SelectStmt:
		ins.block(s.Body)
	case *ast.CaseClause:
		s.Body = ins.list(s.Body)
	case *ast.CommClause:
		s.Body = ins.list(s.Body)
	case *ast.LabeledStmt:
		ins.nested(s.Stmt)
	}
	// function literals anywhere in the statement's own expressions
	ins.funcLits(s)
}

func (ins *instrumenter) funcLits(s ast.Stmt) {
	ast.Inspect(s, func(n ast.Node) bool {
		switch n := n.(type) {
		case *ast.FuncLit:
			ins.block(n.Body)
			return false
		case *ast.BlockStmt:
			// nested blocks were handled by nested(); but the top statement itself may be a block
			if ast.Node(s) != n {
				return false
			}
		}
		return true
	})
}

// needsSP reports whether the statement's own expressions (not nested blocks, not function
// literals) perform a scheduling-point operation.
func (ins *instrumenter) needsSP(s ast.Stmt) bool {
	switch s := s.(type) {
	case *ast.SendStmt, *ast.SelectStmt:
		return true
	case *ast.RangeStmt:
		if tv, ok := ins.info.Types[s.X]; ok {
			if _, isChan := tv.Type.Underlying().(*types.Chan); isChan {
				return true
			}
		}
		return ins.exprHasSP(s.X)
	case *ast.IfStmt:
		return (s.Init != nil && ins.needsSP(s.Init)) || ins.exprHasSP(s.Cond)
	case *ast.SwitchStmt:
		return (s.Init != nil && ins.needsSP(s.Init)) || (s.Tag != nil && ins.exprHasSP(s.Tag))
	case *ast.TypeSwitchStmt:
		return s.Init != nil && ins.needsSP(s.Init)
	case *ast.ForStmt:
		return s.Init != nil && ins.needsSP(s.Init)
	case *ast.LabeledStmt:
		return false
	case *ast.BlockStmt, *ast.CaseClause, *ast.CommClause, *ast.GoStmt, *ast.DeferStmt:
		return false
	}
	found := false
	ast.Inspect(s, func(n ast.Node) bool {
		if found {
			return false
		}
		switch n := n.(type) {
		case *ast.FuncLit:
			return false
		case ast.Expr:
			if ins.isSPExpr(n) {
				found = true
				return false
			}
		}
		return true
	})
	return found
}

func (ins *instrumenter) exprHasSP(e ast.Expr) bool {
	if e == nil {
		return false
	}
	found := false
	ast.Inspect(e, func(n ast.Node) bool {
		if found {
			return false
		}
		switch n := n.(type) {
		case *ast.FuncLit:
			return false
		case ast.Expr:
			if ins.isSPExpr(n) {
				found = true
				return false
			}
		}
		return true
	})
	return found
}

func (ins *instrumenter) isSPExpr(e ast.Expr) bool {
	switch e := e.(type) {
	case *ast.UnaryExpr:
		return e.Op == token.ARROW
	case *ast.CallExpr:
		var id *ast.Ident
		switch f := e.Fun.(type) {
		case *ast.SelectorExpr:
			id = f.Sel
		case *ast.Ident:
			id = f
		}
		if id == nil {
			return false
		}
		if fn, ok := ins.info.Uses[id].(*types.Func); ok {
			return spCallees[fn.FullName()]
		}
	}
	return false
}

// goStmt rewrites `go f(args)` so that the new goroutine registers with the replay scheduler.
func (ins *instrumenter) goStmt(g *ast.GoStmt) ast.Stmt {
	idDecl := &ast.AssignStmt{Lhs: []ast.Expr{ast.NewIdent("verifGoID")}, Tok: token.DEFINE,
		Rhs: []ast.Expr{&ast.CallExpr{Fun: ast.NewIdent("verifSpawn")}}}
	enter := &ast.ExprStmt{X: &ast.CallExpr{Fun: ast.NewIdent("verifEnter"), Args: []ast.Expr{ast.NewIdent("verifGoID")}}}
	if lit, ok := g.Call.Fun.(*ast.FuncLit); ok {
		lit.Body.List = append([]ast.Stmt{enter}, lit.Body.List...)
		return &ast.BlockStmt{List: []ast.Stmt{idDecl, g}}
	}
	// go f(args): wrap (arguments are then evaluated in the new goroutine)
	wrapped := &ast.GoStmt{Call: &ast.CallExpr{Fun: &ast.FuncLit{
		Type: &ast.FuncType{Params: &ast.FieldList{}},
		Body: &ast.BlockStmt{List: []ast.Stmt{enter, &ast.ExprStmt{X: g.Call}}},
	}}}
	return &ast.BlockStmt{List: []ast.Stmt{idDecl, wrapped}}
}

// HookFile is the source overlaid into a further instrumented package (spec "instr_pkgs"): the
// scheduling-point functions there forward to the shim of the package under test, which installs
// itself through the exported variables before the entry runs.
func HookFile(pkgName string) []byte {
	return []byte("package " + pkgName + `

var VerifSPHook func()
var VerifSpawnHook func() int
var VerifEnterHook func(int)
var VerifSelHook func() int

func verifSP() {
	if VerifSPHook != nil {
		VerifSPHook()
	}
}
func verifSPRelock(l interface {
	Lock()
	Unlock()
}) {
	verifSP()
}
func verifSpawn() int {
	if VerifSpawnHook != nil {
		return VerifSpawnHook()
	}
	return 0
}
func verifEnter(id int) {
	if VerifEnterHook != nil {
		VerifEnterHook(id)
	}
}
func verifSel() int {
	if VerifSelHook != nil {
		return VerifSelHook()
	}
	return -1
}
`)
}

// PackageNameDir returns the name and directory of a loaded package.
func (P *Program) PackageNameDir(pkgPath string) (name, dir string) {
	packages.Visit(P.Initial, nil, func(p *packages.Package) {
		if p.PkgPath == pkgPath && len(p.CompiledGoFiles) > 0 {
			name, dir = p.Name, filepath.Dir(p.CompiledGoFiles[0])
		}
	})
	return
}
