package sym

// regexp intrinsics: regexp.MustCompile/Compile keep the pattern; MatchString on a concrete
// subject runs Go's own matcher, on a symbolic subject it becomes (str.in_re s R) with R
// translated from regexp/syntax. Subjects are byte strings restricted to ASCII by the
// harnesses (Go matches runes, the solver code points).

import (
	"fmt"
	"regexp"
	"regexp/syntax"
	"strings"
	"sync"
	"unicode"
)

type regexObj struct {
	pattern string
	re      *regexp.Regexp
}

var regLanCache sync.Map // pattern -> string (RegLan term for unanchored MatchString)

func init() {
	reg := func(name string, h handler) { intrinsics[name] = h }
	compile := func(in *Interp, pat value, must bool) value {
		p := in.concStr(pat, "regexp.Compile")
		re, err := regexp.Compile(p)
		if err != nil {
			if must {
				in.runtimePanic("regexp: Compile(" + p + "): " + err.Error())
			}
			return tuple{(*value)(nil), in.newOpaqueError(err.Error())}
		}
		var cell value = &regexObj{pattern: p, re: re}
		if must {
			return &cell
		}
		return tuple{&cell, iface{}}
	}
	reg("regexp.MustCompile", func(in *Interp, fr *frame, a []value) value { return compile(in, a[0], true) })
	reg("regexp.Compile", func(in *Interp, fr *frame, a []value) value { return compile(in, a[0], false) })
	obj := func(in *Interp, v value) *regexObj {
		p := v.(*value)
		if p == nil {
			in.runtimePanic("invalid memory address or nil pointer dereference")
		}
		o, ok := (*p).(*regexObj)
		if !ok {
			panic(unsupported{"regexp object not created by the regexp intrinsic"})
		}
		return o
	}
	reg("(*regexp.Regexp).String", func(in *Interp, fr *frame, a []value) value { return obj(in, a[0]).pattern })
	match := func(in *Interp, fr *frame, a []value) value {
		o := obj(in, a[0])
		if s, ok := normStr(a[1]).(string); ok {
			return o.re.MatchString(s)
		}
		rl, err := regLanFor(o.pattern)
		if err != nil {
			panic(unsupported{"regexp translation: " + err.Error()})
		}
		if in.cfg.FoldRegex {
			return &sym{k: sBool, t: in.solver.DefineMemb(in.strOf(a[1]), rl)}
		}
		return in.mk(sBool, 0, "(str.in_re "+in.strOf(a[1])+" "+rl+")")
	}
	reg("(*regexp.Regexp).MatchString", match)
	reg("(*regexp.Regexp).Match", func(in *Interp, fr *frame, a []value) value {
		bs := a[1].([]value)
		return match(in, fr, []value{a[0], normStr(bstr(bs))})
	})
	reg("regexp.MatchString", func(in *Interp, fr *frame, a []value) value {
		r := compile(in, a[0], false).(tuple)
		if r[0].(*value) == nil {
			return tuple{false, r[1]}
		}
		return tuple{match(in, fr, []value{r[0], a[1]}), iface{}}
	})
	// functions with concrete subjects only
	conc := func(name string, f func(o *regexObj, in *Interp, a []value) value) {
		reg(name, func(in *Interp, fr *frame, a []value) value { return f(obj(in, a[0]), in, a) })
	}
	conc("(*regexp.Regexp).ReplaceAllString", func(o *regexObj, in *Interp, a []value) value {
		return o.re.ReplaceAllString(in.concStr(a[1], "ReplaceAllString"), in.concStr(a[2], "ReplaceAllString"))
	})
	conc("(*regexp.Regexp).FindString", func(o *regexObj, in *Interp, a []value) value {
		return o.re.FindString(in.concStr(a[1], "FindString"))
	})
	conc("(*regexp.Regexp).FindStringIndex", func(o *regexObj, in *Interp, a []value) value {
		loc := o.re.FindStringIndex(in.concStr(a[1], "FindStringIndex"))
		if loc == nil {
			return []value(nil)
		}
		return []value{uint64(loc[0]), uint64(loc[1])}
	})
	conc("(*regexp.Regexp).FindStringSubmatch", func(o *regexObj, in *Interp, a []value) value {
		ms := o.re.FindStringSubmatch(in.concStr(a[1], "FindStringSubmatch"))
		if ms == nil {
			return []value(nil)
		}
		out := make([]value, len(ms))
		for i, m := range ms {
			out[i] = m
		}
		return out
	})
}

func regLanFor(pattern string) (string, error) {
	if v, ok := regLanCache.Load(pattern); ok {
		return v.(string), nil
	}
	re, err := syntax.Parse(pattern, syntax.Perl)
	if err != nil {
		return "", err
	}
	re = re.Simplify()
	var alts []string
	for _, seq := range regSeqs(re) {
		body, aStart, aEnd, err := regTop(seq)
		if err != nil {
			return "", err
		}
		all := "(re.* re.allchar)"
		parts := []string{}
		if !aStart {
			parts = append(parts, all)
		}
		parts = append(parts, body)
		if !aEnd {
			parts = append(parts, all)
		}
		o := parts[0]
		if len(parts) > 1 {
			o = "(re.++ " + strings.Join(parts, " ") + ")"
		}
		alts = append(alts, o)
	}
	out := alts[0]
	if len(alts) > 1 {
		out = "(re.union " + strings.Join(alts, " ") + ")"
	}
	regLanCache.Store(pattern, out)
	return out, nil
}

// regHasAnchor reports whether ^ or $ occurs anywhere in re.
func regHasAnchor(re *syntax.Regexp) bool {
	if re.Op == syntax.OpBeginText || re.Op == syntax.OpEndText {
		return true
	}
	for _, s := range re.Sub {
		if regHasAnchor(s) {
			return true
		}
	}
	return false
}

// regSeqs writes re as a union of top-level concatenations in which ^ and $ occur only at the
// two ends: an alternation (possibly inside a group) that is the first or last factor and holds an
// anchor - `(?:^|;)rest` - is distributed over the rest. Anchors elsewhere stay unsupported.
func regSeqs(re *syntax.Regexp) [][]*syntax.Regexp {
	flat := func(r *syntax.Regexp) []*syntax.Regexp {
		if r.Op == syntax.OpConcat {
			return r.Sub
		}
		return []*syntax.Regexp{r}
	}
	unwrap := func(r *syntax.Regexp) *syntax.Regexp {
		for r.Op == syntax.OpCapture {
			r = r.Sub[0]
		}
		return r
	}
	work := [][]*syntax.Regexp{flat(re)}
	var done [][]*syntax.Regexp
	for len(work) > 0 && len(work)+len(done) < 64 {
		seq := work[0]
		work = work[1:]
		if n := len(seq); n > 0 {
			if f := unwrap(seq[0]); f.Op == syntax.OpAlternate && regHasAnchor(f) {
				for _, a := range f.Sub {
					work = append(work, append(append([]*syntax.Regexp{}, flat(a)...), seq[1:]...))
				}
				continue
			}
			if l := unwrap(seq[n-1]); n > 1 && l.Op == syntax.OpAlternate && regHasAnchor(l) {
				for _, a := range l.Sub {
					work = append(work, append(append([]*syntax.Regexp{}, seq[:n-1]...), flat(a)...))
				}
				continue
			}
		}
		done = append(done, seq)
	}
	return append(done, work...)
}

// regTop handles ^ and $ at the two ends of a top-level concatenation.
func regTop(subs []*syntax.Regexp) (string, bool, bool, error) {
	aStart, aEnd := false, false
	for len(subs) > 0 && subs[0].Op == syntax.OpBeginText {
		aStart = true
		subs = subs[1:]
	}
	for len(subs) > 0 && subs[len(subs)-1].Op == syntax.OpEndText {
		aEnd = true
		subs = subs[:len(subs)-1]
	}
	var parts []string
	for _, s := range subs {
		t, err := regTerm(s)
		if err != nil {
			return "", false, false, err
		}
		parts = append(parts, t)
	}
	switch len(parts) {
	case 0:
		return `(str.to_re "")`, aStart, aEnd, nil
	case 1:
		return parts[0], aStart, aEnd, nil
	}
	return "(re.++ " + strings.Join(parts, " ") + ")", aStart, aEnd, nil
}

func regChar(r rune) string { return `(str.to_re ` + strLit(string([]byte{byte(r)})) + `)` }

func regTerm(re *syntax.Regexp) (string, error) {
	switch re.Op {
	case syntax.OpEmptyMatch:
		return `(str.to_re "")`, nil
	case syntax.OpNoMatch:
		return "re.none", nil
	case syntax.OpLiteral:
		var parts []string
		for _, r := range re.Rune {
			if r > 0x7f {
				return "", fmt.Errorf("non-ASCII literal in pattern")
			}
			if re.Flags&syntax.FoldCase != 0 && unicode.IsLetter(r) {
				lo, up := unicode.ToLower(r), unicode.ToUpper(r)
				parts = append(parts, "(re.union "+regChar(lo)+" "+regChar(up)+")")
			} else {
				parts = append(parts, regChar(r))
			}
		}
		if len(parts) == 1 {
			return parts[0], nil
		}
		return "(re.++ " + strings.Join(parts, " ") + ")", nil
	case syntax.OpCharClass:
		var parts []string
		for i := 0; i+1 < len(re.Rune); i += 2 {
			lo, hi := re.Rune[i], re.Rune[i+1]
			if lo > 0xff {
				continue // beyond the byte range of our subjects
			}
			if hi > 0xff {
				hi = 0xff
			}
			parts = append(parts, "(re.range "+strLit(string([]byte{byte(lo)}))+" "+strLit(string([]byte{byte(hi)}))+")")
		}
		switch len(parts) {
		case 0:
			return "re.none", nil
		case 1:
			return parts[0], nil
		}
		return "(re.union " + strings.Join(parts, " ") + ")", nil
	case syntax.OpAnyCharNotNL:
		return `(re.diff re.allchar (str.to_re "\u{a}"))`, nil
	case syntax.OpAnyChar:
		return "re.allchar", nil
	case syntax.OpCapture:
		return regTerm(re.Sub[0])
	case syntax.OpStar, syntax.OpPlus, syntax.OpQuest:
		t, err := regTerm(re.Sub[0])
		if err != nil {
			return "", err
		}
		op := map[syntax.Op]string{syntax.OpStar: "re.*", syntax.OpPlus: "re.+", syntax.OpQuest: "re.opt"}[re.Op]
		return "(" + op + " " + t + ")", nil
	case syntax.OpRepeat:
		t, err := regTerm(re.Sub[0])
		if err != nil {
			return "", err
		}
		if re.Max < 0 {
			return fmt.Sprintf("(re.++ ((_ re.loop %d %d) %s) (re.* %s))", re.Min, re.Min, t, t), nil
		}
		return fmt.Sprintf("((_ re.loop %d %d) %s)", re.Min, re.Max, t), nil
	case syntax.OpConcat, syntax.OpAlternate:
		var parts []string
		for _, s := range re.Sub {
			t, err := regTerm(s)
			if err != nil {
				return "", err
			}
			parts = append(parts, t)
		}
		op := "re.++"
		if re.Op == syntax.OpAlternate {
			op = "re.union"
		}
		return "(" + op + " " + strings.Join(parts, " ") + ")", nil
	}
	return "", fmt.Errorf("unsupported regexp construct %s in %q", re.Op, re.String())
}

// RegLanFor exposes the translation (cmd/regdump).
func RegLanFor(pattern string) (string, error) { return regLanFor(pattern) }
