package sym

// Intrinsics added for C07/C08 (abstract file system keyed by concrete path strings).
//
// path/filepath.Join / Dir / Base / Ext / Clean on CONCRETE strings are evaluated by the real
// functions (they are pure; the SSA bodies are byte loops that cost hundreds of instructions per
// call and the file-system harnesses call them thousands of times per path). Any symbolic
// argument: not handled here, the SSA body runs as before.

import (
	"fmt"
	"os"
	"path/filepath"
)

var debugPrintOn = os.Getenv("VERIF_PRINT") != ""

// debugPrintln backs the print/println builtins of harness code (development aid, off by default).
func debugPrintln(args []value) {
	if !debugPrintOn {
		return
	}
	out := make([]any, len(args))
	for i, a := range args {
		out[i] = normStr(a)
	}
	fmt.Fprintln(os.Stderr, append([]any{"VERIF-PRINT:"}, out...)...)
}

func init() {
	conc := func(v value) (string, bool) {
		s, ok := normStr(v).(string)
		return s, ok
	}
	one := func(name string, f func(string) string) {
		intrinsics[name] = func(in *Interp, fr *frame, a []value) value {
			s, ok := conc(a[0])
			if !ok {
				return notHandled
			}
			return f(s)
		}
	}
	one("path/filepath.Dir", filepath.Dir)
	one("path/filepath.Base", filepath.Base)
	one("path/filepath.Ext", filepath.Ext)
	one("path/filepath.Clean", filepath.Clean)
	intrinsics["path/filepath.Join"] = func(in *Interp, fr *frame, a []value) value {
		elems, ok := a[0].([]value)
		if !ok {
			return notHandled
		}
		strs := make([]string, len(elems))
		for i, e := range elems {
			s, ok := conc(e)
			if !ok {
				return notHandled
			}
			strs[i] = s
		}
		return filepath.Join(strs...)
	}
}
