package sym

// Development aid added for C33b: with VERIF_PRINT set, a runtime panic of the interpreted program
// (nil dereference, index out of range ...) reports the position of the faulting instruction at
// once - the violation record only carries the position at which the path ended (often a deferred
// call of the harness).

import (
	"fmt"
	"os"
)

func debugRuntimePanic(in *Interp, msg string) {
	if !debugPrintOn {
		return
	}
	fmt.Fprintln(os.Stderr, "VERIF-PRINT: runtime panic at", in.pos(), ":", msg)
}

// debugUnwind: with VERIF_PRINT set, every interpreted frame an "unsupported" or a runtime panic
// unwinds through is named - a call stack of the interpreted program.
func debugUnwind(fr *frame, r any) {
	if !debugPrintOn || fr == nil || fr.fn == nil {
		return
	}
	switch x := r.(type) {
	case unsupported:
		fmt.Fprintln(os.Stderr, "VERIF-PRINT:   unsupported", x.what, "unwinds", fr.fn.String())
	case targetPanic:
		fmt.Fprintln(os.Stderr, "VERIF-PRINT:   panic unwinds", fr.fn.String())
	}
}
