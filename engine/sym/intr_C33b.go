package sym

// Development aid added for C33b: with VERIF_PRINT set, a runtime panic of the interpreted program
// (nil dereference, index out of range ...) reports the position of the faulting instruction at
// once - the violation record only carries the position at which the path ended (often a deferred
// call of the harness).

import (
	"fmt"
	"os"
)

func debugRuntimePanic(in *Interp, msg string) {
	if !debugPrintOn {
		return
	}
	fmt.Fprintln(os.Stderr, "VERIF-PRINT: runtime panic at", in.pos(), ":", msg)
}
