package sym

// expvar (statistics never influence a property, but the code type-asserts on what Get returns,
// so the map must really hold what was put in), math bit casts.

import (
	"go/token"
	"go/types"
	"math"
)

type expvarMap struct {
	keys []string
	vals map[string]iface
}

func init() {
	reg := func(name string, h handler) { intrinsics[name] = h }

	emap := func(in *Interp, p value) *expvarMap {
		ptr := p.(*value)
		if ptr == nil {
			in.runtimePanic("invalid memory address or nil pointer dereference")
		}
		if m, ok := in.sideState[ptr].(*expvarMap); ok {
			return m
		}
		m := &expvarMap{vals: map[string]iface{}}
		in.sideState[ptr] = m
		return m
	}
	newVar := func(in *Interp, typ string) iface {
		t := in.P.Pkgs["expvar"].Type(typ).Type()
		var cell value = zero(t)
		return iface{t: types.NewPointer(t), v: &cell}
	}
	reg("expvar.NewMap", func(in *Interp, fr *frame, a []value) value { return newVar(in, "Map").v })
	reg("expvar.NewInt", func(in *Interp, fr *frame, a []value) value { return newVar(in, "Int").v })
	reg("expvar.NewFloat", func(in *Interp, fr *frame, a []value) value { return newVar(in, "Float").v })
	reg("expvar.NewString", func(in *Interp, fr *frame, a []value) value { return newVar(in, "String").v })
	reg("expvar.Publish", func(in *Interp, fr *frame, a []value) value { return nil })
	reg("(*expvar.Map).Init", func(in *Interp, fr *frame, a []value) value {
		m := emap(in, a[0])
		m.keys, m.vals = nil, map[string]iface{}
		return a[0]
	})
	reg("(*expvar.Map).Get", func(in *Interp, fr *frame, a []value) value {
		m := emap(in, a[0])
		if v, ok := m.vals[in.concStr(a[1], "expvar key")]; ok {
			return v
		}
		return iface{}
	})
	reg("(*expvar.Map).Set", func(in *Interp, fr *frame, a []value) value {
		m := emap(in, a[0])
		k := in.concStr(a[1], "expvar key")
		if _, ok := m.vals[k]; !ok {
			m.keys = append(m.keys, k)
		}
		m.vals[k] = a[2].(iface)
		return nil
	})
	reg("(*expvar.Map).Add", func(in *Interp, fr *frame, a []value) value {
		m := emap(in, a[0])
		k := in.concStr(a[1], "expvar key")
		v, ok := m.vals[k]
		if !ok {
			v = newVar(in, "Int")
			m.keys = append(m.keys, k)
			m.vals[k] = v
		}
		if add := in.methodOf(v.t, "Add"); add != nil && types.Identical(v.t, types.NewPointer(in.P.Pkgs["expvar"].Type("Int").Type())) {
			in.call(fr, token.NoPos, add, []value{v.v, a[2]})
		}
		return nil
	})
	reg("(*expvar.Map).AddFloat", func(in *Interp, fr *frame, a []value) value {
		m := emap(in, a[0])
		k := in.concStr(a[1], "expvar key")
		if _, ok := m.vals[k]; !ok {
			m.keys = append(m.keys, k)
			m.vals[k] = newVar(in, "Float")
		}
		return nil
	})
	reg("(*expvar.Map).Delete", func(in *Interp, fr *frame, a []value) value {
		m := emap(in, a[0])
		delete(m.vals, in.concStr(a[1], "expvar key"))
		return nil
	})
	reg("(*expvar.Map).Do", func(in *Interp, fr *frame, a []value) value { return nil })
	reg("(*expvar.Map).String", func(in *Interp, fr *frame, a []value) value { return "{}" })
	// floats inside expvar.Float are stored with bit casts: keep them opaque
	reg("(*expvar.Float).Set", func(in *Interp, fr *frame, a []value) value { return nil })
	reg("(*expvar.Float).Add", func(in *Interp, fr *frame, a []value) value { return nil })
	reg("(*expvar.Float).Value", func(in *Interp, fr *frame, a []value) value { return float64(0) })

	reg("math.Float64bits", func(in *Interp, fr *frame, a []value) value { return math.Float64bits(a[0].(float64)) })
	reg("math.Float64frombits", func(in *Interp, fr *frame, a []value) value {
		return math.Float64frombits(uint64(in.concInt(a[0], "Float64frombits")))
	})
	reg("math.Float32bits", func(in *Interp, fr *frame, a []value) value {
		return uint64(math.Float32bits(float32(a[0].(float64))))
	})
	reg("math.Float32frombits", func(in *Interp, fr *frame, a []value) value {
		return float64(math.Float32frombits(uint32(in.concInt(a[0], "Float32frombits"))))
	})
	for name, f := range map[string]func(float64) float64{"math.Round": math.Round, "math.Floor": math.Floor, "math.Ceil": math.Ceil, "math.Trunc": math.Trunc, "math.Abs": math.Abs, "math.Sqrt": math.Sqrt, "math.Log": math.Log, "math.Exp": math.Exp, "math.Log2": math.Log2, "math.Log10": math.Log10} {
		f := f
		reg(name, func(in *Interp, fr *frame, a []value) value { return f(a[0].(float64)) })
	}
	reg("math.IsNaN", func(in *Interp, fr *frame, a []value) value { return math.IsNaN(a[0].(float64)) })
	reg("math.IsInf", func(in *Interp, fr *frame, a []value) value {
		return math.IsInf(a[0].(float64), int(int64(a[1].(uint64))))
	})
	reg("math.Inf", func(in *Interp, fr *frame, a []value) value { return math.Inf(int(int64(a[0].(uint64)))) })
	reg("math.NaN", func(in *Interp, fr *frame, a []value) value { return math.NaN() })
	reg("math.Pow", func(in *Interp, fr *frame, a []value) value { return math.Pow(a[0].(float64), a[1].(float64)) })
	reg("math.Mod", func(in *Interp, fr *frame, a []value) value { return math.Mod(a[0].(float64), a[1].(float64)) })
}
