package sym

// Scheduling-point trace for deterministic native replay of interleavings.
// Every synchronisation operation executed by code of the instrumented package (the package
// the harness lives in) is a scheduling point (SP): go statements, channel send/receive/select,
// Mutex/RWMutex Lock/RLock, WaitGroup.Wait, Cond.Wait, time.Sleep. The trace lists, in order,
// the native id of the goroutine that passed each SP. The native replay instruments the same
// source positions and forces the same order (see cmd/symgo instrument.go and api.go.txt).

import "golang.org/x/tools/go/ssa"

// spIntrinsics are the intrinsics whose call from instrumented code is a scheduling point.
var spIntrinsics = map[string]bool{
	"(*sync.Mutex).Lock":     true,
	"(*sync.RWMutex).Lock":   true,
	"(*sync.RWMutex).RLock":  true,
	"(*sync.WaitGroup).Wait": true,
	"(*sync.Cond).Wait":      true,
	"time.Sleep":             true,
}

// spNoYield lists SP intrinsics that do not call yield() themselves.
var spNoYield = map[string]bool{
	"(*sync.Cond).Wait": true,
	"time.Sleep":        true,
}

func (in *Interp) instrumented(fn *ssa.Function) bool {
	if fn == nil || in.cfg.InstrPkg == "" {
		return false
	}
	for fn.Parent() != nil {
		fn = fn.Parent()
	}
	if fn.Pkg == nil && fn.Origin() != nil {
		fn = fn.Origin() // instance of a generic function
		for fn.Parent() != nil {
			fn = fn.Parent()
		}
	}
	return fn.Pkg != nil && (fn.Pkg.Pkg.Path() == in.cfg.InstrPkg || in.cfg.InstrMore[fn.Pkg.Pkg.Path()])
}

// spRecord appends the running goroutine to the trace if an SP is pending.
func (in *Interp) spRecord() {
	if in.spPending {
		in.spPending = false
		in.spTrace = append(in.spTrace, in.sched.cur.nid)
	}
}

// spPost records that the running goroutine continues after a scheduling-point operation
// (immediately, or when it is resumed after having been parked in the operation).
func (in *Interp) spPost(fn *ssa.Function) {
	in.spPending = false
	if in.instrumented(fn) {
		in.spTrace = append(in.spTrace, in.sched.cur.nid)
	}
}
