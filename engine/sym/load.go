package sym

import (
	"fmt"
	"go/token"
	"go/types"
	"os"
	"path/filepath"
	"strings"
	"sync"

	"golang.org/x/tools/go/packages"
	"golang.org/x/tools/go/ssa"
	"golang.org/x/tools/go/ssa/ssautil"
)

// Program is the SSA form of the packages under test, built from the working tree plus
// the harness overlay.
type Program struct {
	Prog            *ssa.Program
	Fset            *token.FileSet
	Pkgs            map[string]*ssa.Package // by import path
	errorStringType types.Type              // *errors.errorString
	LoadSeconds     float64
	Initial         []*packages.Package // the packages named on the command line (syntax + type info)
	ForceSelect     bool                // InstrumentPackage: selects can be forced to one case (spec "force_select")
	initRefMu       sync.Mutex
	initRefCache    map[*ssa.Package]map[*ssa.Global]bool
}

// initRefs returns the globals of p that p's initializer code refers to.
func (P *Program) initRefs(p *ssa.Package) map[*ssa.Global]bool {
	P.initRefMu.Lock()
	defer P.initRefMu.Unlock()
	if P.initRefCache == nil {
		P.initRefCache = map[*ssa.Package]map[*ssa.Global]bool{}
	}
	if m, ok := P.initRefCache[p]; ok {
		return m
	}
	m := map[*ssa.Global]bool{}
	var scan func(f *ssa.Function)
	seen := map[*ssa.Function]bool{}
	scan = func(f *ssa.Function) {
		if f == nil || seen[f] {
			return
		}
		seen[f] = true
		for _, b := range f.Blocks {
			for _, ins := range b.Instrs {
				for _, op := range ins.Operands(nil) {
					if g, ok := (*op).(*ssa.Global); ok && g.Pkg == p {
						m[g] = true
					}
				}
			}
		}
		for _, af := range f.AnonFuncs {
			scan(af)
		}
	}
	scan(p.Func("init"))
	for name, mem := range p.Members {
		if f, ok := mem.(*ssa.Function); ok && strings.HasPrefix(name, "init#") {
			scan(f)
		}
	}
	P.initRefCache[p] = m
	return m
}

// Load type-checks pkgPaths (patterns relative to dir) with the overlay files and builds SSA
// for them and all their dependencies.
func Load(dir string, overlay map[string][]byte, pkgPaths ...string) (*Program, error) {
	cfg := &packages.Config{
		Mode:    packages.LoadAllSyntax,
		Dir:     dir,
		Overlay: overlay,
		Env:     append(os.Environ(), "GOFLAGS=-mod=mod", "GOPROXY=off", "GOSUMDB=off", "GOTOOLCHAIN=local"),
	}
	initial, err := packages.Load(cfg, pkgPaths...)
	if err != nil {
		return nil, err
	}
	var errs []string
	packages.Visit(initial, nil, func(p *packages.Package) {
		for _, e := range p.Errors {
			errs = append(errs, e.Error())
		}
	})
	if len(errs) > 0 {
		if len(errs) > 10 {
			errs = errs[:10]
		}
		return nil, fmt.Errorf("load errors:\n%s", strings.Join(errs, "\n"))
	}
	prog, _ := ssautil.AllPackages(initial, ssa.InstantiateGenerics)
	prog.Build()
	P := &Program{Prog: prog, Fset: prog.Fset, Pkgs: map[string]*ssa.Package{}, Initial: initial}
	for _, p := range prog.AllPackages() {
		P.Pkgs[p.Pkg.Path()] = p
	}
	if ep := P.Pkgs["errors"]; ep != nil {
		if t := ep.Type("errorString"); t != nil {
			P.errorStringType = types.NewPointer(t.Type())
		}
	}
	return P, nil
}

// OverlayFrom maps every file of srcDir (non-recursive, *.go) into dstDir with the prefix
// zz_verif_.
func OverlayFrom(overlay map[string][]byte, srcDir, dstDir string, skipTests bool) error {
	ents, err := os.ReadDir(srcDir)
	if err != nil {
		return err
	}
	for _, e := range ents {
		n := e.Name()
		if e.IsDir() || !strings.HasSuffix(n, ".go") {
			continue
		}
		if skipTests && strings.HasSuffix(n, "_test.go") {
			continue
		}
		b, err := os.ReadFile(filepath.Join(srcDir, n))
		if err != nil {
			return err
		}
		overlay[filepath.Join(dstDir, "zz_verif_"+n)] = b
	}
	return nil
}

// Func finds a package-level function.
func (P *Program) Func(pkgPath, name string) *ssa.Function {
	p := P.Pkgs[pkgPath]
	if p == nil {
		return nil
	}
	return p.Func(name)
}
