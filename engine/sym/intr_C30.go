package sym

// Intrinsics added for C30 (values through the HTTP API).
//
// internal/stringslite.Clone / strings.Clone: the real body builds the copy with unsafe.String;
// strings are immutable values in the engine, so the clone is the string itself (concrete,
// byte-vector or solver-level alike). Reached from strconv's error paths (NumError keeps a clone
// of the input), i.e. json.Number.Int64 on a literal that is not an int64.
//
// internal/strconv.float64frombits & co: private copies of math.Float64frombits written as
// unsafe pointer casts (go1.26 moved strconv's core to internal/strconv); same treatment as the
// math.* ones: concrete bit patterns only. Reached from ParseFloat (Eisel-Lemire / slow path).

import "math"

func init() {
	clone := func(in *Interp, fr *frame, a []value) value { return a[0] }
	intrinsics["internal/stringslite.Clone"] = clone
	intrinsics["strings.Clone"] = clone

	intrinsics["internal/strconv.float64bits"] = func(in *Interp, fr *frame, a []value) value {
		return math.Float64bits(a[0].(float64))
	}
	intrinsics["internal/strconv.float64frombits"] = func(in *Interp, fr *frame, a []value) value {
		return math.Float64frombits(uint64(in.concInt(a[0], "float64frombits")))
	}
	intrinsics["internal/strconv.float32bits"] = func(in *Interp, fr *frame, a []value) value {
		return uint64(math.Float32bits(float32(a[0].(float64))))
	}
	intrinsics["internal/strconv.float32frombits"] = func(in *Interp, fr *frame, a []value) value {
		return float64(math.Float32frombits(uint32(in.concInt(a[0], "float32frombits"))))
	}
}
