// symgo: solver-based checking of the real rqlite code.
//
//	symgo check -prop C16 -tier quick      decide one property
//	symgo replay <file>                    replay a solver model natively
package main

import (
	"encoding/json"
	"flag"
	"fmt"
	"os"
	"os/exec"
	"path/filepath"
	"regexp"
	"sort"
	"strconv"
	"strings"
	"time"

	"verif/engine/sym"
)

// Spec describes the harness of one property (harness/<id>/spec.json).
type Spec struct {
	Property string            `json:"property"`
	Package  string            `json:"package"` // import path of the package the harness lives in
	Dir      string            `json:"dir"`     // directory of that package relative to the repo root
	Entries  []EntrySpec       `json:"entries"`
	Init     []string          `json:"init"`
	Skip     []string          `json:"skip"`
	Havoc    []string          `json:"havoc"`
	Models   map[string]string `json:"models"`
	Synctest bool              `json:"synctest"`
	Solver   string            `json:"solver"`
	Level    string            `json:"level"`
	Assumptions []string       `json:"assumptions"`
	Outside     []string       `json:"outside_bounds"`
	Bounds      map[string]string `json:"bounds"`
	NativeOnlyReplay bool      `json:"native_driver"` // replay uses harness/<id>/replay_test.go
	HDir string `json:"-"` // harness directory name (C20, C20b, ...)
	// ExtraOverlay: repo-relative package dir -> file in harness/<id>/ (not ending in .go, e.g.
	// "export_db.go.txt") overlaid into THAT package as zz_verif_<id>_<file>.go; used to export
	// unexported functions of a second package to the harness package.
	ExtraOverlay map[string]string `json:"extra_overlay"`
	// NativeModulePatch: module path -> (file relative to the module root -> file in harness/<id>/).
	// NATIVE replay build only: the module is copied to a scratch directory, the listed files are
	// replaced, and the replay binary is built with -modfile pointing at that copy (the symbolic
	// run uses "models" for the same callees). Files in the module cache cannot be overlaid.
	NativeModulePatch map[string]map[string]string `json:"native_module_patch"`
	// InstrPkgs: further packages (import paths) whose synchronisation operations are scheduling
	// points of forced-schedule replays, like those of Package (e.g. queue for a harness in http).
	InstrPkgs []string `json:"instr_pkgs"`
	// ForceSelect: the instrumented replay build can force the case a select takes (a select with
	// several ready cases is a recorded scheduler decision of the symbolic run, natively it is random).
	ForceSelect bool `json:"force_select"`
	// NativeChecks: names of native tests in the harness directory that every check run executes
	// (preconditions of the encoding; a failure makes the run INCONCLUSIVE).
	NativeChecks []string `json:"native_checks"`
	// NativeHooks: see nativehooks.go (native replay build only).
	NativeHooks *NativeHooks `json:"native_hooks"`
}

type EntrySpec struct {
	Name       string   `json:"name"`
	Twin       bool     `json:"twin"`   // must be violated (vacuity guard)
	Reach      []string `json:"reach"`  // markers that must be reached
	Unwind     int      `json:"unwind"`
	MaxPaths   int      `json:"max_paths"`
	MaxPreempt int      `json:"max_preempt"`
	Tier       string   `json:"tier"` // "", "quick", "thorough": run only in that tier ("" = both)
	Solver     string   `json:"solver"`
	MapOrder   bool     `json:"map_order"`
	FoldRegex  bool     `json:"fold_regex"` // see sym.Config.FoldRegex
	TimeoutMS  int      `json:"timeout_ms"`
	MaxSymAlloc int     `json:"max_sym_alloc"`
	NoReplay   bool     `json:"no_replay"`
	SchedFirst bool     `json:"sched_first"` // no scheduler choice: when a goroutine blocks or exits the first runnable one continues (the harness argues elsewhere that the outcome does not depend on the schedule)
	FreeSchedule bool   `json:"free_schedule"` // native replay without the forced schedule (the native run has other scheduling points than the symbolic one, e.g. real code where the symbolic run uses models)
}

type KnownFinding struct {
	ID       string `json:"id"`
	Property string `json:"property"`
	What     string `json:"what"`
	Status   string `json:"status"` // "open" or "fixed"
	Commit   string `json:"commit,omitempty"`
	Witness  any    `json:"witness,omitempty"`
}

var verifDir = "/verif"
var repoDir = "/repo"

func main() {
	if len(os.Args) < 2 {
		fmt.Fprintln(os.Stderr, "usage: symgo check|replay ...")
		os.Exit(2)
	}
	os.Setenv("PATH", "/opt/veriftools/go1.26.8/bin:"+os.Getenv("PATH"))
	os.Setenv("GOFLAGS", "-mod=mod")
	os.Setenv("GOPROXY", "off")
	os.Setenv("GOSUMDB", "off")
	os.Setenv("GOTOOLCHAIN", "local")
	if d := os.Getenv("VERIF_DIR"); d != "" {
		verifDir = d
	}
	if d := os.Getenv("VERIF_REPO"); d != "" {
		repoDir = d
	}
	switch os.Args[1] {
	case "check":
		fs := flag.NewFlagSet("check", flag.ExitOnError)
		prop := fs.String("prop", "", "property id")
		tier := fs.String("tier", "quick", "quick|thorough")
		only := fs.String("entry", "", "run only this entry (development)")
		verbose := fs.Bool("v", false, "verbose")
		fs.Parse(os.Args[2:])
		code := check(*prop, *tier, *only, *verbose)
		cleanupReplay()
		os.Exit(code)
	case "replay":
		if len(os.Args) < 3 {
			fmt.Fprintln(os.Stderr, "usage: symgo replay <file>")
			os.Exit(2)
		}
		code := replayCmd(os.Args[2])
		cleanupReplay()
		os.Exit(code)
	case "nativetest":
		// symgo nativetest <harness dir name> <go test -run regexp>: builds the native replay
		// binary of the harness (overlay, native hooks) and runs its *_test.go tests (sweeps).
		if len(os.Args) < 4 {
			fmt.Fprintln(os.Stderr, "usage: symgo nativetest <harness> <regexp>")
			os.Exit(2)
		}
		code := nativeTestCmd(os.Args[2], os.Args[3])
		cleanupReplay()
		os.Exit(code)
	}
	fmt.Fprintln(os.Stderr, "unknown command")
	os.Exit(2)
}

// specDirs lists the harness directories of a property: <id> and <id> followed by one lower-case letter.
func specDirs(prop string) []string {
	var out []string
	ents, _ := os.ReadDir(filepath.Join(verifDir, "harness"))
	for _, e := range ents {
		n := e.Name()
		if n == prop || (len(n) == len(prop)+1 && strings.HasPrefix(n, prop) && n[len(n)-1] >= 'a' && n[len(n)-1] <= 'z') {
			if _, err := os.Stat(filepath.Join(verifDir, "harness", n, "spec.json")); err == nil {
				out = append(out, n)
			}
		}
	}
	sort.Strings(out)
	return out
}

func loadSpec(prop string) (*Spec, error) {
	b, err := os.ReadFile(filepath.Join(verifDir, "harness", prop, "spec.json"))
	if err != nil {
		return nil, err
	}
	var s Spec
	if err := json.Unmarshal(b, &s); err != nil {
		return nil, fmt.Errorf("spec.json: %w", err)
	}
	s.HDir = prop
	return &s, nil
}

func loadKnown() map[string]KnownFinding {
	out := map[string]KnownFinding{}
	b, err := os.ReadFile(filepath.Join(verifDir, "known_findings.json"))
	if err != nil {
		return out
	}
	var doc struct {
		Findings []KnownFinding `json:"findings"`
	}
	if json.Unmarshal(b, &doc) == nil {
		for _, f := range doc.Findings {
			out[f.ID] = f
		}
	}
	return out
}

var pkgClause = regexp.MustCompile(`(?m)^package\s+\w+`)

// buildOverlay maps harness files (and the API file) into the package directory.
func buildOverlay(spec *Spec, forTest bool) (map[string][]byte, error) {
	ov := map[string][]byte{}
	dst := filepath.Join(repoDir, spec.Dir)
	hdir := filepath.Join(verifDir, "harness", spec.HDir)
	ents, err := os.ReadDir(hdir)
	if err != nil {
		return nil, err
	}
	pkgName := ""
	for _, e := range ents {
		n := e.Name()
		if !strings.HasSuffix(n, ".go") {
			continue
		}
		isTest := strings.HasSuffix(n, "_test.go")
		if isTest && !forTest {
			continue
		}
		b, err := os.ReadFile(filepath.Join(hdir, n))
		if err != nil {
			return nil, err
		}
		if m := pkgClause.Find(b); m != nil && !isTest {
			pkgName = strings.Fields(string(m))[1]
		}
		ov[filepath.Join(dst, "zz_verif_"+n)] = b
	}
	if pkgName == "" {
		return nil, fmt.Errorf("no harness .go file in %s", hdir)
	}
	for dir, file := range spec.ExtraOverlay {
		b, err := os.ReadFile(filepath.Join(hdir, file))
		if err != nil {
			return nil, err
		}
		base := strings.TrimSuffix(strings.TrimSuffix(file, ".txt"), ".go")
		ov[filepath.Join(repoDir, dir, "zz_verif_"+spec.Property+"_"+base+".go")] = b
	}
	api, err := os.ReadFile(filepath.Join(verifDir, "harness", "api", "api.go.txt"))
	if err != nil {
		return nil, err
	}
	api = []byte(strings.Replace(string(api), "package PKG", "package "+pkgName, 1))
	ov[filepath.Join(dst, "zz_verif_api.go")] = api
	if forTest {
		var sb strings.Builder
		sb.WriteString("package " + pkgName + "\n\nimport (\n\t\"fmt\"\n\t\"os\"\n\t\"testing\"\n")
		if spec.Synctest {
			sb.WriteString("\t\"testing/synctest\"\n")
		}
		instrMore := spec.Synctest && curProgram != nil && os.Getenv("VERIF_NO_INSTRUMENT") == ""
		if instrMore {
			for i, ip := range spec.InstrPkgs {
				fmt.Fprintf(&sb, "\tverifinstr%d %q\n", i, ip)
			}
		}
		sb.WriteString(")\n\nfunc TestVerifReplay(t *testing.T) {\n")
		if instrMore {
			for i := range spec.InstrPkgs {
				fmt.Fprintf(&sb, "\tverifinstr%d.VerifSPHook, verifinstr%d.VerifSpawnHook, verifinstr%d.VerifEnterHook = verifSP, verifSpawn, verifEnter\n", i, i, i)
				fmt.Fprintf(&sb, "\tverifinstr%d.VerifSelHook = verifSel\n", i)
			}
		}
		sb.WriteString("\tentries := map[string]func(){\n")
		seenEntry := map[string]bool{}
		for _, e := range spec.Entries {
			if seenEntry[e.Name] {
				continue // the same entry may be listed once per tier
			}
			seenEntry[e.Name] = true
			fmt.Fprintf(&sb, "\t\t%q: %s,\n", e.Name, e.Name)
		}
		sb.WriteString("\t}\n\tname := os.Getenv(\"VERIF_ENTRY\")\n\tf := entries[name]\n\tif f == nil {\n\t\tt.Fatalf(\"unknown entry %q\", name)\n\t}\n")
		if spec.Synctest {
			sb.WriteString("\tverifWaitHook = synctest.Wait\n\tsynctest.Test(t, func(t *testing.T) {\n\t\tfor _, o := range verifRun(name, f) {\n\t\t\tfmt.Println(\"VERIF-OUTCOME:\", o)\n\t\t}\n\t})\n")
		} else {
			sb.WriteString("\tfor _, o := range verifRun(name, f) {\n\t\tfmt.Println(\"VERIF-OUTCOME:\", o)\n\t}\n")
		}
		sb.WriteString("\tfmt.Println(\"VERIF-DONE\")\n}\n")
		ov[filepath.Join(dst, "zz_verif_zmain_test.go")] = []byte(sb.String())
		// instrumented copies of the package's files (scheduling points for forced-schedule replays)
		if spec.Synctest && curProgram != nil && os.Getenv("VERIF_NO_INSTRUMENT") == "" {
			curProgram.ForceSelect = spec.ForceSelect
			files, err := curProgram.InstrumentPackage(spec.Package, map[string]bool{"zz_verif_api.go": true})
			if err == nil {
				for name, content := range files {
					ov[name] = content
				}
			} else {
				fmt.Fprintln(os.Stderr, "instrumentation failed (replaying without forced schedules):", err)
			}
			for _, ip := range spec.InstrPkgs {
				name, dir := curProgram.PackageNameDir(ip)
				if name == "" {
					return nil, fmt.Errorf("instr_pkgs: package %s is not loaded", ip)
				}
				files, err := curProgram.InstrumentPackage(ip, nil)
				if err != nil {
					return nil, fmt.Errorf("instr_pkgs: %s: %v", ip, err)
				}
				for name, content := range files {
					ov[name] = content
				}
				ov[filepath.Join(dir, "zz_verif_sphooks.go")] = sym.HookFile(name)
			}
		}
		if spec.NativeHooks != nil {
			if err := nativeHookOverlay(spec.NativeHooks, ov); err != nil {
				return nil, err
			}
		}
	}
	return ov, nil
}

// ReplayFile is what a solver model is stored as.
type ReplayFile struct {
	Harness  string         `json:"harness,omitempty"`
	Property string         `json:"property"`
	Entry    string         `json:"entry"`
	Expect   string         `json:"expect"` // "violated <id>" | "finding <id>"
	Values   map[string]any `json:"values"`
	Detail   string         `json:"detail,omitempty"`
	Pos      string         `json:"pos,omitempty"`
	Trace    []string       `json:"trace,omitempty"`
	Sched    []int          `json:"sched,omitempty"`
	Sel      [][2]int       `json:"sel,omitempty"` // forced select choices: (position in sched, case); see spec "force_select"
}

// replay binary: the package's test binary with the harness overlaid, built once per run.
var curProgram *sym.Program
var replayBin, replayTmp, replayBuildOut string
var replayBuildErr error

func buildReplayBinary(spec *Spec) (string, error) {
	if replayBin != "" || replayBuildErr != nil {
		return replayBin, replayBuildErr
	}
	ov, err := buildOverlay(spec, true)
	if err != nil {
		replayBuildErr = err
		return "", err
	}
	tmp, err := os.MkdirTemp("", "verif-replay-")
	if err != nil {
		replayBuildErr = err
		return "", err
	}
	replayTmp = tmp
	repl := map[string]string{}
	i := 0
	for virt, content := range ov {
		real := filepath.Join(tmp, fmt.Sprintf("f%d.go", i))
		i++
		if err := os.WriteFile(real, content, 0o644); err != nil {
			replayBuildErr = err
			return "", err
		}
		repl[virt] = real
	}
	ovJSON, _ := json.Marshal(map[string]any{"Replace": repl})
	ovPath := filepath.Join(tmp, "overlay.json")
	os.WriteFile(ovPath, ovJSON, 0o644)
	bin := filepath.Join(tmp, "replay.test")
	args := []string{"test", "-c", "-vet=off", "-overlay", ovPath, "-o", bin}
	if len(spec.NativeModulePatch) > 0 {
		mf, err := patchedModfile(spec, tmp)
		if err != nil {
			replayBuildErr = fmt.Errorf("native_module_patch: %v", err)
			return "", replayBuildErr
		}
		args = append(args, "-modfile="+mf)
	}
	args = append(args, "./"+spec.Dir)
	cmd := exec.Command("go", args...)
	cmd.Dir = repoDir
	cmd.Env = goEnv()
	out, err := cmd.CombinedOutput()
	replayBuildOut = string(out)
	if err != nil {
		replayBuildErr = fmt.Errorf("building the native replay binary failed: %v\n%s", err, out)
		return "", replayBuildErr
	}
	replayBin = bin
	return bin, nil
}

// patchedModfile copies each module named in spec.NativeModulePatch into tmp, replaces the listed
// files and returns an alternative go.mod (plus go.sum next to it) that points at the copies.
func patchedModfile(spec *Spec, tmp string) (string, error) {
	gomod, err := os.ReadFile(filepath.Join(repoDir, "go.mod"))
	if err != nil {
		return "", err
	}
	extra := ""
	n := 0
	for mod, files := range spec.NativeModulePatch {
		c := exec.Command("go", "list", "-m", "-f", "{{.Dir}}", mod)
		c.Dir = repoDir
		c.Env = goEnv()
		out, err := c.Output()
		if err != nil {
			return "", fmt.Errorf("go list -m %s: %v", mod, err)
		}
		src := strings.TrimSpace(string(out))
		dst := filepath.Join(tmp, fmt.Sprintf("mod%d", n))
		n++
		if err := os.CopyFS(dst, os.DirFS(src)); err != nil {
			return "", err
		}
		filepath.Walk(dst, func(p string, fi os.FileInfo, err error) error {
			if err == nil {
				os.Chmod(p, fi.Mode()|0o200)
			}
			return nil
		})
		for rel, hf := range files {
			b, err := os.ReadFile(filepath.Join(verifDir, "harness", spec.HDir, hf))
			if err != nil {
				return "", err
			}
			if err := os.WriteFile(filepath.Join(dst, rel), b, 0o644); err != nil {
				return "", err
			}
		}
		extra += fmt.Sprintf("\nreplace %s => %s\n", mod, dst)
	}
	mf := filepath.Join(tmp, "go.mod")
	if err := os.WriteFile(mf, append(gomod, extra...), 0o644); err != nil {
		return "", err
	}
	if sum, err := os.ReadFile(filepath.Join(repoDir, "go.sum")); err == nil {
		os.WriteFile(filepath.Join(tmp, "go.sum"), sum, 0o644)
	}
	return mf, nil
}

func cleanupReplay() {
	if replayTmp != "" {
		os.RemoveAll(replayTmp)
	}
}

// nativeReplay runs the entry natively with the model's values; returns the outcomes printed.
func nativeReplay(spec *Spec, rf *ReplayFile, path string) ([]string, string, error) {
	bin, err := buildReplayBinary(spec)
	if err != nil {
		return nil, err.Error(), err
	}
	cmd := exec.Command(bin, "-test.v", "-test.run", "^TestVerifReplay$", "-test.timeout", "300s")
	cmd.Dir = filepath.Join(repoDir, spec.Dir)
	cmd.Env = append(goEnv(), "VERIF_REPLAY="+path, "VERIF_ENTRY="+rf.Entry)
	out, _ := cmd.CombinedOutput()
	var outcomes []string
	done := false
	for _, l := range strings.Split(string(out), "\n") {
		if strings.HasPrefix(l, "VERIF-OUTCOME: ") {
			outcomes = append(outcomes, strings.TrimPrefix(l, "VERIF-OUTCOME: "))
		}
		if strings.HasPrefix(l, "VERIF-DONE") {
			done = true
		}
	}
	if !done {
		// the test binary died (a real panic outside verifRun, os.Exit, a deadlock ...)
		if strings.Contains(string(out), "panic:") || strings.Contains(string(out), "fatal error:") {
			outcomes = append(outcomes, "panic (process died)")
			return outcomes, string(out), nil
		}
		return outcomes, string(out), fmt.Errorf("native replay did not complete")
	}
	return outcomes, string(out), nil
}

func goEnv() []string {
	env := os.Environ()
	env = append(env, "GOFLAGS=-mod=mod", "GOPROXY=off", "GOSUMDB=off", "GOTOOLCHAIN=local")
	return env
}

func replayCmd(path string) int {
	b, err := os.ReadFile(path)
	if err != nil {
		fmt.Fprintln(os.Stderr, err)
		return 2
	}
	var rf ReplayFile
	if err := json.Unmarshal(b, &rf); err != nil {
		fmt.Fprintln(os.Stderr, err)
		return 2
	}
	hd := rf.Harness
	if hd == "" {
		hd = rf.Property
	}
	spec, err := loadSpec(hd)
	if err != nil {
		fmt.Fprintln(os.Stderr, err)
		return 2
	}
	abs, _ := filepath.Abs(path)
	if len(rf.Sched) > 0 && spec.Synctest {
		// forced-schedule replays need the instrumented sources, hence the type-checked program
		if ov, err := buildOverlay(spec, false); err == nil {
			if P, err := sym.Load(repoDir, ov, "./"+spec.Dir); err == nil {
				curProgram = P
			}
		}
	}
	outcomes, raw, err := nativeReplay(spec, &rf, abs)
	if os.Getenv("VERIF_DEBUG") != "" {
		fmt.Println(raw)
	}
	fmt.Printf("replay %s entry=%s expect=%q\n", rf.Property, rf.Entry, rf.Expect)
	for _, o := range outcomes {
		fmt.Println("  native outcome:", o)
	}
	if err != nil {
		fmt.Println(raw)
		return 2
	}
	for _, o := range outcomes {
		if o == rf.Expect || (strings.HasPrefix(rf.Expect, "violated panic") && strings.HasPrefix(o, "panic")) {
			fmt.Println("REPRODUCED")
			return 1
		}
	}
	fmt.Println("not reproduced")
	return 0
}

func writeReplay(prop string, rf *ReplayFile) string {
	dir := filepath.Join(verifDir, "replays", prop)
	os.MkdirAll(dir, 0o755)
	name := strings.NewReplacer(" ", "_", "/", "_", ":", "_").Replace(rf.Entry + "-" + rf.Expect)
	p := filepath.Join(dir, name+".json")
	b, _ := json.MarshalIndent(rf, "", " ")
	os.WriteFile(p, b, 0o644)
	return p
}

type accum struct {
	results    []*sym.Result
	problems   []string
	violations int
	validated  int
	loadS      float64
	merged     Spec
}

func check(prop, tier, only string, verbose bool) int {
	t0 := time.Now()
	os.Setenv("VERIF_TIER", tier) // native replays must see the same verifTier() as the symbolic run
	seed, _ := strconv.ParseInt(os.Getenv("VERIF_SEED"), 10, 64)
	dirs := specDirs(prop)
	if len(dirs) == 0 {
		fmt.Fprintln(os.Stderr, "no harness for", prop)
		return 2
	}
	acc := &accum{merged: Spec{Property: prop, Bounds: map[string]string{}}}
	exit := 0
	for _, d := range dirs {
		// each harness directory is its own package overlay and replay binary
		cleanupReplay()
		replayBin, replayTmp, replayBuildOut, replayBuildErr = "", "", "", nil
		code := checkSpec(d, prop, tier, only, verbose, seed, acc)
		if code == 1 || (code == 2 && exit == 0) {
			exit = code
		}
	}
	evValidated = acc.validated
	writeEvidence(&acc.merged, tier, seed, nil, acc.results, time.Since(t0).Seconds(), acc.loadS, acc.problems, acc.violations)
	if exit == 0 {
		fmt.Printf("OK property=%s tier=%s wall=%.1fs\n", prop, tier, time.Since(t0).Seconds())
	}
	return exit
}

func checkSpec(hdir, prop, tier, only string, verbose bool, seed int64, acc *accum) int {
	t0 := time.Now()
	spec, err := loadSpec(hdir)
	if err != nil {
		fmt.Fprintln(os.Stderr, "spec:", err)
		acc.problems = append(acc.problems, "spec: "+err.Error())
		return 2
	}
	if spec.Level != "" {
		acc.merged.Level = spec.Level
	}
	acc.merged.Assumptions = append(acc.merged.Assumptions, spec.Assumptions...)
	acc.merged.Outside = append(acc.merged.Outside, spec.Outside...)
	for k, v := range spec.Bounds {
		if len(specDirs(prop)) > 1 {
			k = hdir + ": " + k
		}
		acc.merged.Bounds[k] = v
	}
	known := loadKnown()
	ov, err := buildOverlay(spec, false)
	if err != nil {
		fmt.Fprintln(os.Stderr, "overlay:", err)
		return 2
	}
	tl := time.Now()
	P, err := sym.Load(repoDir, ov, "./"+spec.Dir)
	if err != nil {
		fmt.Fprintln(os.Stderr, "load:", err)
		acc.problems = append(acc.problems, hdir+": load failed: "+err.Error())
		return 2
	}
	loadS := time.Since(tl).Seconds()
	curProgram = P
	tierN := 0
	if tier == "thorough" {
		tierN = 1
	}
	var results []*sym.Result
	var problems []string
	violations := 0
	exit := 0
	validated := 0
	var lines []string
	for _, e := range spec.Entries {
		if only != "" && e.Name != only {
			continue
		}
		if e.Tier != "" && e.Tier != tier {
			continue
		}
		fn := P.Func(spec.Package, e.Name)
		if fn == nil {
			problems = append(problems, "entry not found: "+e.Name)
			continue
		}
		cfg := sym.Config{Unwind: e.Unwind, MaxPaths: e.MaxPaths, MaxPreempt: e.MaxPreempt, SchedFirst: e.SchedFirst, Solver: spec.Solver, InitPkgs: spec.Init,
			Skip: set(spec.Skip), Havoc: set(spec.Havoc), Models: spec.Models, Seed: seed, Tier: tierN, MapOrderChoice: e.MapOrder,
			TimeoutMS: e.TimeoutMS, MaxSymAlloc: e.MaxSymAlloc, FoldRegex: e.FoldRegex, WitnessModels: true, Workers: 12, InstrPkg: spec.Package, InstrMore: set(spec.InstrPkgs)}
		if e.Solver != "" {
			cfg.Solver = e.Solver
		}
		if tier == "thorough" {
			cfg.WallBudget = 40 * time.Minute
		}
		r := sym.Explore(P, fn, cfg)
		results = append(results, r)
		if verbose {
			fmt.Fprintf(os.Stderr, "entry %s: paths=%d %v asserts=%d(trivial %d) viol=%d findings=%d sat=%d unsat=%d unknown=%d solver=%.1fs wall=%.1fs\n",
				e.Name, r.Paths, r.PathsByStatus, r.Asserts, r.TrivialAsserts, len(r.Violations), len(r.Findings), r.Solver.Sat, r.Solver.Unsat, r.Solver.Unknown, r.Solver.Seconds, r.Wall)
			for _, s := range r.Inconclusive {
				fmt.Fprintln(os.Stderr, "   inconclusive:", s)
			}
			for i, n := range r.Notes {
				if i >= 12 {
					fmt.Fprintf(os.Stderr, "   ... %d more notes\n", len(r.Notes)-i)
					break
				}
				fmt.Fprintln(os.Stderr, "   note:", n)
			}
		}
		for _, s := range r.Inconclusive {
			problems = append(problems, e.Name+": "+s)
		}
		if r.Solver.Errors > 0 {
			problems = append(problems, fmt.Sprintf("%s: %d solver error replies", e.Name, r.Solver.Errors))
		}
		if e.Twin {
			if len(r.Violations) == 0 {
				problems = append(problems, e.Name+": vacuity twin was not violated")
			}
			continue
		}
		for _, m := range e.Reach {
			if _, ok := r.Reached[m]; !ok {
				problems = append(problems, e.Name+": marker never reached: "+m)
			}
		}
		// findings (recorded classes)
		for _, id := range sortedKeys(r.Findings) {
			f := r.Findings[id]
			rf := &ReplayFile{Harness: hdir, Property: prop, Entry: e.Name, Expect: "finding " + id, Values: f.Values, Pos: f.Pos, Sched: f.Sched}
			if spec.ForceSelect {
				rf.Sel = f.Sel
			}
			if e.FreeSchedule {
				rf.Sched, rf.Sel = nil, nil
			}
			path := writeReplay(prop, rf)
			ok := e.NoReplay
			if !e.NoReplay {
				outcomes, raw, err := nativeReplay(spec, rf, path)
				if err != nil && verbose {
					fmt.Fprintln(os.Stderr, raw)
				}
				for _, o := range outcomes {
					if o == rf.Expect {
						ok = true
						validated++
					}
				}
			}
			kf, listed := known[id]
			switch {
			case !ok:
				problems = append(problems, fmt.Sprintf("%s: finding %s did not reproduce natively (unconfirmed; encoding or model wrong?) replay=%s", e.Name, id, path))
			case listed && kf.Status == "open" && kf.Property == prop:
				lines = append(lines, fmt.Sprintf("KNOWN-FINDING: property=%s %s [%s]", prop, kf.What, id))
			default:
				lines = append(lines, fmt.Sprintf("VIOLATION property=%s replay=%s", prop, path))
				violations++
				exit = 1
			}
		}
		confirmedIDs := map[string]bool{}
		tried := map[string]int{}
		for _, v := range r.Violations {
			if confirmedIDs[v.ID] || tried[v.ID] >= 3 {
				continue
			}
			tried[v.ID]++
			rf := &ReplayFile{Harness: hdir, Property: prop, Entry: e.Name, Expect: "violated " + v.ID, Values: v.Values, Detail: v.Detail, Pos: v.Pos, Trace: v.Trace, Sched: v.Sched}
			if spec.ForceSelect {
				rf.Sel = v.Sel
			}
			if e.FreeSchedule {
				rf.Sched, rf.Sel = nil, nil
			}
			path := writeReplay(prop, rf)
			os.WriteFile(strings.TrimSuffix(path, ".json")+".smt2", []byte(v.Script), 0o644)
			ok := e.NoReplay
			if !e.NoReplay {
				outcomes, raw, err := nativeReplay(spec, rf, path)
				if err != nil && verbose {
					fmt.Fprintln(os.Stderr, raw)
				}
				for _, o := range outcomes {
					if o == rf.Expect || (v.ID == "panic" && strings.HasPrefix(o, "panic")) {
						ok = true
						validated++
					}
				}
				if verbose {
					fmt.Fprintf(os.Stderr, "   violation %s at %s: %s values=%v native=%v\n", v.ID, v.Pos, v.Detail, v.Values, outcomes)
				}
			}
			if ok {
				confirmedIDs[v.ID] = true
				keep := strings.TrimSuffix(path, ".json") + fmt.Sprintf("-%d.json", tried[v.ID])
				os.Rename(path, keep)
				lines = append(lines, fmt.Sprintf("VIOLATION property=%s replay=%s", prop, keep))
				violations++
				exit = 1
			} else if tried[v.ID] >= 3 {
				problems = append(problems, fmt.Sprintf("%s: counterexamples for %s did not reproduce natively (unconfirmed) replay=%s", e.Name, v.ID, path))
			}
		}
		for id, n := range tried {
			if !confirmedIDs[id] && n < 3 {
				problems = append(problems, fmt.Sprintf("%s: counterexample for %s did not reproduce natively (unconfirmed)", e.Name, id))
			}
		}
	}
	if only == "" {
		problems = append(problems, runNativeChecks(spec)...)
	}
	for _, l := range lines {
		if strings.HasPrefix(l, "KNOWN-FINDING:") {
			// one line per listed finding, however many entries / harness directories reach it
			if printedKnown[l] {
				continue
			}
			printedKnown[l] = true
		}
		fmt.Println(l)
	}
	if len(problems) > 0 {
		for _, p := range problems {
			fmt.Println("INCONCLUSIVE:", p)
		}
		if exit == 0 {
			exit = 2
		}
	}
	acc.results = append(acc.results, results...)
	acc.problems = append(acc.problems, problems...)
	acc.violations += violations
	acc.validated += validated
	acc.loadS += loadS
	_ = t0
	return exit
}

var evValidated int

func set(xs []string) map[string]bool {
	m := map[string]bool{}
	for _, x := range xs {
		m[x] = true
	}
	return m
}

func sortedKeys[V any](m map[string]V) []string {
	ks := make([]string, 0, len(m))
	for k := range m {
		ks = append(ks, k)
	}
	sort.Strings(ks)
	return ks
}

func writeEvidence(spec *Spec, tier string, seed int64, P *sym.Program, results []*sym.Result, wall, loadS float64, problems []string, violations int) {
	level := spec.Level
	if level == "" {
		level = "model_checking"
	}
	states, steps, paths, asserts, trivial := 0, 0, 0, 0, 0
	var st sym.SolverStats
	funcs := map[string]int{}
	stubs := map[string]int{}
	var samples []any
	entries := []any{}
	reachedAll := []string{}
	for _, r := range results {
		states += r.States
		steps += r.Steps
		paths += r.Paths
		asserts += r.Asserts
		trivial += r.TrivialAsserts
		st.Sat += r.Solver.Sat
		st.Unsat += r.Solver.Unsat
		st.Unknown += r.Solver.Unknown
		st.Seconds += r.Solver.Seconds
		for k, v := range r.Funcs {
			funcs[k] += v
		}
		for k, v := range r.Stubs {
			stubs[k] += v
		}
		for _, k := range sortedKeys(r.Reached) {
			reachedAll = append(reachedAll, r.Entry+":"+k)
			if v := r.Reached[k]; v != nil && len(samples) < 6 {
				samples = append(samples, map[string]any{"entry": r.Entry, "reached": k, "solver_model": v})
			}
		}
		for _, v := range r.Violations {
			if len(samples) < 8 {
				samples = append(samples, map[string]any{"entry": r.Entry, "violated": v.ID, "solver_model": v.Values})
			}
		}
		entries = append(entries, map[string]any{"entry": r.Entry, "paths": r.Paths, "by_status": r.PathsByStatus, "obligations": r.Asserts,
			"solver_unknown_branches": r.Unknowns, "wall_s": round(r.Wall), "cap_hit": r.CapHit})
	}
	if len(samples) == 0 {
		samples = append(samples, map[string]any{"note": "no solver model was fetched on this run"})
	}
	var fnames []string
	for _, k := range sortedKeys(funcs) {
		if strings.Contains(k, "rqlite") && !strings.Contains(k, "Verif") && !strings.Contains(k, "verif") {
			fnames = append(fnames, k)
		}
	}
	nStd := len(funcs) - len(fnames)
	ev := map[string]any{
		"property_id": spec.Property,
		"tier":        tier,
		"seed":        seed,
		"level":       level,
		"wall_s":      round(wall),
		"violations":  violations,
		"assumptions": append([]string{}, spec.Assumptions...),
		"coverage": map[string]any{
			"states":                        max(states, 0),
			"transitions":                   steps,
			"traces_validated_against_impl": evValidated,
			"samples":                       samples,
			"exhaustive":                    false,
			"paths":                         paths,
			"obligations":                   asserts,
			"discharged":                    asserts - violations,
			"obligations_decided_without_solver": trivial,
			"queries":                       map[string]any{"sat": st.Sat, "unsat": st.Unsat, "unknown": st.Unknown},
			"solver_s":                      round(st.Seconds),
			"load_and_ssa_build_s":          round(loadS),
			"functions_encoded":             fnames,
			"other_functions_executed_from_ssa": nStd,
			"stubs_and_intrinsics":          sortedKeys(stubs),
			"entries":                       entries,
			"markers_reached":               reachedAll,
			"bounds":                        spec.Bounds,
			"outside_bounds":                spec.Outside,
			"inconclusive":                  problems,
			"explanation":                   "bounded symbolic execution of the SSA of the listed functions (rebuilt from /repo on this run); every branch on a symbolic value is decided by the SMT solver, every verifAssert is discharged as unsat(pc and not cond); states = solver-decided decision points + paths, transitions = SSA instructions executed",
		},
	}
	// evidence/ holds results against /repo only; a run against another tree (VERIF_REPO, mutant
	// experiments) writes next to it
	evDir := filepath.Join(verifDir, "evidence")
	if (os.Getenv("VERIF_REPO") != "" && repoDir != "/repo") || !strings.HasPrefix(spec.Property, "C") {
		// (also the engine self-test T00, which is not a property)
		evDir = filepath.Join(verifDir, "replays", "evidence-other-tree")
	}
	os.MkdirAll(evDir, 0o755)
	b, _ := json.MarshalIndent(ev, "", " ")
	os.WriteFile(filepath.Join(evDir, spec.Property+".json"), b, 0o644)
}

func round(f float64) float64 { return float64(int(f*100)) / 100 }

var printedKnown = map[string]bool{}
