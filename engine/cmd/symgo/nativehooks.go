package main

// Native call hooks (spec.json "native_hooks"), NATIVE replay build only.
//
// In the symbolic run a harness replaces concrete callees (os.Rename, db.CheckpointRemove, ...) by
// models ("models"), and such a model can do things before the call happens - for instance count
// the call and simulate a process crash. For the native replay to reach the same states in the REAL
// code, the sources of the listed package directories (as they are in the tree under test, i.e.
// including any mutation) are rewritten in the overlay: the first argument a0 of every call
//
//	pkg.F(a0, a1, ...)            pkg.F being one of "callees" ("<import path>.<name>")
//
// becomes hook.Pre("<import path>.<name>", a0), where hook is the package named by "hook" (it must
// provide `func Pre[T any](op string, a T) T`; the harness supplies it with "extra_overlay").
// Pre runs immediately before the real call and may panic. Nothing else is changed.

import (
	"bytes"
	"fmt"
	"go/ast"
	"go/format"
	"go/parser"
	"go/token"
	"os"
	"os/exec"
	"path"
	"path/filepath"
	"strconv"
	"strings"
)

type NativeHooks struct {
	Dirs    []string `json:"dirs"`    // package directories relative to the repo root
	Callees []string `json:"callees"` // "<import path>.<function>"
	Hook    string   `json:"hook"`    // import path of the hook package
}

const nativeHookIdent = "verifhookpkg"

func nativeHookOverlay(nh *NativeHooks, ov map[string][]byte) error {
	want := map[string]bool{}
	for _, c := range nh.Callees {
		want[c] = true
	}
	for _, dir := range nh.Dirs {
		abs := filepath.Join(repoDir, dir)
		ents, err := os.ReadDir(abs)
		if err != nil {
			return err
		}
		for _, e := range ents {
			n := e.Name()
			if e.IsDir() || !strings.HasSuffix(n, ".go") || strings.HasSuffix(n, "_test.go") {
				continue
			}
			full := filepath.Join(abs, n)
			src, ok := ov[full]
			if !ok {
				if src, err = os.ReadFile(full); err != nil {
					return err
				}
			}
			out, changed, err := nativeHookRewrite(full, src, want, nh.Hook)
			if err != nil {
				return fmt.Errorf("native_hooks %s: %v", full, err)
			}
			if changed {
				ov[full] = out
			}
		}
	}
	return nil
}

func nativeHookRewrite(name string, src []byte, want map[string]bool, hookPkg string) ([]byte, bool, error) {
	fset := token.NewFileSet()
	f, err := parser.ParseFile(fset, name, src, parser.ParseComments)
	if err != nil {
		return nil, false, err
	}
	// local name -> import path
	imports := map[string]string{}
	for _, im := range f.Imports {
		p, err := strconv.Unquote(im.Path.Value)
		if err != nil {
			continue
		}
		local := path.Base(p)
		if im.Name != nil {
			local = im.Name.Name
		} else if len(local) > 1 && local[0] == 'v' && strings.Trim(local[1:], "0123456789") == "" {
			local = path.Base(path.Dir(p)) // module major version suffix
		}
		imports[local] = p
	}
	n := 0
	ast.Inspect(f, func(nd ast.Node) bool {
		call, ok := nd.(*ast.CallExpr)
		if !ok || len(call.Args) == 0 || call.Ellipsis != token.NoPos && len(call.Args) == 1 {
			return true
		}
		sel, ok := call.Fun.(*ast.SelectorExpr)
		if !ok {
			return true
		}
		x, ok := sel.X.(*ast.Ident)
		if !ok || x.Obj != nil { // x.Obj != nil: a local object shadows the package name
			return true
		}
		ip, ok := imports[x.Name]
		if !ok || !want[ip+"."+sel.Sel.Name] {
			return true
		}
		call.Args[0] = &ast.CallExpr{
			Fun:  &ast.SelectorExpr{X: ast.NewIdent(nativeHookIdent), Sel: ast.NewIdent("Pre")},
			Args: []ast.Expr{&ast.BasicLit{Kind: token.STRING, Value: strconv.Quote(ip + "." + sel.Sel.Name)}, call.Args[0]},
		}
		n++
		return true
	})
	if n == 0 {
		return nil, false, nil
	}
	var buf bytes.Buffer
	if err := format.Node(&buf, fset, f); err != nil {
		return nil, false, err
	}
	// add the import right after the package clause (a second import declaration is legal Go)
	s := buf.String()
	loc := pkgClause.FindStringIndex(s)
	if loc == nil {
		return nil, false, fmt.Errorf("no package clause")
	}
	s = s[:loc[1]] + "\n\nimport " + nativeHookIdent + " " + strconv.Quote(hookPkg) + "\n" + s[loc[1]:]
	return []byte(s), true, nil
}

// nativeTestCmd builds the native replay binary of a harness directory and runs the tests of its
// *_test.go files that match the regexp (differential sweeps of the models against the real calls).
func nativeTestCmd(hdir, re string) int {
	spec, err := loadSpec(hdir)
	if err != nil {
		fmt.Fprintln(os.Stderr, err)
		return 2
	}
	bin, err := buildReplayBinary(spec)
	if err != nil {
		fmt.Fprintln(os.Stderr, err)
		return 2
	}
	cmd := exec.Command(bin, "-test.v", "-test.run", re, "-test.timeout", "3600s")
	cmd.Dir = filepath.Join(repoDir, spec.Dir)
	cmd.Env = goEnv()
	cmd.Stdout, cmd.Stderr = os.Stdout, os.Stderr
	if err := cmd.Run(); err != nil {
		return 1
	}
	return 0
}

// runNativeChecks runs the native tests a spec lists under "native_checks" (preconditions of the
// encoding, e.g. "the case table of the induction matches the dependency's AST": they do not decide
// the property, but when one fails the symbolic verdict is not to be trusted). Returns the problems.
func runNativeChecks(spec *Spec) []string {
	if len(spec.NativeChecks) == 0 {
		return nil
	}
	bin, err := buildReplayBinary(spec)
	if err != nil {
		return []string{"native_checks: " + err.Error()}
	}
	var problems []string
	for _, re := range spec.NativeChecks {
		cmd := exec.Command(bin, "-test.run", "^"+re+"$", "-test.timeout", "600s", "-test.v")
		cmd.Dir = filepath.Join(repoDir, spec.Dir)
		cmd.Env = goEnv()
		out, err := cmd.CombinedOutput()
		if err != nil || !strings.Contains(string(out), "--- PASS: "+re) {
			tail := string(out)
			if len(tail) > 600 {
				tail = tail[len(tail)-600:]
			}
			problems = append(problems, fmt.Sprintf("native check %s did not pass: %v %s", re, err, strings.ReplaceAll(tail, "\n", " | ")))
		}
	}
	return problems
}
