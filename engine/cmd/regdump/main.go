// regdump prints the SMT-LIB RegLan translation of Go regular expressions (development aid).
package main

import (
	"fmt"
	"os"

	"verif/engine/sym"
)

func main() {
	for _, p := range os.Args[1:] {
		s, err := sym.RegLanFor(p)
		if err != nil {
			fmt.Println("ERR", err)
			continue
		}
		fmt.Println(s)
	}
}
