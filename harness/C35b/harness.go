package tcp

// C35 "Arbitrary bytes on the inter-node port cannot crash a node" - the mux in front of the
// cluster service and Raft: tcp.(*Mux).handleConn, trackedConn.Close, (*listener).Accept, run
// from their real source. (cluster.(*Service).handleConn is checked in harness/C35.)
//
// The harness is the peer (verifConn: at most a few bytes, then end of stream or a read timeout;
// SetReadDeadline may fail) and the two consumers the node registers (header 1 = Raft, header 2 =
// cluster service), each waiting in Accept. The first byte is symbolic.
//
// Oracle: no Go panic; a connection whose first byte is a registered header reaches exactly that
// consumer, open, with the read deadline cleared, nothing beyond the header byte consumed, still
// tracked by the mux; every other connection (no byte, unknown header, deadline failure) is closed,
// handed to nobody and no longer tracked; the handler always releases the mux's wait group.

import (
	"errors"
	"io"
	"log"
	"net"
	"time"
)

type verifTimeout struct{}

func (verifTimeout) Error() string   { return "i/o timeout" }
func (verifTimeout) Timeout() bool   { return true }
func (verifTimeout) Temporary() bool { return true }

type verifAddr struct{}

func (verifAddr) Network() string { return "tcp" }
func (verifAddr) String() string  { return "node:4002" }

var verifErrClosed = errors.New("use of closed network connection")

type verifConn struct {
	in       []byte
	off      int
	endErr   error
	closed   int
	nDL      int
	failDL   int  // SetReadDeadline call (1-based) that fails; 0 = none
	armed    bool // a non-zero read deadline is set
	everSet  bool
	maxAsked int // largest buffer handed to Read
}

func (c *verifConn) Read(p []byte) (int, error) {
	if c.closed > 0 {
		return 0, verifErrClosed
	}
	if len(p) > c.maxAsked {
		c.maxAsked = len(p)
	}
	if len(p) == 0 {
		return 0, nil
	}
	if c.off >= len(c.in) {
		return 0, c.endErr
	}
	n := copy(p, c.in[c.off:])
	c.off += n
	return n, nil
}
func (c *verifConn) Write(p []byte) (int, error) { return len(p), nil }
func (c *verifConn) Close() error {
	c.closed++
	return nil
}
func (c *verifConn) LocalAddr() net.Addr              { return verifAddr{} }
func (c *verifConn) RemoteAddr() net.Addr             { return verifAddr{} }
func (c *verifConn) SetDeadline(time.Time) error      { return nil }
func (c *verifConn) SetWriteDeadline(time.Time) error { return nil }
func (c *verifConn) SetReadDeadline(t time.Time) error {
	c.nDL++
	if c.nDL == c.failDL {
		return verifTimeout{}
	}
	c.armed = !t.IsZero()
	c.everSet = true
	return nil
}

type verifLn struct{}

func (verifLn) Accept() (net.Conn, error) { return nil, errors.New("not used") }
func (verifLn) Close() error              { return nil }
func (verifLn) Addr() net.Addr            { return verifAddr{} }

type verifRouted struct {
	panicked bool
	returned bool
	got1     net.Conn
	got2     net.Conn
	n1, n2   int
}

// verifDemux runs one connection through a mux with consumers on headers 1 and 2.
func verifDemux(c *verifConn) (*Mux, *trackedConn, *verifRouted) {
	// as NewMux builds it (NewMux itself logs to os.Stderr)
	mux := &Mux{
		ln:      verifLn{},
		addr:    verifAddr{},
		m:       make(map[byte]*listener),
		conns:   make(map[*trackedConn]struct{}),
		Timeout: DefaultTimeout,
		Logger:  log.New(io.Discard, "", 0),
	}
	l1 := mux.Listen(1)
	l2 := mux.Listen(2)
	o := &verifRouted{}
	d1, d2 := make(chan struct{}), make(chan struct{})
	go func() {
		defer close(d1)
		for {
			conn, err := l1.Accept()
			if err != nil {
				return
			}
			o.got1 = conn
			o.n1++
		}
	}()
	go func() {
		defer close(d2)
		for {
			conn, err := l2.Accept()
			if err != nil {
				return
			}
			o.got2 = conn
			o.n2++
		}
	}()
	// as (*Mux).Serve does for every accepted connection
	tc := &trackedConn{Conn: c, mux: mux}
	mux.registerConn(tc)
	mux.wg.Add(1)
	go func() {
		defer func() {
			if r := recover(); r != nil {
				if _, mine := r.(verifStop); mine {
					panic(r)
				}
				o.panicked = true
			}
		}()
		mux.handleConn(tc)
		o.returned = true
	}()
	verifSettle()
	// shut the consumers down as Serve does when the listener fails
	if o.returned {
		mux.wg.Wait()
	}
	for _, ln := range mux.m {
		close(ln.c)
	}
	<-d1
	<-d2
	return mux, tc, o
}

func verifScript() *verifConn {
	c := &verifConn{endErr: io.EOF}
	if verifChoice("end", 2) == 1 {
		c.endErr = verifTimeout{}
	}
	n := verifChoice("bytes", 3) // the peer sends 0, 1 or 3 bytes
	if n == 2 {
		n = 3
	}
	c.in = verifBytes("stream", n)
	c.failDL = verifChoice("deadline-call-that-fails", 3)
	return c
}

func verifTracked(mux *Mux, tc *trackedConn) bool {
	mux.connsMu.Lock()
	defer mux.connsMu.Unlock()
	_, ok := mux.conns[tc]
	return ok
}

// VerifC35bMux: any first byte, no byte at all, deadline failures.
func VerifC35bMux() {
	verifPanicsAreViolations()
	c := verifScript()
	mux, tc, o := verifDemux(c)
	// one claim: a panic ends the handler before it returns (and the forced-schedule native replay
	// parks a goroutine that panics while evaluating the operand of a channel send)
	verifAssert("C35-mux-handler-returns-without-panic", verifAnd(!o.panicked, o.returned))
	verifAssert("C35-mux-reads-one-byte-at-most", verifAnd(c.off <= 1, c.maxAsked <= 1))
	verifAssert("C35-mux-hands-a-connection-to-one-consumer-at-most", o.n1+o.n2 <= 1)
	routable := len(c.in) > 0 && c.failDL == 0
	if routable && c.in[0] == 1 {
		verifAssert("C35-mux-routes-header-1", verifAnd(o.n1 == 1, o.got1 == net.Conn(tc)))
		verifAssert("C35-mux-leaves-routed-connection-open", c.closed == 0)
		verifAssert("C35-mux-clears-the-read-deadline", verifAnd(c.everSet, !c.armed))
		verifAssert("C35-mux-consumes-only-the-header", c.off == 1)
		verifAssert("C35-mux-tracks-routed-connection", verifTracked(mux, tc))
		verifReach("routed-to-raft")
		return
	}
	if routable && c.in[0] == 2 {
		verifAssert("C35-mux-routes-header-2", verifAnd(o.n2 == 1, o.got2 == net.Conn(tc)))
		verifAssert("C35-mux-leaves-routed-connection-open", c.closed == 0)
		verifAssert("C35-mux-clears-the-read-deadline", verifAnd(c.everSet, !c.armed))
		verifAssert("C35-mux-consumes-only-the-header", c.off == 1)
		verifAssert("C35-mux-tracks-routed-connection", verifTracked(mux, tc))
		verifReach("routed-to-cluster")
		return
	}
	verifAssert("C35-mux-closes-what-it-cannot-route", c.closed >= 1)
	verifAssert("C35-mux-hands-unroutable-connection-to-nobody", o.n1+o.n2 == 0)
	verifAssert("C35-mux-forgets-closed-connection", !verifTracked(mux, tc))
	if len(c.in) == 0 {
		verifReach("no-header-byte")
	} else if c.failDL != 0 {
		verifReach("deadline-failure")
	} else {
		verifReach("unknown-header")
	}
}

// VerifC35bTwin: same set-up; the final claim is false (some connections ARE routed).
func VerifC35bTwin() {
	c := verifScript()
	_, _, o := verifDemux(c)
	verifAssert("C35-twin-nothing-is-ever-routed", o.n1+o.n2 == 0)
}
