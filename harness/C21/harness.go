package store

// C21 "Backups are complete ..." - store half: the stream/gzip plumbing of (*Store).Backup.
//
// Decided here: a backup that could not be written completely is never reported as success.
// The real (*Store).Backup runs on a Store that has exactly the fields Backup touches. The
// destination is a harness io.Writer that accepts a solver-chosen number of bytes and then fails
// (sticky), in particular anywhere inside what gzip only emits when it is closed. Oracle (from the
// property statement): a nil result means the destination holds the complete artifact for the
// request (for compressed requests: ONE gzip member that decodes, checks out and has nothing
// after it) and nothing else.
//
// Natively (replay) everything is real: a SQLite database in a temp directory, the real
// compress/gzip, real scratch files. In the engine the SQLite handle, the os file calls and
// compress/gzip are replaced (spec.json "models") by the small models at the bottom of this file.
// Failure offsets are given relative to the start or to the END of the artifact, so that a model
// witness "fails in the last bytes, i.e. while gzip is closed" means the same thing natively
// although the real artifact is longer.

import (
	"bytes"
	"compress/gzip"
	"context"
	"encoding/hex"
	"errors"
	"io"
	"log"
	"os"
	"path/filepath"
	"strconv"
	"strings"
	"time"

	"github.com/rqlite/rqlite/v10/command/proto"
	sql "github.com/rqlite/rqlite/v10/db"
	"github.com/rqlite/rqlite/v10/internal/rsync"
)

// ---------------------------------------------------------------------------
// destination model (runs natively and in the engine)

var verifC21ErrSink = errors.New("verif: destination write failed")

// verifC21Sink accepts budget bytes in total and fails from then on (budget < 0: never fails).
type verifC21Sink struct {
	budget int
	got    []byte
	failed bool
	hook   func() // called at the start of every Write (something else happens during the copy)
}

func (w *verifC21Sink) Write(p []byte) (int, error) {
	if w.hook != nil {
		w.hook()
	}
	if w.failed {
		return 0, verifC21ErrSink
	}
	if w.budget < 0 {
		w.got = append(w.got, p...)
		return len(p), nil
	}
	room := w.budget - len(w.got)
	if len(p) <= room {
		w.got = append(w.got, p...)
		return len(p), nil
	}
	w.got = append(w.got, p[:room]...)
	w.failed = true
	return room, verifC21ErrSink
}

// ---------------------------------------------------------------------------
// the store under test

const verifC21ModelDir = "/verif-c21"

type verifC21Env struct {
	s       *Store
	dir     string
	img     []byte
	cleanup func()
}

// verifC21NewEnv builds a Store that can serve Backup: an open flag, the snapshot gate, a logger,
// and a database whose content depends on img.
func verifC21NewEnv(img []byte) *verifC21Env {
	e := &verifC21Env{img: img}
	s := &Store{
		open:         rsync.NewAtomicBool(),
		snapshotCAS:  rsync.NewCheckAndSet(),
		snapshotSync: rsync.NewSyncChannels(),
		logger:       log.New(io.Discard, "", 0),
		RaftLogLevel: "WARN",

		NoSnapshotOnClose: true,
	}
	s.open.Set()
	e.s = s
	if verifSymbolic() {
		verifC21Reset()
		verifC21Image = img
		e.dir = verifC21ModelDir
		s.dbDir = e.dir
		s.dbPath = e.dir + "/db.sqlite"
		s.db = new(sql.SwappableDB)
		verifC21Files[s.dbPath] = &verifC21Node{data: append([]byte{}, img...)}
		e.cleanup = func() {}
		return e
	}
	dir, err := os.MkdirTemp("", "verif-c21-")
	if err != nil {
		panic(err)
	}
	e.dir = dir
	s.dbDir = dir
	s.dbPath = filepath.Join(dir, "db.sqlite")
	// a database that is not in WAL mode: Backup then needs no pre-backup Raft snapshot
	db, err := sql.OpenSwappable(s.dbPath, nil, false, false, 2)
	if err != nil {
		os.RemoveAll(dir)
		panic(err)
	}
	s.db = db
	e.cleanup = func() {
		db.Close()
		os.RemoveAll(dir)
	}
	stmts := []string{
		"CREATE TABLE foo (id INTEGER NOT NULL PRIMARY KEY, v BLOB)",
		"CREATE INDEX foo_v ON foo(v)",
		"INSERT INTO foo(v) VALUES(x'" + hex.EncodeToString(img) + "')",
		"INSERT INTO foo(v) VALUES('a row; with a semicolon')",
	}
	for _, q := range stmts {
		r, err := db.Execute(&proto.Request{Statements: []*proto.Statement{{Sql: q}}}, false)
		if err != nil || len(r) != 1 || r[0].GetError() != "" {
			e.cleanup()
			panic("verif: cannot fill the native database: " + q)
		}
	}
	return e
}

// verifC21Expected is the complete, uncompressed artifact the request stands for, taken from the
// source by means that do not go through (*Store).Backup.
func (e *verifC21Env) expected(br *proto.BackupRequest) []byte {
	s := e.s
	if verifSymbolic() {
		switch {
		case br.Format == proto.BackupRequest_BACKUP_REQUEST_FORMAT_SQL:
			return verifC21DumpText(e.img)
		case br.Format == proto.BackupRequest_BACKUP_REQUEST_FORMAT_DELETE || br.Vacuum:
			return verifC21Converted(e.img, br.Vacuum)
		}
		return append([]byte{}, e.img...)
	}
	switch {
	case br.Format == proto.BackupRequest_BACKUP_REQUEST_FORMAT_SQL:
		var buf bytes.Buffer
		if err := s.db.Dump(&buf); err != nil {
			panic(err)
		}
		return buf.Bytes()
	case br.Format == proto.BackupRequest_BACKUP_REQUEST_FORMAT_DELETE || br.Vacuum:
		ref := filepath.Join(e.dir, "verif-reference.sqlite")
		if err := s.db.Backup(ref, br.Vacuum); err != nil {
			panic(err)
		}
		b, err := os.ReadFile(ref)
		if err != nil {
			panic(err)
		}
		os.Remove(ref)
		return b
	}
	b, err := os.ReadFile(s.dbPath)
	if err != nil {
		panic(err)
	}
	return b
}

// breakSource makes the source unusable: the database file is gone and the handle is closed.
func (e *verifC21Env) breakSource() {
	if verifSymbolic() {
		verifC21SrcFail = true
		delete(verifC21Files, e.s.dbPath)
		return
	}
	e.s.db.Close()
	os.Remove(e.s.dbPath)
}

// makeUnreadable: the database file can be opened but not read (natively: a directory sits at
// its path, every read fails with EISDIR).
func (e *verifC21Env) makeUnreadable() {
	if verifSymbolic() {
		verifC21Files[e.s.dbPath].unreadable = true
		return
	}
	e.s.db.Close()
	os.Remove(e.s.dbPath)
	if err := os.Mkdir(e.s.dbPath, 0o755); err != nil {
		panic(err)
	}
}

// scratchLeft counts what Backup left behind in the database directory.
func (e *verifC21Env) scratchLeft() int {
	n := 0
	if verifSymbolic() {
		for name := range verifC21Files {
			if strings.HasPrefix(name, e.dir+"/rqlite-backup-") {
				n++
			}
		}
		return n
	}
	es, err := os.ReadDir(e.dir)
	if err != nil {
		panic(err)
	}
	for _, de := range es {
		if strings.HasPrefix(de.Name(), "rqlite-backup-") {
			n++
		}
	}
	return n
}

// verifC21Gunzip decodes b as exactly one gzip member with nothing after it.
func verifC21Gunzip(b []byte) ([]byte, bool) {
	if verifSymbolic() {
		return verifC21ModelGunzip(b)
	}
	br := bytes.NewReader(b)
	zr, err := gzip.NewReader(br)
	if err != nil {
		return nil, false
	}
	zr.Multistream(false)
	out, err := io.ReadAll(zr)
	if err != nil {
		return nil, false
	}
	if br.Len() != 0 {
		return nil, false
	}
	return out, true
}

// verifC21Complete: does the destination hold the complete artifact and nothing else?
func verifC21Complete(got []byte, compress bool, want []byte) bool {
	if !compress {
		return len(got) == len(want) && bytes.Equal(got, want)
	}
	plain, ok := verifC21Gunzip(got)
	if !ok {
		return false
	}
	return len(plain) == len(want) && bytes.Equal(plain, want)
}

func verifC21Request(format int, vacuum, compress bool) *proto.BackupRequest {
	f := proto.BackupRequest_BACKUP_REQUEST_FORMAT_BINARY
	switch format {
	case 1:
		f = proto.BackupRequest_BACKUP_REQUEST_FORMAT_SQL
	case 2:
		f = proto.BackupRequest_BACKUP_REQUEST_FORMAT_DELETE
	}
	return &proto.BackupRequest{Format: f, Vacuum: vacuum, Compress: compress}
}

func verifC21ImageLen() int {
	lens := []int{0, 2}
	if verifTier() == 1 {
		lens = []int{0, 1, 2, 3, 5, 8, 16, 33}
	}
	return lens[verifChoice("imageLen", len(lens))]
}

// ---------------------------------------------------------------------------
// entries

// VerifC21Sink: every format / vacuum / compress combination, first onto a destination that
// never fails (the backup must then succeed and be complete), then onto one that fails after a
// solver-chosen number of bytes counted from the start or back from the end of the artifact.
func VerifC21Sink() {
	verifPanicsAreViolations()
	format := verifChoice("format", 3)
	vacuum := verifChoice("vacuum", 2) == 1
	compress := verifChoice("compress", 2) == 1
	img := verifBytes("image", verifC21ImageLen())
	e := verifC21NewEnv(img)
	defer e.cleanup()
	s := e.s
	br := verifC21Request(format, vacuum, compress)
	want := e.expected(br)
	refusable := vacuum && format != 0 // documented: vacuum goes with the binary format only

	// 1. nothing fails
	w0 := &verifC21Sink{budget: -1}
	err := s.Backup(context.Background(), br, w0)
	if err == nil {
		verifReach("complete-backup")
		verifAssert("C21-success-means-complete-artifact", verifC21Complete(w0.got, compress, want))
	} else {
		verifAssert("C21-backup-fails-only-with-a-reason", refusable)
		verifReach("refused-request")
		return
	}
	verifAssert("C21-scratch-files-removed", e.scratchLeft() == 0)
	verifAssert("C21-snapshot-gate-released", s.snapshotCAS.Begin("verif") == nil)
	s.snapshotCAS.End()

	// 2. the destination fails after budget bytes, budget < length of the complete artifact
	total := len(w0.got)
	if total == 0 {
		return
	}
	// counted back from the end: every position; counted from the start: the first 12 bytes (the
	// gzip header and a little more) - the same budgets in the model, different ones natively
	fromEnd := verifBool("fromEnd")
	limit := total - 1
	if !fromEnd && limit > 11 {
		limit = 11
	}
	off := verifInt("off", 0, limit)
	budget := off
	if fromEnd {
		budget = total - 1 - off
	}
	w1 := &verifC21Sink{budget: budget}
	err = s.Backup(context.Background(), br, w1)
	if w1.failed {
		verifReach("destination-failed")
		if compress && budget >= 10 {
			verifReach("destination-failed-while-gzip-is-closed")
		}
	}
	if err == nil {
		verifAssert("C21-success-means-destination-took-every-byte", !w1.failed)
		verifAssert("C21-success-means-complete-artifact", verifC21Complete(w1.got, compress, want))
	}
	verifAssert("C21-scratch-files-removed", e.scratchLeft() == 0)
	verifAssert("C21-snapshot-gate-released", s.snapshotCAS.Begin("verif") == nil)
	s.snapshotCAS.End()
}

// VerifC21Source: the artifact cannot be produced at all (database file gone, handle closed),
// cannot be read, or must not be copied now (a snapshot holds the gate for longer than Backup
// waits).
func VerifC21Source() {
	verifPanicsAreViolations()
	format := verifChoice("format", 3)
	vacuum := verifChoice("vacuum", 2) == 1
	compress := verifChoice("compress", 2) == 1
	img := verifBytes("image", 2)
	e := verifC21NewEnv(img)
	defer e.cleanup()
	s := e.s
	br := verifC21Request(format, vacuum, compress)
	want := e.expected(br)
	w := &verifC21Sink{budget: -1}
	fault := verifChoice("fault", 3)
	if fault == 0 {
		e.breakSource()
		err := s.Backup(context.Background(), br, w)
		verifReach("source-broken")
		verifAssert("C21-no-success-without-a-source", err != nil)
		verifAssert("C21-scratch-files-removed", e.scratchLeft() == 0)
		return
	}
	if format != 0 || vacuum {
		return // the other two faults concern the direct copy of the database file only
	}
	if fault == 2 {
		// the file opens but reading it fails: the copy loop's own error must come back
		e.makeUnreadable()
		err := s.Backup(context.Background(), br, w)
		verifReach("source-unreadable")
		verifAssert("C21-no-success-when-reading-the-source-fails", err != nil)
		verifAssert("C21-snapshot-gate-released", s.snapshotCAS.Begin("verif") == nil)
		return
	}
	// a snapshot is running for the whole time: the database file may change under a copy
	verifAssume(s.snapshotCAS.Begin("snapshot") == nil)
	err := s.Backup(context.Background(), br, w)
	verifReach("gate-held-by-snapshot")
	verifAssert("C21-no-file-copy-while-a-snapshot-holds-the-gate", err != nil)
	verifAssert("C21-gate-still-owned-by-the-snapshot", s.snapshotCAS.Owner() == "snapshot")
	// once the snapshot is done the same request succeeds
	s.snapshotCAS.End()
	w2 := &verifC21Sink{budget: -1}
	err = s.Backup(context.Background(), br, w2)
	verifAssert("C21-backup-after-snapshot", err == nil)
	verifAssert("C21-success-means-complete-artifact", verifC21Complete(w2.got, compress, want))
}

// VerifC21ToFile: the documented fast path - vacuumed, uncompressed, destination is an *os.File:
// the vacuumed copy is written straight into that file.
func VerifC21ToFile() {
	verifPanicsAreViolations()
	img := verifBytes("image", verifC21ImageLen())
	e := verifC21NewEnv(img)
	defer e.cleanup()
	s := e.s
	vacuum := verifChoice("vacuum", 2) == 1
	compress := verifChoice("compress", 2) == 1
	br := verifC21Request(0, vacuum, compress)
	want := e.expected(br)
	broken := verifChoice("sourceBroken", 2) == 1
	var f *os.File
	var name string
	if verifSymbolic() {
		f = verifC21NewFile(e.dir + "/out.bin")
		name = e.dir + "/out.bin"
	} else {
		var err error
		name = filepath.Join(e.dir, "out.bin")
		f, err = os.Create(name)
		if err != nil {
			panic(err)
		}
		defer f.Close()
	}
	if broken {
		e.breakSource()
	}
	err := s.Backup(context.Background(), br, f)
	if broken {
		verifAssert("C21-no-success-without-a-source", err != nil)
		return
	}
	verifAssert("C21-backup-to-file-succeeds", err == nil)
	var got []byte
	if verifSymbolic() {
		got = verifC21Files[name].data
	} else {
		var rerr error
		got, rerr = os.ReadFile(name)
		if rerr != nil {
			panic(rerr)
		}
	}
	if vacuum && !compress {
		verifReach("fast-path")
	}
	verifAssert("C21-success-means-complete-artifact", verifC21Complete(got, compress, want))
	verifAssert("C21-scratch-files-removed", e.scratchLeft() == 0)
}

// verifC21TrySnapshot runs the real fsmSnapshot (what Raft calls to snapshot the FSM) and says
// whether it was REFUSED at the snapshot gate: an error that is a gate conflict, no panic, and
// nothing of the database touched.
func verifC21TrySnapshot(s *Store) (refused bool) {
	defer func() {
		if r := recover(); r != nil {
			if _, ok := r.(verifStop); ok {
				panic(r)
			}
			refused = false // it got past the gate and ran into the parts this Store does not have
		}
	}()
	_, err := s.fsmSnapshot()
	return err != nil && errors.Is(err, rsync.ErrCASConflict)
}

// VerifC21Gate: the gate discipline the binary backup relies on - the gate is held by the backup
// for the whole copy of the database file, and whoever is refused the gate never releases it.
//
//	who 0: Raft asks for a snapshot (real fsmSnapshot), twice, while "backup" holds the gate
//	who 1: Store.Close gives up after its wait limit while "backup" holds the gate
//	who 2: the real Backup copies the database file; at every Write of the destination Raft
//	       asks for a snapshot twice
func VerifC21Gate() {
	verifPanicsAreViolations()
	img := verifBytes("image", 2)
	e := verifC21NewEnv(img)
	defer e.cleanup()
	s := e.s
	switch verifChoice("who", 3) {
	case 0:
		verifAssume(s.snapshotCAS.Begin("backup") == nil)
		for i := 0; i < 2; i++ {
			verifAssert("C21-snapshot-refused-while-backup-holds-the-gate", verifC21TrySnapshot(s))
			verifAssert("C21-refused-snapshot-leaves-the-gate-with-the-backup", s.snapshotCAS.Owner() == "backup")
		}
		verifReach("snapshot-refused")
		verifAssert("C21-refused-snapshot-does-not-touch-the-database", !verifC21SnapshotTouchedDB)
		// once the backup is done a snapshot gets past the gate (and, on this Store, no further)
		s.snapshotCAS.End()
		verifAssert("C21-snapshot-passes-a-free-gate", !verifC21TrySnapshot(s))
	case 1:
		verifAssume(s.snapshotCAS.Begin("backup") == nil)
		err := s.Close(true)
		verifReach("close-gave-up")
		verifAssert("C21-close-refused-while-backup-holds-the-gate", err != nil)
		verifAssert("C21-refused-close-leaves-the-gate-with-the-backup", s.snapshotCAS.Owner() == "backup")
	case 2:
		compress := verifChoice("compress", 2) == 1
		br := verifC21Request(0, false, compress)
		want := e.expected(br)
		attempts := 0
		w := &verifC21Sink{budget: -1}
		w.hook = func() {
			for i := 0; i < 2; i++ {
				attempts++
				verifAssert("C21-gate-held-by-backup-during-the-copy", s.snapshotCAS.Owner() == "backup")
				verifAssert("C21-snapshot-refused-while-backup-holds-the-gate", verifC21TrySnapshot(s))
				verifAssert("C21-refused-snapshot-leaves-the-gate-with-the-backup", s.snapshotCAS.Owner() == "backup")
			}
		}
		err := s.Backup(context.Background(), br, w)
		verifAssert("C21-backup-succeeds-despite-snapshot-attempts", err == nil)
		verifAssert("C21-snapshot-attempts-happened-during-the-copy", attempts >= 2)
		verifReach("snapshot-attempts-during-copy")
		verifAssert("C21-refused-snapshot-does-not-touch-the-database", !verifC21SnapshotTouchedDB)
		verifAssert("C21-success-means-complete-artifact", verifC21Complete(w.got, compress, want))
		verifAssert("C21-snapshot-gate-released", s.snapshotCAS.Begin("verif") == nil)
	}
}

// VerifC21Twin: vacuity guard - same shape, final claim is false.
func VerifC21Twin() {
	img := verifBytes("image", 3)
	e := verifC21NewEnv(img)
	defer e.cleanup()
	br := verifC21Request(0, false, true)
	want := e.expected(br)
	w := &verifC21Sink{budget: -1}
	err := e.s.Backup(context.Background(), br, w)
	verifAssume(err == nil)
	verifAssert("twin", !verifC21Complete(w.got, true, want))
}

// ---------------------------------------------------------------------------
// engine-only models (spec.json "models"); never called natively

var (
	verifC21ErrSrc      = errors.New("verif db model: database is closed")
	verifC21ErrNoEnt    = errors.New("verif file model: no such file or directory")
	verifC21ErrRead     = errors.New("verif file model: read failed (is a directory)")
	verifC21ErrClosed   = errors.New("verif file model: file already closed")
	verifC21ErrGzLevel  = errors.New("verif gzip model: invalid compression level")
	verifC21ErrGzClosed = errors.New("verif gzip model: write to closed writer")
)

type verifC21Node struct {
	data       []byte
	unreadable bool // every Read fails (natively: the path is a directory)
}

type verifC21Handle struct {
	name   string
	node   *verifC21Node
	off    int
	closed bool
}

type verifC21GzW struct {
	w      io.Writer
	buf    []byte
	header bool
	closed bool
	err    error
}

var (
	verifC21Files   map[string]*verifC21Node
	verifC21Handles map[*os.File]*verifC21Handle
	verifC21GzWs    map[*gzip.Writer]*verifC21GzW
	verifC21Seq     int
	verifC21SrcFail bool
	verifC21Image   []byte
)

func verifC21Reset() {
	verifC21Files = map[string]*verifC21Node{}
	verifC21Handles = map[*os.File]*verifC21Handle{}
	verifC21GzWs = map[*gzip.Writer]*verifC21GzW{}
	verifC21Seq = 0
	verifC21SrcFail = false
	verifC21Image = nil
	verifC21SnapshotTouchedDB = false
}

// --- the SQLite handle: what (*Store).Backup asks of it

// verifC21Converted stands for the DELETE-mode (and optionally vacuumed) copy of the database.
func verifC21Converted(img []byte, vacuum bool) []byte {
	tag := byte(0xD0)
	if vacuum {
		tag = 0xD1
	}
	return append([]byte{tag}, img...)
}

// verifC21DumpText stands for the SQL text of the database: one Write per statement.
func verifC21DumpText(img []byte) []byte {
	out := []byte("P;")
	for _, b := range img {
		out = append(out, b, ';')
	}
	return append(out, 'C', ';')
}

// verifC21SnapshotTouchedDB: a snapshot got past the gate and started on the database (the first
// thing fsmSnapshot does there is SetSynchronousMode; the model refuses it).
var verifC21SnapshotTouchedDB bool

func verifC21DBSetSynchronousMode(db *sql.SwappableDB, mode sql.SynchronousMode) error {
	verifC21SnapshotTouchedDB = true
	return verifC21ErrSrc
}

func verifC21RecordDuration(stat string, startT time.Time) {}

func verifC21DBWALSize(db *sql.SwappableDB) (int64, error) { return 0, nil }

func verifC21DBFileSize(db *sql.SwappableDB) (int64, error) { return 0, nil }

// Backup writes the converted copy INTO the file at path (SQLite opens an existing file, it does
// not replace it, so a handle opened earlier sees the content).
func verifC21DBBackup(db *sql.SwappableDB, path string, vacuum bool) error {
	if verifC21SrcFail {
		return verifC21ErrSrc
	}
	n, ok := verifC21Files[path]
	if !ok {
		n = &verifC21Node{}
		verifC21Files[path] = n
	}
	n.data = verifC21Converted(verifC21Image, vacuum)
	return nil
}

func verifC21DBDump(db *sql.SwappableDB, w io.Writer, tables ...string) error {
	if verifC21SrcFail {
		return verifC21ErrSrc
	}
	if _, err := w.Write([]byte("P;")); err != nil {
		return err
	}
	for _, b := range verifC21Image {
		if _, err := w.Write([]byte{b, ';'}); err != nil {
			return err
		}
	}
	_, err := w.Write([]byte("C;"))
	return err
}

// --- files: a name -> content map plus open handles with a read offset

func verifC21NewFile(name string) *os.File {
	node := &verifC21Node{}
	verifC21Files[name] = node
	f := new(os.File)
	verifC21Handles[f] = &verifC21Handle{name: name, node: node}
	return f
}

func verifC21CreateTemp(dir, pattern string) (*os.File, error) {
	if dir != verifC21ModelDir {
		return nil, verifC21ErrNoEnt
	}
	verifC21Seq++
	return verifC21NewFile(dir + "/" + strings.Replace(pattern, "*", strconv.Itoa(verifC21Seq), 1)), nil
}

func verifC21Open(name string) (*os.File, error) {
	node, ok := verifC21Files[name]
	if !ok {
		return nil, verifC21ErrNoEnt
	}
	f := new(os.File)
	verifC21Handles[f] = &verifC21Handle{name: name, node: node}
	return f, nil
}

func verifC21FileName(f *os.File) string { return verifC21Handles[f].name }

func verifC21FileRead(f *os.File, p []byte) (int, error) {
	h := verifC21Handles[f]
	if h.closed {
		return 0, verifC21ErrClosed
	}
	if len(p) == 0 {
		return 0, nil
	}
	if h.node.unreadable {
		return 0, verifC21ErrRead
	}
	if h.off >= len(h.node.data) {
		return 0, io.EOF
	}
	n := copy(p, h.node.data[h.off:])
	h.off += n
	return n, nil
}

func verifC21FileWrite(f *os.File, p []byte) (int, error) {
	h := verifC21Handles[f]
	if h.closed {
		return 0, verifC21ErrClosed
	}
	h.node.data = append(h.node.data, p...)
	return len(p), nil
}

type verifC21OnlyReader struct{ f *os.File }

func (r verifC21OnlyReader) Read(p []byte) (int, error) { return r.f.Read(p) }

type verifC21OnlyWriter struct{ f *os.File }

func (w verifC21OnlyWriter) Write(p []byte) (int, error) { return w.f.Write(p) }

// WriteTo / ReadFrom: the generic fallback of the real methods (io.Copy over plain Read/Write).
func verifC21FileWriteTo(f *os.File, w io.Writer) (int64, error) {
	return io.Copy(w, verifC21OnlyReader{f})
}

func verifC21FileReadFrom(f *os.File, r io.Reader) (int64, error) {
	return io.Copy(verifC21OnlyWriter{f}, r)
}

func verifC21FileClose(f *os.File) error {
	h := verifC21Handles[f]
	if h.closed {
		return verifC21ErrClosed
	}
	h.closed = true
	return nil
}

func verifC21Remove(name string) error {
	if _, ok := verifC21Files[name]; !ok {
		return verifC21ErrNoEnt
	}
	delete(verifC21Files, name)
	return nil
}

// --- gzip: a member is the real 10-byte header, one "stored" block (final-block byte, length,
// complemented length, the data) and an 8-byte trailer (a fixed mark where the CRC-32 would be,
// then the real ISIZE). Like the real writer the model emits the header with the first Write,
// keeps everything else until Close, writes block and trailer with separate Writes, and keeps
// the first error of the underlying writer (Write and Close return it from then on).

var verifC21GzHeader = []byte{0x1f, 0x8b, 8, 0, 0, 0, 0, 0, 4, 0xff}
var verifC21GzMark = []byte{0xC2, 0x1C, 0x2C, 0x12}

func verifC21GzNewWriterLevel(w io.Writer, level int) (*gzip.Writer, error) {
	if level < gzip.HuffmanOnly || level > gzip.BestCompression {
		return nil, verifC21ErrGzLevel
	}
	z := new(gzip.Writer)
	verifC21GzWs[z] = &verifC21GzW{w: w}
	return z, nil
}

func verifC21GzHeaderOut(st *verifC21GzW) {
	if st.header {
		return
	}
	st.header = true
	_, st.err = st.w.Write(verifC21GzHeader)
}

func verifC21GzWrite(z *gzip.Writer, p []byte) (int, error) {
	st := verifC21GzWs[z]
	if st.err != nil {
		return 0, st.err
	}
	if st.closed {
		return 0, verifC21ErrGzClosed
	}
	verifC21GzHeaderOut(st)
	if st.err != nil {
		return 0, st.err
	}
	st.buf = append(st.buf, p...)
	return len(p), nil
}

func verifC21GzClose(z *gzip.Writer) error {
	st := verifC21GzWs[z]
	if st.err != nil {
		return st.err
	}
	if st.closed {
		return nil
	}
	st.closed = true
	verifC21GzHeaderOut(st)
	if st.err != nil {
		return st.err
	}
	n := len(st.buf)
	block := append([]byte{1, byte(n), byte(n >> 8), ^byte(n), ^byte(n >> 8)}, st.buf...)
	if _, st.err = st.w.Write(block); st.err != nil {
		return st.err
	}
	trailer := append(append([]byte{}, verifC21GzMark...), byte(n), byte(n>>8), byte(n>>16), byte(n>>24))
	_, st.err = st.w.Write(trailer)
	return st.err
}

func verifC21ModelGunzip(b []byte) ([]byte, bool) {
	if len(b) < 10+5+8 || !bytes.Equal(b[:10], verifC21GzHeader) {
		return nil, false
	}
	if b[10] != 1 {
		return nil, false
	}
	n := int(b[11]) | int(b[12])<<8
	if b[13] != ^b[11] || b[14] != ^b[12] {
		return nil, false
	}
	if len(b) != 10+5+n+8 {
		return nil, false
	}
	t := b[15+n:]
	if !bytes.Equal(t[:4], verifC21GzMark) {
		return nil, false
	}
	if int(t[4])|int(t[5])<<8|int(t[6])<<16|int(t[7])<<24 != n {
		return nil, false
	}
	return b[15 : 15+n], true
}
