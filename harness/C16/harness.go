package store

import "time"

// C16(a): IsStaleRead against the documented rule, all inputs symbolic.
//
//	stale <=> freshness != 0 && ( now-contact > freshness ||
//	          (strict && appended != zero && fsmIdx != commitIdx && fsmUpdate-appended > freshness) )
func VerifC16aStale() {
	const lim = int64(1) << 62
	now := verifI64("now")
	lc := verifI64("contact")
	fu := verifI64("fsmUpdate")
	ap := verifI64("appendedAt")
	verifAssume(now > -lim/2 && now < lim/2 && lc > -lim/2 && lc < lim/2)
	verifAssume(fu > -lim/2 && fu < lim/2 && ap > -lim/2 && ap < lim/2)
	fsm, ci := verifU64("fsmIdx"), verifU64("commitIdx")
	f := verifI64("freshness")
	strict := verifBool("strict")
	apZero := verifBool("appendedIsZero")

	verifSetClock(now)
	var appended time.Time
	if !apZero {
		appended = verifTime(ap)
	}
	got := IsStaleRead(verifTime(lc), verifTime(fu), appended, fsm, ci, f, strict)

	want := f != 0 && (now-lc > f || (strict && !apZero && fsm != ci && fu-ap > f))
	if got {
		verifReach("stale")
	} else {
		verifReach("fresh")
	}
	verifAssert("C16a-staleness-rule", got == want)
}

// Vacuity twin: same assumptions, must be violated.
func VerifC16aTwin() {
	const lim = int64(1) << 62
	now := verifI64("now")
	lc := verifI64("contact")
	verifAssume(now > -lim/2 && now < lim/2 && lc > -lim/2 && lc < lim/2)
	f := verifI64("freshness")
	verifSetClock(now)
	got := IsStaleRead(verifTime(lc), verifTime(0), time.Time{}, 0, 0, f, false)
	verifAssert("twin", !got)
}
