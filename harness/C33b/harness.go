package store

// =============================================================================================
// C33 (second part): manual recovery keeps all applied data - judged on the node as it comes up,
// not on RecoverNode alone (that is harness/C33).
//
// A node is started for the first time (real Open on an empty directory, bootstrap), then goes
// through a history: writes, no-op commands, user-requested snapshots with log compaction while it
// runs; a shutdown with or without snapshot-on-close; optionally something happens to the
// clean-snapshot marker / the SQLite file while the node is down; optionally the operator places a
// peers file; the node is opened again - with the REAL (*Store).Open - and so on.
//
// Oracle, from the property statement and the documentation of the things involved:
//   * Open succeeds unless the peers file is unusable (not JSON / no voter), and then reports it;
//   * after Open (and after raft has re-applied what the node had applied before), a reader of the
//     node's database sees exactly the writes the node had applied before the shutdown - each
//     once, in order - with a peers file (recovery) and without (plain restart);
//   * after a recovery raft runs with exactly the configuration of the peers file, the peers file
//     has been moved to peers.info; after a plain restart the configuration is unchanged;
//   * a refused recovery has destroyed nothing: the operator removes the peers file, the node
//     starts and serves everything;
//   * the peers file is the operator's request and stands until it has been carried out: a recovery
//     attempt that ends without success (Open fails on its environment at any fallible step) leaves
//     the peers file in place and produces no peers.info; started again with nothing touched, the
//     node comes up with exactly the peers file's configuration, all its data, the peers file retired;
//   * "fsmIdx: latest log entry index actually reflected by the FSM": after Open it is the index of
//     the last command entry of the log or the newest snapshot's index, whichever is greater;
//   * the clean-snapshot marker means "the SQLite file is unchanged since the most recent snapshot
//     operation, so the restore from the snapshot store can be skipped": whenever a marker vouches
//     for the main file after Open, the main file holds exactly the newest snapshot's state.
// =============================================================================================

type voHist struct {
	applied []int      // tags of the writes the node has applied, in order
	nextTag int        // tags are 1, 2, 3 ...
	conf    []voServer // the configuration the node has to run with
	last    string     // how the node was opened the last time: "first start", "restart", "recovery"
	tamper  int        // what happened to the files during the current down time
}

type voBounds struct {
	reopens  int   // number of shutdown + open rounds
	maxOps   []int // operations per running period (one bound per round)
	ops      []int // operation kinds offered
	tampers  []int // what may happen to the files while the node is down
	peers    []int // peers files offered at each open
	closeOpt []int // 0: snapshot on close, 1: no snapshot on close
	failures int   // engine only: the k-th call of the environment during Open fails, k in 1..failures (0: none)
}

func voCheckTags(id string, got []int, ok bool, want []int) {
	verifAssert(id, ok)
	verifAssert(id, len(got) == len(want))
	for i := range want {
		verifAssert(id, got[i] == want[i])
	}
}

// voOpenAgain: one open of an existing data directory and everything that has to hold afterwards.
func voOpenAgain(w *voWorld, h *voHist, b voBounds, peers int, p int) {
	vouchedBefore := w.markerVouchesForMainFile()
	walBefore := w.walHoldsWrites()
	wasElectable := w.electable
	staleRecoveryWAL := w.exists(w.recoveryWALPath())
	newestIncremental := w.newestSnapshotIsIncremental()
	infoBefore := w.exists(w.peersInfo())
	usablePeers := peers != voPeersNone && peers != voPeersNoVoter && peers != voPeersGarbage
	obstructed := h.tamper == voTamperObstacle
	// four or more snapshots make the snapshot store reap in the background: outside the bounds
	verifAssume(w.snapshotCount() < 3)
	s := w.newStore()
	w.setPeers(peers)
	peersAddr := w.selfAddr // the address the peers file names for this node (natively every store listens on a new one)
	w.s = s
	failurePoints := b.failures
	if peers == voPeersNone {
		failurePoints = b.failures / 2 // a plain restart makes fewer than half as many calls
	}
	if b.failures > 0 {
		w.failAt = w.choose(verifName("failing-call-", p), failurePoints+1)
		w.injecting, w.envCalls, w.injected = true, 0, ""
	}
	err := s.Open()
	verifSettle()
	w.injecting = false

	recovering := peers != voPeersNone
	confKnown := true
	if b.failures > 0 && w.failAt > w.envCalls {
		verifReach("failing-call-number-beyond-the-last-call")
	}
	if b.failures > 0 && w.injected == "" {
		// self-check of the harness: the numbers offered for the failing call reach every call
		verifAssert("C33b-harness-every-call-of-the-environment-can-be-chosen", w.envCalls <= failurePoints)
	}
	if w.injected != "" && err == nil {
		verifReach("injected-failure-tolerated")
	}
	if err != nil && (w.injected != "" || (obstructed && usablePeers)) {
		// Open failed because its environment failed: whatever it had done by then, nothing the node
		// had applied may be lost, and a request for recovery is not lost either.
		if w.injected != "" {
			verifReach("open-failed-on-an-injected-failure")
		} else {
			verifReach("recovery-attempt-failed-on-the-obstacle")
		}
		if w.injected == "log.DeleteRange" {
			verifReach("log-compaction-failed-after-the-new-snapshot")
		}
		w.abandon()
		if usablePeers {
			// "the node starts with exactly the configuration in the peers file": the peers file is
			// the operator's request, it stands until it has been carried out. An attempt that ended
			// without success leaves it where it is and does not produce the record of a completed
			// recovery (peers.info); the file is retired - as peers.info - only by a recovery that succeeded.
			if w.exists(w.peersPath()) {
				verifReach("failed-attempt-left-the-peers-file-in-place")
				verifAssert("C33-failed-attempt-produces-no-peers-info", w.exists(w.peersInfo()) == infoBefore)
			} else {
				verifReach("open-failed-with-the-peers-file-retired")
				verifAssert("C33-peers-file-retired-only-as-peers-info", w.exists(w.peersInfo()))
			}
		}
		if obstructed {
			w.obstacle(false)
		}
		// The operator either gives up on the recovery (takes the peers file away if it is still
		// there) or changes nothing; then the node is started in a working environment.
		giveUp := !usablePeers || w.choose(verifName("operator-gives-up-", p), 2) == 1
		if giveUp {
			w.removePeers()
		}
		s = w.newStore()
		w.s = s
		err = s.Open()
		verifSettle()
		if giveUp {
			verifAssert("C33-failed-open-destroys-nothing", err == nil)
			recovering = false
			confKnown = false // the failed recovery may or may not have installed the peers configuration
		} else {
			// nothing was touched: the recovery is attempted again (or had been completed before
			// Open failed) - either way the node is up with exactly the peers file's configuration,
			// the peers file retired, everything it had applied in place (checked below)
			verifReach("node-started-again-after-a-failed-attempt")
			verifAssert("C33-start-after-a-failed-attempt-succeeds", err == nil)
			recovering = true
		}
	} else if peers == voPeersNoVoter || peers == voPeersGarbage {
		verifReach("unusable-peers-file-refused")
		verifAssert("C33-unusable-peers-file-refused", err != nil)
		// the operator gives up on the recovery: nothing the node had applied may be lost
		w.abandon()
		w.removePeers()
		s = w.newStore()
		w.s = s
		err = s.Open()
		verifSettle()
		verifAssert("C33-refused-recovery-destroys-nothing", err == nil)
		recovering = false
	} else {
		if err != nil {
			println("verif C33b: Open failed:", err.Error())
		}
		// Recorded defect (reproduced natively, see spec.json): RecoverNode removes its temporary
		// database recovery.db but not recovery.db-wal; a later recovery whose newest snapshot is
		// an incremental one (database file + WAL files) cannot restore it next to the stale WAL
		// file ("cannot replay WAL files: existing WAL file present") and Open fails.
		if err != nil && recovering && staleRecoveryWAL && newestIncremental {
			verifFinding("C33-second-recovery-blocked-by-stale-recovery-wal")
		}
		verifAssert("C33-open-succeeds", err == nil)
	}
	if obstructed {
		w.obstacle(false) // cleared by now in any case
	}
	w.started(s)

	if recovering {
		verifReach("recovery-taken")
		if walBefore && vouchedBefore {
			verifReach("recovery-with-writes-in-the-wal-of-a-vouched-for-file")
		}
		if h.last == "recovery" {
			verifReach("recovery-after-recovery")
		} else if h.last == "restart" {
			verifReach("recovery-after-restart")
		}
		h.conf = voConfOf(peers, peersAddr)
		h.last = "recovery"
	} else {
		if h.last == "recovery" {
			verifReach("restart-after-recovery")
		}
		if !wasElectable {
			verifReach("node-that-cannot-elect-itself-restarted")
		}
		h.last = "restart"
		verifReach("plain-restart")
		if vouchedBefore {
			verifReach("plain-restart-with-vouched-for-file")
		} else if len(h.applied) > 0 {
			verifReach("plain-restart-without-usable-marker")
		}
	}
	if h.tamper == voTamperInterruptedRecovery {
		if recovering {
			verifReach("recovery-over-an-interrupted-recovery")
		} else {
			verifReach("plain-restart-after-an-interrupted-recovery")
		}
	}
	if h.tamper == voTamperForeignRecoveryDB && recovering {
		verifReach("recovery-next-to-a-foreign-temporary-database")
	}
	if vouchedBefore && (h.tamper == voTamperCRC0 || h.tamper == voTamperCheckpoint || h.tamper == voTamperCheckpointSameTime) {
		verifReach("marker-tampered-file-still-vouched-for")
	}
	if verifSymbolic() {
		w.reachMarkers()
	}

	// the data
	got, ok := w.liveTags()
	if recovering {
		voCheckTags("C33-recovered-node-holds-everything-it-had-applied", got, ok, h.applied)
	} else {
		voCheckTags("C33-restarted-node-holds-everything-it-had-applied", got, ok, h.applied)
	}

	// the configuration and the peers file
	if recovering {
		verifAssert("C33-node-starts-with-exactly-the-peers-file-configuration", voSameConf(w.raftConf(), h.conf))
		verifAssert("C33-peers-file-moved-away", !w.exists(w.peersPath()))
		verifAssert("C33-peers-file-kept-as-peers-info", w.exists(w.peersInfo()))
	} else if confKnown {
		verifAssert("C33-restart-keeps-the-configuration", voSameConf(w.raftConf(), h.conf))
	} else {
		h.conf = w.raftConf()
	}

	// node-local index
	verifAssert("C33-fsm-index-after-open", s.fsmIdx.Load() == w.reflectedIndex())

	// the marker never vouches for a file that is not the newest snapshot's state
	if w.markerVouchesForMainFile() {
		verifReach("marker-vouches-after-open")
		mt, ok1 := w.mainFileTags()
		st, ok2 := w.newestSnapshotTags()
		voCheckTags("C33-marker-only-vouches-for-the-newest-snapshots-state", mt, ok1 && ok2, st)
	}
	// a file Open decided to keep has the checksum the marker recorded (production aborts otherwise)
	verifAssert("C33-kept-file-has-the-recorded-checksum", !w.crcMismatch)
	if verifSymbolic() {
		verifAssert("C33-environment-used-sensibly", w.badCalls == 0)
	}
	w.observeUp()
}

func (w *voWorld) choose(name string, n int) int {
	v := verifChoice(name, n)
	w.choices = append(w.choices, name+"="+voItoa(v))
	return v
}

func (w *voWorld) pick(name string, from []int) int {
	return from[w.choose(name, len(from))]
}

// voRun: first start, then b.reopens rounds of (operations, shutdown, tampering, open).
func voRun(w *voWorld, entry string, b voBounds) *voHist {
	verifPanicsAreViolations()
	w.entry = entry
	h := &voHist{nextTag: 1, last: "first start"}

	s := w.newStore()
	w.s = s
	err := s.Open()
	verifSettle()
	verifAssert("C33-first-open-succeeds", err == nil)
	w.bootstrap(s)
	h.conf = []voServer{{voNodeID, w.selfAddr, true}}
	got, ok := w.liveTags()
	voCheckTags("C33-new-node-is-empty", got, ok, nil)

	for p := 0; p < b.reopens; p++ {
		w.round = p
		if w.electable {
			n := w.choose(verifName("operations-in-period-", p), b.maxOps[p]+1)
			for i := 0; i < n; i++ {
				switch w.pick(verifName("operation-", p*10+i), b.ops) {
				case voOpWrite:
					w.write(h.nextTag)
					h.applied = append(h.applied, h.nextTag)
					h.nextTag++
				case voOpNoop:
					w.noop()
				case voOpRewrite:
					w.rewrite()
					if len(h.applied) > 0 {
						h.applied[len(h.applied)-1] += 10
					}
				case voOpSnapKeep1:
					w.snapshotNow(1)
				case voOpSnapKeepAll:
					w.snapshotNow(0)
				}
			}
		}
		closeOpt := w.pick(verifName("no-snapshot-on-close-", p), b.closeOpt)
		w.shutdown(closeOpt == 1)
		walBefore := w.walHoldsWrites()
		h.tamper = w.pick(verifName("while-down-", p), b.tampers)
		verifAssume(w.tamper(h.tamper))
		if walBefore && (h.tamper == voTamperCheckpoint || h.tamper == voTamperCheckpointSameTime) {
			verifReach("wal-checkpointed-behind-the-markers-back")
		}
		w.observeDown()
		voOpenAgain(w, h, b, w.pick(verifName("peers-file-", p), b.peers), p)
	}
	w.report()
	return h
}

var (
	voAllOps    = []int{voOpWrite, voOpSnapKeep1, voOpSnapKeepAll, voOpNoop, voOpRewrite}
	voAllPeers  = []int{voPeersNone, voPeersSelf, voPeersSelfPlus, voPeersThree, voPeersNoVoter, voPeersGarbage}
	voAllTamper = []int{voTamperNoMarker, voTamperGarbageMarker, voTamperCRC0, voTamperSize, voTamperMtime, voTamperCheckpointSameTime, voTamperCheckpoint}
)

// VerifC33bReopen: every history of up to 3 (quick) / 4 (thorough) operations, shutdown with or
// without snapshot-on-close, every kind of peers file (or none).
func VerifC33bReopen() {
	b := voBounds{reopens: 1, maxOps: []int{3}, ops: voAllOps, tampers: []int{voTamperNone}, peers: voAllPeers, closeOpt: []int{0, 1}}
	if verifTier() == 1 {
		b.maxOps = []int{4}
	}
	w := voNewWorld()
	defer w.cleanup()
	voRun(w, "VerifC33bReopen", b)
}

// VerifC33bWhileDown: the marker / the SQLite file are tampered with while the node is down.
func VerifC33bWhileDown() {
	b := voBounds{reopens: 1, maxOps: []int{3}, ops: []int{voOpWrite, voOpSnapKeep1, voOpRewrite}, tampers: voAllTamper,
		peers: []int{voPeersNone, voPeersSelf}, closeOpt: []int{0, 1}}
	if verifTier() == 1 {
		b.ops = voAllOps
		b.peers = []int{voPeersNone, voPeersSelf, voPeersThree, voPeersGarbage}
	}
	w := voNewWorld()
	defer w.cleanup()
	voRun(w, "VerifC33bWhileDown", b)
}

// VerifC33bInterrupted: an earlier manual recovery of the node was killed while it replayed the log
// (its temporary database and WAL lie in the data directory, holding the newest snapshot's state
// plus the first k replayed commands, k = 0 .. all). The operator starts the node again - with the peers file still in
// place (the recovery runs again), with another one, or without (plain restart). The node must
// serve exactly what it had applied, each write once ("rebuilt during manual recovery" is one of
// the apply paths of C01 that has to arrive at the same state as the live one).
func VerifC33bInterrupted() {
	b := voBounds{reopens: 1, maxOps: []int{3}, ops: []int{voOpWrite, voOpSnapKeep1, voOpRewrite},
		tampers: []int{voTamperInterruptedRecovery},
		peers:   []int{voPeersNone, voPeersSelf}, closeOpt: []int{0, 1}}
	if verifTier() == 1 {
		b.ops = voAllOps
		b.peers = []int{voPeersNone, voPeersSelf, voPeersThree, voPeersGarbage}
	}
	w := voNewWorld()
	defer w.cleanup()
	voRun(w, "VerifC33bInterrupted", b)
}

// VerifC33bForeign: the same histories, a database of another lineage lies where the temporary
// database of a recovery goes (main file, with or without a WAL file).
func VerifC33bForeign() {
	b := voBounds{reopens: 1, maxOps: []int{3}, ops: []int{voOpWrite, voOpSnapKeep1, voOpRewrite},
		tampers: []int{voTamperForeignRecoveryDB},
		peers:   []int{voPeersNone, voPeersSelf}, closeOpt: []int{0, 1}}
	if verifTier() == 1 {
		b.ops = voAllOps
		b.peers = []int{voPeersNone, voPeersSelf, voPeersThree, voPeersGarbage}
	}
	w := voNewWorld()
	defer w.cleanup()
	voRun(w, "VerifC33bForeign", b)
}

// VerifC33bObstacle: a recovery attempt that ends without success, on the real thing: something
// that cannot be cleared away lies where the recovery puts its temporary database. If Open fails,
// the peers file is still in place and no peers.info was produced; the operator clears the obstacle
// and either starts the node again with nothing else touched (the recovery is carried out now: exactly
// the peers file's configuration, peers file retired, all data) or takes the peers file away (plain
// restart, all data). Without a peers file the obstacle does not matter.
func VerifC33bObstacle() {
	b := voBounds{reopens: 1, maxOps: []int{2}, ops: []int{voOpWrite, voOpSnapKeep1},
		tampers: []int{voTamperObstacle},
		peers:   []int{voPeersNone, voPeersSelf, voPeersSelfPlus, voPeersGarbage}, closeOpt: []int{0, 1}}
	if verifTier() == 1 {
		b.maxOps = []int{3}
		b.ops = voAllOps
		b.peers = voAllPeers
	}
	w := voNewWorld()
	defer w.cleanup()
	voRun(w, "VerifC33bObstacle", b)
}

// VerifC33bInterruptedTwice (thorough): two rounds, each down time may see an interrupted recovery
// or a foreign temporary database (a recovery after an interrupted one after a completed one ...).
func VerifC33bInterruptedTwice() {
	b := voBounds{reopens: 2, maxOps: []int{2, 1}, ops: []int{voOpWrite, voOpSnapKeep1, voOpRewrite},
		tampers: []int{voTamperNone, voTamperInterruptedRecovery, voTamperForeignRecoveryDB},
		peers:   []int{voPeersNone, voPeersSelf}, closeOpt: []int{0, 1}}
	w := voNewWorld()
	defer w.cleanup()
	voRun(w, "VerifC33bInterruptedTwice", b)
}

// VerifC33bTwice: two rounds - what the first open leaves behind is what the second one finds
// (a restart after a recovery, a recovery after a restart that restored / skipped the restore ...).
func VerifC33bTwice() {
	b := voBounds{reopens: 2, maxOps: []int{3, 1}, ops: []int{voOpWrite, voOpSnapKeep1}, tampers: []int{voTamperNone},
		peers: []int{voPeersNone, voPeersSelf, voPeersThree}, closeOpt: []int{0, 1}}
	if verifTier() == 1 {
		b.ops = []int{voOpWrite, voOpSnapKeep1, voOpRewrite}
		b.peers = []int{voPeersNone, voPeersSelf, voPeersThree, voPeersGarbage}
	}
	w := voNewWorld()
	defer w.cleanup()
	voRun(w, "VerifC33bTwice", b)
}

// VerifC33bLong (thorough): longer histories of writes and snapshots (several snapshots, compacted log).
func VerifC33bLong() {
	b := voBounds{reopens: 1, maxOps: []int{6}, ops: []int{voOpWrite, voOpSnapKeep1}, tampers: []int{voTamperNone},
		peers: []int{voPeersNone, voPeersSelf, voPeersThree}, closeOpt: []int{0, 1}}
	w := voNewWorld()
	defer w.cleanup()
	voRun(w, "VerifC33bLong", b)
}

// VerifC33bThrice (thorough): three rounds of short periods.
func VerifC33bThrice() {
	b := voBounds{reopens: 3, maxOps: []int{2, 1, 1}, ops: []int{voOpWrite, voOpSnapKeep1}, tampers: []int{voTamperNone},
		peers: []int{voPeersNone, voPeersSelf}, closeOpt: []int{0, 1}}
	w := voNewWorld()
	defer w.cleanup()
	voRun(w, "VerifC33bThrice", b)
}

// VerifC33bFailures (engine only): one call of the environment fails during the Open under test -
// every call that can fail, one at a time (file removal / rename, the marker write, the database
// open / checkpoint / swap, the snapshot store and the sink, the log). Either Open tolerates it and
// everything holds as usual, or Open fails: then a peers file is still in place unless the recovery
// had been completed (and no peers.info was produced by an attempt that was not), and a restart in a
// working environment serves everything the node had applied - with nothing touched it comes up
// with exactly the peers file's configuration (the recovery is attempted again), with the peers file
// taken away as a plain restart. The peers file names a non-voter next to this node, so that its
// configuration differs from the one the node had.
func VerifC33bFailures() {
	b := voBounds{reopens: 1, maxOps: []int{3}, ops: []int{voOpWrite, voOpSnapKeep1}, tampers: []int{voTamperNone},
		peers: []int{voPeersNone, voPeersSelfPlus}, closeOpt: []int{0, 1}, failures: 48}
	if verifTier() == 1 {
		b.ops = []int{voOpWrite, voOpSnapKeep1, voOpNoop}
		b.peers = []int{voPeersNone, voPeersSelf, voPeersSelfPlus, voPeersThree}
	}
	w := voNewWorld()
	defer w.cleanup()
	voRun(w, "VerifC33bFailures", b)
}

// Vacuity twin: claims that a reopened node never serves anything.
func VerifC33bTwin() {
	b := voBounds{reopens: 1, maxOps: []int{2}, ops: []int{voOpWrite, voOpSnapKeep1}, tampers: []int{voTamperNone},
		peers: []int{voPeersNone, voPeersSelf}, closeOpt: []int{1}}
	w := voNewWorld()
	defer w.cleanup()
	voRun(w, "VerifC33bTwin", b)
	got, _ := w.liveTags()
	verifAssert("twin", len(got) == 0)
}
