package store

import (
	"encoding/json"
	"os"
	"path/filepath"
	"strconv"
	"strings"
	"testing"
)

// Model conformance of harness/C33b: the abstract world of world.go (file system, SQLite main file /
// WAL, snapshot store, raft log, what raft does at start, what a running node leaves on disk) against
// the real thing.
//
// conformance.txt holds one line per path of an engine run (VERIF_PRINT=1): the history (the
// choices) and what was observed along it in the ENGINE: after every shutdown whether the marker
// vouches for the main file and whether the WAL holds writes; after every open the tags the node
// serves, the newest snapshot's index, the first / last index of the raft log, fsmIdx, whether Open
// skipped the restore (numSnapshotsSkipped) and whether a marker vouches for the main file.
// This test replays sampled histories on a REAL node (real hashicorp/raft, bbolt, SQLite, file
// system - the harness's native branch, nothing replaced), requires that every promise of the oracle
// holds natively too, and that the native observations are literally the engine's.
//
//	regenerate: cd /verif && VERIF_PRINT=1 ./bin/symgo check -prop C33 -tier quick 2>&1 | grep -a '^VERIF-PRINT: CONFORMANCE' | sed 's/^VERIF-PRINT: //' | sort > harness/C33b/conformance.txt
//	run:        cd /verif && VERIF_C33B_STRIDE=40 VERIF_C33B_OFFSET=0 ./bin/symgo nativetest C33b TestVerifC33bConformance
//
// VERIF_C33B_STRIDE=n / VERIF_C33B_OFFSET=k: every n-th line starting at line k (default 40 / 0);
// VERIF_C33B_ONLY=<substring>: only lines containing the substring.
func TestVerifC33bConformance(t *testing.T) {
	file := os.Getenv("VERIF_C33B_CONFORMANCE")
	if file == "" {
		dir := os.Getenv("VERIF_DIR")
		if dir == "" {
			dir = "/verif"
		}
		file = filepath.Join(dir, "harness", "C33b", "conformance.txt")
	}
	b, err := os.ReadFile(file)
	if err != nil {
		t.Skipf("no conformance file: %v", err)
	}
	stride, offset := 40, 0
	if v, err := strconv.Atoi(os.Getenv("VERIF_C33B_STRIDE")); err == nil && v > 0 {
		stride = v
	}
	if v, err := strconv.Atoi(os.Getenv("VERIF_C33B_OFFSET")); err == nil && v >= 0 {
		offset = v
	}
	only := os.Getenv("VERIF_C33B_ONLY")
	entries := map[string]func(){
		"VerifC33bReopen":    VerifC33bReopen,
		"VerifC33bWhileDown": VerifC33bWhileDown,
		"VerifC33bTwice":     VerifC33bTwice,
		"VerifC33bThrice":    VerifC33bThrice,
		"VerifC33bLong":      VerifC33bLong,
		"VerifC33bTwin":      VerifC33bTwin,

		"VerifC33bInterrupted":      VerifC33bInterrupted,
		"VerifC33bForeign":          VerifC33bForeign,
		"VerifC33bObstacle":         VerifC33bObstacle,
		"VerifC33bInterruptedTwice": VerifC33bInterruptedTwice,
	}
	tmp := t.TempDir()
	ran, bad := 0, 0
	for i, line := range strings.Split(strings.TrimSpace(string(b)), "\n") {
		if i%stride != offset%stride {
			continue
		}
		if only != "" && !strings.Contains(line, only) {
			continue
		}
		head, want, ok := strings.Cut(line, " | ")
		f := strings.Fields(head)
		if !ok || len(f) < 2 || f[0] != "CONFORMANCE" {
			t.Fatalf("line %d: not a conformance line: %q", i, line)
		}
		entry := f[1]
		if entry == "VerifC33bTwin" {
			continue
		}
		fn := entries[entry]
		if fn == nil {
			t.Fatalf("line %d: unknown entry %q", i, entry)
		}
		values := map[string]int{}
		if len(f) > 2 {
			for _, kv := range strings.Split(f[2], ",") {
				k, v, _ := strings.Cut(kv, "=")
				n, err := strconv.Atoi(v)
				if err != nil {
					t.Fatalf("line %d: bad choice %q", i, kv)
				}
				values[k] = n
			}
		}
		doc, _ := json.Marshal(map[string]any{"values": values})
		replay := filepath.Join(tmp, "replay.json")
		if err := os.WriteFile(replay, doc, 0644); err != nil {
			t.Fatal(err)
		}
		os.Setenv("VERIF_REPLAY", replay)
		var got []string
		reported := false
		voObsHook = func(c, o []string) { got, reported = o, true }
		outcome := verifRun(entry, fn)
		voObsHook = nil
		ran++
		switch {
		case len(outcome) != 0:
			bad++
			t.Errorf("line %d (%s %s): the real node breaks a promise the model keeps: %v", i, entry, f[2:], outcome)
		case !reported:
			bad++
			t.Errorf("line %d (%s %s): the native run did not reach the end of the history", i, entry, f[2:])
		case strings.Join(got, " ; ") != want:
			bad++
			t.Errorf("line %d (%s %s): observations differ\n  engine: %s\n  native: %s", i, entry, f[2:], want, strings.Join(got, " ; "))
		}
	}
	t.Logf("%d histories replayed on a real node, %d disagreements", ran, bad)
}
