package store

import (
	"context"
	"errors"
	"expvar"
	"fmt"
	"io"
	"io/fs"
	"log"
	"net"
	"os"
	"path/filepath"
	"strings"
	"time"

	"github.com/hashicorp/go-hclog"
	"github.com/hashicorp/raft"
	raftboltdb "github.com/rqlite/raft-boltdb/v2"
	"github.com/rqlite/rqlite/v10/command/chunking"
	"github.com/rqlite/rqlite/v10/command/proto"
	sql "github.com/rqlite/rqlite/v10/db"
	"github.com/rqlite/rqlite/v10/snapshot"
	rlog "github.com/rqlite/rqlite/v10/store/log"
)

// =============================================================================================
// World of C33b: what a node's data directory looks like after a history of writes, snapshots,
// restarts and recoveries - and what (*Store).Open makes of it.
//
// ENGINE. (*Store).Open, RecoverNode, createDBOnDisk, sql.RemoveFiles / RemoveWALFiles, the fsutil
// helpers, FSM.Restore / (*Store).fsmRestore, createSnapshotFingerprint, FSM.Apply /
// (*Store).fsmApply, (*snapshot.StateReader).Persist, raft.NewLogCache and (*rlog.Log).Indexes run
// from their real code. What is behind cgo, bbolt, the file system, JSON and hashicorp/raft is
// replaced (spec "models") by the abstract world of this file:
//   * a file system: nodes by path (directories, plain files, the clean-snapshot marker with its
//     fingerprint, the peers file, SQLite main files and WAL files);
//   * the database is its contents as an ordered list of tags (as in harness/C33): a main file
//     (state as of the last checkpoint / restore) and a WAL (writes applied since); every change
//     of a main file gives it a new identity (modification time, size, CRC);
//   * the snapshot store: snapshots ordered as snapshot.Snapshot.Less orders them, each with
//     index, term, configuration and the tags it holds; List returns the newest only;
//   * the raft log: a contiguous run of entries;
//   * raft.NewRaft: what hashicorp/raft v1.7.3 does at start and, on a node that can elect itself,
//     right after it (see voNewRaft).
// The same file holds the model of a RUNNING node between two Opens (write, no-op command,
// user-requested snapshot with log compaction, shutdown with / without snapshot-on-close): the
// situation generator.
//
// NATIVE REPLAY. Nothing is replaced: a real Store on a temporary directory is bootstrapped, written
// to (real EXECUTE commands "INSERT INTO vlog"), snapshotted (Store.Snapshot), closed, the marker /
// main file are tampered with using ordinary file operations, peers.json is written, and the real
// Open runs with the real hashicorp/raft, bbolt and SQLite. The observations (tags the live
// database holds, raft's configuration, which files exist, the node-local indexes) are read from
// the real node.
// =============================================================================================

const voNodeID = "n1"

// peers files (what is found at raft/peers.json when the node is opened)
const (
	voPeersNone     = iota // no file: plain restart
	voPeersSelf            // this node as the only voter
	voPeersSelfPlus        // a non-voter and this node as the only voter
	voPeersThree           // three voters (the other two are not reachable)
	voPeersNoVoter         // this node as non-voter only: not a usable configuration
	voPeersGarbage         // not JSON
	voPeersN
)

// operations on a running node
const (
	voOpWrite       = iota // one EXECUTE command that appends a tag
	voOpSnapKeep1          // Store.Snapshot(1): snapshot, keep one trailing log entry
	voOpSnapKeepAll        // Store.Snapshot(0): snapshot, raft's default number of trailing entries (everything is kept)
	voOpNoop               // one NOOP command (a command entry that does not change the database)
	voOpRewrite            // one EXECUTE command that adds 10 to the newest tag in place (the file does not grow; not idempotent)
	voOpN
)

// voBump in a WAL's list of operations: "add 10 to the newest tag" (everything else: append the tag)
const voBump = 250

// voApplyOps: the state a database file in state base reaches through the operations of its WAL.
func voApplyOps(base []int, ops []int) []int {
	out := append([]int{}, base...)
	for _, op := range ops {
		if op == voBump {
			if len(out) > 0 {
				out[len(out)-1] += 10
			}
		} else {
			out = append(out, op)
		}
	}
	return out
}

// what happens to the files between the shutdown and the next open
const (
	voTamperNone               = iota
	voTamperNoMarker           // marker deleted (Store.ForceSnapshotRestore does exactly this)
	voTamperGarbageMarker      // marker is not JSON
	voTamperCRC0               // marker rewritten without CRC (format of older releases)
	voTamperSize               // marker records another size
	voTamperMtime              // marker records another modification time
	voTamperCheckpointSameTime // the WAL was checkpointed into the main file behind rqlite's back, the file's modification time was put back
	voTamperCheckpoint         // the same, modification time as the file system sets it
	// An earlier manual recovery of this node was killed while it replayed the log into its temporary
	// database: the marker is gone (Open removes it before it recovers), <data dir>/recovery.db holds
	// the newest snapshot's state (nothing without a snapshot) and recovery.db-wal the first k command
	// entries a recovery replays, k = 0 .. all of them (one choice per k).
	voTamperInterruptedRecovery
	// A database of another lineage lies at <data dir>/recovery.db (left by another release, copied
	// with the directory ...): main file with one foreign tag, with or without a WAL file holding another.
	voTamperForeignRecoveryDB
	// Something that cannot be cleared away lies where the temporary database of a recovery goes
	// (a non-empty directory <data dir>/recovery.db): a recovery attempted now ends without success
	// at its first fallible step, before it has changed anything. The operator clears it afterwards.
	voTamperObstacle
	voTamperN
)

type voServer struct {
	id    string
	addr  string
	voter bool
}

// voConfOf: the configuration a peers file of the given kind describes; self is this node's address.
func voConfOf(kind int, self string) []voServer {
	switch kind {
	case voPeersSelf:
		return []voServer{{voNodeID, self, true}}
	case voPeersSelfPlus:
		return []voServer{{"n2", "127.0.0.1:1", false}, {voNodeID, self, true}}
	case voPeersThree:
		return []voServer{{"n3", "127.0.0.1:2", true}, {voNodeID, self, true}, {"n2", "127.0.0.1:1", true}}
	case voPeersNoVoter:
		return []voServer{{voNodeID, self, false}}
	}
	return nil
}

func voElectable(c []voServer) bool {
	voters, me := 0, false
	for _, s := range c {
		if s.voter {
			voters++
			if s.id == voNodeID {
				me = true
			}
		}
	}
	return voters == 1 && me
}

func voRaftConf(c []voServer) raft.Configuration {
	var out raft.Configuration
	for _, s := range c {
		suf := raft.Voter
		if !s.voter {
			suf = raft.Nonvoter
		}
		out.Servers = append(out.Servers, raft.Server{Suffrage: suf, ID: raft.ServerID(s.id), Address: raft.ServerAddress(s.addr)})
	}
	return out
}

func voFromRaftConf(c raft.Configuration) []voServer {
	var out []voServer
	for _, s := range c.Servers {
		out = append(out, voServer{string(s.ID), string(s.Address), s.Suffrage == raft.Voter})
	}
	return out
}

func voSameConf(a, b []voServer) bool {
	if len(a) != len(b) {
		return false
	}
	for i := range a {
		if a[i] != b[i] {
			return false
		}
	}
	return true
}

// ---------------------------------------------------------------------------------------------
// the abstract world (engine only)

const (
	voKPlain = iota
	voKDir
	voKDB
	voKWAL
	voKMarker
	voKPeers
)

type voNode struct {
	kind    int
	tags    []int // voKDB, voKWAL
	ver     int   // voKDB: identity of this state of the file
	mtimeNs int64 // voKDB: modification time (normally derived from ver; tampering can set it back)
	fp      FileFingerprint
	garbage bool // voKMarker: not decodable
	peers   int  // voKPeers
}

type voSnap struct {
	id        string
	seq       int
	index     uint64
	term      uint64
	version   raft.SnapshotVersion
	conf      raft.Configuration
	confIndex uint64
	tags      []int
	// incremental: the snapshot consists of WAL files on top of an older full snapshot (every
	// snapshot a running node takes after its first one); a stream opened from it carries the base
	// database file plus WAL files
	incremental bool
}

type voEntry struct {
	typ  raft.LogType
	term uint64
	data []byte
}

type voSnapRC struct {
	tags   []int
	hasWAL bool // the stream carries WAL files to be replayed into the database file
	closed bool
}

func (r *voSnapRC) Read(p []byte) (int, error) { return 0, io.EOF }
func (r *voSnapRC) Close() error               { r.closed = true; return nil }

type voSink struct {
	w         *voWorld
	snap      *voSnap
	data      []byte
	closes    int
	closedOK  bool
	cancelled bool
}

func (s *voSink) ID() string { return s.snap.id }

func (s *voSink) Write(p []byte) (int, error) {
	if s.w.inject("sink.Write") {
		return 0, voErrInjected
	}
	if s.closes > 0 || s.cancelled {
		s.w.badCalls++
		return 0, errors.New("verif: write to a finished sink")
	}
	s.data = append(s.data, p...)
	return len(p), nil
}

func (s *voSink) Close() error {
	s.closes++
	if s.w.inject("sink.Close") {
		return voErrInjected
	}
	if s.cancelled || s.closes > 1 {
		return nil
	}
	tags, ok := voDecodeTags(s.data)
	if !ok {
		return errors.New("verif: the stream written to the sink is not a complete database")
	}
	s.snap.tags = tags
	s.w.addSnap(s.snap)
	s.closedOK = true
	return nil
}

func (s *voSink) Cancel() error {
	if s.closes == 0 {
		s.cancelled = true
	}
	return nil
}

type voStream struct {
	payload []byte
	off     int
	opened  bool
}

// voRaftModel: what the model of raft.NewRaft did.
type voRaftModel struct {
	handle          *raft.Raft
	conf            raft.Configuration
	restoredFrom    string // ID of the snapshot handed to FSM.Restore ("" = none)
	restoreSkipped  bool
	applied         []uint64 // indexes handed to FSM.Apply
	fsmLastIndex    uint64   // runFSM's lastIndex / lastTerm: the last entry that went through the FSM goroutine
	fsmLastTerm     uint64
	lastAppliedIdx  uint64
	snapshotAtStart uint64
}

type voWorld struct {
	dir string

	// --- engine only ---
	nodes      map[string]*voNode
	verCtr     int
	snaps      []*voSnap // oldest ... newest (snapshot.Snapshot.Less: term, index, id)
	snapSeq    int
	first      uint64 // index of ents[0]
	ents       []voEntry
	logOpen    bool
	kv         map[string][]byte
	term       uint64
	handles    map[*sql.SwappableDB]string
	streams    map[*snapshot.SnapshotStreamer]*voStream
	tmpFiles   map[*os.File]string
	tmpCtr     int
	sstores    int
	rm         *voRaftModel
	badCalls   int
	logDeletes int
	injecting  bool
	failAt     int
	envCalls   int
	injected   string // which call failed ("" = none)

	// --- native only ---
	ly net.Listener

	// --- both ---
	round       int  // number of the running period / down time (names of choices)
	crcMismatch bool // the asynchronous checksum check of the fast path found another checksum than the marker's
	entry       string
	choices     []string // the history, as chosen
	obs         []string // what was observed along it (model conformance, see conformance_test.go)
	s           *Store   // the node while it is open
	selfAddr    string
	electable   bool
}

var voW *voWorld

func voLogger() *log.Logger { return log.New(io.Discard, "", 0) }

func voNewWorld() *voWorld {
	w := &voWorld{}
	voW = w
	if verifSymbolic() {
		w.dir = "/verif-node"
		w.nodes = map[string]*voNode{}
		w.kv = map[string][]byte{}
		w.handles = map[*sql.SwappableDB]string{}
		w.streams = map[*snapshot.SnapshotStreamer]*voStream{}
		w.tmpFiles = map[*os.File]string{}
		w.nodes["/"] = &voNode{kind: voKDir}
		w.selfAddr = "10.0.0.1:4002"
		return w
	}
	dir, err := os.MkdirTemp("", "verif-c33b-")
	if err != nil {
		panic(err)
	}
	w.dir = dir
	return w
}

func (w *voWorld) cleanup() {
	if verifSymbolic() {
		return
	}
	if w.s != nil {
		w.abandon()
	}
	os.RemoveAll(w.dir)
}

// --- paths (the layout documented for a node's data directory) ---
func (w *voWorld) dbPath() string     { return filepath.Join(w.dir, "db.sqlite") }
func (w *voWorld) markerPath() string { return filepath.Join(w.dir, "clean_snapshot") }
func (w *voWorld) peersPath() string  { return filepath.Join(w.dir, "raft", "peers.json") }
func (w *voWorld) peersInfo() string  { return filepath.Join(w.dir, "raft", "peers.info") }

// recoveryWALPath: the WAL file of the temporary database RecoverNode works in.
func (w *voWorld) recoveryWALPath() string { return filepath.Join(w.dir, "recovery.db-wal") }
func (w *voWorld) recoveryDBPath() string  { return filepath.Join(w.dir, "recovery.db") }

// tags of the foreign database of voTamperForeignRecoveryDB (never used by the node's own writes)
const (
	voForeignMainTag = 77
	voForeignWALTag  = 78
)

// --- abstract file system ---

var voErrNotExist = &fs.PathError{Op: "verif", Path: "?", Err: fs.ErrNotExist}

// Injected failures (engine-only entry VerifC33bFailures): while an Open is under way every call of
// the environment that can fail is counted; the call with number failAt fails - without any effect.
var voErrInjected = errors.New("verif: injected failure of the environment")

func (w *voWorld) inject(what string) bool {
	if w == nil || !w.injecting {
		return false
	}
	w.envCalls++
	if w.envCalls == w.failAt {
		w.injected = what
		return true
	}
	return false
}

func (w *voWorld) newDBNode(tags []int) *voNode {
	w.verCtr++
	return &voNode{kind: voKDB, tags: append([]int{}, tags...), ver: w.verCtr, mtimeNs: voMtimeOfVer(w.verCtr)}
}

func voMtimeOfVer(ver int) int64 { return 1_700_000_000_000_000_000 + int64(ver)*1_000_000 }

func (n *voNode) size() int64 {
	switch n.kind {
	case voKDB:
		return 4096 + 8192*int64(len(n.tags))
	case voKWAL:
		return 8192 * int64(len(n.tags))
	case voKDir:
		return 4096
	}
	return 64
}

func (n *voNode) crc() uint32 { return uint32(7000 + n.ver) }

func (n *voNode) identity() FileFingerprint {
	return FileFingerprint{ModTime: time.Unix(0, n.mtimeNs), Size: n.size(), CRC32: n.crc()}
}

// touch: the main file's content changes.
func (w *voWorld) setDBTags(n *voNode, tags []int) {
	w.verCtr++
	n.tags = append([]int{}, tags...)
	n.ver = w.verCtr
	n.mtimeNs = voMtimeOfVer(w.verCtr)
}

type voFileInfo struct {
	name  string
	dir   bool
	size  int64
	mtime int64
}

func (fi voFileInfo) Name() string { return fi.name }
func (fi voFileInfo) Size() int64  { return fi.size }
func (fi voFileInfo) Mode() fs.FileMode {
	if fi.dir {
		return fs.ModeDir | 0o755
	}
	return 0o644
}
func (fi voFileInfo) ModTime() time.Time { return time.Unix(0, fi.mtime) }
func (fi voFileInfo) IsDir() bool        { return fi.dir }
func (fi voFileInfo) Sys() any           { return nil }

func voOsStat(name string) (os.FileInfo, error) {
	if voW == nil {
		panic("verif: os.Stat(" + name + ") before the world exists")
	}
	n, ok := voW.nodes[name]
	if !ok {
		return nil, voErrNotExist
	}
	return voFileInfo{filepath.Base(name), n.kind == voKDir, n.size(), n.mtimeNs}, nil
}

func voOsRemove(name string) error {
	w := voW
	if w.inject("os.Remove") {
		return voErrInjected
	}
	n, ok := w.nodes[name]
	if !ok {
		return voErrNotExist
	}
	if n.kind == voKDir {
		for k := range w.nodes {
			if strings.HasPrefix(k, name+"/") {
				return errors.New("verif-fs: directory not empty")
			}
		}
	}
	delete(w.nodes, name)
	return nil
}

func voOsRemoveAll(name string) error {
	w := voW
	if w.inject("os.RemoveAll") {
		return voErrInjected
	}
	delete(w.nodes, name)
	for k := range w.nodes {
		if strings.HasPrefix(k, name+"/") {
			delete(w.nodes, k)
		}
	}
	return nil
}

func voOsMkdirAll(path string, perm os.FileMode) error {
	w := voW
	if n, ok := w.nodes[path]; ok {
		if n.kind == voKDir {
			return nil
		}
		return errors.New("verif-fs: not a directory")
	}
	par := filepath.Dir(path)
	if par != path {
		if err := voOsMkdirAll(par, perm); err != nil {
			return err
		}
	}
	w.nodes[path] = &voNode{kind: voKDir}
	return nil
}

func voOsRename(oldpath, newpath string) error {
	w := voW
	if w.inject("os.Rename") {
		return voErrInjected
	}
	n, ok := w.nodes[oldpath]
	if !ok {
		return voErrNotExist
	}
	if par, ok := w.nodes[filepath.Dir(newpath)]; !ok || par.kind != voKDir {
		return voErrNotExist
	}
	if n.kind == voKDir {
		return errors.New("verif-fs: renaming directories is not modelled")
	}
	delete(w.nodes, oldpath)
	w.nodes[newpath] = n
	return nil
}

func voGlob(pattern string) ([]string, error) { return nil, nil }

// createTemp: a fresh empty file in dir.
func voCreateTemp(dir, pattern string) (*os.File, error) {
	w := voW
	if w.inject("createTemp") {
		return nil, voErrInjected
	}
	if par, ok := w.nodes[dir]; !ok || par.kind != voKDir {
		return nil, voErrNotExist
	}
	w.tmpCtr++
	p := filepath.Join(dir, strings.Replace(pattern, "*", "verif"+voItoa(w.tmpCtr), 1))
	w.nodes[p] = &voNode{kind: voKPlain}
	f := new(os.File)
	w.tmpFiles[f] = p
	return f, nil
}

func voFileName(f *os.File) string { return voW.tmpFiles[f] }
func voFileClose(f *os.File) error { return nil }
func voFileFd(f *os.File) uintptr {
	return 1 // asked for by package initialisers (colour detection of loggers)
}

// --- the marker ---

func voFPWriteToFile(f *FileFingerprint, path string) error {
	w := voW
	if w.inject("FileFingerprint.WriteToFile") {
		return voErrInjected
	}
	if par, ok := w.nodes[filepath.Dir(path)]; !ok || par.kind != voKDir {
		return voErrNotExist
	}
	w.nodes[path] = &voNode{kind: voKMarker, fp: *f}
	return nil
}

func voFPReadFromFile(f *FileFingerprint, path string) error {
	n, ok := voW.nodes[path]
	if !ok {
		return voErrNotExist
	}
	if n.kind != voKMarker || n.garbage {
		return errors.New("verif: not a fingerprint file")
	}
	*f = n.fp
	return nil
}

func voCRC32WithTiming(path string) (uint32, time.Duration, error) {
	n, ok := voW.nodes[path]
	if !ok {
		return 0, 0, voErrNotExist
	}
	return n.crc(), time.Millisecond, nil
}

// --- peers file ---

func voReadConfigJSON(path string) (raft.Configuration, error) {
	w := voW
	n, ok := w.nodes[path]
	if !ok {
		return raft.Configuration{}, voErrNotExist
	}
	if n.kind != voKPeers || n.peers == voPeersGarbage {
		return raft.Configuration{}, errors.New("verif: invalid character in peers file")
	}
	c := voConfOf(n.peers, w.selfAddr)
	if n.peers == voPeersNoVoter {
		return raft.Configuration{}, errors.New("need at least one voter in configuration")
	}
	return voRaftConf(c), nil
}

// --- the database (as harness/C33, over the file-system nodes) ---

func voEncodeTags(tags []int) []byte {
	b := []byte{0x5A, byte(len(tags))}
	for _, t := range tags {
		b = append(b, byte(t))
	}
	return b
}

func voDecodeTags(b []byte) ([]int, bool) {
	if len(b) < 2 || b[0] != 0x5A || int(b[1]) != len(b)-2 {
		return nil, false
	}
	tags := []int{}
	for _, t := range b[2:] {
		tags = append(tags, int(t))
	}
	return tags, true
}

func voRestore(r io.Reader, dstPath string) (int64, error) {
	w := voW
	if w.inject("snapshot.Restore") {
		return 0, voErrInjected
	}
	rc, ok := r.(*voSnapRC)
	if !ok || rc.closed {
		w.badCalls++
		return 0, errors.New("verif: not a snapshot stream")
	}
	// snapshot.Restore: the database file of the stream is written to dstPath (created or
	// truncated); WAL files of the stream are then replayed into it with db.ReplayWAL, which
	// refuses to work next to an existing dstPath-wal. A WAL file that already lies next to
	// dstPath is not touched otherwise.
	if rc.hasWAL {
		w.nodes[dstPath] = w.newDBNode(nil)
		if _, ok := w.nodes[dstPath+"-wal"]; ok {
			return 1, errors.New("checkpointing WALs: cannot replay WAL files: existing WAL file present")
		}
	}
	w.nodes[dstPath] = w.newDBNode(rc.tags)
	return 1, nil
}

func voDefaultDriver() *sql.Driver { return nil }

func voOpenSwappable(dbPath string, drv *sql.Driver, fkEnabled, wal bool, maxROConns int) (*sql.SwappableDB, error) {
	w := voW
	if w.inject("db.OpenSwappable") {
		return nil, voErrInjected
	}
	if !wal {
		w.badCalls++ // rqlite databases are WAL-mode databases
	}
	if par, ok := w.nodes[filepath.Dir(dbPath)]; !ok || par.kind != voKDir {
		return nil, voErrNotExist
	}
	if n, ok := w.nodes[dbPath]; !ok {
		w.nodes[dbPath] = w.newDBNode(nil)
		// SQLite deletes a WAL file it finds next to a database file of zero pages (pager.c,
		// pagerOpenWalIfPresent): a WAL whose main file is gone is not adopted by a new main file
		// (seen natively: recovery.db removed, recovery.db-wal left, no snapshot - nothing replayed twice)
		delete(w.nodes, dbPath+"-wal")
	} else if n.kind != voKDB {
		return nil, errors.New("verif: file is not a database")
	}
	// "If the database is opened in WAL mode, the WAL files will also be created if they do not
	// exist". A WAL file that is already there is used: whatever it holds is part of the database.
	if _, ok := w.nodes[dbPath+"-wal"]; !ok {
		w.nodes[dbPath+"-wal"] = &voNode{kind: voKWAL}
	}
	for _, p := range w.handles {
		if p == dbPath {
			w.badCalls++ // one owner per database file
		}
	}
	h := new(sql.SwappableDB)
	w.handles[h] = dbPath
	return h, nil
}

func voDBClose(db *sql.SwappableDB) error {
	w := voW
	if _, ok := w.handles[db]; !ok {
		w.badCalls++
	}
	delete(w.handles, db)
	return nil
}

func (w *voWorld) walTags(path string) []int {
	if n, ok := w.nodes[path+"-wal"]; ok && n.kind == voKWAL {
		return n.tags
	}
	return nil
}

// checkpointPath: the WAL goes into the main file (TRUNCATE: the WAL file stays, empty).
func (w *voWorld) checkpointPath(path string) {
	wal := w.walTags(path)
	if len(wal) > 0 {
		n := w.nodes[path]
		w.setDBTags(n, voApplyOps(n.tags, wal))
	}
	if n, ok := w.nodes[path+"-wal"]; ok {
		n.tags = nil
	}
}

func voDBCheckpoint(db *sql.SwappableDB, wr io.Writer, timeout time.Duration) (*sql.CheckpointManagerMeta, int64, error) {
	w := voW
	if w.inject("SwappableDB.Checkpoint") {
		return nil, 0, voErrInjected
	}
	path, ok := w.handles[db]
	if !ok {
		w.badCalls++
		return nil, 0, errors.New("verif: checkpoint of a database that is not open")
	}
	w.checkpointPath(path)
	return nil, 0, nil
}

// Swap: the open database is replaced by the file at path.
func voDBSwap(db *sql.SwappableDB, path string, fkConstraints, walEnabled bool) error {
	w := voW
	if w.inject("SwappableDB.Swap") {
		return voErrInjected
	}
	dst, ok := w.handles[db]
	if !ok {
		w.badCalls++
		return errors.New("verif: swap of a database that is not open")
	}
	n, ok := w.nodes[path]
	if !ok || n.kind != voKDB {
		return errors.New("verif: swap source is not a database file")
	}
	// (*SwappableDB).Swap: close, remove the files of the old database, rename, open (WAL mode)
	delete(w.nodes, dst+"-wal")
	delete(w.nodes, path)
	w.nodes[dst] = n
	w.nodes[dst+"-wal"] = &voNode{kind: voKWAL}
	return nil
}

func voDBPath(db *sql.SwappableDB) string { return voW.handles[db] }

func voDBLastModified(db *sql.SwappableDB) (time.Time, error) {
	w := voW
	n, ok := w.nodes[w.handles[db]]
	if !ok {
		return time.Time{}, voErrNotExist
	}
	return time.Unix(0, n.mtimeNs), nil
}

func voDBFileSize(db *sql.SwappableDB) (int64, error) {
	w := voW
	n, ok := w.nodes[w.handles[db]]
	if !ok {
		return 0, voErrNotExist
	}
	return n.size(), nil
}

func voNewDechunkerManager(dir string) (*chunking.DechunkerManager, error) {
	return new(chunking.DechunkerManager), nil
}

// payloads of command entries (engine): {0xC7, tag} appends the tag, {0xC8} is a NOOP command
func voTagOf(data []byte) int {
	if len(data) != 2 || data[0] != 0xC7 {
		return -1
	}
	return int(data[1])
}

func voProcess(c *CommandProcessor, data []byte, db *sql.SwappableDB) (*proto.Command, bool, any) {
	w := voW
	path, ok := w.handles[db]
	if len(data) == 1 && data[0] == 0xC8 {
		return &proto.Command{Type: proto.Command_COMMAND_TYPE_NOOP}, false, &fsmGenericResponse{}
	}
	tag := voTagOf(data)
	if len(data) == 1 && data[0] == 0xC9 {
		tag = voBump
	}
	if tag < 0 {
		w.badCalls++
		return &proto.Command{Type: proto.Command_COMMAND_TYPE_NOOP}, false, &fsmGenericResponse{}
	}
	if !ok {
		w.badCalls++
		panic("verif: Process called with a database that is not open")
	}
	wp := path + "-wal"
	n, ok := w.nodes[wp]
	if !ok {
		n = &voNode{kind: voKWAL}
		w.nodes[wp] = n
	}
	if tag == voBump {
		// a database without a tag has no table yet: the UPDATE fails and nothing is written
		main, ok := w.nodes[path]
		if !ok || len(voApplyOps(main.tags, n.tags)) == 0 {
			return &proto.Command{Type: proto.Command_COMMAND_TYPE_EXECUTE}, false, &fsmExecuteQueryResponse{}
		}
	}
	n.tags = append(n.tags, tag)
	return &proto.Command{Type: proto.Command_COMMAND_TYPE_EXECUTE}, true, &fsmExecuteQueryResponse{}
}

func voNewSnapshotStreamer(dbPath string, walPaths ...string) (*snapshot.SnapshotStreamer, error) {
	w := voW
	if w.inject("snapshot.NewSnapshotStreamer") {
		return nil, voErrInjected
	}
	n, ok := w.nodes[dbPath]
	if !ok || n.kind != voKDB {
		return nil, errors.New("verif: no such database file")
	}
	if len(walPaths) != 0 {
		w.badCalls++
	}
	st := new(snapshot.SnapshotStreamer)
	w.streams[st] = &voStream{payload: voEncodeTags(n.tags)}
	return st, nil
}

func voStreamerOpen(st *snapshot.SnapshotStreamer) error {
	voW.streams[st].opened = true
	return nil
}

func voStreamerRead(st *snapshot.SnapshotStreamer, p []byte) (int, error) {
	s := voW.streams[st]
	if !s.opened {
		voW.badCalls++
		return 0, errors.New("verif: streamer is not open")
	}
	if s.off >= len(s.payload) {
		return 0, io.EOF
	}
	n := copy(p, s.payload[s.off:])
	s.off += n
	return n, nil
}

func voStreamerClose(st *snapshot.SnapshotStreamer) error {
	voW.streams[st].opened = false
	return nil
}

var voStatInt = new(expvar.Int)

func voExpvarGet(m *expvar.Map, key string) expvar.Var { return voStatInt }

// --- the snapshot store ---

func voSnapNewStore(dir string) (*snapshot.Store, error) {
	w := voW
	if err := voOsMkdirAll(dir, 0755); err != nil {
		return nil, err
	}
	w.sstores++
	return new(snapshot.Store), nil
}

func voSnapSetNoVerifyDB(s *snapshot.Store, v bool)       {}
func voSnapSetReapThreshold(s *snapshot.Store, n int)     {}
func voSnapEnsureVerify(s *snapshot.Store) error          { return nil }
func voSnapClose(s *snapshot.Store) error                 { return nil }
func voUpgrade(old, new string, logger *log.Logger) error { return nil }

func (w *voWorld) newestSnap() *voSnap {
	if len(w.snaps) == 0 {
		return nil
	}
	return w.snaps[len(w.snaps)-1]
}

func voSnapLess(a, b *voSnap) bool {
	if a.term != b.term {
		return a.term < b.term
	}
	if a.index != b.index {
		return a.index < b.index
	}
	return a.seq < b.seq
}

func (w *voWorld) addSnap(sn *voSnap) {
	i := len(w.snaps)
	for i > 0 && voSnapLess(sn, w.snaps[i-1]) {
		i--
	}
	w.snaps = append(w.snaps, nil)
	copy(w.snaps[i+1:], w.snaps[i:])
	w.snaps[i] = sn
}

func (sn *voSnap) meta() *raft.SnapshotMeta {
	return &raft.SnapshotMeta{Version: sn.version, ID: sn.id, Index: sn.index, Term: sn.term,
		Configuration: sn.conf, ConfigurationIndex: sn.confIndex, Size: int64(2 + len(sn.tags))}
}

func voSnapList(s *snapshot.Store) ([]*raft.SnapshotMeta, error) {
	if voW.inject("snapshot.Store.List") {
		return nil, voErrInjected
	}
	if sn := voW.newestSnap(); sn != nil {
		return []*raft.SnapshotMeta{sn.meta()}, nil
	}
	return nil, nil
}

func voSnapLen(s *snapshot.Store) int { return len(voW.snaps) }

func voSnapLatestIndexTerm(s *snapshot.Store) (uint64, uint64, error) {
	if sn := voW.newestSnap(); sn != nil {
		return sn.index, sn.term, nil
	}
	return 0, 0, snapshot.ErrSnapshotNotFound
}

func voSnapPkgLatestIndexTerm(dir string) (uint64, uint64, error) {
	return voSnapLatestIndexTerm(nil)
}

func voSnapOpen(s *snapshot.Store, id string) (*raft.SnapshotMeta, io.ReadCloser, error) {
	if voW.inject("snapshot.Store.Open") {
		return nil, nil, voErrInjected
	}
	for _, sn := range voW.snaps {
		if sn.id == id {
			return sn.meta(), &voSnapRC{tags: append([]int{}, sn.tags...), hasWAL: sn.incremental}, nil
		}
	}
	return nil, nil, snapshot.ErrSnapshotNotFound
}

func voSnapCreate(s *snapshot.Store, version raft.SnapshotVersion, index, term uint64, configuration raft.Configuration,
	configurationIndex uint64, trans raft.Transport) (raft.SnapshotSink, error) {
	w := voW
	if w.inject("snapshot.Store.Create") {
		return nil, voErrInjected
	}
	w.snapSeq++
	sn := &voSnap{id: "snap-" + voItoa(w.snapSeq), seq: w.snapSeq, index: index, term: term, version: version,
		conf: configuration, confIndex: configurationIndex}
	return &voSink{w: w, snap: sn}, nil
}

// --- the raft log (bbolt) ---

func voLogNew(path string, noFreelistSync bool) (*rlog.Log, error) {
	w := voW
	if w.inject("log.New") {
		return nil, voErrInjected
	}
	if w.logOpen {
		w.badCalls++ // bbolt's file lock: a second open in the same process would block
		return nil, errors.New("verif: the log is already open")
	}
	w.logOpen = true
	if _, ok := w.nodes[path]; !ok {
		w.nodes[path] = &voNode{kind: voKPlain}
	}
	return &rlog.Log{}, nil
}

func (w *voWorld) lastIdx() uint64 {
	if len(w.ents) == 0 {
		return 0
	}
	return w.first + uint64(len(w.ents)) - 1
}

func voBoltFirstIndex(b *raftboltdb.BoltStore) (uint64, error) {
	if len(voW.ents) == 0 {
		return 0, nil
	}
	return voW.first, nil
}

func voBoltLastIndex(b *raftboltdb.BoltStore) (uint64, error) { return voW.lastIdx(), nil }

func voBoltGetLog(b *raftboltdb.BoltStore, index uint64, out *raft.Log) error {
	w := voW
	if w.inject("log.GetLog") {
		return voErrInjected
	}
	if len(w.ents) == 0 || index < w.first || index > w.lastIdx() {
		return raft.ErrLogNotFound
	}
	e := w.ents[index-w.first]
	out.Index = index
	out.Term = e.term
	out.Type = e.typ
	out.Data = e.data
	return nil
}

func voBoltStoreLog(b *raftboltdb.BoltStore, l *raft.Log) error {
	panic("verif: StoreLog is not part of opening a node")
}

func voBoltStoreLogs(b *raftboltdb.BoltStore, ls []*raft.Log) error {
	panic("verif: StoreLogs is not part of opening a node")
}

func voBoltDeleteRange(b *raftboltdb.BoltStore, min, max uint64) error {
	w := voW
	if w.inject("log.DeleteRange") {
		return voErrInjected
	}
	w.logDeletes++
	var keep []voEntry
	var first uint64
	for i, e := range w.ents {
		idx := w.first + uint64(i)
		if idx >= min && idx <= max {
			continue
		}
		if len(keep) == 0 {
			first = idx
		}
		keep = append(keep, e)
	}
	w.ents, w.first = keep, first
	return nil
}

func voBoltSet(b *raftboltdb.BoltStore, k, v []byte) error {
	voW.kv[string(k)] = append([]byte{}, v...)
	return nil
}

func voBoltGet(b *raftboltdb.BoltStore, k []byte) ([]byte, error) {
	v, ok := voW.kv[string(k)]
	if !ok || len(v) == 0 {
		return nil, errors.New("not found")
	}
	return v, nil
}

func voBoltClose(b *raftboltdb.BoltStore) error {
	voW.logOpen = false
	return nil
}

// --- network ---

type voAddr string

func (a voAddr) Network() string { return "tcp" }
func (a voAddr) String() string  { return string(a) }

// voLayer is the Layer the Store is given. Engine: nothing behind it. Native: a real listener.
type voLayer struct {
	ln   net.Listener
	addr string
}

func (l *voLayer) Dial(addr string, timeout time.Duration) (net.Conn, error) {
	if l.ln == nil {
		return nil, errors.New("verif: no network")
	}
	return net.DialTimeout("tcp", addr, timeout)
}
func (l *voLayer) Accept() (net.Conn, error) {
	if l.ln == nil {
		return nil, errors.New("verif: no network")
	}
	return l.ln.Accept()
}
func (l *voLayer) Close() error {
	if l.ln == nil {
		return nil
	}
	return l.ln.Close()
}
func (l *voLayer) Addr() net.Addr {
	if l.ln == nil {
		return voAddr(l.addr)
	}
	return l.ln.Addr()
}

// raft's logger is never used: the model of raft.NewRaft does not log.
func voHclogFromStandardLogger(l *log.Logger, opts *hclog.LoggerOptions) hclog.Logger { return nil }

// package initialisation of fatih/color (pulled in by go-hclog) asks whether stdout is a terminal
func voIsTerminal(fd uintptr) bool { return false }

func voNewNetworkTransport(stream raft.StreamLayer, maxPool int, timeout time.Duration, logOutput io.Writer) *raft.NetworkTransport {
	return new(raft.NetworkTransport)
}

// --- raft.NewRaft ---
//
// Model of hashicorp/raft v1.7.3 at start (api.go NewRaft / restoreSnapshot) and of what a node that
// can elect itself does right afterwards:
//  1. snapshots.List(); the newest snapshot is opened and handed to FSM.Restore unless
//     NoSnapshotRestoreOnStart; lastApplied := its index; configuration := the snapshot's;
//  2. every log entry after the snapshot index is read (a missing one fails NewRaft); a
//     LogConfiguration entry replaces the configuration;
//  3. (commit index re-established - immediately on a node that is the only voter) the entries
//     after lastApplied are applied in order: FSM.Apply for LogCommand entries only.
//
// Step 3 is done for every node here: "the node holds everything it had applied" is judged after
// the entries it already had applied once are applied again.
func voDecodeConf(data []byte) (raft.Configuration, bool) {
	if len(data) < 1 || data[0] != 0xCF {
		return raft.Configuration{}, false
	}
	var c []voServer
	rest := data[1:]
	for len(rest) > 0 {
		voter := rest[0] == 1
		il := int(rest[1])
		id := string(rest[2 : 2+il])
		al := int(rest[2+il])
		addr := string(rest[3+il : 3+il+al])
		rest = rest[3+il+al:]
		c = append(c, voServer{id, addr, voter})
	}
	return voRaftConf(c), true
}

func voEncodeConf(c []voServer) []byte {
	b := []byte{0xCF}
	for _, s := range c {
		v := byte(0)
		if s.voter {
			v = 1
		}
		b = append(b, v, byte(len(s.id)))
		b = append(b, s.id...)
		b = append(b, byte(len(s.addr)))
		b = append(b, s.addr...)
	}
	return b
}

func voNewRaft(conf *raft.Config, fsm raft.FSM, logs raft.LogStore, stable raft.StableStore, snaps raft.SnapshotStore, trans raft.Transport) (*raft.Raft, error) {
	w := voW
	if conf == nil || fsm == nil || logs == nil || stable == nil || snaps == nil || trans == nil {
		w.badCalls++
		return nil, errors.New("verif: NewRaft with a missing part")
	}
	rm := &voRaftModel{handle: new(raft.Raft)}
	metas, err := snaps.List()
	if err != nil {
		return nil, fmt.Errorf("failed to list snapshots: %v", err)
	}
	var snapIdx uint64
	if len(metas) > 0 {
		m := metas[0]
		if conf.NoSnapshotRestoreOnStart {
			verifReach("restore-on-start-skipped")
			rm.restoreSkipped = true
		} else {
			_, rc, err := snaps.Open(m.ID)
			if err != nil {
				return nil, errors.New("failed to load any existing snapshots")
			}
			err = fsm.Restore(rc)
			rc.Close()
			if err != nil {
				return nil, errors.New("failed to load any existing snapshots")
			}
			verifReach("restore-on-start")
			rm.restoredFrom = m.ID
		}
		snapIdx = m.Index
		rm.conf = m.Configuration
	}
	rm.snapshotAtStart = snapIdx
	rm.lastAppliedIdx = snapIdx
	last, err := logs.LastIndex()
	if err != nil {
		return nil, fmt.Errorf("failed to find last log: %v", err)
	}
	var entries []*raft.Log
	for idx := snapIdx + 1; idx <= last; idx++ {
		l := new(raft.Log)
		if err := logs.GetLog(idx, l); err != nil {
			return nil, fmt.Errorf("failed to get log at index %d: %v", idx, err)
		}
		if l.Type == raft.LogConfiguration {
			if c, ok := voDecodeConf(l.Data); ok {
				rm.conf = c
			}
		}
		entries = append(entries, l)
	}
	for _, l := range entries {
		idx := l.Index
		if l.Type == raft.LogCommand {
			fsm.Apply(l)
			rm.applied = append(rm.applied, idx)
			rm.fsmLastIndex, rm.fsmLastTerm = l.Index, l.Term
		}
		rm.lastAppliedIdx = idx
	}
	w.rm = rm
	return rm.handle, nil
}

func voItoa(n int) string {
	if n == 0 {
		return "0"
	}
	var b []byte
	for n > 0 {
		b = append([]byte{byte('0' + n%10)}, b...)
		n /= 10
	}
	return string(b)
}

// =============================================================================================
// The node between two Opens
// =============================================================================================

// newStore: a Store object for the data directory (what rqlited does at process start).
func (w *voWorld) newStore() *Store {
	ly := &voLayer{addr: w.selfAddr}
	if !verifSymbolic() {
		ln, err := net.Listen("tcp", "127.0.0.1:0")
		if err != nil {
			panic(err)
		}
		ly.ln = ln
		w.ly = ln
		w.selfAddr = ln.Addr().String()
	}
	s := New(&Config{DBConf: NewDBConfig(), Dir: w.dir, ID: voNodeID, Logger: voLogger()}, ly)
	s.HeartbeatTimeout = 100 * time.Millisecond
	s.ElectionTimeout = 100 * time.Millisecond
	s.LeaderLeaseTimeout = 100 * time.Millisecond
	s.RaftLogLevel = "ERROR"
	s.SnapshotThreshold = 8192 // rqlited's default; Open derives the number of trailing log entries (10240) from it
	// production aborts the process when the checksum of a vouched-for file does not match; the
	// hook rqlite's own tests use makes that observable instead
	s.crcBadHandler = func(_, _ uint32) { w.crcMismatch = true }
	return s
}

// setPeers: the operator puts a peers file of the given kind in place (after newStore: the file
// names this node's current address).
func (w *voWorld) setPeers(kind int) {
	if kind == voPeersNone {
		return
	}
	if verifSymbolic() {
		voOsMkdirAll(filepath.Dir(w.peersPath()), 0755)
		w.nodes[w.peersPath()] = &voNode{kind: voKPeers, peers: kind}
		return
	}
	if err := os.MkdirAll(filepath.Dir(w.peersPath()), 0755); err != nil {
		panic(err)
	}
	content := "this is not JSON"
	if kind != voPeersGarbage {
		var parts []string
		for _, sv := range voConfOf(kind, w.selfAddr) {
			nv := "false"
			if !sv.voter {
				nv = "true"
			}
			parts = append(parts, `{"id": "`+sv.id+`", "address": "`+sv.addr+`", "non_voter": `+nv+`}`)
		}
		content = "[" + strings.Join(parts, ",") + "]"
	}
	if err := os.WriteFile(w.peersPath(), []byte(content), 0644); err != nil {
		panic(err)
	}
}

func (w *voWorld) removePeers() {
	if verifSymbolic() {
		delete(w.nodes, w.peersPath())
		return
	}
	os.Remove(w.peersPath())
}

// bootstrapped: the first start of a single-node cluster (Store.Bootstrap, wait for the leader).
func (w *voWorld) bootstrap(s *Store) {
	w.s = s
	w.electable = true
	if verifSymbolic() {
		c := []voServer{{voNodeID, w.selfAddr, true}}
		w.term = 1
		w.appendEntry(raft.LogConfiguration, voEncodeConf(c))
		w.rm.conf = voRaftConf(c)
		w.elected()
		return
	}
	if err := s.Bootstrap(NewServer(s.ID(), s.Addr(), true)); err != nil {
		panic("verif: bootstrap failed: " + err.Error())
	}
	w.waitReady(s)
}

// started: the node came up from existing state.
func (w *voWorld) started(s *Store) {
	w.s = s
	w.electable = voElectable(w.raftConf())
	if verifSymbolic() {
		if w.electable {
			w.elected()
		}
		return
	}
	if w.electable {
		w.waitReady(s)
	}
}

func (w *voWorld) nextIndex() uint64 {
	n := w.lastIdx()
	if sn := w.newestSnap(); sn != nil && sn.index > n {
		n = sn.index
	}
	return n + 1
}

func (w *voWorld) appendEntry(typ raft.LogType, data []byte) uint64 {
	idx := w.nextIndex()
	if len(w.ents) == 0 {
		w.first = idx
	}
	w.ents = append(w.ents, voEntry{typ: typ, term: w.term, data: data})
	return idx
}

// elected (engine): a new term, the leader's no-op entry.
func (w *voWorld) elected() {
	w.term++
	idx := w.appendEntry(raft.LogNoop, nil)
	w.rm.lastAppliedIdx = idx
}

func (w *voWorld) waitReady(s *Store) {
	if _, err := s.WaitForLeader(20 * time.Second); err != nil {
		panic("verif: no leader: " + err.Error())
	}
	deadline := time.Now().Add(20 * time.Second)
	// the node is leader, the no-op entry of its term is in the log (the last entry's term is the
	// current term), and everything in the log has been handed to the FSM goroutine
	caughtUp := func() bool {
		st := s.raft.Stats()
		return s.raft.State() == raft.Leader && st["last_log_term"] == st["term"] && s.raft.AppliedIndex() >= s.raft.LastIndex()
	}
	for !caughtUp() {
		if time.Now().After(deadline) {
			panic("verif: the node does not catch up with its own log")
		}
		time.Sleep(5 * time.Millisecond)
	}
	// raft's applied index moves when entries are handed to the FSM goroutine, not when they have
	// been applied. Wait (bounded; the oracle judges afterwards) until the FSM goroutine has been
	// through the last command entry of the log, which the Store shows in fsmIdx.
	fi, li, err := s.boltStore.Indexes()
	if err != nil {
		panic(err)
	}
	target, err := s.boltStore.LastCommandIndex(fi, li)
	if err != nil {
		panic(err)
	}
	if target > w.newestSnapshotIndex() {
		deadline = time.Now().Add(10 * time.Second)
		for s.fsmIdx.Load() < target && time.Now().Before(deadline) {
			time.Sleep(2 * time.Millisecond)
		}
	}
}

// The tags live in small rows of vlog (an UPDATE of one of them rewrites its page in place: the file
// does not grow); every write also puts 20000 bytes into vpad, so that a file that has taken a write
// in always has another size than before.
const voCreateTable = "CREATE TABLE IF NOT EXISTS vlog (id INTEGER PRIMARY KEY AUTOINCREMENT, tag INTEGER)"
const voCreatePad = "CREATE TABLE IF NOT EXISTS vpad (id INTEGER PRIMARY KEY AUTOINCREMENT, pad BLOB)"

// write: one committed and applied write that appends the tag.
func (w *voWorld) write(tag int) {
	if verifSymbolic() {
		idx := w.appendEntry(raft.LogCommand, []byte{0xC7, byte(tag)})
		l := &raft.Log{Index: idx, Term: w.term, Type: raft.LogCommand, Data: []byte{0xC7, byte(tag)}}
		NewFSM(w.s).Apply(l)
		w.rm.fsmLastIndex, w.rm.fsmLastTerm = idx, w.term
		w.rm.lastAppliedIdx = idx
		return
	}
	er := &proto.ExecuteRequest{Request: &proto.Request{Statements: []*proto.Statement{
		{Sql: voCreateTable},
		{Sql: voCreatePad},
		{Sql: "INSERT INTO vlog(tag) VALUES(" + voItoa(tag) + ")"},
		{Sql: "INSERT INTO vpad(pad) VALUES(zeroblob(20000))"},
	}}}
	rs, _, err := w.s.Execute(context.Background(), er)
	if err != nil {
		panic("verif: write failed: " + err.Error())
	}
	for _, r := range rs {
		if r.GetError() != "" {
			panic("verif: write failed: " + r.GetError())
		}
	}
}

// rewrite: one committed and applied write that adds 10 to the newest tag (no tag: changes nothing).
func (w *voWorld) rewrite() {
	if verifSymbolic() {
		idx := w.appendEntry(raft.LogCommand, []byte{0xC9})
		l := &raft.Log{Index: idx, Term: w.term, Type: raft.LogCommand, Data: []byte{0xC9}}
		NewFSM(w.s).Apply(l)
		w.rm.fsmLastIndex, w.rm.fsmLastTerm = idx, w.term
		w.rm.lastAppliedIdx = idx
		return
	}
	// a single statement: before the first write there is no table, the statement fails inside
	// SQLite ("no such table") and nothing is written - the entry is in the log all the same
	er := &proto.ExecuteRequest{Request: &proto.Request{Statements: []*proto.Statement{
		{Sql: "UPDATE vlog SET tag = tag + 10 WHERE id = (SELECT MAX(id) FROM vlog)"},
	}}}
	if _, _, err := w.s.Execute(context.Background(), er); err != nil {
		panic("verif: rewrite failed: " + err.Error())
	}
}

// noop: one committed and applied NOOP command.
func (w *voWorld) noop() {
	if verifSymbolic() {
		idx := w.appendEntry(raft.LogCommand, []byte{0xC8})
		l := &raft.Log{Index: idx, Term: w.term, Type: raft.LogCommand, Data: []byte{0xC8}}
		NewFSM(w.s).Apply(l)
		w.rm.fsmLastIndex, w.rm.fsmLastTerm = idx, w.term
		w.rm.lastAppliedIdx = idx
		return
	}
	f, err := w.s.Noop("verif")
	if err != nil {
		panic("verif: noop failed: " + err.Error())
	}
	if err := f.Error(); err != nil {
		panic("verif: noop failed: " + err.Error())
	}
}

// snapshotNow: Store.Snapshot(n). trailing = 0 means raft's default (10240: nothing is compacted in
// histories of this size).
//
// Engine model of what a snapshot leaves on disk (hashicorp/raft takeSnapshot + compactLogs,
// store.fsmSnapshot + createSnapshotFingerprint, snapshot.Sink): nothing happens when no entry
// went through the FSM goroutine since the start (ErrNothingNewToSnapshot) or, for an incremental
// snapshot, when the WAL is empty (ErrNoWALToSnapshot). Otherwise the WAL is checkpointed into the
// main file, a snapshot holding the main file's state is published at the index / term of the last
// entry that went through the FSM goroutine with the current configuration, the marker is written
// for the main file, and the log is compacted up to min(snapshot index, last index - trailing).
func (w *voWorld) snapshotNow(trailing uint64) {
	if !verifSymbolic() {
		err := w.s.Snapshot(trailing)
		if err != nil && err != ErrNothingNewToSnapshot && err != ErrNoWALToSnapshot {
			panic("verif: snapshot failed: " + err.Error())
		}
		return
	}
	rm := w.rm
	if rm.fsmLastIndex == 0 {
		return
	}
	path := w.dbPath()
	if len(w.snaps) > 0 && len(w.walTags(path)) == 0 {
		return
	}
	incremental := len(w.snaps) > 0
	w.checkpointPath(path)
	n := w.nodes[path]
	w.snapSeq++
	w.addSnap(&voSnap{id: "snap-" + voItoa(w.snapSeq), seq: w.snapSeq, index: rm.fsmLastIndex, term: rm.fsmLastTerm,
		version: 1, conf: rm.conf, confIndex: 1, tags: append([]int{}, n.tags...), incremental: incremental})
	w.nodes[w.markerPath()] = &voNode{kind: voKMarker, fp: n.identity()}
	if trailing == 0 {
		trailing = 10240
	}
	last := w.lastIdx()
	if last > trailing {
		max := rm.fsmLastIndex
		if last-trailing < max {
			max = last - trailing
		}
		if len(w.ents) > 0 && w.first <= max {
			voBoltDeleteRange(nil, w.first, max)
			w.logDeletes--
		}
	}
}

// shutdown: Store.Close(true).
func (w *voWorld) shutdown(noSnapshotOnClose bool) {
	s := w.s
	w.s = nil
	if !verifSymbolic() {
		s.NoSnapshotOnClose = noSnapshotOnClose
		if err := s.Close(true); err != nil {
			panic("verif: close failed: " + err.Error())
		}
		w.ly.Close()
		return
	}
	w.s = s
	if !noSnapshotOnClose {
		w.snapshotNow(0)
	}
	w.s = nil
	w.closeHandles()
}

func (w *voWorld) closeHandles() {
	for h := range w.handles {
		delete(w.handles, h)
	}
	w.logOpen = false
	w.rm = nil
}

// abandon: an Open that failed leaves the process; whatever it held open is released.
func (w *voWorld) abandon() {
	s := w.s
	w.s = nil
	if verifSymbolic() {
		w.closeHandles()
		return
	}
	if s == nil {
		return
	}
	if s.raft != nil {
		s.raft.Shutdown().Error()
	}
	if s.raftTn != nil {
		s.raftTn.Close()
	}
	if s.snapshotStore != nil {
		s.snapshotStore.Close()
	}
	if s.db != nil {
		s.db.Close()
	}
	if s.boltStore != nil {
		s.boltStore.Close()
	}
	if w.ly != nil {
		w.ly.Close()
	}
}

// tamper: see the voTamper constants. Returns false when the tampering does not apply to the
// files as they are (no marker to tamper with).
func (w *voWorld) tamper(kind int) bool {
	if kind == voTamperNone {
		return true
	}
	if kind == voTamperInterruptedRecovery {
		w.interruptedRecovery()
		return true
	}
	if kind == voTamperObstacle {
		w.obstacle(true)
		return true
	}
	if kind == voTamperForeignRecoveryDB {
		w.foreignRecoveryDB(w.choose(verifName("foreign-recovery-db-without-wal-", w.round), 2) == 1)
		return true
	}
	if verifSymbolic() {
		m, ok := w.nodes[w.markerPath()]
		if !ok {
			return false
		}
		switch kind {
		case voTamperNoMarker:
			delete(w.nodes, w.markerPath())
		case voTamperGarbageMarker:
			m.garbage = true
		case voTamperCRC0:
			m.fp.CRC32 = 0
		case voTamperSize:
			m.fp.Size += 4096
		case voTamperMtime:
			m.fp.ModTime = m.fp.ModTime.Add(time.Second)
		case voTamperCheckpointSameTime, voTamperCheckpoint:
			path := w.dbPath()
			n := w.nodes[path]
			before := n.mtimeNs
			sizeBefore := n.size()
			changed := len(w.walTags(path)) > 0
			w.checkpointPath(path)
			delete(w.nodes, path+"-wal")
			if kind == voTamperCheckpointSameTime {
				if changed && n.size() == sizeBefore {
					// content changed, time and size did not: only the checksum can tell, and
					// production aborts on it by design - not a situation the oracle speaks about
					return false
				}
				n.mtimeNs = before
			} else if !changed {
				n.mtimeNs += 1_000_000_000 // the checkpoint opened the file; make the time differ for sure
			}
		}
		return true
	}
	fp := &FileFingerprint{}
	rerr := fp.ReadFromFile(w.markerPath())
	if rerr != nil {
		return false
	}
	switch kind {
	case voTamperNoMarker:
		os.Remove(w.markerPath())
	case voTamperGarbageMarker:
		os.WriteFile(w.markerPath(), []byte("{not json"), 0644)
	case voTamperCRC0:
		fp.CRC32 = 0
		fp.WriteToFile(w.markerPath())
	case voTamperSize:
		fp.Size += 4096
		fp.WriteToFile(w.markerPath())
	case voTamperMtime:
		fp.ModTime = fp.ModTime.Add(time.Second)
		fp.WriteToFile(w.markerPath())
	case voTamperCheckpointSameTime, voTamperCheckpoint:
		walHeldWrites := w.walHoldsWrites()
		st, err := os.Stat(w.dbPath())
		if err != nil {
			panic(err)
		}
		db, err := sql.Open(w.dbPath(), false, true)
		if err != nil {
			panic(err)
		}
		if _, err := db.ExecuteStringStmt("PRAGMA wal_checkpoint(TRUNCATE)"); err != nil {
			panic(err)
		}
		db.Close()
		sql.RemoveWALFiles(w.dbPath())
		st2, err := os.Stat(w.dbPath())
		if err != nil {
			panic(err)
		}
		if kind == voTamperCheckpointSameTime && walHeldWrites && st2.Size() == st.Size() {
			return false
		}
		t := st.ModTime()
		if kind == voTamperCheckpoint {
			t = t.Add(time.Second)
		}
		if err := os.Chtimes(w.dbPath(), t, t); err != nil {
			panic(err)
		}
	}
	return true
}

// interruptedRecovery: see voTamperInterruptedRecovery. The node is down.
//
// Natively the files are produced the way a recovery produces them before it is killed: the newest
// snapshot is restored to recovery.db (snapshot.Restore), the file is opened as RecoverNode opens it
// (WAL mode, rqlite's default driver), the first k command entries of the raft log after the
// snapshot index go through a CommandProcessor, and the database is let go of without a checkpoint
// (the default driver does not checkpoint on close): recovery.db-wal stays, holding the k entries.
func (w *voWorld) interruptedRecovery() {
	tmp := w.recoveryDBPath()
	if verifSymbolic() {
		var base []int
		var snapIdx uint64
		if sn := w.newestSnap(); sn != nil {
			base, snapIdx = sn.tags, sn.index
		}
		var cmds [][]byte
		for i, e := range w.ents {
			if w.first+uint64(i) > snapIdx && e.typ == raft.LogCommand {
				cmds = append(cmds, e.data)
			}
		}
		k := w.choose(verifName("recovery-killed-after-commands-", w.round), len(cmds)+1)
		main := w.newDBNode(base)
		wal := &voNode{kind: voKWAL}
		for _, data := range cmds[:k] {
			if tag := voTagOf(data); tag >= 0 {
				wal.tags = append(wal.tags, tag)
			} else if len(data) == 1 && data[0] == 0xC9 && len(voApplyOps(main.tags, wal.tags)) > 0 {
				wal.tags = append(wal.tags, voBump)
			}
		}
		w.nodes[tmp] = main
		w.nodes[tmp+"-wal"] = wal
		delete(w.nodes, w.markerPath())
		if k > 0 {
			verifReach("recovery-killed-after-replaying-commands")
		}
		if k == len(cmds) {
			verifReach("recovery-killed-after-the-whole-log")
		}
		if snapIdx > 0 {
			verifReach("recovery-killed-with-a-snapshot-restored")
		}
		return
	}
	must := func(err error) {
		if err != nil {
			panic("verif: interrupted recovery: " + err.Error())
		}
	}
	os.Remove(w.markerPath())
	must(sql.RemoveFiles(tmp))
	sstr, err := snapshot.NewStore(filepath.Join(w.dir, snapshotsDirName))
	must(err)
	metas, err := sstr.List()
	must(err)
	var snapIdx uint64
	if len(metas) > 0 {
		_, rc, err := sstr.Open(metas[0].ID)
		must(err)
		_, err = snapshot.Restore(rc, tmp)
		rc.Close()
		must(err)
		snapIdx = metas[0].Index
	}
	must(sstr.Close())
	logs, err := rlog.New(filepath.Join(w.dir, raftDBPath), false)
	must(err)
	last, err := logs.LastIndex()
	must(err)
	var cmds [][]byte
	for idx := snapIdx + 1; idx <= last; idx++ {
		var e raft.Log
		must(logs.GetLog(idx, &e))
		if e.Type == raft.LogCommand {
			cmds = append(cmds, e.Data)
		}
	}
	must(logs.Close())
	k := w.choose(verifName("recovery-killed-after-commands-", w.round), len(cmds)+1)
	db, err := sql.OpenSwappable(tmp, sql.DefaultDriver(), false, true, 0)
	must(err)
	dec, err := chunking.NewDechunkerManager(w.dir)
	must(err)
	proc := NewCommandProcessor(voLogger(), dec)
	for _, data := range cmds[:k] {
		proc.Process(data, db)
	}
	dec.Close()
	must(db.Close())
}

// foreignRecoveryDB: see voTamperForeignRecoveryDB. The node is down.
// obstacle: see voTamperObstacle; put in place / cleared away by the operator while the node is down.
func (w *voWorld) obstacle(present bool) {
	tmp := w.recoveryDBPath()
	if verifSymbolic() {
		if present {
			voOsMkdirAll(filepath.Join(tmp, "x"), 0755)
		} else {
			delete(w.nodes, filepath.Join(tmp, "x"))
			delete(w.nodes, tmp)
		}
		return
	}
	if present {
		if err := os.MkdirAll(filepath.Join(tmp, "x"), 0755); err != nil {
			panic(err)
		}
	} else if err := os.RemoveAll(tmp); err != nil {
		panic(err)
	}
}

func (w *voWorld) foreignRecoveryDB(withoutWAL bool) {
	tmp := w.recoveryDBPath()
	if verifSymbolic() {
		w.nodes[tmp] = w.newDBNode([]int{voForeignMainTag})
		if !withoutWAL {
			w.nodes[tmp+"-wal"] = &voNode{kind: voKWAL, tags: []int{voForeignWALTag}}
		}
		return
	}
	must := func(err error) {
		if err != nil {
			panic("verif: foreign recovery database: " + err.Error())
		}
	}
	must(sql.RemoveFiles(tmp))
	db, err := sql.Open(tmp, false, true)
	must(err)
	for _, q := range []string{voCreateTable, voCreatePad, "INSERT INTO vlog(tag) VALUES(" + voItoa(voForeignMainTag) + ")",
		"PRAGMA wal_checkpoint(TRUNCATE)", "INSERT INTO vlog(tag) VALUES(" + voItoa(voForeignWALTag) + ")"} {
		if withoutWAL && strings.HasSuffix(q, voItoa(voForeignWALTag)+")") {
			continue
		}
		_, err := db.ExecuteStringStmt(q)
		must(err)
	}
	must(db.Close())
	if withoutWAL {
		must(sql.RemoveWALFiles(tmp))
	}
}

// =============================================================================================
// Observations (after Open returned)
// =============================================================================================

// liveTags: what a reader of the node's database sees.
func (w *voWorld) liveTags() (tags []int, ok bool) {
	if verifSymbolic() {
		path, ok := w.handles[w.s.db]
		if !ok {
			return nil, false
		}
		n, ok := w.nodes[path]
		if !ok || n.kind != voKDB {
			return nil, false
		}
		tags = voApplyOps(n.tags, w.walTags(path))
		return tags, true
	}
	rows, err := w.s.db.QueryStringStmt("SELECT tag FROM vlog ORDER BY id")
	if err != nil || len(rows) != 1 {
		return nil, false
	}
	if rows[0].GetError() != "" {
		return nil, true // no table: nothing in the database
	}
	for _, v := range rows[0].Values {
		tags = append(tags, int(v.Parameters[0].GetI()))
	}
	return tags, true
}

// raftConf: the configuration raft runs with.
func (w *voWorld) raftConf() []voServer {
	if verifSymbolic() {
		return voFromRaftConf(w.rm.conf)
	}
	f := w.s.raft.GetConfiguration()
	if err := f.Error(); err != nil {
		panic("verif: cannot read raft's configuration: " + err.Error())
	}
	return voFromRaftConf(f.Configuration())
}

func (w *voWorld) exists(path string) bool {
	if verifSymbolic() {
		_, ok := w.nodes[path]
		return ok
	}
	_, err := os.Lstat(path)
	return err == nil
}

// markerVouchesForMainFile: a marker exists, is readable, and matches the main file's
// modification time and size - the condition under which the next start keeps the main file.
func (w *voWorld) markerVouchesForMainFile() bool {
	if verifSymbolic() {
		m, ok := w.nodes[w.markerPath()]
		if !ok || m.kind != voKMarker || m.garbage {
			return false
		}
		n, ok := w.nodes[w.dbPath()]
		if !ok {
			return false
		}
		id := n.identity()
		return m.fp.ModTime.Equal(id.ModTime) && m.fp.Size == id.Size
	}
	fp := &FileFingerprint{}
	if err := fp.ReadFromFile(w.markerPath()); err != nil {
		return false
	}
	st, err := os.Stat(w.dbPath())
	if err != nil {
		return false
	}
	return fp.ModTime.Equal(st.ModTime()) && fp.Size == st.Size()
}

// mainFileTags / newestSnapshotTags: the state held by the main file alone (no WAL) and by the
// newest snapshot.
func (w *voWorld) mainFileTags() ([]int, bool) {
	if verifSymbolic() {
		n, ok := w.nodes[w.dbPath()]
		if !ok {
			return nil, false
		}
		return append([]int{}, n.tags...), true
	}
	b, err := os.ReadFile(w.dbPath())
	if err != nil {
		return nil, false
	}
	tmp := filepath.Join(w.dir, "verif-main-copy.db")
	defer sql.RemoveFiles(tmp)
	if err := os.WriteFile(tmp, b, 0644); err != nil {
		return nil, false
	}
	return voNativeFileTags(tmp)
}

func (w *voWorld) newestSnapshotTags() ([]int, bool) {
	if verifSymbolic() {
		sn := w.newestSnap()
		if sn == nil {
			return nil, false
		}
		return append([]int{}, sn.tags...), true
	}
	metas, err := w.s.snapshotStore.List()
	if err != nil || len(metas) == 0 {
		return nil, false
	}
	_, rc, err := w.s.snapshotStore.Open(metas[0].ID)
	if err != nil {
		return nil, false
	}
	defer rc.Close()
	tmp := filepath.Join(w.dir, "verif-snap-copy.db")
	defer sql.RemoveFiles(tmp)
	if _, err := snapshot.Restore(rc, tmp); err != nil {
		return nil, false
	}
	return voNativeFileTags(tmp)
}

func voNativeFileTags(path string) ([]int, bool) {
	db, err := sql.Open(path, false, false)
	if err != nil {
		return nil, false
	}
	defer db.Close()
	rows, err := db.QueryStringStmt("SELECT tag FROM vlog ORDER BY id")
	if err != nil || len(rows) != 1 {
		return nil, false
	}
	tags := []int{}
	if rows[0].GetError() != "" {
		return tags, true
	}
	for _, v := range rows[0].Values {
		tags = append(tags, int(v.Parameters[0].GetI()))
	}
	return tags, true
}

// newestSnapshotIndex: index of the newest snapshot (0: none).
func (w *voWorld) newestSnapshotIndex() uint64 {
	if verifSymbolic() {
		if sn := w.newestSnap(); sn != nil {
			return sn.index
		}
		return 0
	}
	metas, err := w.s.snapshotStore.List()
	if err != nil || len(metas) == 0 {
		return 0
	}
	return metas[0].Index
}

// snapshotCount / newestSnapshotIsIncremental: the snapshot store as it lies on disk (node up or down).
func (w *voWorld) snapshotCount() int {
	if verifSymbolic() {
		return len(w.snaps)
	}
	ss, err := (&snapshot.SnapshotCatalog{}).Scan(filepath.Join(w.dir, "wsnapshots"))
	if err != nil {
		return 0
	}
	return ss.Len()
}

func (w *voWorld) newestSnapshotIsIncremental() bool {
	if verifSymbolic() {
		sn := w.newestSnap()
		return sn != nil && sn.incremental
	}
	ss, err := (&snapshot.SnapshotCatalog{}).Scan(filepath.Join(w.dir, "wsnapshots"))
	if err != nil || ss.Len() == 0 {
		return false
	}
	ids := ss.IDs()
	_, wals, err := ss.ResolveFiles(ids[len(ids)-1])
	return err == nil && len(wals) > 0
}

// walHoldsWrites: the node is down and there is a WAL file with content next to the main file.
func (w *voWorld) walHoldsWrites() bool {
	if verifSymbolic() {
		return len(w.walTags(w.dbPath())) > 0
	}
	st, err := os.Stat(w.dbPath() + "-wal")
	return err == nil && st.Size() > 0
}

// ---------------------------------------------------------------------------------------------
// Model conformance. Along every path the engine run prints (VERIF_PRINT=1) the history and a line
// of observations that both worlds can make; conformance_test.go replays sampled histories on the
// real node and compares (see there). Nothing here takes part in the oracle.

var voObsHook func(choices, obs []string)

func voTagString(tags []int) string {
	s := "["
	for i, t := range tags {
		if i > 0 {
			s += " "
		}
		s += voItoa(t)
	}
	return s + "]"
}

func voBoolString(b bool) string {
	if b {
		return "yes"
	}
	return "no"
}

// observeDown: the node is down (after the shutdown and whatever happened to the files).
func (w *voWorld) observeDown() {
	w.obs = append(w.obs, "down: marker-vouches="+voBoolString(w.markerVouchesForMainFile())+" wal-holds-writes="+voBoolString(w.walHoldsWrites()))
}

// observeUp: the node is up again and has caught up with its own log.
func (w *voWorld) observeUp() {
	tags, _ := w.liveTags()
	var first, last uint64
	if verifSymbolic() {
		if len(w.ents) > 0 {
			first, last = w.first, w.lastIdx()
		}
	} else {
		var err error
		first, last, err = w.s.boltStore.Indexes()
		if err != nil {
			panic(err)
		}
	}
	w.obs = append(w.obs, "up: tags="+voTagString(tags)+" newest-snapshot="+voItoa(int(w.newestSnapshotIndex()))+
		" log="+voItoa(int(first))+"-"+voItoa(int(last))+" fsm-index="+voItoa(int(w.s.fsmIdx.Load()))+
		" restore-skipped="+voBoolString(w.s.numSnapshotsSkipped.Load() > 0)+
		" marker-vouches="+voBoolString(w.markerVouchesForMainFile()))
}

// report: end of a path that kept every promise.
func (w *voWorld) report() {
	if verifSymbolic() {
		println("CONFORMANCE", w.entry, strings.Join(w.choices, ","), "|", strings.Join(w.obs, " ; "))
		return
	}
	if voObsHook != nil {
		voObsHook(w.choices, w.obs)
	}
}

// reachMarkers (engine): which ways through Open / raft's start this path took.
func (w *voWorld) reachMarkers() {
	rm := w.rm
	if rm == nil {
		return
	}
	if rm.restoreSkipped {
		verifReach("fast-path-taken")
		if len(rm.applied) > 0 {
			verifReach("fast-path-then-log-replayed")
		}
	}
	if rm.restoredFrom != "" {
		verifReach("fast-path-not-taken-snapshot-restored")
		if len(rm.applied) > 0 {
			verifReach("snapshot-restored-then-log-replayed")
		}
	}
	if rm.snapshotAtStart == 0 && len(rm.applied) > 0 {
		verifReach("no-snapshot-whole-log-replayed")
	}
	if rm.snapshotAtStart > 0 && len(w.ents) > 0 && w.first <= rm.snapshotAtStart {
		verifReach("log-holds-entries-the-snapshot-covers")
	}
	if len(w.snaps) >= 2 {
		verifReach("two-snapshots-in-the-store")
	}
}

// reflectedIndex: the index of the last log entry the node's database reflects once everything
// the node holds is applied - the last command entry of the log or the newest snapshot's index,
// whichever is greater (0: neither).
func (w *voWorld) reflectedIndex() uint64 {
	idx := w.newestSnapshotIndex()
	if verifSymbolic() {
		for i, e := range w.ents {
			if e.typ == raft.LogCommand && w.first+uint64(i) > idx {
				idx = w.first + uint64(i)
			}
		}
		return idx
	}
	fi, li, err := w.s.boltStore.Indexes()
	if err != nil {
		panic(err)
	}
	ci, err := w.s.boltStore.LastCommandIndex(fi, li)
	if err != nil {
		panic(err)
	}
	if ci > idx {
		idx = ci
	}
	return idx
}
