package store

import (
	"io"
	"log"
	"time"

	"github.com/rqlite/rqlite/v10/internal/rsync"
)

// C31: Store.Close while somebody holds the snapshot gate for R nanoseconds.
// The real Close is executed (with its real arguments to BeginWithRetry) on a Store that has
// nothing but the fields Close touches before and at the gate; what follows the gate
// dereferences the (nil) database, so "passed the gate" shows up as a recovered nil-pointer
// panic at the instant the gate was acquired - in the engine and natively alike.

func verifC31Close(s *Store) (passed bool, err error) {
	defer func() {
		if r := recover(); r != nil {
			passed = true
		}
	}()
	err = s.Close(true)
	return err == nil, err
}

func verifC31Run(hold int64) {
	s := &Store{
		NoSnapshotOnClose: true,
		open:              rsync.NewAtomicBool(),
		snapshotCAS:       rsync.NewCheckAndSet(),
		logger:            log.New(io.Discard, "", 0),
	}
	s.open.Set()
	verifAssume(s.snapshotCAS.Begin("snapshot") == nil)
	go func() {
		time.Sleep(time.Duration(hold))
		s.snapshotCAS.End()
	}()
	t0 := verifClock()
	passed, err := verifC31Close(s)
	el := verifClock() - t0

	const sec = int64(time.Second)
	if hold < 9*sec {
		verifReach("holder-finishes-in-time")
		// the holder finished well inside the shutdown wait limit: Close must get the gate ...
		verifAssert("C31-close-proceeds-when-holder-finishes-in-time", passed)
		// ... and promptly: no later than one second after the holder released it
		verifAssert("C31-close-proceeds-promptly", el <= hold+sec)
	}
	if !passed {
		verifReach("close-gave-up")
		// failing is allowed only if the holder was still running after the ~10 s limit
		verifAssert("C31-close-fails-only-after-the-limit", hold >= 9*sec && el >= 9*sec)
		verifAssert("C31-close-reports-the-gate-timeout", err == rsync.ErrCASConflictTimeout)
	}
}

// Symbolic hold time (every nanosecond value in the range).
func VerifC31CloseSym() {
	max := int64(300 * time.Millisecond)
	if verifTier() == 1 {
		max = int64(2 * time.Second)
	}
	hold := verifI64("holdNs")
	verifAssume(hold >= 0 && hold <= max)
	verifC31Run(hold)
}

// Representative long hold times (each concrete: the retry loop runs up to ~1000 rounds).
func VerifC31CloseLong() {
	holds := []time.Duration{time.Second, 5 * time.Second, 8900 * time.Millisecond, 9500 * time.Millisecond,
		10*time.Second - 1, 10 * time.Second, 10*time.Second + 5*time.Millisecond, 12 * time.Second, 30 * time.Second}
	verifC31Run(int64(holds[verifChoice("hold", len(holds))]))
}

func VerifC31Twin() {
	hold := verifI64("holdNs")
	verifAssume(hold >= 0 && hold <= int64(50*time.Millisecond))
	s := &Store{NoSnapshotOnClose: true, open: rsync.NewAtomicBool(), snapshotCAS: rsync.NewCheckAndSet(), logger: log.New(io.Discard, "", 0)}
	s.open.Set()
	verifAssume(s.snapshotCAS.Begin("snapshot") == nil)
	go func() {
		time.Sleep(time.Duration(hold))
		s.snapshotCAS.End()
	}()
	passed, _ := verifC31Close(s)
	verifAssert("twin", !passed)
}
