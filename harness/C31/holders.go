package store

// C31, the REAL gate holders of a running node: the snapshot ((*Store).fsmSnapshot, gate owner
// "snapshot") and the backup ((*Store).Backup, binary format without VACUUM, gate owner "backup").
// (The start-up integrity check and Close itself are decided in harness/C31b over the real Open.)
//
// The real operation runs in a goroutine on a Store that has what the operation touches. What makes
// it take time is handed in through interfaces the Store already has: the checkpoint manager
// (Checkpointer) takes d before it reports its outcome, the destination of the backup (io.Writer)
// takes d per write. The real Close is called while the operation is under way (parked in its slow
// step, holding the gate) or after it has finished (d = 0), with the oracle of harness.go:
//   - the operation is over within 9 s of the call: Close gets past the gate, no later than 1 s
//     after the operation was over;
//   - Close fails only with the gate-timeout error, only after 9 s, only if the operation was still
//     running then;
//   - an operation that is over and a Close that has returned hold the gate no longer.
// "Over" is when the call of fsmSnapshot / Backup has returned - whatever its result: every outcome
// of the checkpoint manager, an empty WAL, a full snapshot that fails or succeeds, a backup whose
// source cannot be opened or whose destination fails.
//
// Natively (synctest bubble) everything is real: a WAL-mode SQLite database in a scratch directory,
// a real staging directory, real files. In the engine the file calls go to a small file table and
// the SwappableDB calls are stubs (spec.json "models").

import (
	"context"
	"errors"
	"expvar"
	"hash"
	"io"
	"log"
	"os"
	"path/filepath"
	"strings"
	"time"

	"github.com/rqlite/rqlite/v10/command/proto"
	sql "github.com/rqlite/rqlite/v10/db"
	"github.com/rqlite/rqlite/v10/internal/rsum"
	"github.com/rqlite/rqlite/v10/internal/rsync"
	"github.com/rqlite/rqlite/v10/snapshot"
)

// ---------------------------------------------------------------------------------------------
// what the operation is given through the Store's own interfaces (engine and native alike)

// outcomes of the checkpoint manager
const (
	verifC31Reset    = iota // everything moved, WAL reset: success
	verifC31AllMoved        // incremental: every frame moved, WAL not reset: success. Full: not a success
	verifC31Busy            // some frames not moved: ErrDatabaseCheckpointBusy
	verifC31Error           // the checkpoint call itself failed
	verifC31Outcomes
)

type verifC31Manager struct {
	outcome int
	takes   time.Duration
	calls   int
}

// Checkpoint behaves like the manager: the compacted WAL is written to w before the checkpoint is
// attempted; the checkpoint takes its time; then the outcome is known.
func (c *verifC31Manager) Checkpoint(w io.Writer, timeout time.Duration) (*sql.CheckpointManagerMeta, int64, error) {
	c.calls++
	n := 0
	if w != nil {
		var err error
		n, err = w.Write([]byte{'W', 'A', 'L', '0'})
		if err != nil {
			return nil, 0, err
		}
	}
	if c.takes > 0 {
		time.Sleep(c.takes)
	}
	switch c.outcome {
	case verifC31Reset:
		return &sql.CheckpointManagerMeta{}, int64(n), nil
	case verifC31AllMoved:
		return &sql.CheckpointManagerMeta{CheckpointMeta: sql.CheckpointMeta{Code: 1, Pages: 2, Moved: 2}}, 0, nil
	case verifC31Busy:
		return &sql.CheckpointManagerMeta{CheckpointMeta: sql.CheckpointMeta{Code: 1, Pages: 2, Moved: 1}}, 0, sql.ErrDatabaseCheckpointBusy
	}
	return nil, 0, errors.New("checkpoint: error checkpointing WAL")
}

// verifC31SnapStore: what fsmSnapshot asks the snapshot store: which kind of snapshot is due.
type verifC31SnapStore struct {
	SnapshotStore // nil: any other method panics
	fullNeeded    bool
}

func (s *verifC31SnapStore) DueNext() (snapshot.Type, error) {
	if s.fullNeeded {
		return snapshot.Full, nil
	}
	return snapshot.Incremental, nil
}
func (s *verifC31SnapStore) SetDueNext(t snapshot.Type) error {
	s.fullNeeded = t == snapshot.Full
	return nil
}

var verifC31ErrDst = errors.New("verif: destination write failed")

// verifC31Dst: the destination of a backup; every write takes its time, from write number failAt
// on (1-based; 0 = never) the destination fails.
type verifC31Dst struct {
	takes  time.Duration
	failAt int
	writes int
}

func (d *verifC31Dst) Write(p []byte) (int, error) {
	d.writes++
	if d.takes > 0 {
		time.Sleep(d.takes)
	}
	if d.failAt > 0 && d.writes >= d.failAt {
		return 0, verifC31ErrDst
	}
	return len(p), nil
}

// ---------------------------------------------------------------------------------------------
// engine-side file table and models (spec.json "models")

type verifC31File struct {
	data   []byte
	closed bool
}

type verifC31Handle struct {
	name string
	off  int
}

var verifC31FS map[string]*verifC31File
var verifC31Handles map[*os.File]*verifC31Handle
var verifC31WALHasData bool

func verifC31PathExistsWithData(p string) bool { return verifC31WALHasData }
func verifC31EnsureDirExists(p string) error   { return nil }
func verifC31SyncDirMaybe(p string) error      { return nil }

func verifC31Create(name string) (*os.File, error) {
	f := &os.File{}
	verifC31FS[name] = &verifC31File{}
	verifC31Handles[f] = &verifC31Handle{name: name}
	return f, nil
}

func verifC31Open(name string) (*os.File, error) {
	if _, ok := verifC31FS[name]; !ok {
		return nil, &os.PathError{Op: "open", Path: name, Err: os.ErrNotExist}
	}
	f := &os.File{}
	verifC31Handles[f] = &verifC31Handle{name: name}
	return f, nil
}

func verifC31FileName(f *os.File) string { return verifC31Handles[f].name }

func verifC31FileWrite(f *os.File, p []byte) (int, error) {
	n := verifC31FS[verifC31Handles[f].name]
	if n == nil || n.closed {
		return 0, os.ErrClosed
	}
	n.data = append(n.data, p...)
	return len(p), nil
}

func verifC31FileRead(f *os.File, p []byte) (int, error) {
	h := verifC31Handles[f]
	n := verifC31FS[h.name]
	if n == nil {
		return 0, os.ErrClosed
	}
	if h.off >= len(n.data) {
		return 0, io.EOF
	}
	c := copy(p, n.data[h.off:])
	h.off += c
	return c, nil
}

// (*os.File).WriteTo: the generic fallback of the real method (io.Copy over plain Read).
func verifC31FileWriteTo(f *os.File, w io.Writer) (int64, error) {
	var total int64
	buf := make([]byte, 64)
	for {
		n, err := verifC31FileRead(f, buf)
		if n > 0 {
			m, werr := w.Write(buf[:n])
			total += int64(m)
			if werr != nil {
				return total, werr
			}
		}
		if err == io.EOF {
			return total, nil
		}
		if err != nil {
			return total, err
		}
	}
}

func verifC31FileSync(f *os.File) error { return nil }

func verifC31FileClose(f *os.File) error {
	h := verifC31Handles[f]
	if h == nil {
		return os.ErrClosed
	}
	n := verifC31FS[h.name]
	if n == nil {
		return nil // unlinked while open
	}
	if n.closed {
		return os.ErrClosed
	}
	n.closed = true
	return nil
}

func verifC31Remove(name string) error {
	if _, ok := verifC31FS[name]; !ok {
		return os.ErrNotExist
	}
	delete(verifC31FS, name)
	return nil
}

func verifC31RemoveAll(name string) error {
	delete(verifC31FS, name)
	for k := range verifC31FS {
		if strings.HasPrefix(k, name+"/") {
			delete(verifC31FS, k)
		}
	}
	return nil
}

func verifC31SidecarWriteFile(path string, sum uint32) error {
	verifC31FS[path] = &verifC31File{data: []byte{byte(sum >> 24), byte(sum >> 16), byte(sum >> 8), byte(sum)}, closed: true}
	return nil
}

// byte-sum stand-in for CRC-32 (the value is only stored in the sidecar, never compared here)
type verifC31Sum struct{ s uint32 }

func (h *verifC31Sum) Write(p []byte) (int, error) {
	for _, b := range p {
		h.s += uint32(b)
	}
	return len(p), nil
}
func (h *verifC31Sum) Sum(b []byte) []byte { return b }
func (h *verifC31Sum) Reset()              { h.s = 0 }
func (h *verifC31Sum) Size() int           { return 4 }
func (h *verifC31Sum) BlockSize() int      { return 1 }
func (h *verifC31Sum) Sum32() uint32       { return h.s }

var _ hash.Hash32 = (*verifC31Sum)(nil)

func verifC31NewCRC32Writer(w io.Writer) *rsum.CRC32Writer {
	return rsum.VerifNewCRC32Writer(w, &verifC31Sum{})
}

func verifC31NewSnapshotPathStreamer(walDirPath string) (*snapshot.SnapshotPathStreamer, error) {
	if walDirPath == "" {
		return nil, errors.New("walDirPath must be non-empty")
	}
	return &snapshot.SnapshotPathStreamer{}, nil
}

// the stream of a full snapshot: the database file must be there
func verifC31NewSnapshotStreamer(dbPath string, walPaths ...string) (*snapshot.SnapshotStreamer, error) {
	if _, ok := verifC31FS[dbPath]; !ok {
		return nil, errors.New("verif: no such database file")
	}
	return &snapshot.SnapshotStreamer{}, nil
}
func verifC31StreamerOpen(st *snapshot.SnapshotStreamer) error  { return nil }
func verifC31StreamerClose(st *snapshot.SnapshotStreamer) error { return nil }

func verifC31SetSynchronousMode(d *sql.SwappableDB, m sql.SynchronousMode) error { return nil }
func verifC31DBLastModified(d *sql.SwappableDB) (time.Time, error)               { return time.Time{}, nil }
func verifC31DBPath(d *sql.SwappableDB) string                                   { return verifC31ModelDir + "/db.sqlite" }
func verifC31DBWALSize(d *sql.SwappableDB) (int64, error)                        { return 0, nil }
func verifC31DBFileSize(d *sql.SwappableDB) (int64, error) {
	return int64(len(verifC31FS[verifC31ModelDir+"/db.sqlite"].data)), nil
}

// ---------------------------------------------------------------------------------------------
// the node and the operation

const verifC31ModelDir = "/verif-c31"

// operations
const (
	verifC31OpIncremental    = iota // fsmSnapshot, incremental snapshot due, WAL has data
	verifC31OpEmptyWAL              // fsmSnapshot, incremental snapshot due, nothing in the WAL
	verifC31OpFull                  // fsmSnapshot, full snapshot due
	verifC31OpBackup                // Backup, binary, no VACUUM
	verifC31OpBackupNoSource        // Backup, the database file cannot be opened
	verifC31OpBackupBadDst          // Backup, the destination fails (after having taken its time)
	verifC31Ops
)

// verifC31OpenNative (native_test.go): a real WAL-mode database with a checkpointed table in the
// main file; with walHasData one more committed write sits in the WAL.
var verifC31OpenNative func(path string, walHasData bool) *sql.SwappableDB

type verifC31Env struct {
	s       *Store
	op      int
	mgr     *verifC31Manager
	ss      *verifC31SnapStore
	dst     *verifC31Dst
	cleanup func()
}

func verifC31NewEnv(op, outcome int, takes time.Duration) *verifC31Env {
	e := &verifC31Env{op: op, mgr: &verifC31Manager{outcome: outcome, takes: takes}, ss: &verifC31SnapStore{fullNeeded: op == verifC31OpFull},
		dst: &verifC31Dst{takes: takes}}
	if op == verifC31OpBackupBadDst {
		e.dst.failAt = 1
	}
	s := &Store{
		NoSnapshotOnClose: true,
		open:              rsync.NewAtomicBool(),
		snapshotCAS:       rsync.NewCheckAndSet(),
		snapshotSync:      rsync.NewSyncChannels(),
		dbModifiedTime:    rsync.NewAtomicTime(),
		logger:            log.New(io.Discard, "", 0),
		RaftLogLevel:      "WARN",
		raftID:            "verif",
	}
	s.open.Set()
	s.checkpointer = e.mgr
	s.snapshotStore = e.ss
	e.s = s
	walHasData := op == verifC31OpIncremental || op == verifC31OpFull
	if verifSymbolic() {
		stats = expvar.NewMap("store")
		ResetStats()
		verifC31FS = map[string]*verifC31File{}
		verifC31Handles = map[*os.File]*verifC31Handle{}
		verifC31WALHasData = walHasData
		s.db = new(sql.SwappableDB)
		s.dbDir = verifC31ModelDir
		s.dbPath = verifC31ModelDir + "/db.sqlite"
		s.walPath = s.dbPath + "-wal"
		s.walStagingDir = verifC31ModelDir + "/" + walStagingDirName
		// the database file: 12 bytes, copied by the backup in one piece (as the small native file is)
		verifC31FS[s.dbPath] = &verifC31File{data: []byte("SQLite forma")}
		if op == verifC31OpBackupNoSource {
			delete(verifC31FS, s.dbPath)
		}
		e.cleanup = func() {}
		return e
	}
	dir, err := os.MkdirTemp("", "verif-c31-")
	if err != nil {
		panic(err)
	}
	s.dbDir = dir
	s.dbPath = filepath.Join(dir, "db.sqlite")
	s.walPath = s.dbPath + "-wal"
	s.walStagingDir = filepath.Join(dir, walStagingDirName)
	s.db = verifC31OpenNative(s.dbPath, walHasData)
	if op == verifC31OpBackupNoSource {
		s.dbPath = filepath.Join(dir, "no-such-file.sqlite")
	}
	e.cleanup = func() {
		s.db.Close()
		os.RemoveAll(dir)
	}
	return e
}

// operate: the real operation, as raft / the HTTP layer call it.
func (e *verifC31Env) operate() {
	switch e.op {
	case verifC31OpIncremental, verifC31OpEmptyWAL, verifC31OpFull:
		snap, err := e.s.fsmSnapshot()
		if err == nil {
			verifReach("snapshot-taken")
			snap.Release() // raft, when it is done with the snapshot
		} else {
			verifReach("snapshot-failed")
		}
	default:
		br := &proto.BackupRequest{Format: proto.BackupRequest_BACKUP_REQUEST_FORMAT_BINARY}
		if err := e.s.Backup(context.Background(), br, e.dst); err == nil {
			verifReach("backup-written")
		} else {
			verifReach("backup-failed")
		}
	}
}

// verifC31RunHolder: the operation in a goroutine, Close while it is under way (or, if nothing in
// it takes time, after it is over).
func verifC31RunHolder(op, outcome int, takes time.Duration) {
	e := verifC31NewEnv(op, outcome, takes)
	defer e.cleanup()
	s := e.s
	done := make(chan struct{})
	var overAt int64
	go func() {
		e.operate()
		overAt = verifClock()
		close(done)
	}()
	verifSettle() // the operation is parked in its slow step - or over
	owner := s.snapshotCAS.Owner()
	if owner == "snapshot" {
		verifReach("close-called-during-a-real-snapshot")
	} else if owner == "backup" {
		verifReach("close-called-during-a-real-backup")
	}
	t0 := verifClock()
	passed, err := verifC31Close(s)
	el := verifClock() - t0
	<-done
	// for how long after the call of Close the operation was still in flight
	inFlight := overAt - t0
	if inFlight <= 0 {
		inFlight = 0
		verifReach("close-called-after-the-real-operation")
	}

	const sec = int64(time.Second)
	if inFlight < 9*sec {
		verifReach("holder-finishes-in-time")
		verifAssert("C31-close-proceeds-when-holder-finishes-in-time", passed)
		verifAssert("C31-close-proceeds-promptly", el <= inFlight+sec)
	}
	if !passed {
		verifReach("close-gave-up")
		verifAssert("C31-close-fails-only-after-the-limit", inFlight >= 9*sec && el >= 9*sec)
		verifAssert("C31-close-reports-the-gate-timeout", err == rsync.ErrCASConflictTimeout)
	}
	// the operation is over, Close has returned: nobody holds the gate
	verifAssert("C31-gate-held-only-as-long-as-needed", s.snapshotCAS.Owner() == "")
}

var verifC31HolderTimes = []time.Duration{0, 1, 25 * time.Millisecond, time.Second, 8900 * time.Millisecond, 9500 * time.Millisecond,
	10 * time.Second, 12 * time.Second}

// VerifC31Holders: every operation with every outcome; nothing takes time (Close after the
// operation) or the slow step takes 25 ms (Close during the operation); in the thorough tier up to
// beyond the limit.
func VerifC31Holders() {
	op := verifChoice("operation", verifC31Ops)
	outcome := 0
	if op == verifC31OpIncremental || op == verifC31OpFull {
		outcome = verifChoice("manager-outcome", verifC31Outcomes)
	}
	times := []time.Duration{0, 25 * time.Millisecond}
	if verifTier() == 1 {
		times = verifC31HolderTimes
	}
	verifC31RunHolder(op, outcome, times[verifChoice("slow-step-takes", len(times))])
}

// VerifC31HoldersLong: a snapshot and a backup whose slow step takes longer than Close waits.
func VerifC31HoldersLong() {
	ops := []int{verifC31OpIncremental, verifC31OpBackup}
	verifC31RunHolder(ops[verifChoice("operation", len(ops))], verifC31Reset, 12*time.Second)
}
