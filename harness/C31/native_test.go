package store

import (
	"github.com/rqlite/rqlite/v10/command/proto"
	sql "github.com/rqlite/rqlite/v10/db"
)

// Native side of the real gate holders (holders.go): a real WAL-mode database whose main file holds
// a checkpointed table (so a backup has something to copy and a full snapshot something to stream);
// with walHasData one more committed write sits in the WAL, otherwise the WAL is empty.
func init() {
	verifC31OpenNative = func(path string, walHasData bool) *sql.SwappableDB {
		pre, err := sql.Open(path, false, true)
		if err != nil {
			panic(err)
		}
		if _, err := pre.ExecuteStringStmt("CREATE TABLE foo (id INTEGER NOT NULL PRIMARY KEY, v TEXT)"); err != nil {
			panic(err)
		}
		if _, err := pre.ExecuteStringStmt("PRAGMA wal_checkpoint(TRUNCATE)"); err != nil {
			panic(err)
		}
		if err := pre.Close(); err != nil {
			panic(err)
		}
		db, err := sql.OpenSwappable(path, nil, false, true, 2)
		if err != nil {
			panic(err)
		}
		if walHasData {
			r, err := db.Execute(&proto.Request{Statements: []*proto.Statement{{Sql: "CREATE TABLE bar (id INTEGER NOT NULL PRIMARY KEY, v TEXT)"}}}, false)
			if err != nil || len(r) != 1 || r[0].GetError() != "" {
				panic("verif: cannot fill the native database")
			}
		}
		return db
	}
}
