package http

// C30: values round-trip through the HTTP API without loss.
//
// The chain that is executed is the real one, end to end, except for SQLite and encoding/json:
//
//   JSON request value --(json contract)--> Go value --makeParameter / ParseRequest-->
//   proto.Parameter --db.queryStmtWithConn / executeStmtWithConn: parametersToValues--> driver
//   arguments --(go-sqlite3 bind stub)--> bound (storage class, payload)            [oracle 1]
//
//   stored (storage class, payload) in a column with a declared type --(go-sqlite3 row stub)-->
//   driver values --database/sql Scan--> db.queryStmtWithConn: normalizeRowParameters, isTextType,
//   populateEmptyTypes --> proto.QueryRows --encoding.NewRowsFromQueryRows /
//   NewAssociativeRowsFromQueryRows / NewValuesFromQueryValues / ByteSliceAsArray.MarshalJSON-->
//   the value tree handed to json.Marshal (+ its documented contract)               [oracle 2]
//
// SQLite is the stub "storage class and payload preserved; INTEGER comes back as int64, REAL as
// float64, TEXT as string, BLOB as []byte, NULL as nil; nil/int64/float64/bool/string/[]byte bind
// as NULL/INTEGER/REAL/INTEGER 0|1/TEXT/BLOB" (go-sqlite3 v1.49.0 bind() and nextSyncLocked(),
// declared types other than date/time/boolean).
//
// In the engine the connection is a harness type behind the db.queryer / db.execerQueryer
// interfaces and the *sql.Rows it returns is served by models of the seven Rows/ColumnType
// methods the code uses (spec.json "models"). Natively (replay) the very same entries run the same
// real code on a real database/sql connection of a stub driver that serves the same table, and,
// when replay_test.go is present and the case can be set up in SQLite, also on a real db.DB
// (vcRealHook): a disagreement between stub and SQLite fails the assertion
// "C30-stub-agrees-with-sqlite" natively, so the witness does not reproduce and the run is
// inconclusive instead of reporting a wrong result.

import (
	"context"
	"database/sql"
	"database/sql/driver"
	"encoding/hex"
	"encoding/json"
	"errors"
	"io"
	"strconv"
	"strings"
	"sync"
	"unicode"

	"github.com/rqlite/rqlite/v10/command/encoding"
	proto "github.com/rqlite/rqlite/v10/command/proto"
	"github.com/rqlite/rqlite/v10/db"
)

// ---------------------------------------------------------------------------------------------
// stored values and the SQLite stub

const (
	vcNull = iota
	vcInt
	vcReal
	vcText
	vcBlob
)

var vcClassName = []string{"null", "integer", "real", "text", "blob"}

type vcCell struct {
	class int
	i     int64
	f     float64
	s     string
	b     []byte
}

type vcTable struct {
	cols []string
	decl []string // what the driver reports as DatabaseTypeName
	rows [][]vcCell
}

// vcDriverValue: what go-sqlite3 hands to database/sql for a stored cell.
func vcDriverValue(c vcCell) any {
	switch c.class {
	case vcInt:
		return c.i
	case vcReal:
		return c.f
	case vcText:
		return c.s
	case vcBlob:
		return append([]byte{}, c.b...)
	}
	return nil
}

// vcBind: what go-sqlite3 binds for a driver argument.
func vcBind(v any) (vcCell, bool) {
	switch x := v.(type) {
	case nil:
		return vcCell{class: vcNull}, true
	case int64:
		return vcCell{class: vcInt, i: x}, true
	case float64:
		return vcCell{class: vcReal, f: x}, true
	case bool:
		if x {
			return vcCell{class: vcInt, i: 1}, true
		}
		return vcCell{class: vcInt, i: 0}, true
	case string:
		return vcCell{class: vcText, s: x}, true
	case []byte:
		if x == nil {
			return vcCell{class: vcNull}, true
		}
		return vcCell{class: vcBlob, b: x}, true
	}
	return vcCell{}, false
}

type vcBound struct {
	name string
	cell vcCell
	ok   bool // the argument is of a type database/sql + go-sqlite3 accept
}

// vcConn is the connection handed to the real statement runners.
type vcConn struct {
	table   *vcTable
	bound   []vcBound
	queries int
	execs   int
	echo    bool // SELECT ?: the result is one row holding the bound values (untyped expressions)
}

func (c *vcConn) echoTable() {
	if !c.echo {
		return
	}
	t := &vcTable{rows: [][]vcCell{{}}}
	for i, b := range c.bound {
		t.cols = append(t.cols, "?"+strconv.Itoa(i+1))
		t.decl = append(t.decl, "")
		t.rows[0] = append(t.rows[0], b.cell)
	}
	c.table = t
}

var vcCur *vcConn // the connection the stub driver / the Rows models serve

func (c *vcConn) capture(args []any) {
	c.bound = nil
	for _, a := range args {
		name := ""
		v := a
		if na, ok := a.(sql.NamedArg); ok {
			name = na.Name
			v = na.Value
		}
		cell, ok := vcBind(v)
		c.bound = append(c.bound, vcBound{name: name, cell: cell, ok: ok})
	}
}

func (c *vcConn) captureNamed(args []driver.NamedValue) {
	c.bound = nil
	for _, a := range args {
		cell, ok := vcBind(a.Value)
		c.bound = append(c.bound, vcBound{name: a.Name, cell: cell, ok: ok})
	}
}

func (c *vcConn) QueryContext(ctx context.Context, query string, args ...any) (*sql.Rows, error) {
	vcCur = c
	c.queries++
	if !verifSymbolic() {
		return vcNativeDB().QueryContext(ctx, query, args...)
	}
	c.capture(args)
	c.echoTable()
	vcRows = &vcRowsState{t: c.table, token: &sql.Rows{}}
	for range c.table.decl {
		vcRows.cts = append(vcRows.cts, &sql.ColumnType{})
	}
	return vcRows.token, nil
}

type vcResult struct{}

func (vcResult) LastInsertId() (int64, error) { return 1, nil }
func (vcResult) RowsAffected() (int64, error) { return 1, nil }

func (c *vcConn) ExecContext(ctx context.Context, query string, args ...any) (sql.Result, error) {
	vcCur = c
	c.execs++
	if !verifSymbolic() {
		return vcNativeDB().ExecContext(ctx, query, args...)
	}
	c.capture(args)
	return vcResult{}, nil
}

// ---- engine side: models of the *sql.Rows / *sql.ColumnType methods used by queryStmtWithConn

type vcRowsState struct {
	t     *vcTable
	token *sql.Rows
	cts   []*sql.ColumnType
	pos   int // rows handed out by Next
}

var vcRows *vcRowsState

func vcRowsColumns(rs *sql.Rows) ([]string, error) {
	return append([]string{}, vcRows.t.cols...), nil
}

func vcRowsColumnTypes(rs *sql.Rows) ([]*sql.ColumnType, error) {
	return append([]*sql.ColumnType{}, vcRows.cts...), nil
}

func vcColumnTypeName(ct *sql.ColumnType) string {
	for i, p := range vcRows.cts {
		if p == ct {
			return vcRows.t.decl[i]
		}
	}
	verifAssert("C30-model-column-type-of-another-result", false)
	return ""
}

func vcRowsNext(rs *sql.Rows) bool {
	if vcRows.pos < len(vcRows.t.rows) {
		vcRows.pos++
		return true
	}
	return false
}

// Scan into *any: database/sql's convertAssign stores string/int64/float64/nil as they are and
// a clone of []byte.
func vcRowsScan(rs *sql.Rows, dest ...any) error {
	if vcRows.pos == 0 || vcRows.pos > len(vcRows.t.rows) {
		return errors.New("sql: Scan called without calling Next")
	}
	row := vcRows.t.rows[vcRows.pos-1]
	if len(dest) != len(row) {
		return errors.New("sql: expected different number of destination arguments in Scan")
	}
	for i := range row {
		p, ok := dest[i].(*any)
		if !ok {
			verifAssert("C30-model-scan-destination-is-a-pointer-to-any", false)
			return errors.New("model")
		}
		*p = vcDriverValue(row[i])
	}
	return nil
}

func vcRowsErr(rs *sql.Rows) error   { return nil }
func vcRowsClose(rs *sql.Rows) error { return nil }

// ---- native side: a database/sql driver serving the same table

type vcDriver struct{}
type vcDConn struct{}
type vcDStmt struct{}
type vcDRows struct {
	t   *vcTable
	pos int
}

var vcRegister sync.Once
var vcDB *sql.DB

func vcNativeDB() *sql.DB {
	vcRegister.Do(func() {
		sql.Register("verifc30", vcDriver{})
		d, err := sql.Open("verifc30", "")
		if err != nil {
			panic(err)
		}
		vcDB = d
	})
	return vcDB
}

func (vcDriver) Open(name string) (driver.Conn, error)     { return &vcDConn{}, nil }
func (*vcDConn) Prepare(q string) (driver.Stmt, error)     { return &vcDStmt{}, nil }
func (*vcDConn) Close() error                              { return nil }
func (*vcDConn) Begin() (driver.Tx, error)                 { return nil, errors.New("no transactions") }
func (*vcDStmt) Close() error                              { return nil }
func (*vcDStmt) NumInput() int                             { return -1 }
func (*vcDStmt) Exec(a []driver.Value) (driver.Result, error) { return nil, errors.New("unused") }
func (*vcDStmt) Query(a []driver.Value) (driver.Rows, error)  { return nil, errors.New("unused") }
func (*vcDStmt) ExecContext(ctx context.Context, a []driver.NamedValue) (driver.Result, error) {
	vcCur.captureNamed(a)
	return vcResult{}, nil
}
func (*vcDStmt) QueryContext(ctx context.Context, a []driver.NamedValue) (driver.Rows, error) {
	vcCur.captureNamed(a)
	vcCur.echoTable()
	return &vcDRows{t: vcCur.table}, nil
}
func (r *vcDRows) Columns() []string { return append([]string{}, r.t.cols...) }
func (r *vcDRows) Close() error      { return nil }
func (r *vcDRows) Next(dest []driver.Value) error {
	if r.pos >= len(r.t.rows) {
		return io.EOF
	}
	for i, c := range r.t.rows[r.pos] {
		dest[i] = vcDriverValue(c)
	}
	r.pos++
	return nil
}
func (r *vcDRows) ColumnTypeDatabaseTypeName(i int) string { return r.t.decl[i] }

// ---------------------------------------------------------------------------------------------
// contracts of the std library pieces that cannot be executed symbolically (validated by replay)

// encoding/hex.DecodeString by arithmetic instead of the 256-entry table (a table lookup with a
// symbolic index would fork 256 ways per character).
func vcNibble(c byte) (byte, bool) {
	// 0x30..0x39 -> low nibble; 0x41..0x46 / 0x61..0x66 -> low nibble + 9 (bit 6 set)
	return (c & 0x0f) + 9*(c>>6&1), vcIsHexDigit(c)
}

func vcHexDecodeString(s string) ([]byte, error) {
	out := make([]byte, 0, len(s)/2)
	j := 1
	for ; j < len(s); j += 2 {
		a, ok := vcNibble(s[j-1])
		if !ok {
			return out, hex.InvalidByteError(s[j-1])
		}
		b, ok := vcNibble(s[j])
		if !ok {
			return out, hex.InvalidByteError(s[j])
		}
		out = append(out, a<<4|b)
	}
	if len(s)%2 == 1 {
		if _, ok := vcNibble(s[j-1]); !ok {
			return out, hex.InvalidByteError(s[j-1])
		}
		return out, hex.ErrLength
	}
	return out, nil
}

func vcASCIISpace(c byte) bool {
	return verifOr(c == ' ', verifAnd(c >= '\t', c <= '\r')) // \t \n \v \f \r are 9..13
}

// strings.TrimSpace: ASCII white space by comparison (the real one indexes a 256-entry table);
// a string with a byte >= 0x80 takes the Unicode path of the real implementation.
func vcTrimSpace(s string) string {
	for i := 0; i < len(s); i++ {
		if s[i] >= 0x80 {
			return strings.TrimFunc(s, unicode.IsSpace)
		}
	}
	start, stop := 0, len(s)
	for start < stop && vcASCIISpace(s[start]) {
		start++
	}
	for stop > start && vcASCIISpace(s[stop-1]) {
		stop--
	}
	return s[start:stop]
}

// json.Number of a symbolic integer: in the engine the literal is a placeholder registered here
// and Number.Int64 answers from the registry (contract: Int64 of an integer literal within the
// int64 range is that integer, exactly); every other literal is concrete and goes through the
// real strconv. Natively the placeholder is the decimal text and the real method runs.
var vcNums map[string]int64

func vcNumber(x int64) json.Number {
	if !verifSymbolic() {
		return json.Number(strconv.FormatInt(x, 10))
	}
	if vcNums == nil {
		vcNums = map[string]int64{}
	}
	k := "#int" + strconv.Itoa(len(vcNums))
	vcNums[k] = x
	return json.Number(k)
}

func vcNumberInt64(n json.Number) (int64, error) {
	if x, ok := vcNums[string(n)]; ok {
		return x, nil
	}
	return strconv.ParseInt(string(n), 10, 64)
}

// json.Marshal is only reached from ByteSliceAsArray.MarshalJSON, with a []int: the JSON text
// of an int slice is '[' decimal {',' decimal} ']' ("null" for a nil slice).
func vcJSONMarshal(v any) ([]byte, error) {
	a, ok := v.([]int)
	if !ok {
		verifAssert("C30-model-json-marshal-of-something-else", false)
		return nil, errors.New("model")
	}
	if a == nil {
		return []byte("null"), nil
	}
	out := []byte{'['}
	for i, x := range a {
		if i > 0 {
			out = append(out, ',')
		}
		if x < 0 {
			out = append(out, '-')
			x = -x
		}
		var d [20]byte
		n := 0
		for {
			d[n] = byte('0' + x%10)
			n++
			x /= 10
			if x == 0 {
				break
			}
		}
		for n > 0 {
			n--
			out = append(out, d[n])
		}
	}
	return append(out, ']'), nil
}

// vcParseIntArray reads a JSON array of small non-negative integers back (the client side of the
// blob_array form). ok=false if the text is not such an array.
func vcParseIntArray(b []byte) (out []int, ok bool) {
	if len(b) < 2 || b[0] != '[' || b[len(b)-1] != ']' {
		return nil, false
	}
	out = []int{}
	if len(b) == 2 {
		return out, true
	}
	cur, digits := 0, 0
	for i := 1; i < len(b); i++ {
		c := b[i]
		if c == ',' || i == len(b)-1 {
			if digits == 0 {
				return nil, false
			}
			out = append(out, cur)
			cur, digits = 0, 0
			continue
		}
		if c < '0' || c > '9' || digits > 8 {
			return nil, false
		}
		cur = cur*10 + int(c-'0')
		digits++
	}
	return out, true
}

// ---------------------------------------------------------------------------------------------
// read side

// vcRealHook (replay_test.go): run the table through a real db.DB if it can be set up in SQLite.
// Returns ok=false when it cannot (declared type not a type name, class not storable in a column
// of that affinity, ...).
var vcRealHook func(t *vcTable) (rows *proto.QueryRows, ok bool)

// Documented text-like declared types: empty (expression / untyped) or a type rqlite lists as
// text (text, json, varchar*, varying character*, nchar*, native character*, nvarchar*, clob*).
// Only used as the class predicate of the recorded finding.
func vcTextLike(t string) bool {
	if t == "" || t == "text" || t == "json" {
		return true
	}
	for _, p := range []string{"varchar", "varying character", "nchar", "native character", "nvarchar", "clob"} {
		if len(t) >= len(p) && t[:len(p)] == p {
			return true
		}
	}
	return false
}

// vcDeclFloats / values for REAL cells (floats stay concrete in the engine).
var vcFloats = []float64{0.5, 1e300, -1.5, 3, 5e-324, -9.223372036854775808e18}

// vcChooseCell picks a stored value. mode 0: one shape per class (tables with several cells);
// mode 1: the quick variety; mode 2: the thorough variety. Payload bytes / integers are symbolic.
func vcChooseCell(name string, mode int) vcCell {
	switch verifChoice(name+".class", 5) {
	case vcInt:
		return vcCell{class: vcInt, i: verifI64(name + ".i")}
	case vcReal:
		nf := []int{1, 2, len(vcFloats)}[mode]
		return vcCell{class: vcReal, f: vcFloats[verifChoice(name+".f", nf)]}
	case vcText:
		lens := [][]int{{2}, {0, 3}, {0, 1, 3, 8}}[mode]
		n := lens[verifChoice(name+".slen", len(lens))]
		return vcCell{class: vcText, s: string(verifBytes(name+".s", n))}
	case vcBlob:
		lens := [][]int{{1}, {0, 2}, {0, 1, 3}}[mode]
		n := lens[verifChoice(name+".blen", len(lens))]
		return vcCell{class: vcBlob, b: verifBytes(name+".b", n)}
	}
	return vcCell{class: vcNull}
}

// declared types: concrete ones as SQLite reports them (upper case allowed: the code lower-cases)
var vcDeclConcrete = []string{"", "INTEGER", "BLOB", "TEXT", "VARCHAR(10)", "Json", "NUMERIC", "clob", "REAL", "NCHAR(3)", "NVARCHAR(9)", "VARYING CHARACTER(5)", "NATIVE CHARACTER(5)", "CHARACTER(20)", "ANY"}

// vcChooseDecl returns the reported declared type and its lower-case form. Symbolic ones are
// n bytes out of [a-z0-9 ()] (lower case: strings.ToLower is executed on them but has nothing
// to do), n concrete.
func vcChooseDecl(name string, symLens []int, concrete []string) (string, string) {
	k := verifChoice(name+".kind", len(symLens)+len(concrete))
	if k >= len(symLens) {
		d := concrete[k-len(symLens)]
		return d, strings.ToLower(d)
	}
	b := verifBytes(name+".t", symLens[k])
	for _, c := range b {
		lower := verifAnd(c >= 'a', c <= 'z')
		digit := verifAnd(c >= '0', c <= '9')
		other := verifOr(c == ' ', verifOr(c == '(', c == ')'))
		verifAssume(verifOr(lower, verifOr(digit, other)))
	}
	if len(b) > 0 {
		verifAssume(verifAnd(b[0] >= 'a', b[0] <= 'z'))
	}
	s := string(b)
	// declared date/time/boolean types are excluded by the property (documented conversions)
	verifAssume(s != "boolean")
	verifAssume(s != "date")
	verifAssume(s != "datetime")
	verifAssume(s != "timestamp")
	return s, s
}

type vcReadCtx struct {
	t         *vcTable
	declLower []string
}

// vcEffectiveTextLike: is a BLOB at (r, c) in the recorded class "declared type empty or
// text-like"? For an untyped column rqlite documents that the type is taken from the first row.
func (x *vcReadCtx) inFindingClass(r, c int) bool {
	d := x.declLower[c]
	if d != "" {
		return vcTextLike(d)
	}
	if r == 0 {
		return true
	}
	k := x.t.rows[0][c].class
	return k == vcNull || k == vcText
}

// vcCheckValue: oracle 2 for one value at the JSON boundary.
func (x *vcReadCtx) checkValue(r, c int, got any, blobArray bool, marshal bool) {
	cell := x.t.rows[r][c]
	switch cell.class {
	case vcNull:
		verifAssert("C30-null-comes-back-as-null", got == nil)
	case vcInt:
		v, ok := got.(int64)
		verifAssert("C30-integer-comes-back-as-integer", ok)
		verifAssert("C30-integer-value-exact", v == cell.i)
	case vcReal:
		v, ok := got.(float64)
		verifAssert("C30-real-comes-back-as-real", ok)
		verifAssert("C30-real-value-exact", v == cell.f)
	case vcText:
		v, ok := got.(string)
		verifAssert("C30-text-comes-back-as-text", ok)
		verifAssert("C30-text-value-exact", v == cell.s)
	case vcBlob:
		if _, isText := got.(string); isText {
			if x.inFindingClass(r, c) {
				verifFinding("C30-blob-returned-as-text")
			}
			verifAssert("C30-blob-comes-back-as-blob", false)
		}
		if blobArray {
			v, ok := got.(encoding.ByteSliceAsArray)
			verifAssert("C30-blob-comes-back-as-byte-array", ok)
			verifAssert("C30-blob-value-exact", string(v) == string(cell.b))
			if marshal {
				// the JSON text of the array form, read back as a client would
				txt, err := v.MarshalJSON()
				verifAssert("C30-byte-array-marshals", err == nil)
				arr, ok := vcParseIntArray(txt)
				verifAssert("C30-byte-array-json-is-an-int-array", ok)
				verifAssert("C30-byte-array-json-length", len(arr) == len(cell.b))
				for i := range arr {
					verifAssert("C30-byte-array-json-element", arr[i] == int(cell.b[i]))
				}
				verifReach("byte-array-json")
			}
		} else {
			v, ok := got.([]byte) // json.Marshal: base64 of exactly these bytes
			verifAssert("C30-blob-comes-back-as-bytes", ok)
			verifAssert("C30-blob-value-exact", string(v) == string(cell.b))
		}
	}
}

func (x *vcReadCtx) checkTypes(types []string) {
	verifAssert("C30-one-type-per-column", len(types) == len(x.t.cols))
	for c := range x.t.cols {
		if x.declLower[c] != "" {
			verifAssert("C30-declared-type-reported-in-lower-case", types[c] == x.declLower[c])
			continue
		}
		if len(x.t.rows) == 0 {
			continue
		}
		if k := x.t.rows[0][c].class; k != vcNull {
			verifAssert("C30-untyped-column-reports-the-type-of-the-first-row", types[c] == vcClassName[k])
		}
	}
}

func vcRunRead(t *vcTable, declLower []string, marshal bool) {
	conn := &vcConn{table: t}
	stmt := &proto.Statement{Sql: "SELECT * FROM t"}
	q, err := db.VerifC30QueryStmt(context.Background(), stmt, conn)
	verifAssert("C30-query-succeeds", err == nil)
	verifAssert("C30-query-has-no-error", q.Error == "")
	verifAssert("C30-query-ran-once", conn.queries == 1)
	verifAssert("C30-one-value-list-per-row", len(q.Values) == len(t.rows))
	verifAssert("C30-columns-reported", len(q.Columns) == len(t.cols))

	if !verifSymbolic() && vcRealHook != nil {
		if real, ok := vcRealHook(t); ok {
			verifAssert("C30-stub-agrees-with-sqlite", vcSameRows(real, q))
		}
	}
	vcCheckRead(t, declLower, q, marshal)
}

// vcCheckRead: oracle 2 over a whole result, in the four forms the API offers.
func vcCheckRead(t *vcTable, declLower []string, q *proto.QueryRows, marshal bool) {
	x := &vcReadCtx{t: t, declLower: declLower}
	for _, blobArray := range []bool{false, true} {
		// array form
		rows, err := encoding.NewRowsFromQueryRows(q, blobArray)
		verifAssert("C30-array-form-builds", err == nil)
		verifAssert("C30-array-form-row-count", len(rows.Values) == len(t.rows))
		for r := range t.rows {
			verifAssert("C30-array-form-row-width", len(rows.Values[r]) == len(t.cols))
			for c := range t.cols {
				x.checkValue(r, c, rows.Values[r][c], blobArray, marshal)
			}
		}
		x.checkTypes(rows.Types)
		for c := range t.cols {
			verifAssert("C30-array-form-column-names", rows.Columns[c] == t.cols[c])
		}

		// associative form (column names are distinct)
		ar, err := encoding.NewAssociativeRowsFromQueryRows(q, blobArray)
		verifAssert("C30-associative-form-builds", err == nil)
		verifAssert("C30-associative-form-row-count", len(ar.Rows) == len(t.rows))
		for r := range t.rows {
			verifAssert("C30-associative-form-row-width", len(ar.Rows[r]) == len(t.cols))
			for c, name := range t.cols {
				v, present := ar.Rows[r][name]
				verifAssert("C30-associative-form-has-the-column", present)
				x.checkValue(r, c, v, blobArray, false)
			}
		}
		at := make([]string, len(t.cols))
		for c, name := range t.cols {
			at[c] = ar.Types[name]
		}
		x.checkTypes(at)
	}
	verifReach("read-checked")
}

func vcSameRows(a, b *proto.QueryRows) bool {
	if len(a.Values) != len(b.Values) || len(a.Types) != len(b.Types) {
		return false
	}
	for i := range a.Types {
		if a.Types[i] != b.Types[i] {
			return false
		}
	}
	for r := range a.Values {
		pa, pb := a.Values[r].GetParameters(), b.Values[r].GetParameters()
		if len(pa) != len(pb) {
			return false
		}
		for c := range pa {
			if !vcSameParam(pa[c], pb[c]) {
				return false
			}
		}
	}
	return true
}

func vcSameParam(a, b *proto.Parameter) bool {
	switch x := a.GetValue().(type) {
	case nil:
		return b.GetValue() == nil
	case *proto.Parameter_I:
		y, ok := b.GetValue().(*proto.Parameter_I)
		return ok && x.I == y.I
	case *proto.Parameter_D:
		y, ok := b.GetValue().(*proto.Parameter_D)
		return ok && x.D == y.D
	case *proto.Parameter_B:
		y, ok := b.GetValue().(*proto.Parameter_B)
		return ok && x.B == y.B
	case *proto.Parameter_S:
		y, ok := b.GetValue().(*proto.Parameter_S)
		return ok && x.S == y.S
	case *proto.Parameter_Y:
		y, ok := b.GetValue().(*proto.Parameter_Y)
		return ok && string(x.Y) == string(y.Y)
	}
	return false
}

// VerifC30Read: one stored value of every storage class and shape in bounds, read back from a
// column of every declared type in bounds; all four result forms, the byte-array form down to its
// JSON text.
func VerifC30Read() {
	tier := verifTier()
	cell := vcChooseCell("r0", 1+tier)
	// the declared type only decides something for BLOBs; the other classes get a small selection
	symLens := []int{4}
	conc := vcDeclConcrete[:2]
	if cell.class == vcBlob {
		symLens = []int{4, 7}
		conc = vcDeclConcrete[:6]
		if tier > 0 {
			symLens = []int{1, 2, 3, 4, 5, 6, 7, 8, 9, 10, 11, 12, 16, 17, 18}
			conc = vcDeclConcrete
		}
	}
	decl, lower := vcChooseDecl("decl", symLens, conc)
	t := &vcTable{cols: []string{"x"}, decl: []string{decl}, rows: [][]vcCell{{cell}}}
	vcRunRead(t, []string{lower}, true)
}

// VerifC30ReadRows: two (thorough: up to three) rows of one column: an untyped column takes its
// reported type from the first row only; no row's value may depend on another row.
func VerifC30ReadRows() {
	tier := verifTier()
	nrows := 2
	if tier > 0 {
		nrows += verifChoice("rows", 2)
	}
	decl, lower := vcChooseDecl("decl", []int{4}, vcDeclConcrete[:3])
	t := &vcTable{cols: []string{"x"}, decl: []string{decl}}
	for r := 0; r < nrows; r++ {
		t.rows = append(t.rows, []vcCell{vcChooseCell(verifName("r", r), 0)})
	}
	vcRunRead(t, []string{lower}, false)
}

// VerifC30ReadWide: two (thorough: up to three) columns (index mix-ups between values, types
// and column names), one (thorough: up to two) rows.
func VerifC30ReadWide() {
	tier := verifTier()
	ncols, nrows := 2, 1
	if tier > 0 {
		switch verifChoice("shape", 3) { // 2x1, 3x1, 2x2 (columns x rows)
		case 1:
			ncols = 3
		case 2:
			nrows = 2
		}
	}
	t := &vcTable{}
	var lower []string
	for c := 0; c < ncols; c++ {
		d, l := vcChooseDecl(verifName("decl", c), nil, []string{"", "BLOB", "TEXT"})
		t.cols = append(t.cols, string(rune('a'+c)))
		t.decl = append(t.decl, d)
		lower = append(lower, l)
	}
	for r := 0; r < nrows; r++ {
		var row []vcCell
		for c := 0; c < ncols; c++ {
			row = append(row, vcChooseCell(verifName(verifName("r", r)+"c", c), 0))
		}
		t.rows = append(t.rows, row)
	}
	vcRunRead(t, lower, false)
}

// ---------------------------------------------------------------------------------------------
// request side

const (
	jkNull = iota
	jkBool
	jkInt    // integer literal within the int64 range (symbolic)
	jkNum    // any other number literal (concrete text)
	jkString // JSON string (symbolic ASCII or concrete non-ASCII)
	jkArray  // JSON array
	jkKinds
)

const (
	jeInt     = iota // integer literal within int64 (symbolic value: in or out of 0..255)
	jeFrac           // 1.5
	jeHuge           // integer literal beyond int64
	jeString         // "7"
	jeNull           // null
	jeBool           // true
	jeNested         // [1]
	jeKinds
)

type jvElem struct {
	kind int
	i    int64
}

type jvVal struct {
	kind    int
	b       bool
	i       int64
	numText string
	s       string
	elems   []jvElem
}

// number literals that are not int64 integers, with the float64 they denote (Go constants are
// rounded correctly, like strconv); the last one is beyond float64 (Float64 reports a range error)
var vcNumTexts = []string{"1.5", "-0.25", "1e3", "3.0", "9223372036854775808", "-9223372036854775809", "18446744073709551615", "0.1", "1E400"}
var vcNumFloats = []float64{1.5, -0.25, 1e3, 3.0, 9223372036854775808, -9223372036854775809, 18446744073709551615, 0.1, 0}

const vcNumOutOfRange = 8 // index of 1E400

// concrete integer literals (the extremes, 2^53+1 which no float64 holds, zero)
var vcIntTexts = []string{"9223372036854775807", "-9223372036854775808", "9007199254740993", "0", "-1"}
var vcIntVals = []int64{9223372036854775807, -9223372036854775808, 9007199254740993, 0, -1}

// concrete strings: non-ASCII text, literals, padded literals (ASCII and Unicode white space),
// a literal with a non-hex body, text with Unicode white space at both ends
var vcConcreteStrings = []string{"\u00e9", "x'e9'", " a ", "\u65e5\u672c\u8a9e", " x'00' ", "\u00a0x'00'", "X'53514C697465'", "x'\u00e9'", "\u3000h\u00e9llo\u0085"}

// vcChooseValue picks an abstract JSON value. mode 0: a small selection per kind (requests with
// several values); mode 1: the quick variety; mode 2: the thorough variety.
func vcChooseValue(name string, mode int) jvVal {
	switch verifChoice(name+".kind", jkKinds) {
	case jkBool:
		return jvVal{kind: jkBool, b: verifBool(name + ".b")}
	case jkInt:
		// symbolic (placeholder literal, see vcNumber) or one of the concrete literals (real strconv)
		if k := verifChoice(name+".int", 1+[]int{0, 2, len(vcIntTexts)}[mode]); k > 0 {
			return jvVal{kind: jkInt, i: vcIntVals[k-1], numText: vcIntTexts[k-1]}
		}
		return jvVal{kind: jkInt, i: verifI64(name + ".i")}
	case jkNum:
		nn := []int{1, len(vcNumTexts), len(vcNumTexts)}[mode]
		return jvVal{kind: jkNum, numText: vcNumTexts[verifChoice(name+".num", nn)]}
	case jkString:
		lens := [][]int{{}, {0, 3, 5}, {0, 1, 2, 3, 4, 5, 6, 7, 9}}[mode]
		nc := []int{3, len(vcConcreteStrings), len(vcConcreteStrings)}[mode]
		k := verifChoice(name+".str", len(lens)+nc)
		if k >= len(lens) {
			return jvVal{kind: jkString, s: vcConcreteStrings[k-len(lens)]}
		}
		b := verifBytes(name+".s", lens[k])
		for _, c := range b {
			verifAssume(c < 0x80)
		}
		return jvVal{kind: jkString, s: string(b)}
	case jkArray:
		n := 1
		nk := 1 // mode 0: one integer element (symbolic: inside or outside 0..255)
		if mode > 0 {
			n = verifChoice(name+".n", mode+2)
			nk = jeKinds
		}
		v := jvVal{kind: jkArray, elems: []jvElem{}}
		for i := 0; i < n; i++ {
			en := verifName(name+".e", i)
			e := jvElem{kind: verifChoice(en+".kind", nk)}
			if e.kind == jeInt {
				e.i = verifI64(en + ".i")
			}
			v.elems = append(v.elems, e)
		}
		return v
	}
	return jvVal{kind: jkNull}
}

// vcGo: the Go value json.Decoder (UseNumber) produces for the JSON value when decoding into an
// `any` (documented: nil, bool, json.Number, string, []any, map[string]any).
func vcGo(v jvVal) any {
	switch v.kind {
	case jkBool:
		return v.b
	case jkInt:
		if v.numText != "" {
			return json.Number(v.numText)
		}
		return vcNumber(v.i)
	case jkNum:
		return json.Number(v.numText)
	case jkString:
		return v.s
	case jkArray:
		out := make([]any, len(v.elems))
		for i, e := range v.elems {
			switch e.kind {
			case jeInt:
				out[i] = vcNumber(e.i)
			case jeFrac:
				out[i] = json.Number("1.5")
			case jeHuge:
				out[i] = json.Number("9223372036854775808")
			case jeString:
				out[i] = "7"
			case jeNull:
				out[i] = nil
			case jeBool:
				out[i] = true
			case jeNested:
				out[i] = []any{json.Number("1")}
			}
		}
		return out
	}
	return nil
}

// vcJSONText renders the value as JSON text (native replay only).
func vcJSONText(v jvVal) string {
	switch v.kind {
	case jkBool:
		if v.b {
			return "true"
		}
		return "false"
	case jkInt:
		return strconv.FormatInt(v.i, 10)
	case jkNum:
		return v.numText
	case jkString:
		return vcQuote(v.s)
	case jkArray:
		parts := []string{}
		for _, e := range v.elems {
			switch e.kind {
			case jeInt:
				parts = append(parts, strconv.FormatInt(e.i, 10))
			case jeFrac:
				parts = append(parts, "1.5")
			case jeHuge:
				parts = append(parts, "9223372036854775808")
			case jeString:
				parts = append(parts, `"7"`)
			case jeNull:
				parts = append(parts, "null")
			case jeBool:
				parts = append(parts, "true")
			case jeNested:
				parts = append(parts, "[1]")
			}
		}
		return "[" + strings.Join(parts, ",") + "]"
	}
	return "null"
}

func vcQuote(s string) string {
	b, err := json.Marshal(s)
	if err != nil {
		panic(err)
	}
	return string(b)
}

// What the property demands for a JSON parameter value.
const (
	weBind   = iota // bound with exactly this class and payload
	weEither        // a hex literal padded with white space: exact TEXT or the decoded BLOB
	weReject        // cannot be bound without changing it: the request must fail
)

type vcWant struct {
	mode int
	cell vcCell
	alt  vcCell
}

func vcIsHexDigit(c byte) bool {
	d := verifAnd(c >= '0', c <= '9')
	l := verifAnd(c >= 'a', c <= 'f')
	u := verifAnd(c >= 'A', c <= 'F')
	return verifOr(d, verifOr(l, u))
}

// vcHexLiteral: is s exactly a SQLite BLOB literal ( x'..' or X'..' with an even number of hex
// digits, https://www.sqlite.org/lang_expr.html ), and the bytes it denotes.
func vcHexLiteral(s string) (bool, []byte) {
	n := len(s)
	if n < 3 || n%2 == 0 {
		return false, nil
	}
	lit := verifAnd(verifOr(s[0] == 'x', s[0] == 'X'), verifAnd(s[1] == '\'', s[n-1] == '\''))
	for i := 2; i < n-1; i++ {
		lit = verifAnd(lit, vcIsHexDigit(s[i]))
	}
	if !lit {
		return false, nil
	}
	out := []byte{}
	for i := 2; i+1 < n-1; i += 2 {
		hi := (s[i] & 0x0f) + 9*(s[i]>>6&1)
		lo := (s[i+1] & 0x0f) + 9*(s[i+1]>>6&1)
		out = append(out, hi<<4|lo)
	}
	return true, out
}

func vcExpect(v jvVal) vcWant {
	switch v.kind {
	case jkNull:
		return vcWant{mode: weBind, cell: vcCell{class: vcNull}}
	case jkBool:
		// SQLite has no boolean storage class: true/false are the integers 1/0
		if v.b {
			return vcWant{mode: weBind, cell: vcCell{class: vcInt, i: 1}}
		}
		return vcWant{mode: weBind, cell: vcCell{class: vcInt, i: 0}}
	case jkInt:
		return vcWant{mode: weBind, cell: vcCell{class: vcInt, i: v.i}}
	case jkNum:
		for k, t := range vcNumTexts {
			if t == v.numText {
				if k == vcNumOutOfRange {
					return vcWant{mode: weReject}
				}
				return vcWant{mode: weBind, cell: vcCell{class: vcReal, f: vcNumFloats[k]}}
			}
		}
	case jkString:
		text := vcCell{class: vcText, s: v.s}
		if lit, b := vcHexLiteral(v.s); lit {
			verifReach("hex-literal")
			return vcWant{mode: weBind, cell: vcCell{class: vcBlob, b: b}}
		}
		// a literal with white space around it is not a literal in the SQLite sense, but rqlite
		// documents that it trims: both readings are accepted
		core := vcTrimSpace(v.s)
		if len(core) != len(v.s) {
			if lit, b := vcHexLiteral(core); lit {
				verifReach("padded-hex-literal")
				return vcWant{mode: weEither, cell: text, alt: vcCell{class: vcBlob, b: b}}
			}
		}
		return vcWant{mode: weBind, cell: text}
	case jkArray:
		b := []byte{}
		for _, e := range v.elems {
			if e.kind != jeInt {
				return vcWant{mode: weReject}
			}
			if e.i < 0 || e.i > 255 {
				verifReach("byte-array-element-out-of-range")
				return vcWant{mode: weReject}
			}
			b = append(b, byte(e.i))
		}
		return vcWant{mode: weBind, cell: vcCell{class: vcBlob, b: b}}
	}
	return vcWant{mode: weReject}
}

func vcSameCell(a, b vcCell) bool {
	if a.class != b.class {
		return false
	}
	switch a.class {
	case vcInt:
		return a.i == b.i
	case vcReal:
		return a.f == b.f
	case vcText:
		return a.s == b.s
	case vcBlob:
		return string(a.b) == string(b.b)
	}
	return true
}

// vcCheckBound: oracle 1 for one bound argument.
func vcCheckBound(got vcBound, name string, w vcWant) {
	verifAssert("C30-bound-argument-is-a-driver-value", got.ok)
	verifAssert("C30-parameter-name-kept", got.name == name)
	switch w.mode {
	case weBind:
		verifAssert("C30-bound-with-the-same-type", got.cell.class == w.cell.class)
		verifAssert("C30-bound-with-the-same-value", vcSameCell(got.cell, w.cell))
	case weEither:
		if got.cell.class == vcText {
			verifAssert("C30-bound-with-the-same-value", vcSameCell(got.cell, w.cell))
		} else {
			verifAssert("C30-bound-with-the-same-value", vcSameCell(got.cell, w.alt))
		}
	}
}

// vcRealBindHook (replay_test.go): bind the parameters on a real db.DB (SELECT typeof(?), ?) and
// report class and payload as SQLite sees them.
var vcRealBindHook func(params []*proto.Parameter) (cells []vcCell, ok bool)

// vcBindThrough sends the parameters through the real statement runner (query or execute path)
// and returns what reached the connection.
func vcBindThrough(params []*proto.Parameter, exec bool) []vcBound {
	bound, _ := vcBindThroughEcho(params, exec, false)
	return bound
}

func vcBindThroughEcho(params []*proto.Parameter, exec, echo bool) ([]vcBound, *proto.QueryRows) {
	conn := &vcConn{table: &vcTable{cols: []string{"x"}, decl: []string{""}}, echo: echo}
	stmt := &proto.Statement{Sql: "INSERT INTO t VALUES(?)", Parameters: params}
	var q *proto.QueryRows
	if exec {
		resp, err := db.VerifC30ExecuteStmt(context.Background(), stmt, conn)
		verifAssert("C30-execute-succeeds", err == nil)
		verifAssert("C30-execute-has-no-error", resp.GetError() == "")
		verifAssert("C30-execute-reached-the-connection-once", conn.execs == 1 && conn.queries == 0)
	} else {
		var err error
		q, err = db.VerifC30QueryStmt(context.Background(), stmt, conn)
		verifAssert("C30-query-succeeds", err == nil)
		verifAssert("C30-query-has-no-error", q.Error == "")
		verifAssert("C30-query-reached-the-connection-once", conn.queries == 1 && conn.execs == 0)
	}
	verifAssert("C30-every-parameter-is-bound", len(conn.bound) == len(params))
	if !verifSymbolic() && vcRealBindHook != nil {
		if cells, ok := vcRealBindHook(params); ok {
			same := len(cells) == len(conn.bound)
			for i := 0; same && i < len(cells); i++ {
				same = vcSameCell(cells[i], conn.bound[i].cell)
			}
			verifAssert("C30-stub-agrees-with-sqlite", same)
		}
	}
	return conn.bound, q
}

// VerifC30RoundTrip: a JSON value sent as the parameter of SELECT ? comes back, in every result
// form, as the value that was sent (SQLite in the middle: the bound value is the value of the
// untyped result column). Natively the witness is also bound on a real db.DB.
func VerifC30RoundTrip() {
	tier := verifTier()
	v := vcChooseValue("v", tier)
	w := vcExpect(v)
	if w.mode != weBind {
		return // rejected / ambiguous values: VerifC30Param
	}
	p, err := makeParameter("", vcGo(v))
	verifAssert("C30-bindable-value-is-accepted", err == nil)
	_, q := vcBindThroughEcho([]*proto.Parameter{p}, false, true)
	want := &vcTable{cols: []string{"?1"}, decl: []string{""}, rows: [][]vcCell{{w.cell}}}
	verifAssert("C30-one-value-list-per-row", len(q.Values) == 1)
	vcCheckRead(want, []string{""}, q, tier > 0)
	verifReach("round-trip")
}

// VerifC30Param: one JSON value -> makeParameter -> statement runner -> bound value.
func VerifC30Param() {
	tier := verifTier()
	v := vcChooseValue("v", 1+tier)
	name := ""
	if verifBool("named") {
		name = string(verifBytes("name", 2))
	}
	w := vcExpect(v)
	p, err := makeParameter(name, vcGo(v))
	if w.mode == weReject {
		verifReach("rejected")
		verifAssert("C30-unbindable-value-is-rejected", err != nil)
		return
	}
	verifAssert("C30-bindable-value-is-accepted", err == nil)
	// query path for positional, execute path for named parameters; thorough: both for both
	exec := name != ""
	if tier > 0 {
		exec = verifBool("exec")
	}
	bound := vcBindThrough([]*proto.Parameter{p}, exec)
	vcCheckBound(bound[0], name, w)
	verifReach("bound")
}

// ---- ParseRequest over an abstract request document

type vcItem struct {
	named bool
	names []string // named: the keys of the object
	vals  []jvVal  // positional: one value; named: one per key
}

type vcStmtDoc struct {
	simple bool
	sql    string
	items  []vcItem
}

type vcDocState struct {
	stmts []vcStmtDoc
	phase int // 0 before '[', 1 between statements, 2 inside a parameterized statement, 3 after the final ']'
	pos   int // next statement
	item  int // next item of the current parameterized statement (0 = the SQL string)
}

var vcDoc *vcDocState

var vcErrSyntax = errors.New("json: syntax error (model)")

func vcDecToken(dec *json.Decoder) (json.Token, error) {
	st := vcDoc
	switch st.phase {
	case 0:
		st.phase = 1
		return json.Delim('['), nil
	case 1:
		if st.pos >= len(st.stmts) {
			st.phase = 3
			return json.Delim(']'), nil
		}
		s := &st.stmts[st.pos]
		if s.simple {
			st.pos++
			return s.sql, nil
		}
		st.phase = 2
		st.item = 0
		return json.Delim('['), nil
	case 2:
		s := &st.stmts[st.pos]
		if st.item > len(s.items) {
			st.pos++
			st.phase = 1
			return json.Delim(']'), nil
		}
		verifAssert("C30-model-token-read-inside-a-statement", false)
		return nil, vcErrSyntax
	}
	return nil, io.EOF
}

func vcDecMore(dec *json.Decoder) bool {
	st := vcDoc
	switch st.phase {
	case 0:
		return true
	case 1:
		return st.pos < len(st.stmts)
	case 2:
		return st.item <= len(st.stmts[st.pos].items)
	}
	return false
}

func vcDecDecode(dec *json.Decoder, v any) error {
	st := vcDoc
	p, ok := v.(*any)
	if !ok || st.phase != 2 {
		verifAssert("C30-model-decode-outside-the-modelled-protocol", false)
		return vcErrSyntax
	}
	s := &st.stmts[st.pos]
	if st.item > len(s.items) {
		return vcErrSyntax
	}
	if st.item == 0 {
		*p = s.sql
		st.item++
		return nil
	}
	it := s.items[st.item-1]
	st.item++
	if !it.named {
		*p = vcGo(it.vals[0])
		return nil
	}
	m := map[string]any{}
	for i, k := range it.names {
		m[k] = vcGo(it.vals[i])
	}
	*p = m
	return nil
}

func vcDocText(stmts []vcStmtDoc) string {
	var sb strings.Builder
	sb.WriteString("[")
	for i, s := range stmts {
		if i > 0 {
			sb.WriteString(",")
		}
		if s.simple {
			sb.WriteString(vcQuote(s.sql))
			continue
		}
		sb.WriteString("[" + vcQuote(s.sql))
		for _, it := range s.items {
			sb.WriteString(",")
			if !it.named {
				sb.WriteString(vcJSONText(it.vals[0]))
				continue
			}
			sb.WriteString("{")
			for k := range it.names {
				if k > 0 {
					sb.WriteString(",")
				}
				sb.WriteString(vcQuote(it.names[k]) + ":" + vcJSONText(it.vals[k]))
			}
			sb.WriteString("}")
		}
		sb.WriteString("]")
	}
	sb.WriteString("]")
	return sb.String()
}

// VerifC30Request: a request body with one parameterized statement (positional values, named
// values in one or two objects, mixed) next to a plain one -> ParseRequest -> statement runner.
func VerifC30Request() {
	tier := verifTier()
	var items []vcItem
	nv := 0
	shape := verifChoice("shape", 6)
	mode := 0
	if tier > 0 && (shape == 0 || shape == 2) {
		mode = 1
	}
	val := func() jvVal {
		nv++
		return vcChooseValue(verifName("v", nv), mode)
	}
	switch shape {
	case 0:
		items = []vcItem{{vals: []jvVal{val()}}}
	case 1:
		items = []vcItem{{vals: []jvVal{val()}}, {vals: []jvVal{val()}}}
	case 2:
		items = []vcItem{{named: true, names: []string{"a"}, vals: []jvVal{val()}}}
	case 3:
		items = []vcItem{{named: true, names: []string{"a", "b"}, vals: []jvVal{val(), val()}}}
	case 4:
		items = []vcItem{{vals: []jvVal{val()}}, {named: true, names: []string{"b"}, vals: []jvVal{val()}}}
	case 5:
		items = nil // ["SELECT 1"] in brackets, no parameters
	}
	stmts := []vcStmtDoc{{sql: "INSERT INTO t VALUES(?, ?)", items: items}}
	// quick: the plain statement and the execute path are tied to the shape; thorough: free
	plainFirst, exec := shape%2 == 1, shape >= 3
	if tier > 0 {
		plainFirst, exec = verifBool("plainFirst"), verifBool("exec")
	}
	if plainFirst {
		stmts = append([]vcStmtDoc{{simple: true, sql: "SELECT 1"}}, stmts...)
	}
	vcDoc = &vcDocState{stmts: stmts}

	// what must come out
	type want struct {
		name string
		w    vcWant
	}
	var wants []want
	reject := false
	for _, it := range items {
		for k := range it.vals {
			w := vcExpect(it.vals[k])
			if w.mode == weReject {
				reject = true
			}
			name := ""
			if it.named {
				name = it.names[k]
			}
			wants = append(wants, want{name, w})
		}
	}

	body := ""
	if !verifSymbolic() {
		body = vcDocText(stmts)
	}
	got, err := ParseRequest(strings.NewReader(body))
	if reject {
		verifReach("request-rejected")
		verifAssert("C30-request-with-an-unbindable-value-is-rejected", err != nil)
		return
	}
	verifAssert("C30-request-is-accepted", err == nil)
	verifAssert("C30-statement-count", len(got) == len(stmts))
	idx := 0
	if plainFirst {
		verifAssert("C30-plain-statement-kept", got[0].Sql == "SELECT 1" && len(got[0].Parameters) == 0)
		idx = 1
	}
	st := got[idx]
	verifAssert("C30-sql-kept", st.Sql == "INSERT INTO t VALUES(?, ?)")
	verifAssert("C30-parameter-count", len(st.Parameters) == len(wants))
	if len(wants) == 0 {
		verifReach("no-parameters")
		return
	}
	bound := vcBindThrough(st.Parameters, exec)
	// positional parameters keep their position; the members of an object may come in any order
	pos := 0
	for _, it := range items {
		if !it.named {
			vcCheckBound(bound[pos], "", wants[pos].w)
			pos++
			continue
		}
		for k := range it.names {
			found := -1
			for j := pos; j < pos+len(it.names); j++ {
				if bound[j].name == it.names[k] {
					found = j
				}
			}
			verifAssert("C30-named-parameter-present", found >= 0)
			vcCheckBound(bound[found], it.names[k], wants[pos+k].w)
		}
		pos += len(it.names)
	}
	verifReach("request-bound")
}

// ---------------------------------------------------------------------------------------------
// vacuity twin: same set-up as VerifC30Read, the final claim is false (a stored INTEGER does not
// come back as TEXT)

func VerifC30Twin() {
	t := &vcTable{cols: []string{"x"}, decl: []string{"INTEGER"}}
	t.rows = [][]vcCell{{{class: vcInt, i: verifI64("i")}}}
	conn := &vcConn{table: t}
	q, err := db.VerifC30QueryStmt(context.Background(), &proto.Statement{Sql: "SELECT * FROM t"}, conn)
	verifAssume(err == nil)
	rows, err := encoding.NewRowsFromQueryRows(q, false)
	verifAssume(err == nil)
	_, isText := rows.Values[0][0].(string)
	verifAssert("twin", isText)
}
