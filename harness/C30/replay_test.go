package http

import (
	"fmt"
	"os"
	"path/filepath"
	"regexp"
	"strings"
	"testing"

	"github.com/rqlite/rqlite/v10/command/encoding"
	proto "github.com/rqlite/rqlite/v10/command/proto"
	"github.com/rqlite/rqlite/v10/db"
)

// Native side of C30: the same cases on a real db.DB (real SQLite through go-sqlite3), used by
// the harness during replay to confirm that the SQLite stub agrees with SQLite on the witness,
// and by TestVerifC30Calibrate to compare stub and SQLite on a table of cases.

func init() {
	vcRealHook = vcRealRead
	vcRealBindHook = vcRealBind
}

var vcTypeName = regexp.MustCompile(`^[A-Za-z][A-Za-z ]*(\([0-9]+\))?$`)

func vcScratchDB() (*db.DB, func()) {
	dir, err := os.MkdirTemp("", "verif-c30-")
	if err != nil {
		panic(err)
	}
	d, err := db.Open(filepath.Join(dir, "scratch.db"), false, true)
	if err != nil {
		panic(err)
	}
	return d, func() { d.Close(); os.RemoveAll(dir) }
}

func vcCellParam(c vcCell) *proto.Parameter {
	switch c.class {
	case vcInt:
		return &proto.Parameter{Value: &proto.Parameter_I{I: c.i}}
	case vcReal:
		return &proto.Parameter{Value: &proto.Parameter_D{D: c.f}}
	case vcText:
		return &proto.Parameter{Value: &proto.Parameter_S{S: c.s}}
	case vcBlob:
		return &proto.Parameter{Value: &proto.Parameter_Y{Y: append([]byte{}, c.b...)}}
	}
	return &proto.Parameter{}
}

// vcRealRead stores the table in SQLite and reads it back through the real db.DB. ok=false when
// the case cannot be set up (declared type not a plain type name or one the driver converts,
// value not storable with that class in a column of that affinity).
func vcRealRead(t *vcTable) (*proto.QueryRows, bool) {
	defs := []string{"id INTEGER PRIMARY KEY"}
	for c, name := range t.cols {
		decl := t.decl[c]
		if decl != "" && !vcTypeName.MatchString(decl) {
			return nil, false
		}
		switch strings.ToLower(decl) {
		case "boolean", "date", "datetime", "timestamp":
			return nil, false
		}
		defs = append(defs, strings.TrimSpace(name+" "+decl))
	}
	d, done := vcScratchDB()
	defer done()
	if r, err := d.ExecuteStringStmt("CREATE TABLE t (" + strings.Join(defs, ", ") + ")"); err != nil || r[0].GetError() != "" {
		return nil, false
	}
	marks := strings.TrimSuffix(strings.Repeat("?,", len(t.cols)), ",")
	for _, row := range t.rows {
		stmt := &proto.Statement{Sql: "INSERT INTO t(" + strings.Join(t.cols, ",") + ") VALUES(" + marks + ")"}
		for _, c := range row {
			stmt.Parameters = append(stmt.Parameters, vcCellParam(c))
		}
		r, err := d.Execute(&proto.Request{Statements: []*proto.Statement{stmt}}, false)
		if err != nil || r[0].GetError() != "" {
			return nil, false
		}
	}
	// did SQLite keep the storage classes (column affinity may convert)?
	var tof []string
	for _, name := range t.cols {
		tof = append(tof, "typeof("+name+")")
	}
	q, err := d.QueryStringStmt("SELECT " + strings.Join(tof, ",") + " FROM t ORDER BY id")
	if err != nil || q[0].Error != "" || len(q[0].Values) != len(t.rows) {
		return nil, false
	}
	for r, row := range t.rows {
		ps := q[0].Values[r].GetParameters()
		for c := range row {
			if ps[c].GetS() != vcClassName[row[c].class] {
				return nil, false
			}
		}
	}
	q, err = d.QueryStringStmt("SELECT " + strings.Join(t.cols, ",") + " FROM t ORDER BY id")
	if err != nil || q[0].Error != "" {
		return nil, false
	}
	// is the declared type reported as given?
	for c := range t.cols {
		if t.decl[c] != "" && q[0].Types[c] != strings.ToLower(t.decl[c]) {
			return nil, false
		}
	}
	return q[0], true
}

var vcParamName = regexp.MustCompile(`^[A-Za-z_][A-Za-z0-9_]*$`)

// vcRealBind binds every parameter on its own in SELECT typeof(p), p and reports what SQLite got.
func vcRealBind(params []*proto.Parameter) ([]vcCell, bool) {
	d, done := vcScratchDB()
	defer done()
	var out []vcCell
	for _, p := range params {
		ph := "?1"
		if p.GetName() != "" {
			if !vcParamName.MatchString(p.GetName()) {
				return nil, false
			}
			ph = ":" + p.GetName()
		}
		stmt := &proto.Statement{Sql: "SELECT typeof(" + ph + "), " + ph, Parameters: []*proto.Parameter{p}}
		q, err := d.Query(&proto.Request{Statements: []*proto.Statement{stmt}}, false)
		if err != nil || q[0].Error != "" || len(q[0].Values) != 1 {
			return nil, false
		}
		ps := q[0].Values[0].GetParameters()
		cell := vcCell{class: -1}
		for k, n := range vcClassName {
			if ps[0].GetS() == n {
				cell.class = k
			}
		}
		switch cell.class {
		case vcInt:
			cell.i = ps[1].GetI()
		case vcReal:
			cell.f = ps[1].GetD()
		case vcText:
			cell.s = ps[1].GetS()
		case vcBlob:
			// (a BLOB from an expression comes back as text: the recorded finding; the bytes are the same)
			if y, isY := ps[1].GetValue().(*proto.Parameter_Y); isY {
				cell.b = y.Y
			} else {
				cell.b = []byte(ps[1].GetS())
			}
		}
		out = append(out, cell)
	}
	return out, true
}

// TestVerifC30Calibrate compares the SQLite stub of the harness with SQLite on a table of cases
// (run by hand: VERIF_C30_CAL=1 go test -overlay ... -run TestVerifC30Calibrate ./http), and shows
// the defect end to end (request JSON -> real SQLite -> response JSON).
func TestVerifC30Calibrate(t *testing.T) {
	if os.Getenv("VERIF_C30_CAL") == "" {
		t.Skip()
	}
	cells := []vcCell{
		{class: vcNull}, {class: vcInt, i: -9223372036854775808}, {class: vcInt, i: 9223372036854775807}, {class: vcInt, i: 1},
		{class: vcReal, f: 0.5}, {class: vcReal, f: 1e300}, {class: vcReal, f: 3},
		{class: vcText, s: ""}, {class: vcText, s: "x'ab'"}, {class: vcText, s: "héllo"}, {class: vcText, s: "12"},
		{class: vcBlob, b: []byte{}}, {class: vcBlob, b: []byte{0xff, 0x00, 0xfe}}, {class: vcBlob, b: []byte("abc")},
	}
	set, skipped := 0, 0
	for _, decl := range vcDeclConcrete {
		for _, c := range cells {
			tab := &vcTable{cols: []string{"x"}, decl: []string{decl}, rows: [][]vcCell{{c}, {c}}}
			real, ok := vcRealRead(tab)
			if !ok {
				skipped++
				continue
			}
			set++
			conn := &vcConn{table: tab}
			stub, err := db.VerifC30QueryStmt(t.Context(), &proto.Statement{Sql: "SELECT * FROM t"}, conn)
			if err != nil {
				t.Fatalf("stub query: %v", err)
			}
			if !vcSameRows(real, stub) {
				t.Errorf("decl %q cell %+v: sqlite %v / stub %v", decl, c, real, stub)
			}
		}
	}
	t.Logf("read side: %d cases agree, %d cannot be stored as such in SQLite", set, skipped)

	// bind side
	params := []*proto.Parameter{
		{}, {Value: &proto.Parameter_I{I: -9223372036854775808}}, {Value: &proto.Parameter_D{D: 0.1}}, {Value: &proto.Parameter_B{B: true}},
		{Value: &proto.Parameter_B{B: false}}, {Value: &proto.Parameter_S{S: ""}}, {Value: &proto.Parameter_S{S: "x'ab'"}},
		{Value: &proto.Parameter_Y{Y: []byte{}}}, {Value: &proto.Parameter_Y{Y: nil}}, {Value: &proto.Parameter_Y{Y: []byte{0, 255}}},
		{Name: "n", Value: &proto.Parameter_I{I: 7}},
	}
	for _, p := range params {
		realCells, ok := vcRealBind([]*proto.Parameter{p})
		if !ok {
			t.Fatalf("cannot bind %v", p)
		}
		conn := &vcConn{table: &vcTable{cols: []string{"x"}, decl: []string{""}}}
		if _, err := db.VerifC30QueryStmt(t.Context(), &proto.Statement{Sql: "SELECT ?", Parameters: []*proto.Parameter{p}}, conn); err != nil {
			t.Fatal(err)
		}
		if len(conn.bound) != 1 || !vcSameCell(conn.bound[0].cell, realCells[0]) || conn.bound[0].name != p.GetName() {
			t.Errorf("param %v: sqlite %+v / stub %+v", p, realCells[0], conn.bound)
		}
	}

	// the defect end to end
	stmts, err := ParseRequest(strings.NewReader(`[["SELECT ?, typeof(?1)", "x'ff00fe'"], "SELECT x'ff00fe'"]`))
	if err != nil {
		t.Fatal(err)
	}
	d, done := vcScratchDB()
	defer done()
	q, err := d.Query(&proto.Request{Statements: stmts}, false)
	if err != nil {
		t.Fatal(err)
	}
	for _, arr := range []bool{false, true} {
		enc := encoding.Encoder{BlobsAsByteArrays: arr}
		b, err := enc.JSONMarshal(q)
		if err != nil {
			t.Fatal(err)
		}
		fmt.Printf("blob_array=%v: %s\n", arr, b)
	}
}
