package http

// C23: queued writes are applied in order and none are dropped.
//
// The real (*Service).queuedExecute (the HTTP handler of the queued-write path), the real
// (*Service).runQueue (the single consumer that applies batches, with its retry loop) and the real
// queue.Queue between them are driven by a schedule of actions chosen by the engine. Handlers run
// on three worker goroutines commanded from the harness main loop (a waiting handler stays parked
// inside queuedExecute); after every action the harness waits until every goroutine is parked
// (verifSettle), so the native replay under testing/synctest follows the same schedule.
//
// Environment (all ordinary Go behind the interfaces the code already takes):
//   * http.Store: only Leader() (the "is a leader known" check made at acceptance);
//   * proxy.Proxy (real) over a model proxy.Store and a model proxy.Cluster: every Execute attempt
//     is recorded; its outcome is chosen by the engine among: applied locally, local node is not the
//     leader and the leader applied it, not leader and no leader known, not leader and the leader
//     refused, local failure ("leadership lost while committing log"). A failed attempt applies
//     nothing. Failures are bounded (at most 2 in a row for one batch, a total budget per run), so
//     a leader is reachable again after finitely many attempts;
//   * http.ResponseWriter / request body: harness types. The writer remembers, at the instant the
//     handler writes its reply, how much had been applied and the "last sequence number written OK";
//   * model clock: the queue timeout (100 ms), the retry delay of runQueue and the wait timeout of
//     the handler move only when the harness advances the clock.
//
// The oracle is written from the property statement:
//   * acceptance order is command order (a handler that was commanded after another one had come to
//     rest - replied, or parked waiting for its batch - is accepted after it); two handlers
//     commanded at the same instant are ordered by the sequence numbers they report;
//   * the statements of the successful Execute attempts, concatenated, are at every instant a
//     prefix of, and once the consumer has had time equal to, the accepted statements in acceptance
//     order (so: each request contiguous and in its own order, nothing dropped, duplicated or
//     reordered, nothing from a refused request);
//   * every successfully applied batch is made of whole requests;
//   * an attempt that failed is followed by an attempt with the same statements (never skipped,
//     never overtaken by a later batch);
//   * a handler asked to wait replies with success only when its statements are applied, and then
//     the service's "last sequence number written OK" is not below the number it reports; if its
//     wait times out it does not report success, and its statements are still applied later;
//   * a handler not asked to wait replies at once; sequence numbers reported grow with acceptance
//     order; after the drain the "last sequence number written OK" is that of the last request.

import (
	"context"
	"errors"
	"io"
	"log"
	"net"
	"net/http"
	"sync/atomic"
	"time"

	clstrPB "github.com/rqlite/rqlite/v10/cluster/proto"
	command "github.com/rqlite/rqlite/v10/command/proto"
	"github.com/rqlite/rqlite/v10/proxy"
	"github.com/rqlite/rqlite/v10/queue"
	"github.com/rqlite/rqlite/v10/store"
)

const (
	vqQueueTimeout = 100 * time.Millisecond
	vqSecond       = int64(time.Second)
	vqLeaderAddr   = "leader:4002"
)

// ---------------------------------------------------------------------------------------------
// requests, replies

type vqReq struct {
	id       int
	sqls     []string
	wait     bool
	timeout  string // value of the timeout query parameter ("" = none)
	noLeader bool   // commanded while the store knew no leader: must be refused
	group    int    // requests commanded at the same instant share a group
	cmdAt    int64

	returned bool
	placed   bool
	retAt    int64
	w        *vqWriter
	seq      int64 // sequence number found in the reply (0: none)
}

// vqBody is the request body. Natively the real ParseRequest reads the JSON text from it; in the
// engine ParseRequest is replaced by vqParseRequest (encoding/json is reflection-based), which
// takes the statements from the same object. ParseRequest itself is decided by C30.
type vqBody struct {
	sqls []string
	text []byte
	off  int
}

func vqNewBody(sqls []string) *vqBody {
	b := &vqBody{sqls: sqls}
	b.text = append(b.text, '[')
	for i, s := range sqls {
		if i > 0 {
			b.text = append(b.text, ',')
		}
		b.text = append(b.text, '"')
		b.text = append(b.text, s...)
		b.text = append(b.text, '"')
	}
	b.text = append(b.text, ']')
	return b
}

func (b *vqBody) Read(p []byte) (int, error) {
	if b.off >= len(b.text) {
		return 0, vqEOF
	}
	n := copy(p, b.text[b.off:])
	b.off += n
	return n, nil
}
func (b *vqBody) Close() error { return nil }

var vqEOF = errors.New("EOF")

// vqParseRequest: engine-side stand-in for ParseRequest on a body made of plain string statements.
func vqParseRequest(r io.Reader) ([]*command.Statement, error) {
	b, ok := r.(*vqBody)
	if !ok {
		return nil, ErrInvalidJSON
	}
	if len(b.sqls) == 0 {
		return nil, ErrNoStatements
	}
	var stmts []*command.Statement
	for _, s := range b.sqls {
		stmts = append(stmts, &command.Statement{Sql: s})
	}
	return stmts, nil
}

// vqJSONMarshal: engine-side stand-in for json.Marshal of the handler's *Response (the only value
// marshalled on this path): the same text the real one produces for a reply without results.
func vqJSONMarshal(v any) ([]byte, error) {
	r, ok := v.(*Response)
	if !ok {
		return nil, errors.New("vqJSONMarshal: unexpected value")
	}
	out := []byte(`{"results":[]`)
	if r.SequenceNum != 0 {
		out = append(out, `,"sequence_number":`...)
		out = append(out, vqItoa(r.SequenceNum)...)
	}
	out = append(out, '}')
	return out, nil
}

func vqItoa(n int64) []byte {
	if n == 0 {
		return []byte{'0'}
	}
	neg := n < 0
	if neg {
		n = -n
	}
	var tmp [24]byte
	i := len(tmp)
	for n > 0 {
		i--
		tmp[i] = byte('0' + n%10)
		n /= 10
	}
	if neg {
		i--
		tmp[i] = '-'
	}
	return append([]byte{}, tmp[i:]...)
}

// vqSeqOf extracts the value of "sequence_number" from a reply body (0 if absent).
func vqSeqOf(body []byte) int64 {
	key := `"sequence_number":`
	for i := 0; i+len(key) <= len(body); i++ {
		if string(body[i:i+len(key)]) != key {
			continue
		}
		var n int64
		for j := i + len(key); j < len(body) && body[j] >= '0' && body[j] <= '9'; j++ {
			n = n*10 + int64(body[j]-'0')
		}
		return n
	}
	return 0
}

// vqWriter is the http.ResponseWriter of one handler call.
type vqWriter struct {
	h    *vqH
	hdr  http.Header
	code int
	body []byte

	replied        bool
	appliedAtReply int   // statements applied at the instant of the reply
	seqAtReply     int64 // the service's "last sequence number written OK" at that instant
}

func (w *vqWriter) mark() {
	if !w.replied {
		w.replied = true
		w.appliedAtReply = len(w.h.applied)
		w.seqAtReply = atomic.LoadInt64(&w.h.s.seqNum)
	}
}
func (w *vqWriter) Header() http.Header { return w.hdr }
func (w *vqWriter) WriteHeader(code int) {
	w.mark()
	if w.code == 0 {
		w.code = code
	}
}
func (w *vqWriter) Write(p []byte) (int, error) {
	w.mark()
	if w.code == 0 {
		w.code = http.StatusOK
	}
	w.body = append(w.body, p...)
	return len(p), nil
}

// ---------------------------------------------------------------------------------------------
// environment models

type vqAddr struct{}

func (vqAddr) Network() string { return "tcp" }
func (vqAddr) String() string  { return "node:4001" }

type vqListener struct{ net.Listener }

func (vqListener) Addr() net.Addr { return vqAddr{} }

// vqStore is the http.Store: only Leader() is used on this path.
type vqStore struct {
	Store
	h *vqH
}

func (s *vqStore) Leader() (*store.Server, error) {
	if !s.h.leaderKnown {
		return &store.Server{}, nil
	}
	return &store.Server{ID: "1", Addr: vqLeaderAddr}, nil
}

type vqAttempt struct {
	sqls   []string
	tx     bool
	at     int64
	ok     bool
	remote bool   // applied by the leader
	addr   string // node the cluster client was pointed at
	fwd    int    // what the leader will answer if asked
	leader string // what the local store says about the leader
}

const (
	vqOutLocal = iota
	vqOutForwarded
	vqOutNoLeader
	vqOutLeaderRefuses
	vqOutLocalFailure
	vqOutN
)

// vqPStore is the proxy.Store.
type vqPStore struct {
	proxy.Store
	h *vqH
}

func (p *vqPStore) Execute(ctx context.Context, er *command.ExecuteRequest) ([]*command.ExecuteQueryResponse, uint64, error) {
	h := p.h
	a := &vqAttempt{at: verifClock(), tx: er.Request.Transaction, leader: vqLeaderAddr}
	for _, st := range er.Request.Statements {
		a.sqls = append(a.sqls, st.Sql)
	}
	h.attempts = append(h.attempts, a)
	// whether the attempt fails is chosen by the engine; in which way it fails / succeeds is a
	// function of its position in the run (runQueue only tells the kinds apart for its log)
	fail := false
	if h.budget > 0 && h.batchFails < 2 {
		fail = verifChoice(verifName("fail", len(h.attempts)), 2) == 1
	}
	mix := len(h.attempts) + len(h.reqs) + h.batchSize + h.kindShift
	k := vqOutLocal + mix%2
	if fail {
		k = vqOutNoLeader + mix%3
	}
	switch k {
	case vqOutForwarded:
		a.fwd = 1
		return nil, 0, store.ErrNotLeader
	case vqOutNoLeader:
		a.leader = ""
		h.failed()
		return nil, 0, store.ErrNotLeader
	case vqOutLeaderRefuses:
		h.failed()
		return nil, 0, store.ErrNotLeader
	case vqOutLocalFailure:
		h.failed()
		return nil, 0, errors.New("leadership lost while committing log")
	}
	h.apply(a)
	return nil, 1, nil
}

func (p *vqPStore) LeaderAddr() (string, error) {
	return p.h.attempts[len(p.h.attempts)-1].leader, nil
}

// vqCluster is the proxy.Cluster.
type vqCluster struct {
	proxy.Cluster
	h *vqH
}

func (c *vqCluster) Execute(ctx context.Context, er *command.ExecuteRequest, nodeAddr string, creds *clstrPB.Credentials,
	timeout time.Duration, retries int) ([]*command.ExecuteQueryResponse, uint64, error) {
	a := c.h.attempts[len(c.h.attempts)-1]
	a.addr = nodeAddr
	if a.fwd == 1 {
		a.remote = true
		c.h.apply(a)
		return nil, 1, nil
	}
	return nil, 0, errors.New("not leader")
}

// ---------------------------------------------------------------------------------------------
// the harness

type vqWorker struct {
	cmd  chan *vqReq
	busy bool
}

type vqH struct {
	s         *Service
	batchSize int
	ws        []*vqWorker
	reqs      []*vqReq // in command order
	groups    int
	attempts  []*vqAttempt
	applied   []string // statements of the successful attempts, concatenated

	budget      int // failures the environment may still produce
	batchFails  int // failures in a row
	leaderKnown bool
	nextStmt    int
	kindShift   int // varies the kinds of outcome between runs
}

func (h *vqH) failed() {
	h.budget--
	h.batchFails++
}

func (h *vqH) apply(a *vqAttempt) {
	a.ok = true
	h.batchFails = 0
	h.applied = append(h.applied, a.sqls...)
}

func vqNew(batchSize, budget, workers int) *vqH {
	h := &vqH{batchSize: batchSize, budget: budget, leaderKnown: true}
	s := &Service{
		closeCh:             make(chan struct{}),
		queueDone:           make(chan struct{}),
		ln:                  vqListener{},
		DefaultQueueCap:     16,
		DefaultQueueBatchSz: batchSize,
		DefaultQueueTimeout: vqQueueTimeout,
		DefaultQueueTx:      true,
		logger:              log.New(io.Discard, "", 0),
	}
	s.store = &vqStore{h: h}
	s.proxy = proxy.New(&vqPStore{h: h}, &vqCluster{h: h})
	h.s = s
	// as (*Service).Start does
	s.stmtQueue = queue.New[*command.Statement](s.DefaultQueueCap, s.DefaultQueueBatchSz, s.DefaultQueueTimeout)
	verifSettle()
	verifAdvanceClock(1) // lets the initial zero timer of the queue fire under every clock implementation
	verifSettle()
	go s.runQueue()
	verifSettle()
	for i := 0; i < workers; i++ {
		w := &vqWorker{cmd: make(chan *vqReq)}
		h.ws = append(h.ws, w)
		go h.work(w)
		verifSettle()
	}
	return h
}

func (h *vqH) work(w *vqWorker) {
	for r := range w.cmd {
		qp := QueryParams{"queue": ""}
		if r.wait {
			qp["wait"] = ""
		}
		if r.timeout != "" {
			qp["timeout"] = r.timeout
		}
		req := &http.Request{Method: "POST", Body: vqNewBody(r.sqls)}
		h.s.queuedExecute(r.w, req, qp)
		r.retAt = verifClock()
		r.returned = true
		w.busy = false
	}
}

// cleanup lets the goroutines of a native replay finish.
func (h *vqH) cleanup() {
	if verifSymbolic() {
		return
	}
	close(h.s.closeCh)
	for _, w := range h.ws {
		close(w.cmd)
	}
	verifSettle()
	verifAdvanceClock(2 * vqSecond)
	verifSettle()
	h.s.stmtQueue.Close()
	verifAdvanceClock(40 * vqSecond) // handlers still waiting give up
	verifSettle()
}

func (h *vqH) idleWorker() *vqWorker {
	for _, w := range h.ws {
		if !w.busy {
			return w
		}
	}
	return nil
}

func (h *vqH) idleWorkers() int {
	n := 0
	for _, w := range h.ws {
		if !w.busy {
			n++
		}
	}
	return n
}

func (h *vqH) newReq(n int, wait bool, timeout string) *vqReq {
	r := &vqReq{id: len(h.reqs), wait: wait, timeout: timeout, cmdAt: verifClock(), noLeader: !h.leaderKnown}
	for j := 0; j < n; j++ {
		h.nextStmt++
		r.sqls = append(r.sqls, "INSERT INTO t VALUES("+string(vqItoa(int64(h.nextStmt)))+")")
	}
	r.w = &vqWriter{h: h, hdr: http.Header{}}
	h.reqs = append(h.reqs, r)
	return r
}

// command hands the requests to idle workers at the same instant.
func (h *vqH) command(rs ...*vqReq) {
	h.groups++
	for _, r := range rs {
		r.group = h.groups
		w := h.idleWorker()
		w.busy = true
		w.cmd <- r
	}
	verifSettle()
	h.observe()
}

func vqIndex(xs []string, x string) int {
	for i, s := range xs {
		if s == x {
			return i
		}
	}
	return -1
}

// accepted: the request's statements were taken into the queue.
func (r *vqReq) accepted() bool { return !r.noLeader }

// expected lists the accepted requests in acceptance order; ok is false while the order of two
// requests commanded at the same instant is not known yet (one of them has not replied).
func (h *vqH) expected() (out []*vqReq, ok bool) {
	ok = true
	for i := 0; i < len(h.reqs); i++ {
		r := h.reqs[i]
		if !r.accepted() {
			continue
		}
		if i+1 < len(h.reqs) && h.reqs[i+1].group == r.group {
			r2 := h.reqs[i+1]
			i++
			if r.seq == 0 || r2.seq == 0 {
				ok = false
				out = append(out, r, r2)
			} else if r.seq < r2.seq {
				out = append(out, r, r2)
			} else {
				verifReach("concurrent-pair-accepted-in-reverse")
				out = append(out, r2, r)
			}
			continue
		}
		out = append(out, r)
	}
	return out, ok
}

// observe is called whenever every goroutine is parked.
func (h *vqH) observe() {
	for _, r := range h.reqs {
		if !r.returned {
			// still inside the handler: only a handler asked to wait may be
			verifAssert("C23-nowait-replies-at-once", r.wait && !r.noLeader)
			verifAssert("C23-waiting-handler-has-not-replied", !r.w.replied)
			continue
		}
		if r.placed {
			continue
		}
		r.placed = true
		w := r.w
		if r.noLeader {
			verifReach("refused-no-leader")
			verifAssert("C23-no-leader-refused", w.code == http.StatusServiceUnavailable)
			continue
		}
		r.seq = vqSeqOf(w.body)
		if w.code != http.StatusOK {
			// the only other outcome of an accepted request: its wait timed out
			verifReach("wait-timed-out")
			verifAssert("C23-accepted-request-status", r.wait && r.timeout != "" && w.code == http.StatusRequestTimeout)
			d, _ := time.ParseDuration(r.timeout)
			verifAssert("C23-wait-timeout-not-early", r.retAt-r.cmdAt >= int64(d))
			continue
		}
		verifAssert("C23-reply-has-sequence-number", r.seq > 0)
		if r.wait {
			verifReach("wait-replied-ok")
			for _, q := range r.sqls {
				verifAssert("C23-wait-replies-only-after-apply", vqIndex(h.applied[:w.appliedAtReply], q) >= 0)
			}
			verifAssert("C23-last-seq-written-covers-waiter", w.seqAtReply >= r.seq)
		} else if w.appliedAtReply < len(h.applied) || vqIndex(h.applied, r.sqls[0]) < 0 {
			verifReach("nowait-replied-before-apply")
		}
	}
	// sequence numbers grow with acceptance order
	exp, known := h.expected()
	var last int64
	for _, r := range exp {
		if r.seq != 0 {
			verifAssert("C23-sequence-numbers-follow-acceptance-order", r.seq > last)
			last = r.seq
		}
	}
	// what has been applied is a prefix of what was accepted, in acceptance order
	if known {
		var want []string
		for _, r := range exp {
			want = append(want, r.sqls...)
		}
		verifAssert("C23-nothing-applied-that-was-not-accepted", len(h.applied) <= len(want))
		for i := range h.applied {
			verifAssert("C23-applied-in-acceptance-order", h.applied[i] == want[i])
		}
	}
	// retry discipline over the attempts made so far
	for i, a := range h.attempts {
		verifAssert("C23-batch-in-default-transaction-mode", a.tx == h.s.DefaultQueueTx)
		if a.fwd == 1 {
			// the leader was reachable: the batch went to it
			verifReach("applied-by-the-leader")
			verifAssert("C23-forwarded-to-the-leader", a.remote && a.ok && a.addr == vqLeaderAddr)
		}
		if i == 0 || h.attempts[i-1].ok {
			continue
		}
		p := h.attempts[i-1]
		verifReach("retried-after-failure")
		verifAssert("C23-failed-batch-retried-unchanged", len(a.sqls) == len(p.sqls))
		for j := range a.sqls {
			verifAssert("C23-failed-batch-retried-unchanged", a.sqls[j] == p.sqls[j])
		}
	}
}

func (h *vqH) allApplied() bool {
	n := 0
	for _, r := range h.reqs {
		if r.accepted() {
			n += len(r.sqls)
		}
	}
	return len(h.applied) >= n
}

const (
	vqActOne     = iota // 1 statement, wait
	vqActTwo            // 2 statements, no wait
	vqActBoth           // at the same instant: 1 statement no wait, 2 statements wait
	vqActTick           // the queue timeout passes
	vqActSecond         // the retry delay passes
	vqActRefused        // 1 statement, no wait, while no leader is known
	vqActShort          // 1 statement, wait with a 1.5 s timeout
)

func (h *vqH) enabled(short bool) []int {
	var acts []int
	n := h.idleWorkers()
	if n >= 1 {
		acts = append(acts, vqActOne, vqActTwo)
	}
	if n >= 2 {
		acts = append(acts, vqActBoth)
	}
	acts = append(acts, vqActTick, vqActSecond)
	if n >= 1 {
		acts = append(acts, vqActRefused)
		if short {
			acts = append(acts, vqActShort)
		}
	}
	return acts
}

func (h *vqH) step(act int) {
	switch act {
	case vqActOne:
		h.command(h.newReq(1, true, ""))
	case vqActTwo:
		h.command(h.newReq(2, false, ""))
	case vqActBoth:
		h.command(h.newReq(1, false, ""), h.newReq(2, true, ""))
	case vqActRefused:
		h.leaderKnown = false
		r := h.newReq(1, false, "")
		h.command(r)
		h.leaderKnown = true
	case vqActShort:
		h.command(h.newReq(1, true, "1500ms"))
	case vqActTick:
		verifAdvanceClock(int64(vqQueueTimeout))
		verifSettle()
		h.observe()
	case vqActSecond:
		verifAdvanceClock(vqSecond)
		verifSettle()
		h.observe()
	}
}

// finish gives the consumer time (the environment's failures are bounded, so a leader is
// reachable after finitely many retries), then everything accepted must be applied.
func (h *vqH) finish() {
	for i := 0; i < 8; i++ {
		if h.allApplied() && h.idleWorkers() == len(h.ws) {
			break
		}
		verifAdvanceClock(vqSecond)
		verifSettle()
		h.observe()
	}
	for _, r := range h.reqs {
		verifAssert("C23-every-handler-replied", r.returned && r.placed)
	}
	exp, known := h.expected()
	verifAssert("C23-acceptance-order-known", known)
	var want []string
	for _, r := range exp {
		want = append(want, r.sqls...)
	}
	verifAssert("C23-none-dropped", len(h.applied) == len(want))
	for i := range want {
		verifAssert("C23-applied-in-acceptance-order", h.applied[i] == want[i])
	}
	// every applied batch is made of whole requests, at most batchSize of them
	k, off := 0, 0
	for _, a := range h.attempts {
		if !a.ok {
			continue
		}
		verifAssert("C23-no-empty-batch", len(a.sqls) > 0)
		end, n := off+len(a.sqls), 0
		for off < end && k < len(exp) {
			off += len(exp[k].sqls)
			k++
			n++
		}
		verifAssert("C23-batch-is-whole-requests", off == end)
		verifAssert("C23-batch-bounded-by-batch-size", n <= h.batchSize)
		if n >= 2 {
			verifReach("two-requests-in-one-batch")
		}
	}
	verifAssert("C23-last-attempt-succeeded", len(h.attempts) == 0 || h.attempts[len(h.attempts)-1].ok)
	// "last sequence number written OK"
	if len(exp) > 0 {
		if l := exp[len(exp)-1]; l.seq != 0 {
			verifAssert("C23-last-seq-written-is-the-last-request", atomic.LoadInt64(&h.s.seqNum) == l.seq)
		}
	} else {
		verifAssert("C23-last-seq-written-is-the-last-request", atomic.LoadInt64(&h.s.seqNum) == 0)
	}
}

func vqRun(steps, batchSize, budget int, short bool) {
	verifPanicsAreViolations()
	h := vqNew(batchSize, budget, 3)
	defer h.cleanup()
	for s := 0; s < steps; s++ {
		acts := h.enabled(short)
		a := acts[verifChoice(verifName("act", s), len(acts))%len(acts)]
		h.kindShift += a
		h.step(a)
	}
	h.finish()
}

// VerifC23Schedule: every schedule of K actions, batch size 1..2, every placement of the
// environment's failures.
func VerifC23Schedule() {
	k, budget := 2, 2
	if verifTier() == 1 {
		k, budget = 3, 2
	}
	batchSize := 1 + verifChoice("batchSize", 2)
	vqRun(k, batchSize, budget, false)
}

// VerifC23Timeout: a handler whose wait times out while its batch is being retried.
func VerifC23Timeout() {
	verifPanicsAreViolations()
	batchSize := 1 + verifChoice("batchSize", 2)
	h := vqNew(batchSize, 2, 3)
	defer h.cleanup()
	h.step(vqActShort)
	acts := []int{vqActTwo, vqActTick, vqActSecond, vqActOne}
	h.step(acts[verifChoice("act0", len(acts))])
	if verifTier() == 1 {
		h.step(acts[verifChoice("act1", len(acts))])
	}
	h.finish()
}

// VerifC23Preempt: short schedules in which the executor may also take the processor away from a
// running goroutine at one of its synchronisation operations (inside queuedExecute / runQueue /
// the queue), not only between whole operations.
func VerifC23Preempt() {
	batchSize := 1 + verifChoice("batchSize", 2)
	vqRun(1+verifTier(), batchSize, 1, false)
}

// VerifC23Twin: same machinery, final assertion must fail.
func VerifC23Twin() {
	h := vqNew(1, 0, 3)
	defer h.cleanup()
	h.step(vqActOne)
	h.step(vqActTick)
	verifAssert("twin", len(h.applied) == 0)
}
