#!/bin/bash
# Runs the native drivers of C18b (TestVerifC18bNative*) against ${VERIF_REPO:-/repo} with the harness overlaid.
set -e
export GOFLAGS=-mod=mod GOPROXY=off GOSUMDB=off GOTOOLCHAIN=local PATH=/opt/veriftools/go1.26.8/bin:$PATH
R=${VERIF_REPO:-/repo}
H=/verif/harness/C18b
T=$(mktemp -d)
trap 'rm -rf $T' EXIT
sed 's/^package PKG/package http/' /verif/harness/api/api.go.txt > $T/api.go
cat > $T/overlay.json <<EOJ
{"Replace":{"$R/http/zz_verif_harness.go":"$H/harness.go",
"$R/http/zz_verif_api.go":"$T/api.go",
"$R/http/zz_verif_native_test.go":"$H/native_test.go",
"$R/queue/zz_verif_extra.go":"$H/export_queue.go.txt"}}
EOJ
cd $R && go test -vet=off -count=1 -overlay $T/overlay.json -run "${RUN:-^TestVerifC18bNative}" -v ./http 2>&1 | tail -${TAIL:-25}
