package http

// C18 "Every endpoint and inter-node request enforces its permission" - the HTTP half.
//
// Code under test, run from its real source: (*Service).ServeHTTP, NewQueryParams, every handler
// ServeHTTP dispatches to, CheckRequestPerm, CheckRequestPermAll, DoRedirect, FormRedirect,
// makeCredentials (http/service.go), the real proxy.Proxy in front of the store (proxy/proxy.go)
// and the real net/http helpers (Request.BasicAuth, http.Error, http.Redirect, Header).
//
// The harness is the client and the rest of the node:
//
//   - vhRW (http.ResponseWriter): records the status and every body byte;
//   - vhCreds (http.CredentialStore): answers every permission with a symbolic verdict and records
//     user, password and permission string;
//   - vhStore (http.Store), vhCluster (http.Cluster), vhPStore (proxy.Store), vhPCluster
//     (proxy.Cluster), vhUI (the console handler), an idle statement queue: record every call.
//
// All of them append to ONE ordered log. Oracle (table vhEndpoints, transcribed from the permission
// names documented for the credentials file and the API documentation of each endpoint): whatever
// the service does to the store, the cluster, the queue, the console handler or the response body
// while handling a request is preceded by GRANTED checks of exactly the permissions the endpoint
// requires, made with the user and password the request carries; a request whose check is refused
// is answered 401 (or 403) and nothing else happens.

import (
	"bytes"
	"context"
	"encoding/base64"
	"encoding/json"
	"errors"
	"expvar"
	"io"
	"log"
	"net"
	"net/http"
	"net/url"
	"strings"
	"time"

	clstrPB "github.com/rqlite/rqlite/v10/cluster/proto"
	command "github.com/rqlite/rqlite/v10/command/proto"
	"github.com/rqlite/rqlite/v10/proxy"
	"github.com/rqlite/rqlite/v10/queue"
	"github.com/rqlite/rqlite/v10/store"
	rsql "github.com/rqlite/sql"
)

// ---------------------------------------------------------------------------
// the oracle's own table

// permission names as documented for the credentials file
const (
	vhPermExecute  = "execute"
	vhPermQuery    = "query"
	vhPermLoad     = "load"
	vhPermBackup   = "backup"
	vhPermSnapshot = "snapshot"
	vhPermStatus   = "status"
	vhPermReady    = "ready"
	vhPermRemove   = "remove"
	vhPermLeaderOp = "leader-ops"
	vhPermUI       = "ui"
)

const (
	vhEpNone         = iota // not an endpoint: 404
	vhEpRoot                // "/": static redirect to the console. Deliberately without permission.
	vhEpConsoleRedir        // "/console": static redirect to "/console/". Deliberately without permission.
	vhEpUI
	vhEpExecute
	vhEpQuery
	vhEpRequest
	vhEpBackup
	vhEpLoad
	vhEpSQL
	vhEpBoot
	vhEpSnapshot
	vhEpReap
	vhEpRemove
	vhEpStatus
	vhEpNodes
	vhEpLeader
	vhEpReadyz
	vhEpLicenses
	vhEpVars
	vhEpPprof
)

type vhEndpoint struct {
	name  string
	perms []string // ALL of them are required; nil: the endpoint needs no permission
	major []string // the calls the endpoint stands for
	canon []string // the methods it is documented for (nil: any)
	want  string   // the call a well-formed request leads to when everything succeeds ("": none)
}

var vhEndpoints = []vhEndpoint{
	vhEpNone:         {name: "none"},
	vhEpRoot:         {name: "/"},
	vhEpConsoleRedir: {name: "/console"},
	vhEpUI:           {name: "/console/", perms: []string{vhPermUI}, major: []string{"ui"}, canon: []string{"GET", "HEAD"}, want: "ui"},
	vhEpExecute:      {name: "/db/execute", perms: []string{vhPermExecute}, major: []string{"db.Execute", "fwd.Execute", "queue.Write"}, canon: []string{"POST"}, want: "db.Execute"},
	vhEpQuery:        {name: "/db/query", perms: []string{vhPermQuery}, major: []string{"db.Query", "fwd.Query"}, canon: []string{"GET", "POST"}, want: "db.Query"},
	vhEpRequest:      {name: "/db/request", perms: []string{vhPermQuery, vhPermExecute}, major: []string{"db.Request", "fwd.Request"}, canon: []string{"POST"}, want: "db.Request"},
	vhEpBackup:       {name: "/db/backup", perms: []string{vhPermBackup}, major: []string{"db.Backup", "fwd.Backup"}, canon: []string{"GET"}, want: "db.Backup"},
	vhEpLoad:         {name: "/db/load", perms: []string{vhPermLoad}, major: []string{"db.Load", "fwd.Load", "db.Execute", "fwd.Execute"}, canon: []string{"POST"}, want: "db.Load"},
	vhEpSQL:          {name: "/db/sql", perms: []string{vhPermQuery}, canon: []string{"POST"}},
	vhEpBoot:         {name: "/boot", perms: []string{vhPermLoad}, major: []string{"store.ReadFrom"}, canon: []string{"POST"}, want: "store.ReadFrom"},
	vhEpSnapshot:     {name: "/snapshot", perms: []string{vhPermSnapshot}, major: []string{"store.Snapshot"}, canon: []string{"POST"}, want: "store.Snapshot"},
	vhEpReap:         {name: "/reap", perms: []string{vhPermSnapshot}, major: []string{"store.Reap"}, canon: []string{"POST"}, want: "store.Reap"},
	vhEpRemove:       {name: "/remove", perms: []string{vhPermRemove}, major: []string{"db.Remove", "fwd.Remove"}, canon: []string{"DELETE"}, want: "db.Remove"},
	vhEpStatus:       {name: "/status", perms: []string{vhPermStatus}, major: []string{"store.Stats", "cluster.Stats"}, canon: []string{"GET"}, want: "store.Stats"},
	vhEpNodes:        {name: "/nodes", perms: []string{vhPermStatus}, major: []string{"store.Nodes"}, canon: []string{"GET"}, want: "store.Nodes"},
	vhEpLeader:       {name: "/leader", perms: []string{vhPermLeaderOp}, major: []string{"db.Stepdown", "fwd.Stepdown"}, canon: []string{"GET", "POST"}},
	vhEpReadyz:       {name: "/readyz", perms: []string{vhPermReady}, major: []string{"store.Ready", "store.Committed", "db.Query", "fwd.Query"}, canon: []string{"GET"}},
	vhEpLicenses:     {name: "/licenses", perms: []string{vhPermStatus}, canon: []string{"GET"}},
	vhEpVars:         {name: "/debug/vars", perms: []string{vhPermStatus}},
	vhEpPprof:        {name: "/debug/pprof", perms: []string{vhPermStatus}},
}

// vhMinor: look-ups any authorized request may cause (leader discovery for forwarding/redirects).
func vhMinor(what string) bool {
	return what == "store.Leader" || what == "cluster.GetNodeMeta" || what == "db.LeaderAddr"
}

func vhIn(list []string, s string) bool {
	for _, x := range list {
		if x == s {
			return true
		}
	}
	return false
}

// vhPath: a request path, the endpoint the documentation assigns it to, and whether that assignment
// is beyond doubt (strict). For the others (a documented path with something appended, a different
// case) "not found, nothing done" is accepted as well as treatment as endpoint ep.
type vhPath struct {
	path   string
	ep     int
	strict bool
}

var vhPaths = []vhPath{
	{"/", vhEpRoot, true},
	{"/console", vhEpConsoleRedir, true},
	{"/console/", vhEpUI, true},
	{"/console/index.html", vhEpUI, true},
	{"/db/execute", vhEpExecute, true},
	{"/db/query", vhEpQuery, true},
	{"/db/request", vhEpRequest, true},
	{"/db/backup", vhEpBackup, true},
	{"/db/load", vhEpLoad, true},
	{"/db/sql", vhEpSQL, true},
	{"/boot", vhEpBoot, true},
	{"/snapshot", vhEpSnapshot, true},
	{"/reap", vhEpReap, true},
	{"/remove", vhEpRemove, true},
	{"/status", vhEpStatus, true},
	{"/nodes", vhEpNodes, true},
	{"/leader", vhEpLeader, true},
	{"/readyz", vhEpReadyz, true},
	{"/licenses", vhEpLicenses, true},
	{"/debug/vars", vhEpVars, true},
	{"/debug/pprof/", vhEpPprof, true},
	{"/debug/pprof/cmdline", vhEpPprof, true},
	{"/debug/pprof/symbol", vhEpPprof, true},
	{"/unknown", vhEpNone, true},
	{"/db", vhEpNone, true},
	// not beyond doubt
	{"", vhEpRoot, false},
	{"/db/executex", vhEpExecute, false},
	{"/db/query/", vhEpQuery, false},
	{"/db/backup.sqlite", vhEpBackup, false},
	{"/status/x", vhEpStatus, false},
	{"/remove/n1", vhEpRemove, false},
	{"/readyz/live", vhEpReadyz, false},
	{"/nodes/", vhEpNodes, false},
	{"/consolex", vhEpUI, false},
	{"/boot/", vhEpBoot, false},
	{"/leader/", vhEpLeader, false},
	{"/snapshot/", vhEpSnapshot, false},
	{"/reap/", vhEpReap, false},
	{"/licenses/", vhEpLicenses, false},
	{"/debug/vars/", vhEpVars, false},
	{"/DB/EXECUTE", vhEpExecute, false},
	// thorough tier only (natively this one profiles the process for a second)
	{"/debug/pprof/profile", vhEpPprof, true},
}

const vhQuickPaths = 41

var vhMethods = []string{"GET", "POST", "DELETE", "HEAD", "PUT", "OPTIONS"}

// ---------------------------------------------------------------------------
// requests

const (
	vhCredNone      = iota // no Authorization header
	vhCredBasic            // Authorization: Basic base64(user:pass)
	vhCredMalformed        // an Authorization header that is not valid Basic authentication
)

const (
	vhSQLWrite = "INSERT INTO secrets VALUES(1)"
	vhSQLRead  = "SELECT * FROM secrets"
)

var vhSQLiteImage = []byte("SQLite format 3\x00\x10\x00\x01\x01\x00\x40\x20\x20\x00\x00\x00\x01\x00\x00\x00\x02 the rest of the file")

type vhReq struct {
	path   vhPath
	method string
	query  string
	cred   int
	user   string // what a permission check has to be made with
	pass   string
	ctype  string
	body   []byte
	sql    string // the statement the request carries ("" none)
	nodeID string
	// canonical: a well-formed request of a documented method in an environment where everything
	// succeeds: if authorized it has to be carried out
	canonical bool
}

// vhBodyFor: a well-formed body for endpoint ep.
func vhBodyFor(q *vhReq, ep int, jsonBody bool) {
	switch ep {
	case vhEpExecute:
		q.sql = vhSQLWrite
	case vhEpQuery, vhEpSQL:
		q.sql = vhSQLRead
	case vhEpRequest:
		q.sql, jsonBody = vhSQLWrite, true
	case vhEpLoad:
		if jsonBody { // second form of /db/load: SQL text instead of a SQLite file
			q.body, q.sql = []byte(vhSQLWrite), vhSQLWrite
			return
		}
		q.body = vhSQLiteImage
		return
	case vhEpBoot:
		q.body = vhSQLiteImage
		return
	case vhEpRemove:
		q.nodeID = "node9"
		q.body = []byte(`{"id":"node9"}`)
		return
	default:
		return
	}
	if ep == vhEpSQL {
		jsonBody = true
	}
	if jsonBody {
		q.ctype = "application/json"
		q.body = []byte(`["` + q.sql + `"]`)
	} else {
		q.ctype = "text/plain"
		q.body = []byte(q.sql)
	}
}

type vhBody struct {
	b      []byte
	off    int
	closed bool
}

func (b *vhBody) Read(p []byte) (int, error) {
	if b.off >= len(b.b) {
		return 0, io.EOF
	}
	n := copy(p, b.b[b.off:])
	b.off += n
	return n, nil
}

func (b *vhBody) Close() error { b.closed = true; return nil }

func (q *vhReq) build() *http.Request {
	r := &http.Request{
		Method:        q.method,
		URL:           &url.URL{Path: q.path.path, RawQuery: q.query},
		Proto:         "HTTP/1.1",
		ProtoMajor:    1,
		ProtoMinor:    1,
		Header:        http.Header{},
		Host:          "node:4001",
		RemoteAddr:    "client:50000",
		RequestURI:    q.path.path,
		Body:          &vhBody{b: q.body},
		ContentLength: int64(len(q.body)),
	}
	if q.ctype != "" {
		r.Header["Content-Type"] = []string{q.ctype}
	}
	switch q.cred {
	case vhCredBasic:
		q.user, q.pass = "alice", "wonderland"
		r.Header["Authorization"] = []string{"Basic " + base64.StdEncoding.EncodeToString([]byte(q.user+":"+q.pass))}
	case vhCredMalformed:
		// not Basic authentication: the request carries no user and no password
		r.Header["Authorization"] = []string{"Bearer YWxpY2U6d29uZGVybGFuZA=="}
	}
	return r
}

// ---------------------------------------------------------------------------
// the ordered log

type vhEv struct {
	what  string // "aa", "write", or a call
	user  string
	pass  string
	perm  string
	ok    bool   // aa: verdict
	sql   string // db.*/fwd.*: first statement
	id    string // remove / stepdown
	creds bool   // fwd.*: credentials forwarded
	n     int    // write: number of bytes
}

type vhVerdict struct {
	perm string
	ok   bool
}

type vhEnv struct {
	db     int // local store: 0 succeeds, 1 "not leader", 2 another error
	fwd    int // the leader, when a request is forwarded: 0 succeeds, 1 "unauthorized", 2 another error
	leader int // 0 leader known, 1 unknown
	store  int // http.Store calls: 0 succeed, 1 fail
}

type vhWorld struct {
	evs   []vhEv
	marks []vhVerdict
	rw    *vhRW
	env   vhEnv
	q     *queue.Queue[*command.Statement]
}

func (w *vhWorld) add(e vhEv) { w.evs = append(w.evs, e) }

func (w *vhWorld) count(what string) int {
	n := 0
	for _, e := range w.evs {
		if e.what == what {
			n++
		}
	}
	return n
}

// ---------------------------------------------------------------------------
// http.ResponseWriter

type vhRW struct {
	w      *vhWorld
	hdr    http.Header
	status int
	body   []byte
}

func (r *vhRW) Header() http.Header { return r.hdr }

func (r *vhRW) WriteHeader(code int) {
	if r.status == 0 {
		r.status = code
	}
}

func (r *vhRW) Write(p []byte) (int, error) {
	if r.status == 0 {
		r.status = http.StatusOK
	}
	r.body = append(r.body, p...)
	r.w.add(vhEv{what: "write", n: len(p)})
	return len(p), nil
}

// ---------------------------------------------------------------------------
// credential store

type vhCreds struct{ w *vhWorld }

func (c *vhCreds) AA(username, password, perm string) bool {
	var ok, found bool
	for _, m := range c.w.marks {
		if m.perm == perm {
			ok, found = m.ok, true
		}
	}
	if !found {
		ok = verifBool("grant-" + perm)
		c.w.marks = append(c.w.marks, vhVerdict{perm: perm, ok: ok})
	}
	c.w.add(vhEv{what: "aa", user: username, pass: password, perm: perm, ok: ok})
	return ok
}

// ---------------------------------------------------------------------------
// http.Store, http.Cluster

var vhErrStore = errors.New("store is busy")

type vhStore struct{ w *vhWorld }

func (s *vhStore) Leader() (*store.Server, error) {
	s.w.add(vhEv{what: "store.Leader"})
	if s.w.env.leader == 1 {
		return nil, store.ErrLeaderNotFound
	}
	return &store.Server{ID: "node1", Addr: "leader:4002", Suffrage: command.Suffrage_VOTER}, nil
}

func (s *vhStore) Nodes() ([]*store.Server, error) {
	s.w.add(vhEv{what: "store.Nodes"})
	if s.w.env.store == 1 {
		return nil, vhErrStore
	}
	return []*store.Server{
		{ID: "node1", Addr: "leader:4002", Suffrage: command.Suffrage_VOTER},
		{ID: "node2", Addr: "follower:4002", Suffrage: command.Suffrage_VOTER},
	}, nil
}

func (s *vhStore) Ready() bool {
	s.w.add(vhEv{what: "store.Ready"})
	return s.w.env.store == 0
}

func (s *vhStore) Committed(timeout time.Duration) (uint64, error) {
	s.w.add(vhEv{what: "store.Committed"})
	if s.w.env.store == 1 {
		return 0, vhErrStore
	}
	return 7, nil
}

func (s *vhStore) Stats() (map[string]any, error) {
	s.w.add(vhEv{what: "store.Stats"})
	if s.w.env.store == 1 {
		return nil, vhErrStore
	}
	return map[string]any{"dir": "/var/lib/rqlite/secret"}, nil
}

func (s *vhStore) Snapshot(n uint64) error {
	s.w.add(vhEv{what: "store.Snapshot"})
	if s.w.env.store == 1 {
		return vhErrStore
	}
	return nil
}

func (s *vhStore) Reap() (int, int, error) {
	s.w.add(vhEv{what: "store.Reap"})
	if s.w.env.store == 1 {
		return 0, 0, vhErrStore
	}
	return 1, 2, nil
}

func (s *vhStore) ReadFrom(r io.Reader) (int64, error) {
	s.w.add(vhEv{what: "store.ReadFrom"})
	if s.w.env.store == 1 {
		return 0, vhErrStore
	}
	b, err := io.ReadAll(r)
	return int64(len(b)), err
}

type vhCluster struct{ w *vhWorld }

func (c *vhCluster) GetNodeMeta(ctx context.Context, addr string, retries int, timeout time.Duration) (*clstrPB.NodeMeta, error) {
	c.w.add(vhEv{what: "cluster.GetNodeMeta"})
	if c.w.env.leader == 1 {
		return nil, errors.New("no route to host")
	}
	return &clstrPB.NodeMeta{Url: "http://leader:4001", Version: "v10"}, nil
}

func (c *vhCluster) Stats() (map[string]any, error) {
	c.w.add(vhEv{what: "cluster.Stats"})
	return map[string]any{"addr": "node:4002"}, nil
}

// ---------------------------------------------------------------------------
// proxy.Store (the local database) and proxy.Cluster (the leader, for forwarded requests)

var vhBackupImage = []byte("SQLite format 3\x00 the whole database")

func vhFirstSQL(r *command.Request) string {
	if r == nil || len(r.Statements) == 0 || r.Statements[0] == nil {
		return ""
	}
	return r.Statements[0].Sql
}

type vhPStore struct{ w *vhWorld }

func (s *vhPStore) result() error {
	switch s.w.env.db {
	case 1:
		return store.ErrNotLeader
	case 2:
		return errors.New("database is busy")
	}
	return nil
}

func (s *vhPStore) Execute(ctx context.Context, er *command.ExecuteRequest) ([]*command.ExecuteQueryResponse, uint64, error) {
	s.w.add(vhEv{what: "db.Execute", sql: vhFirstSQL(er.GetRequest())})
	if err := s.result(); err != nil {
		return nil, 0, err
	}
	return vhResults(), 11, nil
}

func (s *vhPStore) Query(ctx context.Context, qr *command.QueryRequest) ([]*command.QueryRows, command.ConsistencyLevel, uint64, error) {
	s.w.add(vhEv{what: "db.Query", sql: vhFirstSQL(qr.GetRequest())})
	if err := s.result(); err != nil {
		return nil, 0, 0, err
	}
	return vhRows(), 0, 12, nil
}

// vhResults: what the database answers to a write.
func vhResults() []*command.ExecuteQueryResponse {
	return []*command.ExecuteQueryResponse{{Result: &command.ExecuteQueryResponse_E{E: &command.ExecuteResult{LastInsertId: 4711, RowsAffected: 1}}}}
}

// vhRows: what the database answers to a query (for /readyz: one row with the integer 1).
func vhRows() []*command.QueryRows {
	return []*command.QueryRows{{
		Columns: []string{"secret"},
		Types:   []string{"integer"},
		Values:  []*command.Values{{Parameters: []*command.Parameter{{Value: &command.Parameter_I{I: 1}}}}},
	}}
}

func (s *vhPStore) Request(ctx context.Context, eqr *command.ExecuteQueryRequest) ([]*command.ExecuteQueryResponse, uint64, uint64, error) {
	s.w.add(vhEv{what: "db.Request", sql: vhFirstSQL(eqr.GetRequest())})
	if err := s.result(); err != nil {
		return nil, 0, 0, err
	}
	return vhResults(), 1, 13, nil
}

func (s *vhPStore) Load(ctx context.Context, lr *command.LoadRequest) error {
	s.w.add(vhEv{what: "db.Load"})
	return s.result()
}

func (s *vhPStore) Backup(ctx context.Context, br *command.BackupRequest, dst io.Writer) error {
	s.w.add(vhEv{what: "db.Backup"})
	if err := s.result(); err != nil {
		return err
	}
	_, err := dst.Write(vhBackupImage)
	return err
}

func (s *vhPStore) Remove(ctx context.Context, rn *command.RemoveNodeRequest) error {
	s.w.add(vhEv{what: "db.Remove", id: rn.GetId()})
	return s.result()
}

func (s *vhPStore) Stepdown(wait bool, id string) error {
	s.w.add(vhEv{what: "db.Stepdown", id: id})
	return s.result()
}

func (s *vhPStore) LeaderAddr() (string, error) {
	s.w.add(vhEv{what: "db.LeaderAddr"})
	if s.w.env.leader == 1 {
		return "", nil
	}
	return "leader:4002", nil
}

type vhPCluster struct{ w *vhWorld }

func (c *vhPCluster) fwd(what, sql, id string, creds *clstrPB.Credentials) error {
	e := vhEv{what: what, sql: sql, id: id, creds: creds != nil}
	if creds != nil {
		e.user, e.pass = creds.Username, creds.Password
	}
	c.w.add(e)
	switch c.w.env.fwd {
	case 1:
		return errors.New("unauthorized")
	case 2:
		return errors.New("leader is busy")
	}
	return nil
}

func (c *vhPCluster) Execute(ctx context.Context, er *command.ExecuteRequest, nodeAddr string, creds *clstrPB.Credentials, timeout time.Duration, retries int) ([]*command.ExecuteQueryResponse, uint64, error) {
	if err := c.fwd("fwd.Execute", vhFirstSQL(er.GetRequest()), "", creds); err != nil {
		return nil, 0, err
	}
	return vhResults(), 21, nil
}

func (c *vhPCluster) Query(ctx context.Context, qr *command.QueryRequest, nodeAddr string, creds *clstrPB.Credentials, timeout time.Duration, retries int) ([]*command.QueryRows, uint64, error) {
	if err := c.fwd("fwd.Query", vhFirstSQL(qr.GetRequest()), "", creds); err != nil {
		return nil, 0, err
	}
	return vhRows(), 22, nil
}

func (c *vhPCluster) Request(ctx context.Context, eqr *command.ExecuteQueryRequest, nodeAddr string, creds *clstrPB.Credentials, timeout time.Duration, retries int) ([]*command.ExecuteQueryResponse, uint64, uint64, error) {
	if err := c.fwd("fwd.Request", vhFirstSQL(eqr.GetRequest()), "", creds); err != nil {
		return nil, 0, 0, err
	}
	return vhResults(), 1, 23, nil
}

func (c *vhPCluster) Backup(ctx context.Context, br *command.BackupRequest, nodeAddr string, creds *clstrPB.Credentials, timeout time.Duration, w io.Writer) error {
	if err := c.fwd("fwd.Backup", "", "", creds); err != nil {
		return err
	}
	_, err := w.Write(vhBackupImage)
	return err
}

func (c *vhPCluster) Load(ctx context.Context, lr *command.LoadRequest, nodeAddr string, creds *clstrPB.Credentials, timeout time.Duration, retries int) error {
	return c.fwd("fwd.Load", "", "", creds)
}

func (c *vhPCluster) RemoveNode(ctx context.Context, rn *command.RemoveNodeRequest, nodeAddr string, creds *clstrPB.Credentials, timeout time.Duration) error {
	return c.fwd("fwd.Remove", "", rn.GetId(), creds)
}

func (c *vhPCluster) Stepdown(ctx context.Context, sr *command.StepdownRequest, nodeAddr string, creds *clstrPB.Credentials, timeout time.Duration) error {
	return c.fwd("fwd.Stepdown", "", sr.GetId(), creds)
}

// ---------------------------------------------------------------------------
// console handler, listener

var vhConsolePage = []byte("<html>rqlite console</html>")

type vhUI struct{ w *vhWorld }

func (u *vhUI) ServeHTTP(w http.ResponseWriter, r *http.Request) {
	u.w.add(vhEv{what: "ui"})
	w.Write(vhConsolePage)
}

type vhAddr struct{}

func (vhAddr) Network() string { return "tcp" }
func (vhAddr) String() string  { return "node:4001" }

type vhListener struct{}

func (vhListener) Accept() (net.Conn, error) { return nil, errors.New("verif: not listening") }
func (vhListener) Close() error              { return nil }
func (vhListener) Addr() net.Addr            { return vhAddr{} }

// ---------------------------------------------------------------------------
// world construction

var vhCur *vhWorld

func vhNewWorld(env vhEnv) (*Service, *vhWorld) {
	w := &vhWorld{env: env}
	w.rw = &vhRW{w: w, hdr: http.Header{}}
	w.q = queue.VerifNewIdle[*command.Statement](16)
	vhCur = w
	s := &Service{
		addr:                "node:4001",
		ln:                  vhListener{},
		uiHandler:           &vhUI{w: w},
		store:               &vhStore{w: w},
		proxy:               proxy.New(&vhPStore{w: w}, &vhPCluster{w: w}),
		stmtQueue:           w.q,
		cluster:             &vhCluster{w: w},
		start:               time.Now(),
		statuses:            make(map[string]StatusReporter),
		DefaultQueueCap:     1024,
		DefaultQueueBatchSz: 128,
		DefaultQueueTimeout: 100 * time.Millisecond,
		credentialStore:     &vhCreds{w: w},
		BuildInfo:           map[string]any{"version": "v10"},
		logger:              log.New(io.Discard, "", 0),
	}
	s.proxy.SetAPIAddr("http://node:4001")
	return s, w
}

// vhServe runs the handler as net/http does; a Go panic in it is reported.
func vhServe(s *Service, w *vhWorld, r *http.Request) (panicked bool) {
	defer func() {
		if x := recover(); x != nil {
			if _, mine := x.(verifStop); mine {
				panic(x)
			}
			panicked = true
		}
	}()
	s.ServeHTTP(w.rw, r)
	return false
}

// ---------------------------------------------------------------------------
// the oracle

// granted: a check of perm with the request's own user and password was made, and granted, among
// the first upto log entries.
func (w *vhWorld) granted(q *vhReq, perm string, upto int) bool {
	for k := 0; k < upto; k++ {
		e := w.evs[k]
		if e.what == "aa" && e.perm == perm && e.user == q.user && e.pass == q.pass && e.ok {
			return true
		}
	}
	return false
}

func (w *vhWorld) authorized(q *vhReq, ep *vhEndpoint, upto int) bool {
	for _, p := range ep.perms {
		if !w.granted(q, p, upto) {
			return false
		}
	}
	return true
}

// refusedBefore: some permission check among the first upto log entries was refused.
func (w *vhWorld) refusedBefore(upto int) bool {
	for k := 0; k < upto; k++ {
		if w.evs[k].what == "aa" && !w.evs[k].ok {
			return true
		}
	}
	return false
}

func vhRefusalStatus(code int) bool {
	return code == http.StatusUnauthorized || code == http.StatusForbidden
}

// vhLooksLikeRefusal: a reply body that is empty or a short message about authorization.
func vhLooksLikeRefusal(b []byte) bool {
	if len(b) == 0 {
		return true
	}
	return len(b) <= 64 && bytes.Contains(bytes.ToLower(b), []byte("authorized"))
}

func (w *vhWorld) judge(q *vhReq, panicked bool) {
	verifAssert("C18-no-panic", !panicked)
	status := w.rw.status
	if status == 0 {
		status = http.StatusOK // net/http sends 200 when the handler returns without writing
	}
	body := w.rw.body
	calls := 0 // everything except permission checks and output
	for _, e := range w.evs {
		if e.what != "aa" && e.what != "write" {
			calls++
		}
	}
	queued := w.q.Depth()
	location := w.rw.hdr.Get("Location")

	if q.method == "OPTIONS" {
		// CORS pre-flight: answered for every path, discloses and does nothing
		verifAssert("C18-preflight-does-nothing", calls == 0 && queued == 0)
		verifAssert("C18-preflight-has-no-body", len(body) == 0)
		verifReach("preflight")
		return
	}
	if status == http.StatusBadRequest && len(w.evs) == 1 && w.evs[0].what == "write" && queued == 0 && len(body) <= 64 && !q.canonical {
		// turned away as malformed (a short message) before anything was looked at or done
		if strings.Contains(q.query, "zzz") {
			verifReach("malformed")
		}
		return
	}
	if !q.path.strict && status == http.StatusNotFound && len(w.evs) == 0 && len(body) == 0 && queued == 0 {
		verifReach("doubtful-path-not-found")
		return
	}
	ep := &vhEndpoints[q.path.ep]
	switch q.path.ep {
	case vhEpNone:
		verifAssert("C18-unknown-path-is-not-found", status == http.StatusNotFound)
		verifAssert("C18-unknown-path-does-nothing", calls == 0 && queued == 0 && len(body) == 0)
		verifReach("not-found")
		return
	case vhEpRoot, vhEpConsoleRedir:
		verifAssert("C18-static-redirect", status/100 == 3 && location == "/console/")
		verifAssert("C18-static-redirect-does-nothing", calls == 0 && queued == 0)
		verifReach("static-redirect")
		return
	}

	// 1. permission checks: with the request's own credentials, only permissions of the endpoint
	for _, e := range w.evs {
		if e.what != "aa" {
			continue
		}
		verifAssert("C18-check-uses-the-requests-user", e.user == q.user)
		verifAssert("C18-check-uses-the-requests-password", e.pass == q.pass)
		verifAssert("C18-check-uses-a-permission-of-the-endpoint", vhIn(ep.perms, e.perm))
	}

	// 2. order: nothing is done and nothing is written before the required checks were granted;
	//    output without authorization is only the error reply that follows a refused check
	for k, e := range w.evs {
		if e.what == "aa" {
			continue
		}
		ok := w.authorized(q, ep, k)
		if e.what == "write" {
			if !ok {
				verifAssert("C18-output-only-after-granted-check", w.refusedBefore(k))
			}
			continue
		}
		verifAssert("C18-effect-only-after-granted-check", ok)
		verifAssert("C18-effect-belongs-to-the-endpoint", vhMinor(e.what) || vhIn(ep.major, e.what))
	}
	if queued > 0 {
		verifAssert("C18-queued-only-after-granted-check", w.authorized(q, ep, len(w.evs)))
		verifAssert("C18-effect-belongs-to-the-endpoint", vhIn(ep.major, "queue.Write"))
	}

	// 3. the reply
	if !w.authorized(q, ep, len(w.evs)) {
		if w.refusedBefore(len(w.evs)) {
			verifAssert("C18-refusal-status", vhRefusalStatus(status))
			verifAssert("C18-refusal-discloses-nothing", vhLooksLikeRefusal(body))
		} else {
			// turned away before any permission was looked at (e.g. a method the endpoint does not have)
			verifAssert("C18-unchecked-request-fails", status >= 400)
			verifAssert("C18-unchecked-request-discloses-nothing", len(body) <= 64)
		}
		verifAssert("C18-refusal-names-no-other-node", location == "" && w.rw.hdr.Get(ServedByHTTPHeader) == "")
		verifAssert("C18-refused-request-does-nothing", calls == 0 && queued == 0)
		verifReach("refused")
		return
	}
	remoteRefused := w.env.db == 1 && w.env.fwd == 1 && w.count("fwd.Execute")+w.count("fwd.Query")+w.count("fwd.Request")+w.count("fwd.Backup")+w.count("fwd.Load")+w.count("fwd.Remove")+w.count("fwd.Stepdown") > 0
	if remoteRefused {
		// the leader refused the forwarded credentials
		if q.path.ep == vhEpReadyz {
			// the node's own probe query was refused by the leader: the node is "not ready"
			verifAssert("C18-remote-refusal-status", status >= 400)
		} else {
			verifAssert("C18-remote-refusal-status", vhRefusalStatus(status))
			verifAssert("C18-remote-refusal-discloses-nothing", vhLooksLikeRefusal(body))
		}
		verifReach("refused-by-leader")
	} else {
		verifAssert("C18-authorized-request-is-not-refused", !vhRefusalStatus(status))
	}

	// 4. what was done is what the client asked for, on behalf of the client
	for _, e := range w.evs {
		switch e.what {
		case "fwd.Execute", "fwd.Query", "fwd.Request", "fwd.Backup", "fwd.Load", "fwd.Remove", "fwd.Stepdown":
			verifAssert("C18-forwarded-with-the-requests-credentials", e.creds == (q.cred == vhCredBasic) && e.user == q.user && e.pass == q.pass)
			verifReach("forwarded")
		}
		switch e.what {
		case "db.Execute", "fwd.Execute", "db.Request", "fwd.Request":
			verifAssert("C18-effect-gets-the-requests-statement", e.sql == q.sql)
		case "db.Query", "fwd.Query":
			if q.path.ep != vhEpReadyz {
				verifAssert("C18-effect-gets-the-requests-statement", e.sql == q.sql)
			} else {
				verifAssert("C18-readyz-runs-no-client-statement", e.sql != vhSQLRead && e.sql != vhSQLWrite)
			}
		case "db.Remove", "fwd.Remove":
			verifAssert("C18-effect-gets-the-requests-node", e.id == q.nodeID)
		}
	}
	if location != "" {
		verifAssert("C18-redirect-goes-to-the-leader", status == http.StatusMovedPermanently && strings.HasPrefix(location, "http://leader:4001"+q.path.path))
		verifReach("redirected")
	}

	// 5. an authorized, well-formed request is carried out
	if q.canonical {
		verifAssert("C18-authorized-request-succeeds", status/100 == 2)
		if strings.Contains(q.query, "queue") {
			verifAssert("C18-authorized-request-is-carried-out", queued == 1)
			verifReach("queued")
		} else if q.path.ep == vhEpLoad && q.sql != "" {
			verifAssert("C18-authorized-request-is-carried-out", w.count("db.Execute") == 1) // SQL text is executed
		} else if ep.want != "" {
			verifAssert("C18-authorized-request-is-carried-out", w.count(ep.want) == 1)
		} else if q.path.ep != vhEpLeader && q.path.ep != vhEpLicenses {
			// (a stepdown has no reply body; the licence text is an embedded file, empty in the symbolic run)
			verifAssert("C18-authorized-request-is-answered", len(body) > 0)
		}
		verifReach("carried-out")
	}
}

// ---------------------------------------------------------------------------
// entries

func vhCanonical(q *vhReq, ep *vhEndpoint) bool {
	if q.path.ep <= vhEpConsoleRedir || !q.path.strict {
		return false
	}
	return ep.canon == nil || vhIn(ep.canon, q.method)
}

// VerifC18bRoutes: every path x every method x every presentation of credentials, a well-formed
// body for the path's endpoint, everything behind the service succeeds; every verdict of the
// credential store.
func VerifC18bRoutes() {
	n := vhQuickPaths
	if verifTier() == 1 {
		n = len(vhPaths)
	}
	q := &vhReq{}
	q.path = vhPaths[verifChoice("path", n)]
	q.method = vhMethods[verifChoice("method", len(vhMethods))]
	q.cred = verifChoice("credentials", 3)
	vhBodyFor(q, q.path.ep, false)
	if q.path.path == "/debug/pprof/profile" {
		q.query = "seconds=1"
	}
	q.canonical = vhCanonical(q, &vhEndpoints[q.path.ep])
	if q.method == "GET" {
		// the statement of a GET travels in the query string (none here)
		if q.path.ep == vhEpSQL {
			q.canonical = false // needs ?q=
		}
		if q.path.ep == vhEpQuery {
			q.sql = ""
		}
	}
	var env vhEnv
	if verifTier() == 1 {
		// thorough tier: a few query strings on EVERY path and method, local store leader or not
		if q.query == "" {
			q.query = vhRouteQueries[verifChoice("query", len(vhRouteQueries))]
		}
		env.db = verifChoice("not-leader", 2)
		q.canonical = q.canonical && q.query == "" && env.db == 0
	}
	s, w := vhNewWorld(env)
	r := q.build()
	w.judge(q, vhServe(s, w, r))
}

var vhRouteQueries = []string{"", "redirect", "noleader&nonvoters", "queue&noleader", "timeout=zzz"}

// vhVariant: a documented request (method, query string, body form) per endpoint.
type vhVariant struct {
	path     int // index into vhPaths
	method   string
	query    string
	jsonBody bool
	sql      string // statement carried in the query string
}

var vhVariants = []vhVariant{
	{path: 4, method: "POST"},                                          // /db/execute, text/plain
	{path: 4, method: "POST", jsonBody: true},                          // /db/execute, JSON array
	{path: 4, method: "POST", query: "queue", jsonBody: true},          // queued write
	{path: 4, method: "POST", query: "queue&noleader", jsonBody: true}, // queued without leader look-up
	{path: 4, method: "POST", query: "redirect"},                       //
	{path: 4, method: "POST", query: "timeout=zzz"},                    // malformed
	{path: 5, method: "GET", query: "q=SELECT+%2A+FROM+secrets", sql: vhSQLRead},
	{path: 5, method: "POST", query: "level=strong&redirect"},          //
	{path: 5, method: "POST", jsonBody: true},                          //
	{path: 6, method: "POST"},                                          // /db/request
	{path: 6, method: "POST", query: "redirect"},                       //
	{path: 7, method: "GET"},                                           // /db/backup
	{path: 7, method: "GET", query: "redirect&fmt=sql"},                //
	{path: 8, method: "POST"},                                          // /db/load, SQLite file
	{path: 8, method: "POST", jsonBody: true},                          // /db/load, SQL text
	{path: 8, method: "POST", query: "redirect"},                       //
	{path: 9, method: "GET", query: "q=SELECT+%2A+FROM+secrets"},       // /db/sql
	{path: 10, method: "POST"},                                         // /boot
	{path: 11, method: "POST", query: "trailing_logs=5"},               // /snapshot
	{path: 12, method: "POST"},                                         // /reap
	{path: 13, method: "DELETE"},                                       // /remove
	{path: 13, method: "DELETE", query: "redirect"},                    //
	{path: 14, method: "GET"},                                          // /status
	{path: 15, method: "GET", query: "nonvoters&ver=2"},                // /nodes
	{path: 15, method: "GET"},                                          //
	{path: 16, method: "GET"},                                          // /leader
	{path: 16, method: "POST", query: "wait"},                          // stepdown
	{path: 16, method: "POST", query: "redirect"},                      //
	{path: 17, method: "GET"},                                          // /readyz
	{path: 17, method: "GET", query: "noleader"},                       //
	{path: 17, method: "GET", query: "sync&q=SELECT+%2A+FROM+secrets"}, //
	{path: 18, method: "GET"},                                          // /licenses
	{path: 19, method: "GET", query: "key=http"},                       // /debug/vars
	{path: 3, method: "GET"},                                           // console
}

// VerifC18bVariants: the documented forms of each endpoint (query strings, body forms) in every
// environment: the local store succeeds / is not the leader / fails, the leader accepts / refuses
// / fails, the leader is known or not, the node's own store calls succeed or fail.
func VerifC18bVariants() {
	v := vhVariants[verifChoice("variant", len(vhVariants))]
	q := &vhReq{path: vhPaths[v.path], method: v.method, query: v.query}
	q.cred = vhCredBasic
	if verifTier() == 1 {
		q.cred = verifChoice("credentials", 3)
	}
	vhBodyFor(q, q.path.ep, v.jsonBody)
	if v.sql != "" {
		q.sql, q.body, q.ctype = v.sql, nil, ""
	}
	var env vhEnv
	switch verifChoice("environment", 7) {
	case 1:
		env.db = 1 // forwarded (or redirected), leader accepts
	case 2:
		env.db, env.fwd = 1, 1 // leader refuses the credentials
	case 3:
		env.db, env.fwd = 1, 2
	case 4:
		env.db, env.leader = 1, 1
	case 5:
		env.db = 2
	case 6:
		env.store = 1
	}
	q.canonical = env == vhEnv{} && !strings.Contains(q.query, "zzz")
	s, w := vhNewWorld(env)
	r := q.build()
	w.judge(q, vhServe(s, w, r))
}

// VerifC18bTwin: same set-up; the final claim is false (an authorized write IS carried out).
func VerifC18bTwin() {
	q := &vhReq{path: vhPaths[4], method: "POST", cred: verifChoice("credentials", 3)}
	vhBodyFor(q, q.path.ep, false)
	q.canonical = true
	s, w := vhNewWorld(vhEnv{})
	r := q.build()
	w.judge(q, vhServe(s, w, r))
	verifAssert("C18-twin-nothing-ever-happens", w.count("db.Execute") == 0)
}

// ---------------------------------------------------------------------------
// models that replace reflection-based or process-level library code in the symbolic run (spec
// "models"). None of this runs natively.

var vhJSONToken = []byte(`{"verif":"json"}`)

func vhJSONMarshal(v any) ([]byte, error) { return append([]byte{}, vhJSONToken...), nil }

func vhJSONMarshalIndent(v any, prefix, indent string) ([]byte, error) {
	return append([]byte{}, vhJSONToken...), nil
}

// vhJSONUnmarshal: only the body of /remove is decoded: {"id":"<node>"} into a map[string]string.
func vhJSONUnmarshal(data []byte, v any) error {
	m, ok := v.(*map[string]string)
	if !ok {
		return errors.New("verif: json.Unmarshal outside the model")
	}
	const pre, post = `{"id":"`, `"}`
	s := string(data)
	if len(s) < len(pre)+len(post) || s[:len(pre)] != pre || s[len(s)-len(post):] != post {
		return errors.New("invalid character looking for beginning of value")
	}
	if *m == nil {
		*m = map[string]string{}
	}
	(*m)["id"] = s[len(pre) : len(s)-len(post)]
	return nil
}

type vhEnc struct {
	enc *json.Encoder
	w   io.Writer
}

var vhEncs []*vhEnc

func vhJSONNewEncoder(w io.Writer) *json.Encoder {
	e := &vhEnc{enc: new(json.Encoder), w: w}
	vhEncs = append(vhEncs, e)
	return e.enc
}

func vhJSONEncode(enc *json.Encoder, v any) error {
	for _, e := range vhEncs {
		if e.enc == enc {
			_, err := e.w.Write(append(append([]byte{}, vhJSONToken...), '\n'))
			return err
		}
	}
	panic("verif: json.Encoder not created by NewEncoder")
}

// vhParseRequest: the harness only sends bodies of the form ["<statement>"].
func vhParseRequest(r io.Reader) ([]*command.Statement, error) {
	if r == nil {
		return nil, ErrNoStatements
	}
	b, err := io.ReadAll(r)
	if err != nil {
		return nil, ErrInvalidJSON
	}
	s := string(b)
	if len(s) < 4 || s[:2] != `["` || s[len(s)-2:] != `"]` {
		return nil, ErrInvalidJSON
	}
	return []*command.Statement{{Sql: s[2 : len(s)-2]}}, nil
}

// vhParseStatement: /db/sql hands every statement to the SQL parser; here every statement is
// reported as not parseable (the reply then carries the parser's message).
func vhParseStatement(p *rsql.Parser) (rsql.Statement, error) {
	return nil, errors.New("verif: statement not analysed")
}

func vhPprof(w http.ResponseWriter, r *http.Request) { w.Write([]byte("pprof: process internals")) }

func vhExpvarDo(f func(expvar.KeyValue)) {}
