package http

// Native driver for C18b (not part of the symbolic run): runs the harness entries natively - real
// encoding/json, real ParseRequest, real SQL parser, real pprof/expvar - for EVERY combination of
// the concrete choices and every verdict of the credential store, and expects no assertion to
// fail on the unchanged tree. It shows that the library models of the symbolic run (spec "models")
// and the real libraries lead the harness to the same judgement. Run with native.sh.

import (
	"encoding/json"
	"os"
	"path/filepath"
	"testing"
)

func vhNativeRun(t *testing.T, name string, f func(), vals map[string]any) {
	t.Helper()
	b, err := json.Marshal(map[string]any{"values": vals})
	if err != nil {
		t.Fatal(err)
	}
	p := filepath.Join(t.TempDir(), "replay.json")
	if err := os.WriteFile(p, b, 0o644); err != nil {
		t.Fatal(err)
	}
	t.Setenv("VERIF_REPLAY", p)
	if out := verifRun(name, f); len(out) != 0 {
		t.Errorf("%s %v: %v", name, vals, out)
	}
}

// vhGrantCombos: every verdict for the permissions of endpoint ep.
func vhGrantCombos(ep int) []map[string]any {
	perms := vhEndpoints[ep].perms
	var out []map[string]any
	for bits := 0; bits < 1<<len(perms); bits++ {
		m := map[string]any{}
		for i, p := range perms {
			m["grant-"+p] = bits&(1<<i) != 0
		}
		out = append(out, m)
	}
	return out
}

func TestVerifC18bNativeRoutes(t *testing.T) {
	n := 0
	for p := 0; p < vhQuickPaths; p++ {
		for m := range vhMethods {
			for c := 0; c < 3; c++ {
				for _, g := range vhGrantCombos(vhPaths[p].ep) {
					g["path"], g["method"], g["credentials"] = p, m, c
					vhNativeRun(t, "VerifC18bRoutes", VerifC18bRoutes, g)
					n++
				}
			}
		}
	}
	t.Logf("%d requests", n)
}

func TestVerifC18bNativeVariants(t *testing.T) {
	n := 0
	for v := range vhVariants {
		for env := 0; env < 7; env++ {
			for _, g := range vhGrantCombos(vhPaths[vhVariants[v].path].ep) {
				g["variant"], g["environment"] = v, env
				vhNativeRun(t, "VerifC18bVariants", VerifC18bVariants, g)
				n++
			}
		}
	}
	t.Logf("%d requests", n)
}
