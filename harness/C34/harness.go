package rsync

import (
	"errors"
	"sync"
	"time"
)

// C34: the check-and-set gate, the multi-reader/single-writer lock and the ready target.
// (a) inductive steps from an arbitrary state satisfying the representation invariant;
// (b) op-level interleavings of 2-3 goroutines commanded by a driver (each primitive's
//     operation is one critical section; blocking operations park inside it).

func verifIsClosed(ch <-chan struct{}) bool {
	select {
	case <-ch:
		return true
	default:
		return false
	}
}

func verifPanics(f func()) (p bool) {
	defer func() {
		if recover() != nil {
			p = true
		}
	}()
	f()
	return false
}

// ---------------------------------------------------------------- gate

func VerifC34GateStep() {
	c := NewCheckAndSet()
	held := verifBool("held")
	if held {
		verifAssume(c.Begin("holder") == nil)
	}
	switch verifChoice("op", 3) {
	case 0:
		err := c.Begin("new")
		if held {
			verifReach("begin-conflict")
			verifAssert("C34-gate-begin-fails-when-held", err != nil)
			verifAssert("C34-gate-holder-unchanged", c.Owner() == "holder")
		} else {
			verifAssert("C34-gate-begin-succeeds-when-free", err == nil)
			verifAssert("C34-gate-owner-recorded", c.Owner() == "new")
			verifAssert("C34-gate-second-begin-fails", c.Begin("other") != nil)
		}
	case 1:
		c.End()
		verifAssert("C34-gate-end-frees", c.Owner() == "" && c.Begin("x") == nil)
	case 2:
		st := c.Stats()
		if held {
			verifAssert("C34-gate-stats-owner", st["owner"] == "holder")
		} else {
			verifAssert("C34-gate-stats-free", st["owner"] == nil)
		}
	}
}

// ---------------------------------------------------------------- MRSW inductive step

func VerifC34MRSWStep() {
	r := NewMultiRSW()
	writer := verifBool("writerActive")
	n := int(verifI64("numReaders"))
	verifAssume(n >= 0 && n < 1<<40)
	verifAssume(!(writer && n > 0)) // representation invariant
	if writer {
		r.owner = "w"
	}
	r.numReaders = n

	switch verifChoice("op", 7) {
	case 0:
		err := r.BeginRead()
		if writer {
			verifAssert("C34-mrsw-read-refused-under-writer", err != nil && r.numReaders == n && r.owner == "w")
		} else {
			verifAssert("C34-mrsw-read-admitted", err == nil && r.numReaders == n+1 && r.owner == "")
		}
	case 1:
		if writer {
			return // would block: covered by the interleaving harness
		}
		r.BeginReadBlocking()
		verifAssert("C34-mrsw-blocking-read-admitted", r.numReaders == n+1 && r.owner == "")
	case 2:
		p := verifPanics(r.EndRead)
		if n == 0 {
			verifReach("endread-misuse")
			verifAssert("C34-mrsw-endread-without-reader-panics", p)
			return // documented misuse: the state after the panic is not constrained
		} else {
			verifAssert("C34-mrsw-endread", !p && r.numReaders == n-1)
		}
	case 3:
		err := r.BeginWrite("nw")
		if writer || n > 0 {
			verifAssert("C34-mrsw-write-refused", err != nil && r.numReaders == n && (r.owner == "w") == writer)
		} else {
			verifAssert("C34-mrsw-write-admitted", err == nil && r.owner == "nw" && r.numReaders == 0)
		}
		verifAssert("C34-mrsw-empty-owner-panics", verifPanics(func() { r.BeginWrite("") }))
	case 4:
		if writer || n > 0 {
			return // would block
		}
		r.BeginWriteBlocking("nw")
		verifAssert("C34-mrsw-blocking-write-admitted", r.owner == "nw" && r.numReaders == 0)
	case 5:
		p := verifPanics(r.EndWrite)
		if writer {
			verifAssert("C34-mrsw-endwrite", !p && r.owner == "" && r.numReaders == 0)
		} else {
			verifAssert("C34-mrsw-endwrite-without-writer-panics", p)
		}
	case 6:
		var err error
		p := verifPanics(func() { err = r.UpgradeToWriter("up") })
		switch {
		case writer:
			verifAssert("C34-mrsw-upgrade-refused-writer", !p && err != nil && r.owner == "w")
		case n > 1:
			verifAssert("C34-mrsw-upgrade-refused-readers", !p && err != nil && r.numReaders == n && r.owner == "")
		case n == 0:
			verifAssert("C34-mrsw-upgrade-without-reader-panics", p)
		default:
			verifReach("upgrade-ok")
			verifAssert("C34-mrsw-upgrade", !p && err == nil && r.owner == "up" && r.numReaders == 0)
		}
	}
	verifAssert("C34-mrsw-invariant", r.numReaders >= 0 && !(r.owner != "" && r.numReaders > 0))
}

// ---------------------------------------------------------------- MRSW interleavings

type verifWorker struct {
	cmd      chan int
	holdsR   bool
	holdsW   bool
	inOp     int // 0 none, otherwise the op it is executing (possibly parked inside)
	lastErr  error
	finished int
}

const (
	vOpTryRead = 1 + iota
	vOpBlockRead
	vOpEndRead
	vOpTryWrite
	vOpBlockWrite
	vOpEndWrite
	vOpUpgrade
)

func (w *verifWorker) run(r *MultiRSW, name string) {
	for op := range w.cmd {
		w.inOp = op
		w.lastErr = nil
		switch op {
		case vOpTryRead:
			if w.lastErr = r.BeginRead(); w.lastErr == nil {
				w.holdsR = true
			}
		case vOpBlockRead:
			r.BeginReadBlocking()
			w.holdsR = true
		case vOpEndRead:
			r.EndRead()
			w.holdsR = false
		case vOpTryWrite:
			if w.lastErr = r.BeginWrite(name); w.lastErr == nil {
				w.holdsW = true
			}
		case vOpBlockWrite:
			r.BeginWriteBlocking(name)
			w.holdsW = true
		case vOpEndWrite:
			r.EndWrite()
			w.holdsW = false
		case vOpUpgrade:
			if w.lastErr = r.UpgradeToWriter(name); w.lastErr == nil {
				w.holdsR, w.holdsW = false, true
			}
		}
		w.inOp = 0
		w.finished++
	}
}

func verifC34Interleave(nWorkers, steps int) {
	r := NewMultiRSW()
	names := []string{"A", "B", "C"}
	ws := make([]*verifWorker, nWorkers)
	for i := range ws {
		ws[i] = &verifWorker{cmd: make(chan int)}
		go ws[i].run(r, names[i])
		verifSettle()
	}
	count := func() (readers, writers int) {
		for _, w := range ws {
			if w.holdsR {
				readers++
			}
			if w.holdsW {
				writers++
			}
		}
		return
	}
	for s := 0; s < steps; s++ {
		g := verifChoice(verifName("g", s), nWorkers)
		w := ws[g]
		if w.inOp != 0 {
			continue // parked inside a blocking op: cannot be commanded
		}
		// the operations this worker may legally perform now
		var ops []int
		switch {
		case w.holdsW:
			ops = []int{vOpEndWrite}
		case w.holdsR:
			ops = []int{vOpEndRead, vOpUpgrade}
		default:
			ops = []int{vOpTryRead, vOpBlockRead, vOpTryWrite, vOpBlockWrite}
		}
		op := ops[verifChoice(verifName("op", s), len(ops))]
		readers0, writers0 := count()
		before := w.finished
		w.cmd <- op
		verifSettle()
		done := w.finished > before
		// outcome of non-blocking operations follows the documented rule
		switch op {
		case vOpTryRead:
			verifAssert("C34-try-read-result", done && (w.lastErr == nil) == (writers0 == 0))
		case vOpTryWrite:
			verifAssert("C34-try-write-result", done && (w.lastErr == nil) == (writers0 == 0 && readers0 == 0))
		case vOpUpgrade:
			verifAssert("C34-upgrade-result", done && (w.lastErr == nil) == (writers0 == 0 && readers0 == 1))
		case vOpEndRead, vOpEndWrite:
			verifAssert("C34-release-never-blocks", done)
		}
		readers, writers := count()
		verifAssert("C34-at-most-one-writer", writers <= 1)
		verifAssert("C34-no-reader-with-writer", !(writers >= 1 && readers >= 1))
		// progress: nobody stays parked once its wait condition is gone
		for _, x := range ws {
			switch x.inOp {
			case vOpBlockRead:
				verifReach("reader-parked")
				verifAssert("C34-parked-reader-has-cause", writers >= 1)
			case vOpBlockWrite:
				verifReach("writer-parked")
				verifAssert("C34-parked-writer-has-cause", writers >= 1 || readers >= 1)
			}
		}
	}
}

func VerifC34MRSWInterleave2() {
	k := 5
	if verifTier() == 1 {
		k = 7
	}
	verifC34Interleave(2, k)
}

func VerifC34MRSWInterleave3() {
	k := 4
	if verifTier() == 1 {
		k = 5
	}
	verifC34Interleave(3, k)
}

// ---------------------------------------------------------------- ready target

func VerifC34ReadyTargetStep() {
	r := NewReadyTarget[uint64]()
	cur := verifU64("cur")
	r.currentTarget = cur
	n := verifChoice("nsub", 4) // 0..3 subscribers
	targets := make([]uint64, n)
	chans := make([]chan struct{}, n)
	for i := 0; i < n; i++ {
		targets[i] = verifU64(verifName("t", i))
		verifAssume(targets[i] > cur) // invariant: listed subscribers are still waiting
		chans[i] = make(chan struct{})
		r.subscribers = append(r.subscribers, &Subscriber[uint64]{target: targets[i], ch: chans[i]})
	}
	switch verifChoice("op", 4) {
	case 0:
		x := verifU64("signal")
		r.Signal(x)
		want := cur
		if x > cur {
			want = x
		}
		verifAssert("C34-rt-signal-monotone", r.currentTarget == want)
		left := 0
		for i := 0; i < n; i++ {
			closed := verifIsClosed(chans[i])
			if closed {
				verifReach("woken")
			}
			verifAssert("C34-rt-woken-exactly-when-reached", closed == (targets[i] <= want))
			if !closed {
				// survivors stay listed, in order
				verifAssert("C34-rt-survivor-listed", left < len(r.subscribers) && r.subscribers[left].ch == chans[i] && r.subscribers[left].target == targets[i])
				left++
			}
		}
		verifAssert("C34-rt-list-exact", r.Len() == left)
	case 1:
		x := verifU64("subscribe")
		ch := r.Subscribe(x)
		if x <= cur {
			verifReach("subscribe-already-reached")
			verifAssert("C34-rt-subscribe-at-or-below-current-is-closed", verifIsClosed(ch) && r.Len() == n)
		} else {
			verifAssert("C34-rt-subscribe-above-current-waits", !verifIsClosed(ch) && r.Len() == n+1 && r.subscribers[n].target == x)
			// and is woken by exactly the first signal that reaches it
			y := verifU64("then-signal")
			r.Signal(y)
			verifAssert("C34-rt-new-subscriber-woken-exactly", verifIsClosed(ch) == (y >= x))
		}
		for i := 0; i < n; i++ {
			if x <= cur {
				verifAssert("C34-rt-subscribe-does-not-wake-others", !verifIsClosed(chans[i]))
			}
		}
	case 2:
		if n == 0 {
			return
		}
		i := verifChoice("unsub", n)
		r.Unsubscribe(chans[i])
		verifAssert("C34-rt-unsubscribe-removes-one", r.Len() == n-1)
		k := 0
		for j := 0; j < n; j++ {
			if j == i {
				continue
			}
			verifAssert("C34-rt-unsubscribe-keeps-others", r.subscribers[k].ch == chans[j])
			k++
		}
		verifAssert("C34-rt-unsubscribed-not-closed", !verifIsClosed(chans[i]))
	case 3:
		r.Reset()
		verifAssert("C34-rt-reset", r.currentTarget == 0 && r.Len() == 0)
	}
	for _, s := range r.subscribers {
		verifAssert("C34-rt-invariant-listed-above-current", s.target > r.currentTarget && !verifIsClosed(s.ch))
	}
}

// ---------------------------------------------------------------- interleavings INSIDE the operations
//
// The entries above let an operation of a primitive run to completion before the next one
// starts. The three entries below start 2-3 goroutines ("parties") at once, each performing its
// operation(s) on one shared primitive from an arbitrary valid state, and the executor may take
// the processor away from a running goroutine at every synchronisation operation of the package
// (spec: max_preempt 1 quick / 2 thorough; which goroutine continues when one blocks or ends is
// always a choice; a goroutine woken from Cond.Wait re-acquires the lock in a step of its own).
// Counterexamples are replayed natively with the recorded schedule forced.
//
// Oracles (from the statement; the implementation's fields are only read for the final state):
//   - "in": parties between the return of their acquire and the call of their release. This
//     under-approximates "holds", so two of them coexisting is a real coexistence of holders.
//   - "may": parties between the call of their acquire and the return of their release. This
//     over-approximates "holds": a non-blocking acquire may be refused only if a conflicting
//     party may have held at some moment of the call.
//   - progress: every holder releases, so when nothing can run any more every party has
//     finished (a party left parked has lost its wake-up) and the primitive is free again.
//
// The parties only record what they observe; the driver turns the observations into obligations
// when everything is at rest (an assertion failing inside a party would end the path with the
// other parties suspended in the middle of an operation, which a native run cannot reproduce).

type verifC34Obs struct{ bad []string }

func (o *verifC34Obs) check(id string, ok bool) {
	if !ok {
		o.bad = append(o.bad, id)
	}
}

func (o *verifC34Obs) assertAll(ids ...string) {
	for _, id := range ids {
		ok := true
		for _, b := range o.bad {
			if b == id {
				ok = false
			}
		}
		verifAssert(id, ok)
	}
}

// verifC34Hold is what the holders do inside their critical sections. Short work: one
// scheduling point (the holder goes on unless the executor spends a preemption on it). Long
// work: the holder stays inside until the driver lets it leave, which the driver does for one
// holder at a time, each time every party has finished or is parked - so a party that was
// preempted in the middle of an operation resumes while the newcomer is still inside.
// Either every party works short, or the parties that acquire during the run work long and
// the holders of the start state short (these are inside for as long as the scheduler does not
// pick them, which it must do once everybody else is at rest).
type verifC34Hold struct {
	long    []bool // party i works long
	waiting []bool // party i is inside and waits to be let out
	rel     []chan struct{}
}

var verifC34Mu sync.Mutex

// verifC34NewHold: n parties; those from index longFrom on work long.
func verifC34NewHold(n, longFrom int) *verifC34Hold {
	h := &verifC34Hold{long: make([]bool, n), waiting: make([]bool, n), rel: make([]chan struct{}, n)}
	for i := range h.rel {
		h.rel[i] = make(chan struct{})
		h.long[i] = i >= longFrom
	}
	return h
}

func (h *verifC34Hold) work(i int) {
	if !h.long[i] {
		verifC34Mu.Lock()
		verifC34Mu.Unlock()
		return
	}
	h.waiting[i] = true
	<-h.rel[i]
}

// drive runs on the driver: whenever everything is at rest it calls atRest and lets one of the
// waiting holders leave (the first one; thorough tier: any one), until nobody waits inside.
func (h *verifC34Hold) drive(atRest func()) {
	for round := 0; round <= 2*len(h.waiting); round++ {
		verifSettle()
		if atRest != nil {
			atRest()
		}
		var ws []int
		for i, w := range h.waiting {
			if w {
				ws = append(ws, i)
			}
		}
		if len(ws) == 0 {
			return
		}
		k := ws[0]
		if len(ws) > 1 && verifTier() == 1 {
			k = ws[verifChoice(verifName("leave", round), len(ws))]
		}
		h.waiting[k] = false
		h.rel[k] <- struct{}{}
	}
}

const verifC34Unit = time.Millisecond

// VerifC34GatePreempt: the check-and-set gate. Start state: free, or held by a party that
// releases it at some moment, or held throughout. Every other party tries to enter once
// (Begin; with two parties the first one - thorough tier: either - possibly BeginWithRetry with
// 2 retries), works inside, and leaves.
func VerifC34GatePreempt() {
	verifPanicsAreViolations()
	c := NewCheckAndSet()
	o := &verifC34Obs{}
	nW := 2
	if verifTier() == 1 {
		nW = 2 + verifChoice("workers", 2)
	}
	names := []string{"A", "B", "C"}
	in, may, claims := 0, 0, 0
	held := verifChoice("held", 2) == 1
	holderEnds := false
	h := verifC34NewHold(nW+1, nW*(1-verifChoice("hold", 2)))
	h.long[nW] = false // the holder of the start state
	if held {
		verifAssume(c.Begin("H") == nil)
		in, may, claims = 1, 1, 1
		holderEnds = verifChoice("holderEnds", 2) == 1
	}
	done := make([]bool, nW+1)
	entered := 0
	for i := 0; i < nW; i++ {
		i := i
		retry := (i == 0 || verifTier() == 1) && nW == 2 && verifChoice(verifName("retry", i), 2) == 1
		go func() {
			may0, claims0 := may, claims
			may++
			claims++
			var err error
			t0 := time.Now()
			if retry {
				err = c.BeginWithRetry(names[i], 2*verifC34Unit, verifC34Unit)
			} else {
				err = c.Begin(names[i])
			}
			if err != nil {
				may--
				verifReach("gate-refused")
				o.check("C34-gate-refused-only-when-held", may0 > 0 || claims != claims0+1)
				if retry {
					verifReach("gate-retry-timeout")
					o.check("C34-gate-retry-error", err == ErrCASConflictTimeout)
					o.check("C34-gate-retry-not-early", time.Since(t0) >= 2*verifC34Unit)
				} else {
					o.check("C34-gate-error", errors.Is(err, ErrCASConflict))
				}
			} else {
				o.check("C34-gate-one-holder", in == 0)
				in++
				entered++
				if held && entered == 1 {
					verifReach("gate-handover")
				}
				h.work(i)
				o.check("C34-gate-owner-is-the-holder", c.Owner() == names[i])
				o.check("C34-gate-one-holder", in == 1)
				in--
				c.End()
				may--
			}
			done[i] = true
		}()
	}
	if holderEnds {
		go func() {
			h.work(nW)
			in--
			c.End()
			may--
			done[nW] = true
		}()
	} else {
		done[nW] = true
	}
	h.drive(nil)
	time.Sleep(5 * verifC34Unit) // a party retrying is asleep between its attempts
	h.drive(nil)
	o.assertAll("C34-gate-one-holder", "C34-gate-owner-is-the-holder", "C34-gate-refused-only-when-held",
		"C34-gate-retry-error", "C34-gate-retry-not-early", "C34-gate-error")
	for i := range done {
		verifAssert("C34-gate-all-finish", done[i])
	}
	if held && !holderEnds {
		verifAssert("C34-gate-one-holder", entered == 0 && c.Owner() == "H")
		return
	}
	if !held {
		verifAssert("C34-gate-free-gate-admits-someone", entered >= 1)
	}
	verifAssert("C34-gate-free-at-the-end", in == 0 && may == 0 && c.Owner() == "" && c.Begin("Z") == nil)
}

// verifC34Lock is the bookkeeping shared by the parties of VerifC34MRSWPreempt.
type verifC34Lock struct {
	verifC34Obs
	r            *MultiRSW
	hold         *verifC34Hold
	rIn, wIn     int // in the critical section as reader / writer
	rMay, wMay   int // may hold as reader / writer
	claims       int // number of times rMay or wMay was raised
	readsEntered int
}

func (l *verifC34Lock) enterRead() {
	l.check("C34-no-reader-with-writer", l.wIn == 0)
	l.rIn++
	l.readsEntered++
}

func (l *verifC34Lock) enterWrite() {
	l.check("C34-at-most-one-writer", l.wIn == 0)
	l.check("C34-no-reader-with-writer", l.rIn == 0)
	l.wIn++
}

// asWriter: the party is in the critical section as the writer; it works and releases.
func (l *verifC34Lock) asWriter(i int) {
	l.hold.work(i)
	l.check("C34-at-most-one-writer", l.wIn == 1)
	l.check("C34-no-reader-with-writer", l.rIn == 0)
	l.wIn--
	l.r.EndWrite()
	l.wMay--
}

// asReader: the party is in the critical section as a reader; it works, then either releases
// or tries to upgrade (and releases whichever hold it ends up with).
func (l *verifC34Lock) asReader(i int, name string, upgrade bool) {
	l.hold.work(i)
	l.check("C34-no-reader-with-writer", l.wIn == 0)
	if !upgrade {
		l.rIn--
		l.r.EndRead()
		l.rMay--
		return
	}
	w0, r0, c0 := l.wMay, l.rMay-1, l.claims
	l.wMay++
	l.claims++
	err := l.r.UpgradeToWriter(name)
	if err != nil {
		l.wMay--
		verifReach("upgrade-refused")
		l.check("C34-upgrade-refused-only-with-others", w0 > 0 || r0 > 0 || l.claims != c0+1)
		l.check("C34-no-reader-with-writer", l.wIn == 0) // still a reader
		l.rIn--
		l.r.EndRead()
		l.rMay--
		return
	}
	verifReach("upgrade-granted")
	l.rIn--
	l.rMay--
	l.enterWrite()
	l.asWriter(i)
}

// VerifC34MRSWPreempt: the multi-reader/single-writer lock. Start state: free, one or two
// readers, or a writer (set up through the API); each of these holders is a party that works
// inside and releases (a reader may try to upgrade first). The other parties (2-3 in total) each
// perform one acquire (try/blocking, read/write), work inside, and release (a reader may try to
// upgrade first). Work inside is short on every party or long on every party (verifC34Hold);
// whenever everything is at rest, whoever is parked in an acquire is a blocking acquirer
// excluded by somebody inside.
func VerifC34MRSWPreempt() {
	verifPanicsAreViolations()
	l := &verifC34Lock{r: NewMultiRSW()}
	r := l.r
	names := []string{"A", "B", "C"}
	nP := 2 + verifChoice("parties", 2)
	pre := verifChoice("pre", 4) // 0 free, 1 one reader, 2 two readers, 3 a writer
	preR, preW := 0, 0
	switch pre {
	case 1, 2:
		preR = pre
	case 3:
		preW = 1
	}
	for i := 0; i < preR; i++ {
		verifAssume(r.BeginRead() == nil)
	}
	if preW == 1 {
		verifAssume(r.BeginWrite(names[0]) == nil)
	}
	l.rIn, l.rMay, l.wIn, l.wMay = preR, preR, preW, preW
	l.hold = verifC34NewHold(nP, nP)
	if verifChoice("hold", 2) == 1 {
		l.hold = verifC34NewHold(nP, preR+preW)
	}
	done := make([]bool, nP)
	blocking := make([]bool, nP)
	blockingWrite := make([]bool, nP)
	acquiring := make([]bool, nP) // the party is inside its acquire call
	for i := 0; i < nP; i++ {
		i := i
		name := names[i]
		switch {
		case i < preW:
			go func() {
				l.asWriter(i)
				done[i] = true
			}()
		case i < preR:
			upgrade := verifChoice(verifName("upgrade", i), 2) == 1
			go func() {
				l.asReader(i, name, upgrade)
				done[i] = true
			}()
		default:
			op := verifChoice(verifName("op", i), 4)
			upgrade := false
			if op < 2 {
				upgrade = verifChoice(verifName("upgrade", i), 2) == 1
			}
			blocking[i] = op == 1 || op == 3
			blockingWrite[i] = op == 3
			go func() {
				w0, r0, c0 := l.wMay, l.rMay, l.claims
				l.claims++
				acquiring[i] = true
				switch op {
				case 0:
					l.rMay++
					err := r.BeginRead()
					acquiring[i] = false
					if err != nil {
						l.rMay--
						verifReach("read-refused")
						l.check("C34-read-refused-only-under-writer", w0 > 0 || l.claims != c0+1)
					} else {
						l.enterRead()
						l.asReader(i, name, upgrade)
					}
				case 1:
					l.rMay++
					r.BeginReadBlocking()
					acquiring[i] = false
					l.enterRead()
					l.asReader(i, name, upgrade)
				case 2:
					l.wMay++
					err := r.BeginWrite(name)
					acquiring[i] = false
					if err != nil {
						l.wMay--
						verifReach("write-refused")
						l.check("C34-write-refused-only-when-held", w0 > 0 || r0 > 0 || l.claims != c0+1)
					} else {
						l.enterWrite()
						l.asWriter(i)
					}
				case 3:
					l.wMay++
					r.BeginWriteBlocking(name)
					acquiring[i] = false
					l.enterWrite()
					l.asWriter(i)
				}
				done[i] = true
			}()
		}
	}
	l.hold.drive(func() {
		// everybody is at rest: inside (long work), finished, or parked in a blocking acquire -
		// and then somebody who excludes it is inside
		for i := range done {
			if acquiring[i] {
				verifReach("parked-behind-holder")
				verifAssert("C34-parked-only-blocking-acquirers", blocking[i])
				if blockingWrite[i] {
					verifAssert("C34-parked-writer-has-cause", l.wIn+l.rIn >= 1)
				} else {
					verifAssert("C34-parked-reader-has-cause", l.wIn >= 1)
				}
			}
		}
	})
	l.assertAll("C34-at-most-one-writer", "C34-no-reader-with-writer", "C34-upgrade-refused-only-with-others",
		"C34-read-refused-only-under-writer", "C34-write-refused-only-when-held")
	for i := range done {
		verifAssert("C34-blocking-acquirer-proceeds-once-holders-release", done[i])
	}
	verifAssert("C34-lock-free-at-the-end", l.rIn == 0 && l.wIn == 0 && l.rMay == 0 && l.wMay == 0)
	verifAssert("C34-lock-free-at-the-end", r.BeginWrite("Z") == nil)
}

// VerifC34ReadyTargetPreempt: the ready target. Start state: current index 0 (fresh) or 2
// (reached through Signal), 0-1 listed waiters above it. 2-3 parties, one operation each:
// Subscribe(t), Signal(x), Unsubscribe of the listed waiter, Subscribe(t) followed by Unsubscribe
// of the channel it got (the way a waiter with a timeout uses it), Len, Reset (the last two in
// the thorough tier). The primitive is generic over an ordered type, so only the order of the
// indexes matters: they are concrete, taken from 1..4 (below / at / one above / two above the
// current index 2; all above 0), which keeps the solver out of the schedule exploration - any
// uint64 values are covered for single operations by VerifC34ReadyTargetStep.
//   - never before: a channel seen closed was reached by the start index or by a Signal that
//     had started by then;
//   - no lost wake-up: once everything has returned (and nobody reset the target), a channel
//     that was not unsubscribed is closed exactly when its target is at or below the largest
//     index signalled; the waiters still listed are exactly the open ones.
func VerifC34ReadyTargetPreempt() {
	verifPanicsAreViolations()
	o := &verifC34Obs{}
	r := NewReadyTarget[uint64]()
	cur := uint64(2 * verifChoice("cur", 2))
	r.Signal(cur)
	verifAssert("C34-rt-signal-monotone", r.currentTarget == cur)
	nP := 2 + verifChoice("parties", 2)
	const maxSubs = 4
	var (
		targets [maxSubs]uint64
		chans   [maxSubs]<-chan struct{}
		unsub   [maxSubs]bool
		nSubs   int
		sigs    [3]uint64
		nSigs   int
		resets  int
	)
	// reached(t): t is at or below the start index or a signal that has started
	reached := func(t uint64) bool {
		ok := t <= cur
		for j := 0; j < nSigs; j++ {
			ok = verifOr(ok, t <= sigs[j])
		}
		return ok
	}
	pre := verifChoice("listed", 2)
	if pre == 1 {
		t := uint64(3)
		if verifTier() == 1 && nP == 2 {
			t = uint64(3 + verifChoice("t-listed", 2))
		}
		targets[0], chans[0] = t, r.Subscribe(t)
		nSubs = 1
		verifAssert("C34-rt-subscribe-above-current-waits", !verifIsClosed(chans[0]) && r.Len() == 1)
	}
	// the parties are interchangeable: their kinds are chosen as a non-decreasing tuple
	nk := 4
	if verifTier() == 1 && nP == 2 {
		nk = 6
	}
	var mixes [][3]int
	for k0 := 0; k0 < nk; k0++ {
		for k1 := k0; k1 < nk; k1++ {
			for k2 := k1; k2 < nk; k2++ {
				if nP == 2 && k2 != k1 {
					continue // (k0,k1) once
				}
				m := [3]int{k0, k1, k2}
				n3, nIdle := 0, 0
				for _, k := range m[:nP] {
					if k == 3 {
						n3++
					}
					if k == 3 || k == 4 {
						nIdle++
					}
				}
				if n3 > pre || nIdle == nP {
					continue // one listed waiter to unsubscribe; something has to happen
				}
				mixes = append(mixes, m)
			}
		}
	}
	mix := mixes[verifChoice("mix", len(mixes))]
	// quick tier with 3 parties: indexes 2..3 only
	lo, nv := 1, 4
	if nP == 3 && verifTier() == 0 {
		lo, nv = 2, 2
	}
	done := make([]bool, nP)
	for i := 0; i < nP; i++ {
		i := i
		kind := mix[i]
		switch kind {
		case 0, 2: // Subscribe; Subscribe then Unsubscribe
			t := uint64(lo + verifChoice(verifName("t", i), nv))
			k := nSubs
			nSubs++
			targets[k] = t
			go func() {
				ch := r.Subscribe(t)
				chans[k] = ch
				if verifIsClosed(ch) {
					verifReach("subscribed-closed")
					o.check("C34-rt-never-woken-before-reached", reached(t))
				}
				if kind == 2 {
					unsub[k] = true
					r.Unsubscribe(ch)
				}
				done[i] = true
			}()
		case 1: // Signal
			x := uint64(lo + verifChoice(verifName("x", i), nv))
			go func() {
				sigs[nSigs] = x
				nSigs++
				r.Signal(x)
				done[i] = true
			}()
		case 3: // Unsubscribe the listed waiter
			go func() {
				unsub[0] = true
				r.Unsubscribe(chans[0])
				done[i] = true
			}()
		case 4: // Len
			go func() {
				n := r.Len()
				o.check("C34-rt-len-in-range", n >= 0 && n <= nSubs)
				done[i] = true
			}()
		case 5: // Reset
			resets++
			go func() {
				r.Reset()
				done[i] = true
			}()
		}
	}
	verifSettle()
	o.assertAll("C34-rt-never-woken-before-reached", "C34-rt-len-in-range")
	for i := range done {
		verifAssert("C34-rt-all-return", done[i])
	}
	open := 0
	for k := 0; k < nSubs; k++ {
		closed := verifIsClosed(chans[k])
		listed := false
		for _, s := range r.subscribers {
			if s.ch == chans[k] {
				verifAssert("C34-rt-listed-once", !listed)
				listed = true
			}
		}
		if closed {
			verifReach("woken-concurrently")
			verifAssert("C34-rt-never-woken-before-reached", reached(targets[k]))
			verifAssert("C34-rt-woken-waiter-not-listed", !listed)
		}
		if unsub[k] {
			verifAssert("C34-rt-unsubscribed-not-listed", !listed)
			continue
		}
		if resets > 0 {
			continue
		}
		if !closed {
			verifReach("still-waiting")
			verifAssert("C34-rt-woken-once-reached", !reached(targets[k]))
			verifAssert("C34-rt-waiter-stays-listed", listed)
			open++
		}
	}
	if resets == 0 {
		verifAssert("C34-rt-list-exact", r.Len() == open)
		// the current index is the largest index signalled
		atLeast, isOne := r.currentTarget >= cur, r.currentTarget == cur
		for j := 0; j < nSigs; j++ {
			atLeast = verifAnd(atLeast, r.currentTarget >= sigs[j])
			isOne = verifOr(isOne, r.currentTarget == sigs[j])
		}
		verifAssert("C34-rt-signal-monotone", verifAnd(atLeast, isOne))
	}
}

func VerifC34Twin() {
	r := NewReadyTarget[uint64]()
	ch := r.Subscribe(verifU64("t"))
	verifAssert("twin", !verifIsClosed(ch))
}
