package rsync

// C34: the check-and-set gate, the multi-reader/single-writer lock and the ready target.
// (a) inductive steps from an arbitrary state satisfying the representation invariant;
// (b) op-level interleavings of 2-3 goroutines commanded by a driver (each primitive's
//     operation is one critical section; blocking operations park inside it).

func verifIsClosed(ch <-chan struct{}) bool {
	select {
	case <-ch:
		return true
	default:
		return false
	}
}

func verifPanics(f func()) (p bool) {
	defer func() {
		if recover() != nil {
			p = true
		}
	}()
	f()
	return false
}

// ---------------------------------------------------------------- gate

func VerifC34GateStep() {
	c := NewCheckAndSet()
	held := verifBool("held")
	if held {
		verifAssume(c.Begin("holder") == nil)
	}
	switch verifChoice("op", 3) {
	case 0:
		err := c.Begin("new")
		if held {
			verifReach("begin-conflict")
			verifAssert("C34-gate-begin-fails-when-held", err != nil)
			verifAssert("C34-gate-holder-unchanged", c.Owner() == "holder")
		} else {
			verifAssert("C34-gate-begin-succeeds-when-free", err == nil)
			verifAssert("C34-gate-owner-recorded", c.Owner() == "new")
			verifAssert("C34-gate-second-begin-fails", c.Begin("other") != nil)
		}
	case 1:
		c.End()
		verifAssert("C34-gate-end-frees", c.Owner() == "" && c.Begin("x") == nil)
	case 2:
		st := c.Stats()
		if held {
			verifAssert("C34-gate-stats-owner", st["owner"] == "holder")
		} else {
			verifAssert("C34-gate-stats-free", st["owner"] == nil)
		}
	}
}

// ---------------------------------------------------------------- MRSW inductive step

func VerifC34MRSWStep() {
	r := NewMultiRSW()
	writer := verifBool("writerActive")
	n := int(verifI64("numReaders"))
	verifAssume(n >= 0 && n < 1<<40)
	verifAssume(!(writer && n > 0)) // representation invariant
	if writer {
		r.owner = "w"
	}
	r.numReaders = n

	switch verifChoice("op", 7) {
	case 0:
		err := r.BeginRead()
		if writer {
			verifAssert("C34-mrsw-read-refused-under-writer", err != nil && r.numReaders == n && r.owner == "w")
		} else {
			verifAssert("C34-mrsw-read-admitted", err == nil && r.numReaders == n+1 && r.owner == "")
		}
	case 1:
		if writer {
			return // would block: covered by the interleaving harness
		}
		r.BeginReadBlocking()
		verifAssert("C34-mrsw-blocking-read-admitted", r.numReaders == n+1 && r.owner == "")
	case 2:
		p := verifPanics(r.EndRead)
		if n == 0 {
			verifReach("endread-misuse")
			verifAssert("C34-mrsw-endread-without-reader-panics", p)
			return // documented misuse: the state after the panic is not constrained
		} else {
			verifAssert("C34-mrsw-endread", !p && r.numReaders == n-1)
		}
	case 3:
		err := r.BeginWrite("nw")
		if writer || n > 0 {
			verifAssert("C34-mrsw-write-refused", err != nil && r.numReaders == n && (r.owner == "w") == writer)
		} else {
			verifAssert("C34-mrsw-write-admitted", err == nil && r.owner == "nw" && r.numReaders == 0)
		}
		verifAssert("C34-mrsw-empty-owner-panics", verifPanics(func() { r.BeginWrite("") }))
	case 4:
		if writer || n > 0 {
			return // would block
		}
		r.BeginWriteBlocking("nw")
		verifAssert("C34-mrsw-blocking-write-admitted", r.owner == "nw" && r.numReaders == 0)
	case 5:
		p := verifPanics(r.EndWrite)
		if writer {
			verifAssert("C34-mrsw-endwrite", !p && r.owner == "" && r.numReaders == 0)
		} else {
			verifAssert("C34-mrsw-endwrite-without-writer-panics", p)
		}
	case 6:
		var err error
		p := verifPanics(func() { err = r.UpgradeToWriter("up") })
		switch {
		case writer:
			verifAssert("C34-mrsw-upgrade-refused-writer", !p && err != nil && r.owner == "w")
		case n > 1:
			verifAssert("C34-mrsw-upgrade-refused-readers", !p && err != nil && r.numReaders == n && r.owner == "")
		case n == 0:
			verifAssert("C34-mrsw-upgrade-without-reader-panics", p)
		default:
			verifReach("upgrade-ok")
			verifAssert("C34-mrsw-upgrade", !p && err == nil && r.owner == "up" && r.numReaders == 0)
		}
	}
	verifAssert("C34-mrsw-invariant", r.numReaders >= 0 && !(r.owner != "" && r.numReaders > 0))
}

// ---------------------------------------------------------------- MRSW interleavings

type verifWorker struct {
	cmd      chan int
	holdsR   bool
	holdsW   bool
	inOp     int // 0 none, otherwise the op it is executing (possibly parked inside)
	lastErr  error
	finished int
}

const (
	vOpTryRead = 1 + iota
	vOpBlockRead
	vOpEndRead
	vOpTryWrite
	vOpBlockWrite
	vOpEndWrite
	vOpUpgrade
)

func (w *verifWorker) run(r *MultiRSW, name string) {
	for op := range w.cmd {
		w.inOp = op
		w.lastErr = nil
		switch op {
		case vOpTryRead:
			if w.lastErr = r.BeginRead(); w.lastErr == nil {
				w.holdsR = true
			}
		case vOpBlockRead:
			r.BeginReadBlocking()
			w.holdsR = true
		case vOpEndRead:
			r.EndRead()
			w.holdsR = false
		case vOpTryWrite:
			if w.lastErr = r.BeginWrite(name); w.lastErr == nil {
				w.holdsW = true
			}
		case vOpBlockWrite:
			r.BeginWriteBlocking(name)
			w.holdsW = true
		case vOpEndWrite:
			r.EndWrite()
			w.holdsW = false
		case vOpUpgrade:
			if w.lastErr = r.UpgradeToWriter(name); w.lastErr == nil {
				w.holdsR, w.holdsW = false, true
			}
		}
		w.inOp = 0
		w.finished++
	}
}

func verifC34Interleave(nWorkers, steps int) {
	r := NewMultiRSW()
	names := []string{"A", "B", "C"}
	ws := make([]*verifWorker, nWorkers)
	for i := range ws {
		ws[i] = &verifWorker{cmd: make(chan int)}
		go ws[i].run(r, names[i])
		verifSettle()
	}
	count := func() (readers, writers int) {
		for _, w := range ws {
			if w.holdsR {
				readers++
			}
			if w.holdsW {
				writers++
			}
		}
		return
	}
	for s := 0; s < steps; s++ {
		g := verifChoice(verifName("g", s), nWorkers)
		w := ws[g]
		if w.inOp != 0 {
			continue // parked inside a blocking op: cannot be commanded
		}
		// the operations this worker may legally perform now
		var ops []int
		switch {
		case w.holdsW:
			ops = []int{vOpEndWrite}
		case w.holdsR:
			ops = []int{vOpEndRead, vOpUpgrade}
		default:
			ops = []int{vOpTryRead, vOpBlockRead, vOpTryWrite, vOpBlockWrite}
		}
		op := ops[verifChoice(verifName("op", s), len(ops))]
		readers0, writers0 := count()
		before := w.finished
		w.cmd <- op
		verifSettle()
		done := w.finished > before
		// outcome of non-blocking operations follows the documented rule
		switch op {
		case vOpTryRead:
			verifAssert("C34-try-read-result", done && (w.lastErr == nil) == (writers0 == 0))
		case vOpTryWrite:
			verifAssert("C34-try-write-result", done && (w.lastErr == nil) == (writers0 == 0 && readers0 == 0))
		case vOpUpgrade:
			verifAssert("C34-upgrade-result", done && (w.lastErr == nil) == (writers0 == 0 && readers0 == 1))
		case vOpEndRead, vOpEndWrite:
			verifAssert("C34-release-never-blocks", done)
		}
		readers, writers := count()
		verifAssert("C34-at-most-one-writer", writers <= 1)
		verifAssert("C34-no-reader-with-writer", !(writers >= 1 && readers >= 1))
		// progress: nobody stays parked once its wait condition is gone
		for _, x := range ws {
			switch x.inOp {
			case vOpBlockRead:
				verifReach("reader-parked")
				verifAssert("C34-parked-reader-has-cause", writers >= 1)
			case vOpBlockWrite:
				verifReach("writer-parked")
				verifAssert("C34-parked-writer-has-cause", writers >= 1 || readers >= 1)
			}
		}
	}
}

func VerifC34MRSWInterleave2() {
	k := 5
	if verifTier() == 1 {
		k = 7
	}
	verifC34Interleave(2, k)
}

func VerifC34MRSWInterleave3() {
	k := 4
	if verifTier() == 1 {
		k = 5
	}
	verifC34Interleave(3, k)
}

// ---------------------------------------------------------------- ready target

func VerifC34ReadyTargetStep() {
	r := NewReadyTarget[uint64]()
	cur := verifU64("cur")
	r.currentTarget = cur
	n := verifChoice("nsub", 4) // 0..3 subscribers
	targets := make([]uint64, n)
	chans := make([]chan struct{}, n)
	for i := 0; i < n; i++ {
		targets[i] = verifU64(verifName("t", i))
		verifAssume(targets[i] > cur) // invariant: listed subscribers are still waiting
		chans[i] = make(chan struct{})
		r.subscribers = append(r.subscribers, &Subscriber[uint64]{target: targets[i], ch: chans[i]})
	}
	switch verifChoice("op", 4) {
	case 0:
		x := verifU64("signal")
		r.Signal(x)
		want := cur
		if x > cur {
			want = x
		}
		verifAssert("C34-rt-signal-monotone", r.currentTarget == want)
		left := 0
		for i := 0; i < n; i++ {
			closed := verifIsClosed(chans[i])
			if closed {
				verifReach("woken")
			}
			verifAssert("C34-rt-woken-exactly-when-reached", closed == (targets[i] <= want))
			if !closed {
				// survivors stay listed, in order
				verifAssert("C34-rt-survivor-listed", left < len(r.subscribers) && r.subscribers[left].ch == chans[i] && r.subscribers[left].target == targets[i])
				left++
			}
		}
		verifAssert("C34-rt-list-exact", r.Len() == left)
	case 1:
		x := verifU64("subscribe")
		ch := r.Subscribe(x)
		if x <= cur {
			verifReach("subscribe-already-reached")
			verifAssert("C34-rt-subscribe-at-or-below-current-is-closed", verifIsClosed(ch) && r.Len() == n)
		} else {
			verifAssert("C34-rt-subscribe-above-current-waits", !verifIsClosed(ch) && r.Len() == n+1 && r.subscribers[n].target == x)
			// and is woken by exactly the first signal that reaches it
			y := verifU64("then-signal")
			r.Signal(y)
			verifAssert("C34-rt-new-subscriber-woken-exactly", verifIsClosed(ch) == (y >= x))
		}
		for i := 0; i < n; i++ {
			if x <= cur {
				verifAssert("C34-rt-subscribe-does-not-wake-others", !verifIsClosed(chans[i]))
			}
		}
	case 2:
		if n == 0 {
			return
		}
		i := verifChoice("unsub", n)
		r.Unsubscribe(chans[i])
		verifAssert("C34-rt-unsubscribe-removes-one", r.Len() == n-1)
		k := 0
		for j := 0; j < n; j++ {
			if j == i {
				continue
			}
			verifAssert("C34-rt-unsubscribe-keeps-others", r.subscribers[k].ch == chans[j])
			k++
		}
		verifAssert("C34-rt-unsubscribed-not-closed", !verifIsClosed(chans[i]))
	case 3:
		r.Reset()
		verifAssert("C34-rt-reset", r.currentTarget == 0 && r.Len() == 0)
	}
	for _, s := range r.subscribers {
		verifAssert("C34-rt-invariant-listed-above-current", s.target > r.currentTarget && !verifIsClosed(s.ch))
	}
}

func VerifC34Twin() {
	r := NewReadyTarget[uint64]()
	ch := r.Subscribe(verifU64("t"))
	verifAssert("twin", !verifIsClosed(ch))
}
