package store

import (
	"context"
	"os"
	"testing"
	"time"

	"github.com/rqlite/rqlite/v10/command/proto"
)

// Native confirmation of the recorded C16 defect on a REAL two-node cluster (real hashicorp/raft,
// real SQLite): (*Store).Request has no arm for ConsistencyLevel_AUTO, so an auto read sent to the
// unified endpoint of a voter that is NOT the leader is served from its local database, while the
// same read through (*Store).Query (auto = weak on voters) is refused with ErrNotLeader.
//
//	VERIF_NATIVE=1 go test -overlay ... -run TestVerifC16bNativeRequestAuto ./store
func TestVerifC16bNativeRequestAuto(t *testing.T) {
	if os.Getenv("VERIF_NATIVE") == "" {
		t.Skip()
	}
	s0, ln0 := mustNewStore(t)
	defer ln0.Close()
	if err := s0.Open(); err != nil {
		t.Fatal(err)
	}
	defer s0.Close(true)
	if err := s0.Bootstrap(NewServer(s0.ID(), s0.Addr(), true)); err != nil {
		t.Fatal(err)
	}
	if _, err := s0.WaitForLeader(10 * time.Second); err != nil {
		t.Fatal(err)
	}
	s1, ln1 := mustNewStore(t)
	defer ln1.Close()
	if err := s1.Open(); err != nil {
		t.Fatal(err)
	}
	defer s1.Close(true)
	if err := s0.Join(joinRequest(s1.ID(), s1.Addr(), true)); err != nil {
		t.Fatal(err)
	}
	if _, err := s1.WaitForLeader(10 * time.Second); err != nil {
		t.Fatal(err)
	}
	er := executeRequestFromStrings([]string{
		`CREATE TABLE foo (id INTEGER NOT NULL PRIMARY KEY, name TEXT)`,
		`INSERT INTO foo(id, name) VALUES(1, "fiona")`,
	}, false, false)
	if _, _, err := s0.Execute(context.Background(), er); err != nil {
		t.Fatal(err)
	}
	testPoll(t, func() bool { return s0.DBAppliedIndex() == s1.DBAppliedIndex() }, 100*time.Millisecond, 5*time.Second)

	if s1.IsLeader() {
		t.Fatal("s1 unexpectedly leader")
	}
	if v, err := s1.IsVoter(); err != nil || !v {
		t.Fatalf("s1 must be a voter: %v %v", v, err)
	}
	ctx := context.Background()

	// reference: the query endpoint resolves auto to weak on a voter and refuses
	qr := queryRequestFromString("SELECT * FROM foo", false, false, false)
	qr.Level = proto.ConsistencyLevel_AUTO
	_, _, _, errQ := s1.Query(ctx, qr)
	t.Logf("Query(auto) on follower voter: err=%v", errQ)
	if errQ != ErrNotLeader {
		t.Fatalf("Query(auto) on a follower voter: want ErrNotLeader, got %v", errQ)
	}
	// reference: weak on the unified endpoint is refused
	eqrW := executeQueryRequestFromString("SELECT * FROM foo", proto.ConsistencyLevel_WEAK, false, false, false)
	_, _, _, errW := s1.Request(ctx, eqrW)
	t.Logf("Request(weak) on follower voter: err=%v", errW)
	if errW != ErrNotLeader {
		t.Fatalf("Request(weak) on a follower voter: want ErrNotLeader, got %v", errW)
	}
	// the defect: auto on the unified endpoint is served by the follower
	eqr := executeQueryRequestFromString("SELECT * FROM foo", proto.ConsistencyLevel_AUTO, false, false, false)
	res, _, _, errR := s1.Request(ctx, eqr)
	t.Logf("Request(auto) on follower voter: err=%v results=%v", errR, res)
	if errR == nil {
		t.Logf("DEFECT CONFIRMED: Request(auto) was served locally by a voter that is not the leader")
		if os.Getenv("VERIF_EXPECT_DEFECT") == "" {
			t.Fail()
		}
	} else if errR != ErrNotLeader {
		t.Fatalf("unexpected error %v", errR)
	}

	// non-voter part: auto = none on non-voters, so a stale read with a freshness bound must be
	// refused; on the unified endpoint it is served without the staleness check.
	s2, ln2 := mustNewStore(t)
	defer ln2.Close()
	if err := s2.Open(); err != nil {
		t.Fatal(err)
	}
	defer s2.Close(true)
	if err := s0.Join(joinRequest(s2.ID(), s2.Addr(), false)); err != nil {
		t.Fatal(err)
	}
	if _, err := s2.WaitForLeader(10 * time.Second); err != nil {
		t.Fatal(err)
	}
	testPoll(t, func() bool { return s0.DBAppliedIndex() == s2.DBAppliedIndex() }, 100*time.Millisecond, 5*time.Second)
	if v, err := s2.IsVoter(); err != nil || v {
		t.Fatalf("s2 must be a non-voter: %v %v", v, err)
	}
	// 1 ns freshness: the last contact is always older than that on a real follower
	qr2 := queryRequestFromString("SELECT * FROM foo", false, false, false)
	qr2.Level = proto.ConsistencyLevel_AUTO
	qr2.Freshness = 1
	_, _, _, errQ2 := s2.Query(ctx, qr2)
	t.Logf("Query(auto, freshness=1ns) on non-voter: err=%v", errQ2)
	if errQ2 != ErrStaleRead {
		t.Fatalf("Query(auto,1ns) on a non-voter: want ErrStaleRead, got %v", errQ2)
	}
	eqr2 := executeQueryRequestFromString("SELECT * FROM foo", proto.ConsistencyLevel_AUTO, false, false, false)
	eqr2.Freshness = 1
	_, _, _, errR2 := s2.Request(ctx, eqr2)
	t.Logf("Request(auto, freshness=1ns) on non-voter: err=%v", errR2)
	if errR2 == nil {
		t.Logf("DEFECT CONFIRMED (non-voter): Request(auto) ignores the freshness bound")
	}
}
