package store

import (
	"context"
	"errors"
	"io"
	"log"
	"sync/atomic"
	"time"

	"github.com/hashicorp/raft"
	"github.com/rqlite/rqlite/v10/command"
	"github.com/rqlite/rqlite/v10/command/proto"
	sql "github.com/rqlite/rqlite/v10/db"
	"github.com/rqlite/rqlite/v10/internal/rsync"
	"github.com/rqlite/rqlite/v10/store/throttler"
)

// =============================================================================================
// Shared model code of C16b and C38 (kept identical in both directories): the raft contract of
// DESIGN.md section 4.5 as ordinary Go.
//
//   - symbolic run: spec.json "models" maps the methods of the concrete *raft.Raft that the read
//     paths call onto the verifRaft* functions below;
//   - native replay: the same functions are reached through raft.VerifHooks, a hook set that a
//     patched copy of hashicorp/raft v1.7.3 api.go (raft_api.go.txt, spec "native_replace")
//     consults first. So the replay executes the REAL store code with the Go runtime against
//     exactly the environment the solver chose.
//   - the genuine defects are additionally confirmed on real clusters (native_defect_test.go).
//
// What the model promises (and nothing else): the term and the commit index never decrease; a
// node's role, the known leader and the result of VerifyLeader/Apply are arbitrary at every call
// (volatile world) or fixed (stable world); Apply that succeeds appends one committed entry.
// Every call is recorded in a trace; the oracles speak about the trace.
// =============================================================================================

const (
	vEvState  = iota // ok: reported Leader
	vEvTerm          // val: term returned
	vEvCommit        // val: commit index returned
	vEvVerify        // ok: VerifyLeader future returned nil
	vEvApply         // ok: Apply future returned nil; val: index; term: the term the entry was appended in
	vEvConfig        // ok: no error; val: 0 voter, 1 non-voter, 2 not in the configuration
	vEvContact
	vEvLeaderID // ok: a leader is known
)

type verifEv struct {
	kind int
	ok   bool
	val  uint64
	term uint64
}

type verifRaftWorld struct {
	n        int  // number of environment steps so far (also keys the nondet names)
	volatile bool // role, term, commit index, known leader may change between any two calls
	leader   bool
	known    bool // a leader is known (LeaderWithID non-empty)
	term     uint64
	commit   uint64
	contact  time.Time
	voter    int // 0 voter, 1 non-voter, 2 not in the configuration, 3 GetConfiguration fails; -1 = not looked at yet (chosen on first use)
	verify   int // stable world: result of VerifyLeader (0 nil, 1 ErrNotLeader, 2 ErrLeadershipLost, 3 other); -1 = choose at the call
	apply    int // result of Apply (0 nil, 1 ErrNotLeader, 2 ErrLeadershipLost, 3 other); -1 = choose at the call
	resp     any // what a successful Apply answers (the FSM's response object)
	onApply  func(idx uint64)
	trace    []verifEv
}

var verifW *verifRaftWorld

const verifSelfID = "self"

var verifErrOther = errors.New("verif: some other raft error")

// step is the environment's move before every observation.
func (w *verifRaftWorld) step() {
	w.n++
	if !w.volatile {
		return
	}
	dt := verifU64(verifName("dTerm", w.n))
	dc := verifU64(verifName("dCommit", w.n))
	verifAssume(dt <= 1<<40) // (one condition per assume: && would fork the path)
	verifAssume(dc <= 1<<40)
	verifAssume(w.term <= 1<<60)
	verifAssume(w.commit <= 1<<60)
	w.term += dt
	w.commit += dc
	w.leader = verifBool(verifName("leader", w.n))
	w.known = verifBool(verifName("leaderKnown", w.n))
}

func (w *verifRaftWorld) rec(kind int, ok bool, val uint64) {
	w.trace = append(w.trace, verifEv{kind: kind, ok: ok, val: val})
}

func verifRaftState(r *raft.Raft) raft.RaftState {
	w := verifW
	w.step()
	if w.leader {
		w.rec(vEvState, true, 0)
		return raft.Leader
	}
	w.rec(vEvState, false, 0)
	return raft.Follower
}

func verifRaftCurrentTerm(r *raft.Raft) uint64 {
	w := verifW
	w.step()
	w.rec(vEvTerm, true, w.term)
	return w.term
}

func verifRaftCommitIndex(r *raft.Raft) uint64 {
	w := verifW
	w.step()
	w.rec(vEvCommit, true, w.commit)
	return w.commit
}

func verifRaftAppliedIndex(r *raft.Raft) uint64 {
	w := verifW
	w.step()
	return w.commit
}

func verifRaftLastContact(r *raft.Raft) time.Time {
	w := verifW
	w.step()
	w.rec(vEvContact, true, 0)
	return w.contact
}

func verifRaftLeaderWithID(r *raft.Raft) (raft.ServerAddress, raft.ServerID) {
	w := verifW
	w.step()
	if w.known {
		w.rec(vEvLeaderID, true, 0)
		return "leader-addr", "leader-id"
	}
	w.rec(vEvLeaderID, false, 0)
	return "", ""
}

func verifRaftLeader(r *raft.Raft) raft.ServerAddress {
	a, _ := verifRaftLeaderWithID(r)
	return a
}

type verifFuture struct {
	err  error
	idx  uint64
	resp any
	conf raft.Configuration
}

func (f *verifFuture) Error() error                      { return f.err }
func (f *verifFuture) Index() uint64                     { return f.idx }
func (f *verifFuture) Response() interface{}             { return f.resp }
func (f *verifFuture) Configuration() raft.Configuration { return f.conf }

func verifRaftErr(k int) error {
	switch k {
	case 0:
		return nil
	case 1:
		return raft.ErrNotLeader
	case 2:
		return raft.ErrLeadershipLost
	}
	return verifErrOther
}

func verifRaftVerifyLeader(r *raft.Raft) raft.Future {
	w := verifW
	w.step()
	k := w.verify
	if k < 0 {
		k = verifChoice(verifName("verifyLeader", w.n), 4)
	}
	w.rec(vEvVerify, k == 0, 0)
	return &verifFuture{err: verifRaftErr(k)}
}

func verifRaftApply(r *raft.Raft, cmd []byte, timeout time.Duration) raft.ApplyFuture {
	w := verifW
	w.step()
	k := w.apply
	if k < 0 {
		k = verifChoice(verifName("apply", w.n), 4)
	}
	if k != 0 {
		w.rec(vEvApply, false, 0)
		return &verifFuture{err: verifRaftErr(k)}
	}
	// the entry is appended, committed and handed to the FSM before the future completes
	w.commit++
	idx := w.commit
	w.trace = append(w.trace, verifEv{kind: vEvApply, ok: true, val: idx, term: w.term})
	if w.onApply != nil {
		w.onApply(idx)
	}
	return &verifFuture{idx: idx, resp: w.resp}
}

func verifRaftBarrier(r *raft.Raft, timeout time.Duration) raft.Future {
	w := verifW
	w.step()
	w.commit++
	return &verifFuture{}
}

// voterKind is this node's membership (the truth the oracle refers to); chosen when first needed.
func (w *verifRaftWorld) voterKind() int {
	if w.voter < 0 {
		w.voter = verifChoice("voter", 4)
	}
	return w.voter
}

func verifRaftGetConfiguration(r *raft.Raft) raft.ConfigurationFuture {
	w := verifW
	w.step()
	if w.voterKind() == 3 {
		w.rec(vEvConfig, false, 0)
		return &verifFuture{err: verifErrOther}
	}
	w.rec(vEvConfig, true, uint64(w.voter))
	servers := []raft.Server{{ID: "other", Address: "other-addr", Suffrage: raft.Voter}}
	switch w.voter {
	case 0:
		servers = append(servers, raft.Server{ID: verifSelfID, Address: "self-addr", Suffrage: raft.Voter})
	case 1:
		servers = append(servers, raft.Server{ID: verifSelfID, Address: "self-addr", Suffrage: raft.Nonvoter})
	}
	return &verifFuture{conf: raft.Configuration{Servers: servers}}
}

// models of the two encoders on the consensus arm (protobuf is not executable symbolically; the
// bytes are never looked at by the model raft). Natively the real functions run.
func verifTryCompress(s *Store, rq command.Requester) ([]byte, bool, error) {
	return []byte{1}, false, nil
}

func verifCommandMarshal(c *proto.Command) ([]byte, error) {
	return []byte{byte(c.Type)}, nil
}

// model of (*CommandProcessor).Process for the symbolic run (command.Unmarshal is protobuf): the
// harnesses only ever put NOOP commands into the log, which Process answers like this without
// touching the database. Natively the real Process decodes the real NOOP bytes.
func verifProcess(c *CommandProcessor, data []byte, db *sql.SwappableDB) (*proto.Command, bool, any) {
	return &proto.Command{Type: proto.Command_COMMAND_TYPE_NOOP}, false, &fsmGenericResponse{}
}

// verifNoopData is the log payload of an rqlite NOOP command (a LogCommand entry for raft).
func verifNoopData() []byte {
	b, err := command.Marshal(&proto.Command{Type: proto.Command_COMMAND_TYPE_NOOP})
	if err != nil {
		panic(err)
	}
	return b
}

// native replay: installs / removes raft.VerifHooks (set by hooks_test.go; nil in the symbolic run)
var verifRaftHooksInstall func()
var verifRaftHooksRemove func()

// verifNewStore builds a Store with exactly the fields the read paths touch. db stays nil: the
// local-read sink (s.db.QueryWithContext) therefore shows up as a recovered nil-pointer panic,
// symbolically and natively alike, and nothing after the sink is part of the claim.
func verifNewStore() *Store {
	s := &Store{
		open:           rsync.NewAtomicBool(),
		raft:           &raft.Raft{}, // never consulted: every method the paths call is modelled
		raftID:         verifSelfID,
		raftTn:         &NodeTransport{commandCommitIndex: &atomic.Uint64{}, leaderCommitIndex: &atomic.Uint64{}},
		readyChans:     rsync.NewReadyChannels(),
		fsmTarget:      rsync.NewReadyTarget[uint64](),
		appliedTarget:  rsync.NewReadyTarget[uint64](),
		fsmUpdateTime:  rsync.NewAtomicTime(),
		appendedAtTime: rsync.NewAtomicTime(),
		dbModifiedTime: rsync.NewAtomicTime(),
		reqMarshaller:  command.NewRequestMarshaler(),
		throttler:      throttler.New(nil, 1, 0),
		logger:         log.New(io.Discard, "", 0),
		ApplyTimeout:   applyTimeout,
	}
	s.cmdProc = NewCommandProcessor(s.logger, nil)
	s.open.Set()
	return s
}

// verifReadOut is what a read through the real entry points came to.
type verifReadOut struct {
	served bool // the local-read sink (s.db.QueryWithContext on the nil database) was reached
	level  proto.ConsistencyLevel
	index  uint64
	err    error
}

func verifReadRecover(out *verifReadOut) {
	if r := recover(); r != nil {
		if st, ok := r.(verifStop); ok {
			panic(st) // native verifAssume/verifAssert inside a model: not ours
		}
		out.served = true
	}
}

func verifQuery(s *Store, qr *proto.QueryRequest) (out verifReadOut) {
	defer verifReadRecover(&out)
	_, out.level, out.index, out.err = s.Query(context.Background(), qr)
	return
}

func verifRequest(s *Store, eqr *proto.ExecuteQueryRequest) (out verifReadOut) {
	defer verifReadRecover(&out)
	_, _, out.index, out.err = s.Request(context.Background(), eqr)
	out.level = eqr.Level
	return
}

var _ = errors.New
var _ = time.Second

// =============================================================================================
// C16(b): dispatch of the read consistency levels.
// =============================================================================================

var verifC16Levels = []proto.ConsistencyLevel{
	proto.ConsistencyLevel_NONE, proto.ConsistencyLevel_WEAK, proto.ConsistencyLevel_AUTO,
	proto.ConsistencyLevel_LINEARIZABLE, proto.ConsistencyLevel_STRONG,
}

// verifC16Scenario is everything the solver chooses for one read.
type verifC16Scenario struct {
	s        *Store
	w        *verifRaftWorld
	level    proto.ConsistencyLevel
	now      int64
	contact  int64
	fsmUpd   int64
	appended int64
	apZero   bool
	fsmIdx   uint64
	cmdCI    uint64
	fresh    int64
	strict   bool
	srt      uint64 // s.strongReadTerm before the read
	lt       int64  // linearizable timeout parameter
	commit0  uint64 // commit index when the read starts
	applied  uint64 // ghost: highest index signalled on fsmTarget
	notReady chan struct{}
}

func verifC16Setup(volatile bool, level int) *verifC16Scenario {
	const lim = int64(1) << 61
	sc := &verifC16Scenario{}
	if level < 0 {
		level = verifChoice("level", len(verifC16Levels))
	}
	sc.level = verifC16Levels[level]
	w := &verifRaftWorld{volatile: volatile, verify: -1, apply: -1, voter: -1}
	sc.w = w
	verifW = w
	w.term = verifU64("term")
	w.commit = verifU64("commit")
	verifAssume(w.term >= 1)
	verifAssume(w.term <= 1<<60)
	verifAssume(w.commit <= 1<<60)
	if !volatile {
		w.leader = verifChoice("role", 2) == 0
		w.known = verifChoice("leaderKnown", 2) == 0
	}

	// instants: the node's clock, the last contact, when the FSM last applied, when that entry was appended
	sc.now = verifI64("now")
	sc.contact = verifI64("contact")
	sc.fsmUpd = verifI64("fsmUpdate")
	sc.appended = verifI64("appendedAt")
	for _, x := range []int64{sc.now, sc.contact, sc.fsmUpd, sc.appended} {
		verifAssume(x > -lim)
		verifAssume(x < lim)
	}
	// (the staleness inputs matter for none and auto only; a concrete value elsewhere saves a fork)
	staleLevel := sc.level == proto.ConsistencyLevel_NONE || sc.level == proto.ConsistencyLevel_AUTO
	sc.apZero = staleLevel && verifChoice("appendedIsZero", 2) == 1
	sc.fresh = verifI64("freshness")
	sc.strict = verifBool("strict")
	verifSetClock(sc.now)
	w.contact = verifTime(sc.contact)

	s := verifNewStore()
	sc.s = s
	// FSM progress before the read: the highest applied index was signalled; it cannot exceed the commit index
	// (index 0 = nothing applied yet leaves the ReadyTarget in its initial state: same as C38's empty log)
	sc.fsmIdx = verifU64("fsmIdx")
	verifAssume(sc.fsmIdx >= 1)
	verifAssume(sc.fsmIdx <= w.commit)
	s.fsmIdx.Store(sc.fsmIdx)
	s.fsmTarget.Signal(sc.fsmIdx)
	sc.applied = sc.fsmIdx
	s.fsmUpdateTime.Store(verifTime(sc.fsmUpd))
	if !sc.apZero {
		s.appendedAtTime.Store(verifTime(sc.appended))
	}
	sc.cmdCI = verifU64("commandCommitIndex")
	s.raftTn.commandCommitIndex.Store(sc.cmdCI)
	// the term of the most recent strong read was a term reading of the past
	sc.srt = verifU64("strongReadTerm")
	verifAssume(sc.srt <= w.term)
	s.strongReadTerm.Store(sc.srt)
	sc.lt = verifI64("linearizableTimeout")
	verifAssume(sc.lt >= 0)
	verifAssume(sc.lt <= int64(5*time.Second))
	sc.commit0 = w.commit

	consensusLevel := sc.level == proto.ConsistencyLevel_LINEARIZABLE || sc.level == proto.ConsistencyLevel_STRONG
	if consensusLevel && verifChoice("ready", 2) == 1 {
		// a registered readiness channel that is still open
		sc.notReady = make(chan struct{})
		s.readyChans.Register(sc.notReady)
	}
	// while the read waits the FSM may apply further entries
	if sc.level == proto.ConsistencyLevel_LINEARIZABLE && verifChoice("fsmProgress", 2) == 1 {
		after := verifI64("progressAfter")
		to := verifU64("progressTo")
		effLt := sc.lt
		if effLt == 0 {
			effLt = int64(linearizableTimeout)
		}
		verifAssume(after >= 1)
		verifAssume(after <= int64(6*time.Second))
		verifAssume(after != effLt)
		verifAssume(to <= 1<<61)
		go func() {
			time.Sleep(time.Duration(after))
			if to > sc.applied {
				sc.applied = to
			}
			s.fsmTarget.Signal(to)
		}()
	}
	return sc
}

func (sc *verifC16Scenario) done() {
	if sc.notReady != nil {
		close(sc.notReady)
	}
}

// staleDoc is the documented staleness rule (the statement of C16), in integer arithmetic.
func (sc *verifC16Scenario) staleDoc() bool {
	f := sc.fresh
	return f != 0 && (sc.now-sc.contact > f || (sc.strict && !sc.apZero && sc.fsmIdx != sc.cmdCI && sc.fsmUpd-sc.appended > f))
}

func (sc *verifC16Scenario) sawLeader() bool {
	for _, e := range sc.w.trace {
		if e.kind == vEvState && e.ok {
			return true
		}
	}
	return false
}

func (sc *verifC16Scenario) applyOK() (ok bool, idx, term uint64) {
	for _, e := range sc.w.trace {
		if e.kind == vEvApply && e.ok {
			return true, e.val, e.term
		}
	}
	return false, 0, 0
}

// check is the oracle, written from the statement of C16. unified = the read came in through
// (*Store).Request (the unified endpoint), where level auto is a recorded defect class.
func (sc *verifC16Scenario) check(out verifReadOut, unified bool) {
	w := sc.w
	viaApply, applyIdx, applyTerm := sc.applyOK()
	waited := verifClock() > sc.now

	// strongReadTerm ("this node committed a read through the log in that term") is what later
	// linearizable reads rely on: it may only move to a term that is not later than the term the
	// read was actually applied in, and never without such a read.
	if viaApply {
		verifAssert("C16-strong-read-term-not-later-than-the-term-applied-in", sc.s.strongReadTerm.Load() <= applyTerm)
	} else {
		verifAssert("C16-strong-read-term-moves-only-with-a-strong-read", sc.s.strongReadTerm.Load() == sc.srt)
	}

	if !out.served {
		if out.err != nil {
			verifReach("refused")
			if sc.level == proto.ConsistencyLevel_LINEARIZABLE && waited {
				verifReach("linearizable-timeout")
			}
			if out.err == ErrStaleRead {
				verifReach("refused-stale")
			}
			if out.err == ErrNotLeader {
				verifReach("refused-not-leader")
			}
			return
		}
		// answered without touching the local database: only consensus can have produced the rows
		verifReach("answered-through-consensus")
		verifAssert("C16-answer-without-local-read-went-through-raft-apply", viaApply)
		verifAssert("C16-consensus-read-reports-strong", out.level == proto.ConsistencyLevel_STRONG)
		verifAssert("C16-consensus-read-reports-its-log-index", out.index == applyIdx)
		verifAssert("C16-only-strong-or-upgraded-linearizable-go-through-consensus",
			sc.level == proto.ConsistencyLevel_STRONG || sc.level == proto.ConsistencyLevel_LINEARIZABLE)
		if sc.level == proto.ConsistencyLevel_LINEARIZABLE {
			verifReach("linearizable-upgraded-to-strong")
		}
		return
	}

	// ---- the local database is about to be read ----
	lead := sc.sawLeader()
	// none rule: a leader is never stale; otherwise the documented bound (evaluated only where needed: it forks)
	noneRule := func() bool { return lead || !sc.staleDoc() }
	switch sc.level {
	case proto.ConsistencyLevel_STRONG:
		verifAssert("C16-strong-is-never-a-local-read", false)

	case proto.ConsistencyLevel_WEAK:
		verifReach("served-weak")
		verifAssert("C16-weak-served-only-by-a-node-that-saw-itself-leader", lead)

	case proto.ConsistencyLevel_NONE:
		verifReach("served-none")
		if !lead && sc.fresh != 0 {
			verifReach("served-none-follower-with-freshness")
			if sc.strict && !sc.apZero && sc.fsmIdx != sc.cmdCI {
				verifReach("served-none-follower-strict-behind")
			}
		}
		verifAssert("C16-none-refused-when-stale", noneRule())

	case proto.ConsistencyLevel_AUTO:
		ok := lead // auto = weak on a voter; voter status unknown (3): only a leader satisfies both rules
		if k := w.voterKind(); k == 1 || k == 2 {
			ok = noneRule()
		}
		if !ok && unified {
			// recorded defect class: level auto on the unified endpoint is not resolved at all
			verifFinding("C16-request-auto-unresolved")
		}
		if w.voterKind() == 0 {
			verifReach("served-auto-voter")
		} else {
			verifReach("served-auto-non-voter")
		}
		verifAssert("C16-auto-is-weak-on-voters-none-on-non-voters", ok)

	case proto.ConsistencyLevel_LINEARIZABLE:
		verifReach("served-linearizable")
		if waited {
			verifReach("served-linearizable-after-waiting-for-the-fsm")
		}
		// (1) leadership was confirmed with a quorum during this read ...
		iv := -1
		for i, e := range w.trace {
			if e.kind == vEvVerify && e.ok {
				iv = i
				break
			}
		}
		verifAssert("C16-linearizable-confirmed-leadership-with-quorum", iv >= 0)
		// (2) ... in an unchanged term: the term in which this node last committed a strong read is
		// still the term AFTER the confirmation (terms never decrease, so it was that term throughout)
		sameTerm := false
		for i, e := range w.trace {
			if i > iv && e.kind == vEvTerm && e.val == sc.srt {
				sameTerm = true
			}
		}
		verifAssert("C16-linearizable-term-unchanged-after-confirmation", sameTerm)
		// (3) everything committed when the read started has been applied
		verifAssert("C16-linearizable-applied-everything-committed-at-start", sc.applied >= sc.commit0)
	}
}

func verifC16QueryReq(sc *verifC16Scenario) *proto.QueryRequest {
	return &proto.QueryRequest{
		Request:             &proto.Request{Statements: []*proto.Statement{{Sql: "SELECT 1"}}},
		Level:               sc.level,
		Freshness:           sc.fresh,
		FreshnessStrict:     sc.strict,
		LinearizableTimeout: sc.lt,
	}
}

// one read-only statement; SqlExplain makes RORWCount classify it without asking SQLite
func verifC16UnifiedReq(sc *verifC16Scenario) *proto.ExecuteQueryRequest {
	return &proto.ExecuteQueryRequest{
		Request:             &proto.Request{Statements: []*proto.Statement{{Sql: "SELECT 1", SqlExplain: true}}},
		Level:               sc.level,
		Freshness:           sc.fresh,
		FreshnessStrict:     sc.strict,
		LinearizableTimeout: sc.lt,
	}
}

func verifC16Run(unified, volatile bool) {
	if verifRaftHooksInstall != nil {
		verifRaftHooksInstall()
		defer verifRaftHooksRemove()
	}
	sc := verifC16Setup(volatile, -1)
	defer sc.done()
	var out verifReadOut
	if unified {
		sc.w.resp = &fsmExecuteQueryResponse{}
		out = verifRequest(sc.s, verifC16UnifiedReq(sc))
	} else {
		sc.w.resp = &fsmQueryResponse{}
		out = verifQuery(sc.s, verifC16QueryReq(sc))
	}
	sc.check(out, unified)
}

// VerifC16bQuery: (*Store).Query, every level, arbitrary (changing) role / term / commit index.
func VerifC16bQuery() { verifC16Run(false, true) }

// VerifC16bRequest: (*Store).Request with a read-only request, same world.
func VerifC16bRequest() { verifC16Run(true, true) }

// VerifC16bQueryStable / RequestStable: the node's role does not change during the read (the
// situations the documentation talks about: leader / follower, voter / non-voter).
func VerifC16bQueryStable()   { verifC16Run(false, false) }
func VerifC16bRequestStable() { verifC16Run(true, false) }

// Vacuity twin: same scenario, claims that a weak read is never served.
func VerifC16bTwin() {
	if verifRaftHooksInstall != nil {
		verifRaftHooksInstall()
		defer verifRaftHooksRemove()
	}
	sc := verifC16Setup(true, 1) // weak
	defer sc.done()
	sc.w.resp = &fsmQueryResponse{}
	out := verifQuery(sc.s, verifC16QueryReq(sc))
	verifAssert("twin", !(out.served && sc.level == proto.ConsistencyLevel_WEAK))
}
