package snapshot

// C07: reaping snapshots is crash-safe.
//
//   "If consolidation of old snapshots is interrupted at any point, including between individual
//    WAL checkpoints, directory removals, metadata rewrite and the final rename, the next start of
//    the snapshot store finishes or safely abandons the work and opens successfully. Afterwards
//    the newest snapshot has the same index and term as before and resolves to the same database
//    content."
//
// The harness builds a store directory (shape chosen), records what the newest snapshot is and
// what it resolves to, runs the REAL reap (Store.reapInternal: plan construction, plan file,
// Plan.Execute with the real Executor, plan removal) and lets the process die at crash point k
// (fsmodel.go: before every mutating file-system call, and INSIDE every call that is not atomic:
// db.CheckpointRemove, a directory removal - any subset of the entries gone -, a file write - a
// prefix written). Then the real start-up repair (Store.check, which is what NewStore runs) is executed on what is on disk -
// optionally dying again at crash point k2 of the repair, and again at k3 of the second repair
// - and finally runs to the end. The oracle is the property text, plus the mechanism the
// documentation of Store.Reap names for it: "The entire sequence of operations is captured in a
// Plan, which is serialized to disk at the path REAP_PLAN. The plan is then executed." - whenever
// the reap dies with the store directory no longer as it was, REAP_PLAN is on disk.
//
// In the symbolic run the file system is the model of fsmodel.go; the native replay runs the
// same harness on a real temporary directory with real SQLite files (generated with the real db
// package: a database and a chain of WALs that each create a table), the crash points being
// driven from the real call sites (spec.json "native_hooks").

import (
	"os"
	"path/filepath"
	"strings"
)

// ---------------------------------------------------------------- the scenario

type vShape struct {
	older      int // full snapshots older than the newest full one
	olderIncs  int // incremental snapshots between the older full and the newest full
	fullWALs   int // WAL files inside the newest full snapshot
	incs       int // incremental snapshots after the newest full one
	walsPerInc int
	noVerifyDB bool
}

func (sh vShape) nWAL() int { return sh.fullWALs + sh.incs*sh.walsPerInc }

// removalOnly: the newest snapshot is a full one without WAL files, so the reap has nothing to
// consolidate and only deletes the older snapshots.
func (sh vShape) removalOnly() bool { return sh.fullWALs == 0 && sh.incs == 0 && sh.older > 0 }

func vChooseShape(tier int) vShape {
	sh := vShape{walsPerInc: 1}
	if tier == 0 {
		sh.older = verifChoice("older", 2)
		sh.fullWALs = verifChoice("fullWALs", 2)
		sh.incs = verifChoice("incs", 3)
		return sh
	}
	sh.older = verifChoice("older", 3)
	if sh.older == 1 {
		sh.olderIncs = verifChoice("olderIncs", 2)
	}
	sh.fullWALs = verifChoice("fullWALs", 3)
	sh.incs = verifChoice("incs", 4)
	if sh.incs > 0 {
		sh.walsPerInc = 1 + verifChoice("walsPerInc", 2)
	}
	simple := sh.walsPerInc == 1 && sh.fullWALs < 2
	// two older full snapshots, and plans without the database verification step, only together
	// with the simpler rest (keeps the thorough tier within its time budget)
	verifAssume(sh.older < 2 || simple)
	if simple && sh.older < 2 {
		sh.noVerifyDB = verifChoice("noVerifyDB", 2) == 1
	}
	verifAssume(sh.nWAL() < vNativeWALs)
	return sh
}

var vIncIDs = []string{"2-30-3000", "2-40-4000", "3-50-5000", "3-60-6000"}
var vIncIndex = []uint64{30, 40, 50, 60}
var vIncTerm = []uint64{2, 2, 3, 3}

// vBuildStore writes the store directory of the given shape; it returns the directory.
func vBuildStore(root string, sh vShape) string {
	dir := filepath.Join(root, "rsnapshots")
	vMust(os.MkdirAll(dir, 0o755))
	vWALSeq = 0
	if sh.older > 1 {
		vPutSnapshot(dir, "1-5-500", 5, 1, true, 0)
	}
	if sh.older > 0 {
		vPutSnapshot(dir, "1-10-1000", 10, 1, true, 0)
	}
	if sh.olderIncs > 0 {
		// a WAL that is not part of the newest snapshot's chain (the last fixture WAL)
		vWALSeq = vNativeWALs - 1
		vPutSnapshot(dir, "1-15-1500", 15, 1, false, 1)
		vWALSeq = 0
	}
	vPutSnapshot(dir, "2-20-2000", 20, 2, true, sh.fullWALs)
	for i := 0; i < sh.incs; i++ {
		vPutSnapshot(dir, vIncIDs[i], vIncIndex[i], vIncTerm[i], false, sh.walsPerInc)
	}
	return dir
}

func vMarkCrash(dir string, sh vShape) {
	switch {
	case vCr.inside && vCr.op == vOpRemoveAll:
		verifReach("crash-inside-directory-removal")
		if sh.removalOnly() {
			verifReach("crash-inside-directory-removal-of-removal-only-reap")
		}
	case vCr.inside && vCr.op == vOpWriteFile && strings.HasSuffix(vCr.path, reapPlanFile+tmpSuffix):
		verifReach("crash-inside-plan-write")
	case vCr.inside && vCr.op == vOpWriteFile && strings.HasSuffix(vCr.path, metaFileName):
		verifReach("crash-inside-metadata-rewrite")
	case vCr.inside && vCr.op == vOpSidecar:
		verifReach("crash-inside-checksum-write")
	case strings.HasSuffix(vCr.path, reapPlanFile+tmpSuffix):
		verifReach("crash-while-writing-plan")
	case vCr.op == vOpCkptInside:
		verifReach("crash-inside-checkpoint")
	case vCr.op == vOpCheckpoint:
		verifReach("crash-between-wal-move-and-checkpoint")
	case vCr.op == vOpRemoveAll:
		verifReach("crash-before-directory-removal")
	case vCr.op == vOpWriteFile && strings.HasSuffix(vCr.path, metaFileName):
		verifReach("crash-before-metadata-rewrite")
	case vCr.op == vOpRename && strings.HasSuffix(vCr.path, "2-20-2000"):
		verifReach("crash-before-final-rename")
	case vCr.op == vOpRemove && vCr.path == filepath.Join(dir, reapPlanFile):
		verifReach("crash-before-plan-removal")
	}
}

// vCheckRecovered is the oracle: the repaired store against what was there before the reap.
func vCheckRecovered(dir string, pre vView, tag string) {
	post := vObserve(dir)
	verifAssert("C07-"+tag+"-catalog-readable", post.ok)
	verifAssert("C07-"+tag+"-newest-index-unchanged", post.index == pre.index)
	verifAssert("C07-"+tag+"-newest-term-unchanged", post.term == pre.term)
	verifAssert("C07-"+tag+"-newest-resolves-to-same-database", post.content == pre.content)
	verifAssert("C07-"+tag+"-checksum-records-match", post.crcOK)
	verifAssert("C07-"+tag+"-directories-named-after-snapshot-ids", post.idsOK)
	verifAssert("C07-"+tag+"-no-plan-or-temporary-left", !vLeftovers(dir))
}

// vStoreDigest is a digest of the store directory without the reap plan and its temporary file.
func vStoreDigest(dir string) string {
	out := ""
	for _, name := range vList(dir) {
		if name == reapPlanFile || name == reapPlanFile+tmpSuffix {
			continue
		}
		p := filepath.Join(dir, name)
		if vIsDir(p) {
			out += name + "/{" + vTree(p) + "}"
			continue
		}
		b, _ := os.ReadFile(p)
		out += name + "=" + string(b) + ";"
	}
	return out
}

// vPlanMissing: the reap died with the store directory changed and no REAP_PLAN on disk.
var vPlanMissing bool

// vSweepLastOp describes where the reap died, vSweepFirstPartial which partial state it left (-1:
// it died between calls or inside a checkpoint) (read by the native sweep test).
var vSweepLastOp string
var vSweepFirstPartial int

// vReap runs the real reap on a fresh Store value over dir.
func vReap(dir string, sh vShape) error {
	s := vBareStore(dir)
	s.noVerifyDB.SetBool(sh.noVerifyDB)
	_, _, err := s.reapInternal()
	return err
}

// vCrashMode says where the process may die. By default the reap dies at every crash point, between
// calls and inside the calls that are not atomic (every partial state), and the repairs die between
// calls and inside db.CheckpointRemove.
type vCrashMode struct {
	reapAtomic   bool // the reap, too, dies between calls and inside db.CheckpointRemove only
	repairInside bool // the repairs, too, die inside the calls that are not atomic
	thin         bool // after a death of the reap inside a call that is not atomic the repair is not interrupted
}

// vCrashScenario builds the store of the shape, lets the reap die at a chosen crash point (or
// not at all) and then up to `repairs` start-up repairs die at chosen crash points as well. It
// returns the store directory and the view before the reap; crashes counts the deaths.
func vCrashScenario(sh vShape, repairs int, mode vCrashMode) (root, dir string, pre vView, crashes int) {
	root = vNewRoot("r")
	vPlanMissing = false
	vCr.atomicOnly = mode.reapAtomic
	defer func() { vCr.atomicOnly = false }()
	dir = vBuildStore(root, sh)
	pre = vObserve(dir)
	verifAssert("C07-world-is-a-valid-store", pre.ok && pre.crcOK && pre.index == 20+10*uint64(sh.incs))
	before := vStoreDigest(dir)

	n := vCountPoints(func() { vReap(dir, sh) })
	at := 1 + verifChoice("crashAt", n+1) // n+1: the reap runs to its end
	vSweepFirstPartial = -1
	var rerr error
	if !vRunCrash(at, func() { rerr = vReap(dir, sh) }) {
		verifAssume(at == vCr.count+1)
		verifAssert("C07-reap-without-crash-succeeds", rerr == nil)
		verifReach("no-crash")
		vSweepLastOp = "no crash"
	} else {
		vSweepLastOp = "before " + vCr.op + " " + filepath.Base(vCr.path)
		if vCr.inside {
			vSweepLastOp = "inside " + vCr.op + " " + filepath.Base(vCr.path)
		}
		if len(vPartialPick) > 0 {
			vSweepFirstPartial = vPartialPick[0]
		}
		crashes++
		vMarkCrash(dir, sh)
		// the plan is on disk before the first mutation (asserted by the caller, after the
		// observable behaviour)
		if vStoreDigest(dir) != before {
			vPlanMissing = !vExists(filepath.Join(dir, reapPlanFile))
			verifReach("died-after-first-mutation")
		}
	}
	vCr.atomicOnly = !mode.repairInside
	if mode.thin && len(vPartialLog) > 0 {
		repairs = 0
	}
	for i := 0; i < repairs; i++ {
		n2 := vCountPoints(func() { vBareStore(dir).check() })
		if i == 0 && verifSymbolic() {
			println("PTS", sh.older, sh.olderIncs, sh.fullWALs, sh.incs, sh.walsPerInc, sh.noVerifyDB, at, vSweepFirstPartial, n2)
		}
		k := verifChoice(verifName("crashInRepair", i), n2+1) // 0: this repair is not interrupted
		if k == 0 {
			break
		}
		verifAssume(vRunCrash(k, func() { vBareStore(dir).check() }))
		crashes++
		if i == 0 {
			verifReach("crash-during-repair")
		} else {
			verifReach("crash-during-second-repair")
		}
	}
	return
}

// VerifC07Crash: for every shape, a crash at every crash point of the reap (between calls, and
// inside the calls that are not atomic with every partial state), followed by a crash of the
// start-up repair (or none) at every crash point between calls and inside db.CheckpointRemove.
// Thorough tier (larger shapes): the repair is only interrupted after a death of the reap between
// calls or inside db.CheckpointRemove (the rest is VerifC07CrashTwiceInside, on the quick shapes).
func VerifC07Crash() {
	verifPanicsAreViolations()
	vCrashAndRecover(vChooseShape(verifTier()), vCrashMode{thin: verifTier() > 0})
}

// VerifC07CrashTwiceInside (thorough): the shapes of the quick tier, with the crash of the repair
// at every crash point inside the calls that are not atomic as well (so: both crashes inside).
func VerifC07CrashTwiceInside() {
	verifPanicsAreViolations()
	vCrashAndRecover(vChooseShape(0), vCrashMode{repairInside: true})
}

func vCrashAndRecover(sh vShape, mode vCrashMode) {
	root, dir, pre, _ := vCrashScenario(sh, 1, mode)
	defer vDropRoot(root)
	if len(vPartialLog) == 2 {
		verifReach("both-crashes-inside-a-call")
	}

	// the next start of the store
	st := vBareStore(dir)
	err := st.check()
	verifAssert("C07-store-opens-after-crash", err == nil)
	vCheckRecovered(dir, pre, "after-repair")

	// the repaired store can be reaped (to the end this time) and still holds the same
	err = vReap(dir, sh)
	verifAssert("C07-reap-after-repair-succeeds", err == nil)
	vCheckRecovered(dir, pre, "after-next-reap")
	if sh.incs > 0 || (sh.fullWALs > 0 && sh.older > 0) {
		post := vObserve(dir)
		verifAssert("C07-consolidated-into-one-snapshot", post.n == 1)
		verifReach("consolidated")
	}
	verifAssert("C07-plan-on-disk-before-first-mutation", !vPlanMissing)
}

// VerifC07Chain (thorough): three deaths in a row - in the reap, in the repair, in the repair of
// the repair - each between calls or inside db.CheckpointRemove.
func VerifC07Chain() {
	verifPanicsAreViolations()
	sh := vShape{walsPerInc: 1}
	sh.older = verifChoice("older", 2)
	sh.fullWALs = verifChoice("fullWALs", 2)
	sh.incs = 1 + verifChoice("incs", 2)
	root, dir, pre, crashes := vCrashScenario(sh, 2, vCrashMode{reapAtomic: true})
	defer vDropRoot(root)
	verifAssume(crashes == 3)
	err := vBareStore(dir).check()
	verifAssert("C07-store-opens-after-three-crashes", err == nil)
	vCheckRecovered(dir, pre, "after-three-crashes")
	verifAssert("C07-plan-on-disk-before-first-mutation", !vPlanMissing)
}

// VerifC07Twin (must be violated): the same scenario without the repair - a reap that died
// half-way leaves a store that does not look like before.
func VerifC07Twin() {
	sh := vShape{walsPerInc: 1, older: 1, fullWALs: 1, incs: 1}
	root, dir, pre, crashes := vCrashScenario(sh, 0, vCrashMode{})
	defer vDropRoot(root)
	verifAssume(crashes == 1)
	vCheckRecovered(dir, pre, "twin")
}
