package snapshot

// Native driver at plan-operation granularity, through the exported plan API only (run by hand:
// `./bin/symgo nativetest C07 TestVerifC07PlanAPI`): a real store is built in a temporary
// directory, the real reap writes its plan (and is stopped right after that), the first k
// operations are executed with plan.Plan{Ops: ops[:k]}.Execute(plan.NewExecutor()), then the real
// NewStore is called on the directory (its check() repairs the store) and the result is compared
// with what was there before the reap. Independent of the crash-point hooks except for stopping
// the reap after the plan file has been written.

import (
	"path/filepath"
	"testing"

	"github.com/rqlite/rqlite/v10/snapshot/plan"
)

func TestVerifC07PlanAPI(t *testing.T) {
	shapes := []vShape{
		{walsPerInc: 1, older: 1},
		{walsPerInc: 1, older: 1, fullWALs: 1},
		{walsPerInc: 1, incs: 2},
		{walsPerInc: 1, older: 1, fullWALs: 1, incs: 2},
		{walsPerInc: 2, older: 2, fullWALs: 2, incs: 2},
	}
	for si, sh := range shapes {
		for k := 0; ; k++ {
			root := t.TempDir()
			dir := vBuildStore(root, sh)
			pre := vObserve(dir)
			if !pre.ok {
				t.Fatalf("shape %d: world is not a valid store: %s", si, pre.why)
			}
			// points 1 and 2 are the two steps of the plan file write
			if !vRunCrash(3, func() { vReap(dir, sh) }) {
				t.Fatalf("shape %d: the reap ended before its first plan operation", si)
			}
			p, err := plan.ReadFromFile(filepath.Join(dir, reapPlanFile))
			if err != nil {
				t.Fatalf("shape %d: no plan on disk after the plan write: %v", si, err)
			}
			if k > len(p.Ops) {
				t.Logf("shape %d: %d plan operations", si, len(p.Ops))
				break
			}
			if err := (&plan.Plan{Ops: p.Ops[:k]}).Execute(plan.NewExecutor()); err != nil {
				t.Fatalf("shape %d: executing the first %d operations: %v", si, k, err)
			}
			st, err := NewStore(dir)
			if err != nil {
				t.Errorf("shape %d: NewStore after %d of %d operations: %v", si, k, len(p.Ops), err)
				continue
			}
			st.Close()
			post := vObserve(dir)
			if !post.ok || post.index != pre.index || post.term != pre.term || post.content != pre.content || !post.crcOK || !post.idsOK || vLeftovers(dir) {
				t.Errorf("shape %d: after %d of %d operations and NewStore: %+v, before the reap: %+v", si, k, len(p.Ops), post, pre)
			}
		}
	}
}
