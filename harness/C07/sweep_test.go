package snapshot

// Native sweep (not part of the check; run by hand: `./bin/symgo nativetest C07 TestVerifSweepC07`).
// Every (shape, crash point of the reap, crash point of the repair) of VerifC07Crash is executed on
// the real file system with real SQLite files, the crash points driven from the real call sites;
// no assertion may fail. This is the differential test of the symbolic run's file-system model
// against the real calls on the unchanged tree, and of the crash-point hooks.

import (
	"encoding/json"
	"fmt"
	"os"
	"strings"
	"testing"
)

func vSweepRun(f func(), vals map[string]any) (outcome []string, pruned bool) {
	verifLoad()
	verifVals = vals
	defer func() {
		r := recover()
		outcome = verifOutcome
		if r == nil {
			return
		}
		if s, ok := r.(verifStop); ok {
			pruned = s.why == "assume"
			return
		}
		outcome = append(outcome, fmt.Sprintf("panic %v", r))
	}()
	f()
	return
}

func vNum(i int) json.Number { return json.Number(fmt.Sprint(i)) }

// TestVerifSweepOps runs every choice vector of VerifC07Ops on the real file system.
func TestVerifSweepOps(t *testing.T) {
	for op := 0; op < 9; op++ {
		for leftover := 0; leftover < 3; leftover++ {
			if leftover > 0 && op != 3 {
				continue
			}
			out, _ := vSweepRun(VerifC07Ops, map[string]any{"op": vNum(op), "leftover": vNum(leftover)})
			for _, o := range out {
				t.Errorf("op=%d leftover=%d: %s", op, leftover, o)
			}
		}
	}
}

func TestVerifSweepC07(t *testing.T) {
	os.Setenv("VERIF_TIER", "thorough")
	defer os.Unsetenv("VERIF_TIER")
	runs := 0
	for older := 0; older < 2; older++ {
		for fullWALs := 0; fullWALs < 2; fullWALs++ {
			for incs := 0; incs < 3; incs++ {
				for noVerify := 0; noVerify < 2; noVerify++ {
					points := 0
					for at := 0; ; at++ {
						repairPoints := 0
						lastOp := ""
						for at2 := 0; ; at2++ {
							vals := map[string]any{"older": vNum(older), "fullWALs": vNum(fullWALs), "incs": vNum(incs),
								"noVerifyDB": vNum(noVerify), "crashAt": vNum(at), "crashInRepair0": vNum(at2)}
							out, pruned := vSweepRun(VerifC07Crash, vals)
							runs++
							for _, o := range out {
								if strings.HasPrefix(o, "violated") || strings.HasPrefix(o, "panic") || strings.HasPrefix(o, "finding") {
									t.Errorf("older=%d fullWALs=%d incs=%d noVerify=%d crashAt=%d crashInRepair0=%d: %s", older, fullWALs, incs, noVerify, at, at2, o)
								}
							}
							if pruned {
								break
							}
							repairPoints = at2
							if at2 == 0 {
								lastOp = vSweepLastOp
							}
						}
						if repairPoints == 0 && lastOp == "" {
							break // the reap ended before this crash point and before the previous one
						}
						points = at + 1
						fmt.Println("VERIF-PRINT: PTS", older, 0, fullWALs, incs, 1, noVerify == 1, at+1, repairPoints)
						t.Logf("older=%d fullWALs=%d incs=%d noVerify=%d: reap crash point %d (%s): %d repair crash points", older, fullWALs, incs, noVerify, at+1, lastOp, repairPoints)
					}
					t.Logf("older=%d fullWALs=%d incs=%d noVerify=%d: %d positions", older, fullWALs, incs, noVerify, points)
				}
			}
		}
	}
	t.Logf("%d native runs", runs)
}
