package snapshot

// Native sweep (not part of the check; run by hand: `./bin/symgo nativetest C07 TestVerifSweepC07`).
// Every (shape, crash point of the reap, partial state when that point lies inside a call, crash
// point of the repair, partial state) of VerifC07Crash is executed on the real file system with
// real SQLite files, the crash points driven from the real call sites; no assertion may fail. This
// is the differential test of the symbolic run's file-system model against the real calls on the
// unchanged tree, and of the crash-point hooks (compare the "PTS" lines with those of the symbolic
// run, VERIF_PRINT=1).
//
// VERIF_SWEEP=quick: the quick tier of VerifC07Crash (plans with the database verification step);
// VERIF_SWEEP=twice: VerifC07CrashTwiceInside (repair crashes inside calls as well);
// otherwise the thorough tier of VerifC07Crash restricted to the quick shapes (plans with and
// without the verification step).

import (
	"encoding/json"
	"fmt"
	"os"
	"strings"
	"testing"
)

func vSweepRun(f func(), vals map[string]any) (outcome []string, pruned bool) {
	verifLoad()
	verifVals = vals
	defer func() {
		r := recover()
		outcome = verifOutcome
		if r == nil {
			return
		}
		if s, ok := r.(verifStop); ok {
			pruned = s.why == "assume"
			return
		}
		outcome = append(outcome, fmt.Sprintf("panic %v", r))
	}()
	f()
	return
}

func vNum(i int) json.Number { return json.Number(fmt.Sprint(i)) }

// vSweepPartials runs f with the given choices and, for every crash inside a call the run meets,
// with every partial state of that call ("partial<i>" choices, discovered from vPartialLog).
func vSweepPartials(f func(), vals map[string]any, depth int, visit func(vals map[string]any, out []string, pruned bool)) {
	out, pruned := vSweepRun(f, vals)
	log := append([]int(nil), vPartialLog...)
	if len(log) <= depth {
		visit(vals, out, pruned)
		return
	}
	for c := 0; c < log[depth]; c++ {
		v2 := map[string]any{}
		for k, v := range vals {
			v2[k] = v
		}
		v2[verifName("partial", depth)] = vNum(c)
		vSweepPartials(f, v2, depth+1, visit)
	}
}

func vSweepBad(out []string) []string {
	var bad []string
	for _, o := range out {
		if strings.HasPrefix(o, "violated") || strings.HasPrefix(o, "panic") || strings.HasPrefix(o, "finding") {
			bad = append(bad, o)
		}
	}
	return bad
}

// TestVerifSweepOps runs every choice vector of VerifC07Ops on the real file system.
func TestVerifSweepOps(t *testing.T) {
	for op := 0; op < 9; op++ {
		for leftover := 0; leftover < 3; leftover++ {
			if leftover > 0 && op != 3 {
				continue
			}
			out, _ := vSweepRun(VerifC07Ops, map[string]any{"op": vNum(op), "leftover": vNum(leftover)})
			for _, o := range out {
				t.Errorf("op=%d leftover=%d: %s", op, leftover, o)
			}
		}
	}
}

// TestVerifSweepOpsCrash runs every choice vector of VerifC07OpsCrash on the real file system.
func TestVerifSweepOpsCrash(t *testing.T) {
	runs := 0
	for op := 0; op < 9; op++ {
		for leftover := 0; leftover < 3; leftover++ {
			if leftover > 0 && op != 3 {
				continue
			}
			for at := 0; ; at++ {
				live := false
				vals := map[string]any{"op": vNum(op), "leftover": vNum(leftover), "crashAt": vNum(at)}
				vSweepPartials(VerifC07OpsCrash, vals, 0, func(v map[string]any, out []string, pruned bool) {
					runs++
					if !pruned {
						live = true
						t.Logf("%v: died %s %s inside=%v", v, vCr.op, vCr.path, vCr.inside)
					}
					for _, o := range vSweepBad(out) {
						t.Errorf("%v: %s", v, o)
					}
				})
				if !live {
					t.Logf("op=%d leftover=%d: %d crash points", op, leftover, at)
					break
				}
			}
		}
	}
	t.Logf("%d native runs", runs)
}

func TestVerifSweepC07(t *testing.T) {
	quick := os.Getenv("VERIF_SWEEP") == "quick" || os.Getenv("VERIF_SWEEP") == "twice"
	entry := VerifC07Crash
	if os.Getenv("VERIF_SWEEP") == "twice" {
		entry = VerifC07CrashTwiceInside
	}
	if !quick {
		os.Setenv("VERIF_TIER", "thorough")
		defer os.Unsetenv("VERIF_TIER")
	}
	runs := 0
	for older := 0; older < 2; older++ {
		for fullWALs := 0; fullWALs < 2; fullWALs++ {
			for incs := 0; incs < 3; incs++ {
				for noVerify := 0; noVerify < 2; noVerify++ {
					if quick && noVerify == 1 {
						continue
					}
					points := 0
					for at := 0; ; at++ {
						reapLive := false
						repairPoints := map[int]int{} // partial state of the first crash -> crash points of the repair
						for at2 := 0; ; at2++ {
							live := false
							vals := map[string]any{"older": vNum(older), "fullWALs": vNum(fullWALs), "incs": vNum(incs),
								"noVerifyDB": vNum(noVerify), "crashAt": vNum(at), "crashInRepair0": vNum(at2)}
							vSweepLastOp = ""
							vSweepPartials(entry, vals, 0, func(v map[string]any, out []string, pruned bool) {
								runs++
								for _, o := range vSweepBad(out) {
									t.Errorf("%v: %s", v, o)
								}
								if pruned {
									return
								}
								live = true
								repairPoints[vSweepFirstPartial] = at2
								if at2 == 0 {
									t.Logf("older=%d fullWALs=%d incs=%d noVerify=%d: reap crash point %d (%s) %v", older, fullWALs, incs, noVerify, at+1, vSweepLastOp, v["partial0"])
								}
							})
							if !live {
								for p0, n2 := range repairPoints {
									fmt.Println("VERIF-PRINT: PTS", older, 0, fullWALs, incs, 1, noVerify == 1, at+1, p0, n2)
								}
								break
							}
							reapLive = true
						}
						if !reapLive {
							break // the reap ended before this crash point and before the previous one
						}
						points = at + 1
					}
					t.Logf("older=%d fullWALs=%d incs=%d noVerify=%d: %d positions", older, fullWALs, incs, noVerify, points)
				}
			}
		}
	}
	t.Logf("%d native runs", runs)
}
