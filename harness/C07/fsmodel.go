package snapshot

// Abstract file system with crash points (DESIGN 4.2). It started as the file shared with the C08
// harness; this copy additionally has crash points INSIDE the calls that are not atomic.
//
// Symbolic run: spec.json "models" maps the os / filepath / fsutil / sidecar / rsum / db / plan
// helpers the code under test calls onto the v* functions below. The file system is a tree keyed
// by concrete, clean, absolute path strings; a node is a directory or a file with a byte content.
// Native replay: the real functions run against a real temporary directory; every behaviour
// relied upon is the documented POSIX behaviour of the real call:
//   rename: atomic; a missing source fails (ENOENT); a directory cannot replace a non-empty
//           directory (ENOTEMPTY/EEXIST), a file cannot replace a directory and vice versa; the
//           target's parent must exist
//   remove: fails on a missing path and on a non-empty directory
//   removeall: removes the subtree, no error when nothing is there
//   mkdirall: no error when the directory exists, error when a file is in the way
//   create/writefile/openfile(O_CREATE|O_TRUNC): fails when the path is a directory or the parent
//           is missing, otherwise the file exists afterwards with the new content
//
// Crash points. Every MUTATING call is preceded by a crash point: a global counter is incremented
// and compared with the chosen crash position; on equality the call does not happen and the
// "process dies" (panic(vCrash{}), recovered by vRunCrash in the harness, which then runs the
// real recovery entry point on what is on disk). Process-crash model: completed calls persist
// entirely (no loss of un-synced data); an ATOMIC call in flight (rename, remove, mkdir, create)
// does not happen at all; a call that is NOT atomic has a second crash point INSIDE it, which
// leaves one of its partial states on disk (chosen with verifChoice "partial<i>"):
//   os.RemoveAll / fsutil.RemoveDirSync of a directory with m entries: any non-empty subset of the
//       entries is gone (2^m-1 states, the last one being "all entries gone"), the directory itself
//       is still there; an entry that is a directory goes as a whole. (The real call unlinks the
//       entries in the order the file system enumerates them, which is not specified: every subset
//       is the partial state of some order.)
//   os.WriteFile, sidecar.WriteFile, io.Copy into a file: the file exists (truncated) and holds a
//       prefix of the content: 0 bytes, 1 byte, half of it, or all but the last byte.
//   db.CheckpointRemove: WAL content already in the database file, -wal file not yet deleted.
// In the native replay the same counter is driven from the REAL code: spec.json "native_hooks"
// rewrites (overlay only) the listed call sites in snapshot/ and snapshot/plan/ so that
// verifhook.Pre runs immediately before each of them. The set of hooked callees and the set of
// models with a crash point are the same, so position k is the same place in both worlds.
// A partial removal is produced natively by the hook itself (it removes the chosen entries with the
// real calls and dies). A partial write is produced natively by letting the real call complete and
// dying at the very next hooked call (or at the end of the run) after truncating the file to the
// chosen prefix: every call of the code under test that changes the disk is hooked (db.Open, which
// creates the -wal and -shm files of a database, only for this purpose), so nothing that mutates
// the disk lies between the two, and what is on disk is what a death inside the write leaves.

import (
	"bytes"
	"compress/gzip"
	"encoding/binary"
	"errors"
	"io"
	"io/fs"
	"os"
	"path/filepath"
	"strings"
	"time"

	"github.com/hashicorp/raft"
	"github.com/rqlite/rqlite/v10/db"
	"github.com/rqlite/rqlite/v10/internal/rsum"
	"github.com/rqlite/rqlite/v10/internal/verifhook"
	"github.com/rqlite/rqlite/v10/snapshot/plan"
	"github.com/rqlite/rqlite/v10/snapshot/sidecar"
)

// ---------------------------------------------------------------- crash points

type vCrash struct{}

const (
	vOpRename      = "os.Rename"
	vOpRemove      = "os.Remove"
	vOpRemoveAll   = "os.RemoveAll"
	vOpMkdirAll    = "os.MkdirAll"
	vOpWriteFile   = "os.WriteFile"
	vOpCreate      = "os.Create"
	vOpOpenFile    = "os.OpenFile"
	vOpCheckpoint  = "github.com/rqlite/rqlite/v10/db.CheckpointRemove"
	vOpCkptInside  = "inside db.CheckpointRemove"
	vOpEnsureWAL   = "github.com/rqlite/rqlite/v10/db.EnsureWALMode"
	vOpSidecar     = "github.com/rqlite/rqlite/v10/snapshot/sidecar.WriteFile"
	vOpRemoveDirSy = "github.com/rqlite/rqlite/v10/internal/fsutil.RemoveDirSync"
	vOpIoCopy      = "io.Copy"
	vOpDBOpen      = "github.com/rqlite/rqlite/v10/db.Open" // native replay: hooked, not a crash point
)

var vCr struct {
	armed  bool
	count  int    // crash points passed since vRunCrash began
	at     int    // the process dies at this point (0: never)
	op     string // the call that did not happen (inside: that happened in part)
	path   string // its first argument
	inside bool   // the process died inside the call
	hooked bool

	// atomicOnly: removals and writes are treated as atomic in this run (no crash point inside
	// them; the one inside db.CheckpointRemove stays). Set by the harness, same in both worlds.
	atomicOnly bool

	// native replay: a write in flight that is to be cut down to a prefix at the next crash point
	pending    bool
	pendPath   string
	pendBase   int64 // bytes that were in the file before the write (io.Copy appends)
	pendChoice int
}

// vPartialLog: the number of partial states there were at each crash inside a call of this path
// (read by the native sweep).
var vPartialLog []int
var vPartialPick []int // and the state that was picked

// vPartialChoice picks one of the n partial states of the call the process dies in.
func vPartialChoice(n int) int {
	c := verifChoice(verifName("partial", len(vPartialLog)), n)
	vPartialLog = append(vPartialLog, n)
	vPartialPick = append(vPartialPick, c)
	return c
}

// vPoint is the crash point before a mutating call.
func vPoint(op, p string) {
	vFinishPending()
	if !vCr.armed {
		return
	}
	vCr.count++
	if vCr.count == vCr.at {
		vCr.armed = false
		vCr.op, vCr.path = op, p
		panic(vCrash{})
	}
}

// vInsidePoint is the crash point inside a call that is not atomic; die() leaves the partial state.
func vInsidePoint(op, p string, die func()) {
	if !vCr.armed {
		return
	}
	vCr.count++
	if vCr.count == vCr.at {
		vCr.armed = false
		vCr.op, vCr.path, vCr.inside = op, p, true
		die()
		panic(vCrash{})
	}
}

// vRemoveAllPoints are the crash points of a recursive removal of p: before the call and, when p is
// a directory with entries, inside it: a non-empty subset of the entries is gone (bit i of the
// choice+1: the i-th entry in name order).
func vRemoveAllPoints(op, p string) {
	vPoint(op, p)
	if !vCr.armed || vCr.atomicOnly || !vIsDir(p) {
		return
	}
	kids := vList(p)
	if len(kids) == 0 {
		return
	}
	vInsidePoint(op, p, func() {
		n := 1<<len(kids) - 1
		c := vPartialChoice(n)
		verifAssume(c < n)
		for i, k := range kids {
			if (c+1)&(1<<i) != 0 {
				vMust(os.RemoveAll(filepath.Join(p, k)))
			}
		}
	})
}

// vPrefixLens are the explored lengths of the prefix a cut write of n bytes leaves.
func vPrefixLens(n int) []int {
	var out []int
	for _, l := range []int{0, 1, n / 2, n - 1} {
		if l >= 0 && l < n && (len(out) == 0 || l > out[len(out)-1]) {
			out = append(out, l)
		}
	}
	return out
}

// vCanCreate: creating or truncating the file p would succeed.
func vCanCreate(p string) bool { return vIsDir(filepath.Dir(p)) && !vIsDir(p) }

// vWritePoints (native replay) are the crash points of a call that writes a file: before it and,
// when the file can be created, inside it (see the head of the file: the cut is made afterwards).
func vWritePoints(op, p string, appendTo bool) {
	vPoint(op, p)
	if !vCr.armed || vCr.atomicOnly || !vCanCreate(p) {
		return
	}
	vCr.count++
	if vCr.count == vCr.at {
		vCr.armed = false
		vCr.op, vCr.path, vCr.inside = op, p, true
		vCr.pending, vCr.pendPath, vCr.pendBase = true, p, 0
		if fi, err := os.Stat(p); err == nil && appendTo {
			vCr.pendBase = fi.Size()
		}
		vCr.pendChoice = vPartialChoice(0)
	}
}

// vFinishPending (native replay): the write in flight is cut down to the chosen prefix, the
// process dies.
func vFinishPending() {
	if !vCr.pending {
		return
	}
	vCr.pending = false
	fi, err := os.Stat(vCr.pendPath)
	vMust(err)
	lens := vPrefixLens(int(fi.Size() - vCr.pendBase))
	vPartialLog[len(vPartialLog)-1] = len(lens)
	verifAssume(vCr.pendChoice < len(lens))
	vMust(os.Truncate(vCr.pendPath, vCr.pendBase+int64(lens[vCr.pendChoice])))
	panic(vCrash{})
}

// vCutWrite (symbolic run) is the crash point inside a write of data into node n.
func vCutWrite(op, p string, n *vNode, data []byte) {
	if vCr.atomicOnly {
		return
	}
	vInsidePoint(op, p, func() {
		lens := vPrefixLens(len(data))
		c := vPartialChoice(len(lens))
		verifAssume(c < len(lens))
		n.data = append(n.data, data[:lens[c]]...)
	})
}

// vCheckpointPoints are the two crash points of db.CheckpointRemove(path): before the call, and
// (when there is a -wal file) after its content reached the database file but before the -wal file
// is deleted; half() produces that intermediate state.
func vCheckpointPoints(p string, half func()) {
	vPoint(vOpCheckpoint, p)
	if !vCr.armed || !vExists(p+"-wal") {
		return
	}
	vInsidePoint(vOpCkptInside, p, half)
}

// vNativeHook is verifhook.Hook in the native replay.
func vNativeHook(op string, arg any) {
	p, _ := arg.(string)
	switch op {
	case vOpCheckpoint:
		vCheckpointPoints(p, func() { vNativeHalfCheckpoint(p) })
	case vOpRemoveAll, vOpRemoveDirSy:
		vRemoveAllPoints(op, p)
	case vOpWriteFile, vOpSidecar:
		vWritePoints(op, p, false)
	case vOpIoCopy:
		if f, ok := arg.(*os.File); ok {
			vWritePoints(op, f.Name(), true)
		}
	case vOpDBOpen:
		// opening a database in WAL mode creates its -wal and -shm files: a write in flight is
		// cut before that happens (the call is not a crash point of its own)
		vFinishPending()
	default:
		vPoint(op, p)
	}
}

// vNativeHalfCheckpoint: the WAL is checkpointed into the database by the real function, then the
// -wal file is put back (the state after a crash between SQLite's back-fill and the removal of
// the WAL; SQLite replays such a WAL onto the database again, which rewrites the same pages).
func vNativeHalfCheckpoint(p string) {
	saved, err := os.ReadFile(p + "-wal")
	vMust(err)
	vMust(db.CheckpointRemove(p))
	vMust(os.WriteFile(p+"-wal", saved, 0o644))
}

// vRunCrash runs f with the process dying at crash point `at` (0: never). It reports whether
// the process died; vCr.count is then the number of points passed.
func vRunCrash(at int, f func()) (crashed bool) {
	if !verifSymbolic() && !vCr.hooked {
		verifhook.Hook = vNativeHook
		vCr.hooked = true
	}
	vCr.armed, vCr.count, vCr.at, vCr.op, vCr.path, vCr.inside, vCr.pending = true, 0, at, "", "", false, false
	defer func() {
		vCr.armed = false
		if r := recover(); r != nil {
			if _, ok := r.(vCrash); ok {
				crashed = true
				return
			}
			panic(r)
		}
	}()
	f()
	vFinishPending() // the write the process dies in was the last mutating call of the run
	return false
}

// vCountPoints tells how many crash points f passes when nobody dies - the exact bound for the
// choice of a crash position. Symbolic run only: f runs on a copy of the file system model, which
// is thrown away. (The native replay does not need the bound: the position comes from the replay
// file.)
func vCountPoints(f func()) int {
	if !verifSymbolic() {
		return 1 << 20
	}
	saved := vFS
	vFS = vFS.clone()
	vRunCrash(0, f)
	vFS = saved
	return vCr.count
}

// ---------------------------------------------------------------- the tree

type vNode struct {
	dir  bool
	data []byte
}

type vFSModel struct {
	nodes map[string]*vNode
	order []string // creation order of the keys (deterministic iteration)
}

var vFS *vFSModel

var (
	vErrNotExist = &fs.PathError{Op: "verif", Path: "?", Err: fs.ErrNotExist}
	vErrNotEmpty = &fs.PathError{Op: "verif", Path: "?", Err: errors.New("file exists (directory not empty)")}
	vErrIsDir    = &fs.PathError{Op: "verif", Path: "?", Err: errors.New("is a directory")}
	vErrNotDir   = &fs.PathError{Op: "verif", Path: "?", Err: errors.New("not a directory")}
	vErrBadData  = errors.New("verif-fs: undecodable content")
)

func vNewFS(root string) *vFSModel {
	m := &vFSModel{nodes: map[string]*vNode{}}
	m.put(root, &vNode{dir: true})
	return m
}

func (m *vFSModel) clone() *vFSModel {
	c := &vFSModel{nodes: map[string]*vNode{}}
	for _, k := range m.order {
		n := m.nodes[k]
		c.put(k, &vNode{dir: n.dir, data: append([]byte(nil), n.data...)})
	}
	return c
}

func (m *vFSModel) put(p string, n *vNode) {
	if _, ok := m.nodes[p]; !ok {
		m.order = append(m.order, p)
	}
	m.nodes[p] = n
}

func (m *vFSModel) del(p string) {
	delete(m.nodes, p)
	for i, k := range m.order {
		if k == p {
			m.order = append(m.order[:i:i], m.order[i+1:]...)
			break
		}
	}
}

// children returns the sorted base names of the entries of directory p.
func (m *vFSModel) children(p string) []string {
	var out []string
	pre := p + "/"
	for _, k := range m.order {
		if strings.HasPrefix(k, pre) && !strings.Contains(k[len(pre):], "/") {
			out = append(out, k[len(pre):])
		}
	}
	for i := 1; i < len(out); i++ {
		for j := i; j > 0 && out[j] < out[j-1]; j-- {
			out[j], out[j-1] = out[j-1], out[j]
		}
	}
	return out
}

func (m *vFSModel) parentIsDir(p string) bool {
	par, ok := m.nodes[filepath.Dir(p)]
	return ok && par.dir
}

func (m *vFSModel) file(p string) *vNode {
	n, ok := m.nodes[p]
	if !ok || n.dir {
		return nil
	}
	return n
}

// ---------------------------------------------------------------- os: reading

type vDirEntry struct {
	name string
	dir  bool
}

func (e vDirEntry) Name() string { return e.name }
func (e vDirEntry) IsDir() bool  { return e.dir }
func (e vDirEntry) Type() fs.FileMode {
	if e.dir {
		return fs.ModeDir
	}
	return 0
}
func (e vDirEntry) Info() (fs.FileInfo, error) { return vFileInfo{e.name, e.dir, 0}, nil }

type vFileInfo struct {
	name string
	dir  bool
	size int64
}

func (fi vFileInfo) Name() string { return fi.name }
func (fi vFileInfo) Size() int64  { return fi.size }
func (fi vFileInfo) Mode() fs.FileMode {
	if fi.dir {
		return fs.ModeDir | 0o755
	}
	return 0o644
}
func (fi vFileInfo) ModTime() time.Time { return time.Time{} }
func (fi vFileInfo) IsDir() bool        { return fi.dir }
func (fi vFileInfo) Sys() any           { return nil }

// os.ReadDir
func vOsReadDir(name string) ([]os.DirEntry, error) {
	n, ok := vFS.nodes[name]
	if !ok {
		return nil, vErrNotExist
	}
	if !n.dir {
		return nil, vErrNotDir
	}
	var out []os.DirEntry
	for _, c := range vFS.children(name) {
		out = append(out, vDirEntry{c, vFS.nodes[name+"/"+c].dir})
	}
	return out, nil
}

// os.Stat
func vOsStat(name string) (os.FileInfo, error) {
	n, ok := vFS.nodes[name]
	if !ok {
		return nil, vErrNotExist
	}
	return vFileInfo{filepath.Base(name), n.dir, int64(len(n.data))}, nil
}

// os.ReadFile
func vOsReadFile(name string) ([]byte, error) {
	n, ok := vFS.nodes[name]
	if !ok {
		return nil, vErrNotExist
	}
	if n.dir {
		return nil, vErrIsDir
	}
	return append([]byte(nil), n.data...), nil
}

// path/filepath.Glob for patterns of the form <dir>/*<suffix>
func vGlob(pattern string) ([]string, error) {
	dir, base := filepath.Dir(pattern), filepath.Base(pattern)
	if !strings.HasPrefix(base, "*") || strings.ContainsAny(base[1:], "*?[\\") {
		panic("verif-fs: unsupported glob pattern " + pattern)
	}
	n, ok := vFS.nodes[dir]
	if !ok || !n.dir {
		return nil, nil
	}
	var out []string
	for _, c := range vFS.children(dir) {
		if strings.HasSuffix(c, base[1:]) {
			out = append(out, dir+"/"+c)
		}
	}
	return out, nil
}

// ---------------------------------------------------------------- os: mutating (one crash point each)

func vMkdirAll(path string) error {
	if n, ok := vFS.nodes[path]; ok {
		if n.dir {
			return nil
		}
		return vErrNotDir
	}
	par := filepath.Dir(path)
	if par != path {
		if err := vMkdirAll(par); err != nil {
			return err
		}
	}
	vFS.put(path, &vNode{dir: true})
	return nil
}

// os.MkdirAll
func vOsMkdirAll(path string, perm os.FileMode) error {
	vPoint(vOpMkdirAll, path)
	return vMkdirAll(path)
}

func vRename(oldpath, newpath string) error {
	src, ok := vFS.nodes[oldpath]
	if !ok {
		return vErrNotExist
	}
	if !vFS.parentIsDir(newpath) {
		return vErrNotExist
	}
	if oldpath == newpath {
		return nil
	}
	if src.dir && strings.HasPrefix(newpath, oldpath+"/") {
		return errors.New("verif-fs: rename into itself")
	}
	if dst, ok := vFS.nodes[newpath]; ok {
		switch {
		case src.dir && !dst.dir:
			return vErrNotDir
		case !src.dir && dst.dir:
			return vErrIsDir
		case src.dir && len(vFS.children(newpath)) > 0:
			return vErrNotEmpty
		}
		vFS.del(newpath)
	}
	keys := append([]string(nil), vFS.order...)
	for _, k := range keys {
		if k == oldpath || strings.HasPrefix(k, oldpath+"/") {
			n := vFS.nodes[k]
			vFS.del(k)
			vFS.put(newpath+k[len(oldpath):], n)
		}
	}
	return nil
}

// os.Rename
func vOsRename(oldpath, newpath string) error {
	vPoint(vOpRename, oldpath)
	return vRename(oldpath, newpath)
}

// os.Remove
func vOsRemove(name string) error {
	vPoint(vOpRemove, name)
	n, ok := vFS.nodes[name]
	if !ok {
		return vErrNotExist
	}
	if n.dir && len(vFS.children(name)) > 0 {
		return vErrNotEmpty
	}
	vFS.del(name)
	return nil
}

func vRemoveAll(path string) {
	keys := append([]string(nil), vFS.order...)
	for _, k := range keys {
		if k == path || strings.HasPrefix(k, path+"/") {
			vFS.del(k)
		}
	}
}

// os.RemoveAll
func vOsRemoveAll(path string) error {
	vRemoveAllPoints(vOpRemoveAll, path)
	vRemoveAll(path)
	return nil
}

// fsutil.RemoveDirSync
func vRemoveDirSync(dir string) error {
	vRemoveAllPoints(vOpRemoveDirSy, dir)
	vRemoveAll(dir)
	return nil
}

func vCreateFile(name string) (*vNode, error) {
	if n, ok := vFS.nodes[name]; ok && n.dir {
		return nil, vErrIsDir
	}
	if !vFS.parentIsDir(name) {
		return nil, vErrNotExist
	}
	n := &vNode{}
	vFS.put(name, n)
	return n, nil
}

// os.WriteFile
func vOsWriteFile(name string, data []byte, perm os.FileMode) error {
	vPoint(vOpWriteFile, name)
	n, err := vCreateFile(name)
	if err != nil {
		return err
	}
	vCutWrite(vOpWriteFile, name, n, data)
	n.data = append([]byte(nil), data...)
	return nil
}

// ---------------------------------------------------------------- *os.File

type vHandle struct {
	f    *os.File
	gz   *gzip.Reader
	path string
	off  int64
	data []byte // gzip readers: the decompressed content
}

var vHandles []*vHandle

func vNewHandle(path string) *os.File {
	f := new(os.File)
	vHandles = append(vHandles, &vHandle{f: f, path: path})
	return f
}

func vHandleOf(f *os.File) *vHandle {
	for _, h := range vHandles {
		if h.f == f {
			return h
		}
	}
	panic("verif-fs: unknown *os.File")
}

// os.Open
func vOsOpen(name string) (*os.File, error) {
	if _, ok := vFS.nodes[name]; !ok {
		return nil, vErrNotExist
	}
	return vNewHandle(name), nil
}

// os.Create
func vOsCreate(name string) (*os.File, error) {
	vPoint(vOpCreate, name)
	if _, err := vCreateFile(name); err != nil {
		return nil, err
	}
	return vNewHandle(name), nil
}

// os.OpenFile
func vOsOpenFile(name string, flag int, perm os.FileMode) (*os.File, error) {
	vPoint(vOpOpenFile, name)
	if flag&os.O_CREATE == 0 {
		if _, ok := vFS.nodes[name]; !ok {
			return nil, vErrNotExist
		}
		return vNewHandle(name), nil
	}
	if n := vFS.file(name); n != nil && flag&os.O_TRUNC == 0 {
		return vNewHandle(name), nil
	}
	if _, err := vCreateFile(name); err != nil {
		return nil, err
	}
	return vNewHandle(name), nil
}

func vFileSync(f *os.File) error  { return nil }
func vFileClose(f *os.File) error { return nil }
func vFileName(f *os.File) string { return vHandleOf(f).path }

// (*os.File).Stat
func vFileStat(f *os.File) (os.FileInfo, error) { return vOsStat(vHandleOf(f).path) }

// (*os.File).Seek (whence 0 only)
func vFileSeek(f *os.File, offset int64, whence int) (int64, error) {
	if whence != 0 {
		panic("verif-fs: unsupported Seek")
	}
	vHandleOf(f).off = offset
	return offset, nil
}

// compress/gzip.NewReader over a *os.File: a gzip stream is the byte 'Z' followed by the content.
func vGzipNewReader(r io.Reader) (*gzip.Reader, error) {
	f, ok := r.(*os.File)
	if !ok {
		panic("verif-fs: gzip.NewReader over something else than a file")
	}
	h := vHandleOf(f)
	n := vFS.file(h.path)
	if n == nil || int64(len(n.data)) <= h.off || n.data[h.off] != 'Z' {
		return nil, gzip.ErrHeader
	}
	z := new(gzip.Reader)
	vHandles = append(vHandles, &vHandle{gz: z, data: append([]byte(nil), n.data[h.off+1:]...)})
	return z, nil
}

func vGzipClose(z *gzip.Reader) error { return nil }

// io.Copy between files, or from a gzip reader into a file (the whole content arrives at once: the
// destination is only looked at after the copy, or thrown away after a crash).
func vIoCopy(dst io.Writer, src io.Reader) (int64, error) {
	df, ok := dst.(*os.File)
	if !ok {
		panic("verif-fs: io.Copy into something else than a file")
	}
	dn := vFS.file(vHandleOf(df).path)
	if dn == nil {
		return 0, vErrNotExist
	}
	var data []byte
	switch s := src.(type) {
	case *os.File:
		h := vHandleOf(s)
		sn := vFS.file(h.path)
		if sn == nil {
			return 0, vErrNotExist
		}
		data = sn.data[h.off:]
	case *gzip.Reader:
		found := false
		for _, h := range vHandles {
			if h.gz == s {
				data, found = h.data, true
			}
		}
		if !found {
			panic("verif-fs: unknown *gzip.Reader")
		}
	default:
		panic("verif-fs: io.Copy from something else than a file")
	}
	vPoint(vOpIoCopy, vHandleOf(df).path)
	vCutWrite(vOpIoCopy, vHandleOf(df).path, dn, data)
	dn.data = append(dn.data, data...)
	return int64(len(data)), nil
}

// ---------------------------------------------------------------- content formats of the model
//
// meta.json : 'M' index(8) term(8) len(id)(1) id, optionally followed by '\n'
// sidecar   : 'C' crc(4)
// database  : vSQLiteHdr followed by one byte per applied WAL ("tokens")
// WAL       : vWALHdr followed by its tokens
// v7 state  : 16 header bytes, then a gzip stream ('Z' + database content)

var vSQLiteHdr = append([]byte("SQLite format 3\x00\x10\x00\x02\x02"), make([]byte, 80)...)
var vWALHdr = []byte{0x37, 0x7f, 0x06, 0x82, 0x00, 0x2d, 0xe2, 0x18, 0, 0, 0x10, 0, 0, 0, 0, 0, 0, 0, 0, 0, 0, 0, 0, 0, 0, 0, 0, 0, 0, 0, 0, 0}

func vEncodeMeta(m *raft.SnapshotMeta) []byte {
	b := []byte{'M'}
	b = binary.BigEndian.AppendUint64(b, m.Index)
	b = binary.BigEndian.AppendUint64(b, m.Term)
	b = append(b, byte(len(m.ID)))
	return append(b, m.ID...)
}

func vDecodeMeta(b []byte) (*raft.SnapshotMeta, error) {
	if len(b) < 18 || b[0] != 'M' || len(b) < 18+int(b[17]) {
		return nil, vErrBadData
	}
	return &raft.SnapshotMeta{
		Version: 1,
		Index:   binary.BigEndian.Uint64(b[1:9]),
		Term:    binary.BigEndian.Uint64(b[9:17]),
		ID:      string(b[18 : 18+int(b[17])]),
	}, nil
}

// encoding/json.Marshal (of snapshot metadata and of plans only)
func vJSONMarshal(v any) ([]byte, error) {
	switch m := v.(type) {
	case *raft.SnapshotMeta:
		return vEncodeMeta(m), nil
	case *plan.Plan:
		vPlans = append(vPlans, vCopyPlan(m))
		return vPlanBytes(len(vPlans) - 1), nil
	}
	panic("verif-fs: json.Marshal of an unmodelled type")
}

// readRaftMeta
func vReadRaftMeta(path string) (*raft.SnapshotMeta, error) {
	n := vFS.file(path)
	if n == nil {
		return nil, vErrNotExist
	}
	return vDecodeMeta(n.data)
}

// writeMeta (os.Create + JSON encoder + Sync)
func vWriteMeta(dir string, meta *raft.SnapshotMeta) error {
	vPoint(vOpCreate, metaPath(dir))
	n, err := vCreateFile(metaPath(dir))
	if err != nil {
		return err
	}
	n.data = append(vEncodeMeta(meta), '\n')
	return nil
}

// vCRCOf is the model's checksum of a content: any function of the bytes will do, the code
// under test only ever compares such values (the native run uses the real CRC32).
func vCRCOf(data []byte) uint32 {
	var s uint32 = 17
	for _, b := range data {
		s = s*31 + uint32(b)
	}
	return s
}

// rsum.CRC32
func vRsumCRC32(path string) (uint32, error) {
	n := vFS.file(path)
	if n == nil {
		return 0, vErrNotExist
	}
	return vCRCOf(n.data), nil
}

// sidecar.ReadFile
func vSidecarRead(path string) (*sidecar.Sidecar, error) {
	n := vFS.file(path)
	if n == nil {
		return nil, vErrNotExist
	}
	if len(n.data) != 5 || n.data[0] != 'C' {
		return nil, vErrBadData
	}
	return sidecar.NewCastagnoli(binary.BigEndian.Uint32(n.data[1:])), nil
}

// sidecar.WriteFile
func vSidecarWrite(path string, sum uint32) error {
	vPoint(vOpSidecar, path)
	n, err := vCreateFile(path)
	if err != nil {
		return err
	}
	data := binary.BigEndian.AppendUint32([]byte{'C'}, sum)
	vCutWrite(vOpSidecar, path, n, data)
	n.data = data
	return nil
}

// db.IsValidSQLiteFile
func vIsValidSQLiteFile(path string) bool {
	n := vFS.file(path)
	return n != nil && len(n.data) >= 16 && string(n.data[:13]) == "SQLite format"
}

// db.IsValidSQLiteWALFile
func vIsValidSQLiteWALFile(path string) bool {
	n := vFS.file(path)
	return n != nil && len(n.data) >= 8 && bytes.Equal(n.data[:3], vWALHdr[:3]) && bytes.Equal(n.data[4:8], vWALHdr[4:8])
}

// vApplyWAL is what checkpointing a WAL into a database does to the model content: the WAL's
// tokens are appended; a token that is already there is not appended again (SQLite rewrites the
// same pages: re-applying a WAL is idempotent).
func vApplyWAL(dbData, walData []byte) []byte {
	if len(walData) < len(vWALHdr) {
		return dbData
	}
	out := append([]byte(nil), dbData...)
	for _, t := range walData[len(vWALHdr):] {
		if len(out) < len(vSQLiteHdr) || bytes.IndexByte(out[len(vSQLiteHdr):], t) < 0 {
			out = append(out, t)
		}
	}
	return out
}

// db.CheckpointRemove
func vCheckpointRemove(path string) error {
	half := func() {
		dn, wn := vFS.file(path), vFS.file(path+"-wal")
		if dn != nil && wn != nil && vIsValidSQLiteFile(path) {
			dn.data = vApplyWAL(dn.data, wn.data)
		}
	}
	vCheckpointPoints(path, half)
	dn := vFS.file(path)
	if dn == nil {
		return vErrNotExist
	}
	if len(dn.data) < 20 {
		return io.ErrUnexpectedEOF
	}
	if dn.data[18] == 1 && dn.data[19] == 1 {
		return errors.New("cannot checkpoint database in DELETE mode")
	}
	if vFS.file(path+"-wal") != nil {
		half()
		vFS.del(path + "-wal")
	}
	vFS.del(path + "-shm")
	return nil
}

// vWALModeFiles: opening a database in WAL mode creates its -wal and -shm files, and rqlite's
// (*db.DB).Close leaves them there (observed natively: an empty -wal and a -shm stay behind).
func vWALModeFiles(path string) {
	if vFS.file(path+"-wal") == nil {
		vFS.put(path+"-wal", &vNode{})
	}
	if vFS.file(path+"-shm") == nil {
		vFS.put(path+"-shm", &vNode{data: []byte("shm")})
	}
}

// db.EnsureWALMode: creates the database when it does not exist, switches it to WAL mode.
func vEnsureWALMode(path string) error {
	vPoint(vOpEnsureWAL, path)
	n := vFS.file(path)
	if n == nil {
		var err error
		if n, err = vCreateFile(path); err != nil {
			return err
		}
	}
	if len(n.data) == 0 {
		n.data = append([]byte(nil), vSQLiteHdr...)
	}
	if !vIsValidSQLiteFile(path) || len(n.data) < 20 {
		return errors.New("file is not a database")
	}
	n.data[18], n.data[19] = 2, 2
	vWALModeFiles(path)
	return nil
}

// db.Open / (*db.DB).VerifyIntegrity / (*db.DB).Close, as used by (*plan.Executor).VerifyDB
func vDBOpen(dbPath string, fkEnabled, wal bool) (*db.DB, error) {
	if vFS.file(dbPath) == nil {
		return nil, vErrNotExist
	}
	if !vIsValidSQLiteFile(dbPath) {
		return nil, errors.New("file is not a database")
	}
	if wal {
		vWALModeFiles(dbPath)
	}
	return new(db.DB), nil
}
func vDBVerifyIntegrity(d *db.DB) (db.IntegrityResult, error) { return db.IntegrityResult{OK: true}, nil }
func vDBClose(d *db.DB) error                                { return nil }

// ---------------------------------------------------------------- plan files

func vCopyPlan(p *plan.Plan) *plan.Plan {
	c := &plan.Plan{NReaped: p.NReaped, NCheckpointed: p.NCheckpointed, Ops: []plan.Operation{}}
	for _, op := range p.Ops {
		o := op
		o.WALs = append([]string(nil), op.WALs...)
		if op.Data != nil {
			o.Data = append([]byte(nil), op.Data...)
		}
		c.Ops = append(c.Ops, o)
	}
	return c
}

// Plan files. plan.WriteToFile and plan.ReadFromFile are the REAL functions; only the JSON codec
// is a model: json.Marshal of a plan keeps a copy of the plan VALUE in a table and returns the bytes
// "{plan <k>}" naming it; json.Unmarshal into a plan accepts exactly such bytes (a prefix left by
// a cut write is undecodable, like a prefix of a JSON object).
var vPlans []*plan.Plan

func vPlanBytes(k int) []byte {
	return []byte{'{', 'p', 'l', 'a', 'n', ' ', byte('0' + k/10), byte('0' + k%10), '}'}
}

// encoding/json.Unmarshal (into a plan only)
func vJSONUnmarshal(data []byte, v any) error {
	p, ok := v.(*plan.Plan)
	if !ok {
		panic("verif-fs: json.Unmarshal into an unmodelled type")
	}
	for k, q := range vPlans {
		if bytes.Equal(data, vPlanBytes(k)) {
			*p = *vCopyPlan(q)
			return nil
		}
	}
	return vErrBadData
}

// ---------------------------------------------------------------- both worlds

func vMust(err error) {
	if err != nil {
		panic("verif: world setup: " + err.Error())
	}
}

// vNewRoot creates an empty scratch directory: a node of the model in the symbolic run, a real
// temporary directory natively. Everything below it is created with the ordinary os calls
// (which are the models above in the symbolic run).
func vNewRoot(tag string) string {
	vPartialLog, vPartialPick = nil, nil
	vPlans = nil
	if verifSymbolic() {
		root := "/" + tag
		vFS = vNewFS(root)
		vHandles = nil
		return root
	}
	d, err := os.MkdirTemp("", tag+"-")
	vMust(err)
	return d
}

func vDropRoot(root string) {
	if !verifSymbolic() && root != "" {
		os.RemoveAll(root)
	}
}

// vWriteData writes a data file with a correct checksum sidecar.
func vWriteData(path string, content []byte) {
	vMust(os.WriteFile(path, content, 0o644))
	sum, err := rsum.CRC32(path)
	vMust(err)
	vMust(sidecar.WriteFile(path+crcSuffix, sum))
}

func vExists(p string) bool {
	_, err := os.Stat(p)
	return err == nil
}

func vIsDir(p string) bool {
	fi, err := os.Stat(p)
	return err == nil && fi.IsDir()
}

func vList(dir string) []string {
	ents, err := os.ReadDir(dir)
	if err != nil {
		return nil
	}
	var out []string
	for _, e := range ents {
		out = append(out, e.Name())
	}
	return out
}

// ---------------------------------------------------------------- native data files
//
// Real SQLite files, generated once per process with the real db package: a database in WAL mode
// with one table, and a chain of WAL files, WAL j creating table t<j> with one row (so every WAL
// touches pages of its own: leaving one out, or applying them in another order, shows in the
// restored database or breaks it).

const vNativeWALs = 8

var vNativeDB []byte
var vNativeWAL [][]byte

func vNativeFixtures() {
	if vNativeDB != nil {
		return
	}
	tmp, err := os.MkdirTemp("", "verif-fixtures-")
	vMust(err)
	defer os.RemoveAll(tmp)
	p := filepath.Join(tmp, "gen.db")
	conn, err := db.Open(p, false, true)
	vMust(err)
	exec := func(q string) {
		r, err := conn.ExecuteStringStmt(q)
		vMust(err)
		if len(r) != 1 || r[0].GetError() != "" || r[0].GetE().GetError() != "" {
			panic("verif: fixture statement failed: " + q)
		}
	}
	exec("CREATE TABLE base (id INTEGER PRIMARY KEY, v TEXT)")
	exec("INSERT INTO base(v) VALUES('base row')")
	_, err = conn.Checkpoint(db.CheckpointTruncate)
	vMust(err)
	vNativeDB, err = os.ReadFile(p)
	vMust(err)
	for j := 0; j < vNativeWALs; j++ {
		t := "t" + string(rune('0'+j))
		exec("CREATE TABLE " + t + " (id INTEGER PRIMARY KEY, v TEXT)")
		exec("INSERT INTO " + t + "(v) VALUES('row of " + t + "')")
		w, err := os.ReadFile(p + "-wal")
		vMust(err)
		if len(w) == 0 {
			panic("verif: empty fixture WAL")
		}
		vNativeWAL = append(vNativeWAL, w)
		_, err = conn.Checkpoint(db.CheckpointTruncate)
		vMust(err)
	}
	vMust(conn.Close())
}

// vNativeDump opens a database with real SQLite, checks its integrity and returns its tables and rows.
func vNativeDump(path string) (string, error) {
	conn, err := db.Open(path, false, true)
	if err != nil {
		return "", err
	}
	defer conn.Close()
	if res, err := conn.VerifyIntegrity(); err != nil || !res.OK {
		return "", errors.New("database is not intact")
	}
	rows, err := conn.QueryStringStmt("SELECT name FROM sqlite_master WHERE type='table' ORDER BY name")
	if err != nil {
		return "", err
	}
	if len(rows) != 1 || rows[0].Error != "" {
		return "", errors.New("cannot list tables")
	}
	out := ""
	for _, v := range rows[0].Values {
		name := v.GetParameters()[0].GetS()
		out += "[" + name + ":"
		r, err := conn.QueryStringStmt("SELECT * FROM " + name + " ORDER BY 1")
		if err != nil {
			return "", err
		}
		if len(r) != 1 || r[0].Error != "" {
			return "", errors.New("cannot read table " + name)
		}
		for _, rv := range r[0].Values {
			for _, p := range rv.GetParameters() {
				out += p.String() + ","
			}
			out += ";"
		}
		out += "]"
	}
	return out, nil
}

// vNativeRestore copies the database, applies the WAL files in order with real SQLite checkpoints
// and returns the dump of the result.
func vNativeRestore(dbPath string, wals []string) (string, error) {
	tmp, err := os.MkdirTemp("", "verif-content-")
	if err != nil {
		return "", err
	}
	defer os.RemoveAll(tmp)
	d := filepath.Join(tmp, "c.db")
	b, err := os.ReadFile(dbPath)
	if err != nil {
		return "", err
	}
	if err := os.WriteFile(d, b, 0o644); err != nil {
		return "", err
	}
	for _, w := range wals {
		wb, err := os.ReadFile(w)
		if err != nil {
			return "", err
		}
		if err := os.WriteFile(d+"-wal", wb, 0o644); err != nil {
			return "", err
		}
		if err := db.CheckpointRemove(d); err != nil {
			return "", err
		}
	}
	return vNativeDump(d)
}
