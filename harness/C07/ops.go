package snapshot

// VerifC07Ops: the contract of the single plan operations, from the documentation of
// plan.Executor ("It is idempotent: ...") and plan.Checker ("reports whether ... already applied"):
// for every operation type, in a small world in which the operation has work to do,
//   - before the operation the Checker reports "not done" (VerifyDB: always "not done"),
//   - the operation (dispatched by Plan.Execute) succeeds and has its documented effect,
//     afterwards Plan.LastOpDone reports "done",
//   - executing it a second time succeeds and changes nothing on disk,
//   - where the documentation names a situation that is an error (source and destination both
//     missing; WAL files but no database), the operation fails.
// These are the building blocks the crash-safety argument of reaping and upgrading rests on; the
// crash entries only exercise the operations in the situations real plans produce.

import (
	"os"
	"path/filepath"
	"strings"

	"github.com/rqlite/rqlite/v10/db"
	"github.com/rqlite/rqlite/v10/snapshot/plan"
)

// vTree is a digest of everything below dir (names, kinds, contents). SQLite's shared-memory
// files are left out (their content is SQLite's business).
func vTree(dir string) string {
	out := ""
	ents, err := os.ReadDir(dir)
	if err != nil {
		return "<unreadable>"
	}
	for _, e := range ents {
		p := filepath.Join(dir, e.Name())
		if e.IsDir() {
			out += e.Name() + "/{" + vTree(p) + "}"
			continue
		}
		if strings.HasSuffix(e.Name(), "-shm") {
			continue
		}
		b, err := os.ReadFile(p)
		if err != nil {
			return "<unreadable>"
		}
		out += e.Name() + "=" + string(b) + ";"
	}
	return out
}

// vOpsWorld is the small directory in which one plan operation has work to do.
type vOpsWorld struct {
	root, dir, a, b, dbPath, w0, w1 string
	wantBoth, wantAsIs            string
	kind                          int
	p                             *plan.Plan
}

func vOpsSetup() *vOpsWorld {
	w := &vOpsWorld{}
	w.root = vNewRoot("r")
	root := w.root
	dir := filepath.Join(root, "s")
	a, b := filepath.Join(dir, "a"), filepath.Join(dir, "b")
	vMust(os.MkdirAll(a, 0o755))
	vMust(os.WriteFile(filepath.Join(a, "f"), []byte("content"), 0o644))
	vMust(os.WriteFile(filepath.Join(a, metaFileName), []byte("old meta"), 0o644))
	dbPath := filepath.Join(a, dbfileName)
	vWriteData(dbPath, vDBContent())
	w0, w1 := filepath.Join(dir, "w0.wal"), filepath.Join(dir, "w1.wal")
	vMust(os.WriteFile(w0, vWALContent(0), 0o644))
	vMust(os.WriteFile(w1, vWALContent(1), 0o644))
	// reference: the database with both WALs applied, and as it is
	refPath := filepath.Join(root, "ref.db")
	vMust(os.WriteFile(refPath, vDBWith(2), 0o644))
	wantBoth, err := vContent(refPath, nil)
	vMust(err)
	wantAsIs, err := vContent(dbPath, nil)
	vMust(err)

	p := plan.New()
	kind := verifChoice("op", 9)
	switch kind {
	case 0:
		p.AddRename(a, b)
	case 1:
		p.AddRemove(filepath.Join(a, "f"))
	case 2:
		p.AddRemoveAll(a)
	case 3:
		// variants: the checkpoint was interrupted after the first WAL had been moved into place
		// (1: of two WALs; 2: the only WAL, so the half-applied <db>-wal is all that is left to do)
		switch verifChoice("leftover", 3) {
		case 0:
			p.AddCheckpoint(dbPath, []string{w0, w1})
		case 1:
			p.AddCheckpoint(dbPath, []string{w0, w1})
			vMust(os.Rename(w0, dbPath+"-wal"))
			verifReach("ops-leftover-wal")
		case 2:
			p.AddCheckpoint(dbPath, []string{w0})
			vMust(os.Rename(w0, dbPath+"-wal"))
			vMust(os.Remove(w1))
			vMust(os.WriteFile(refPath, vDBWith(1), 0o644))
			wantBoth, err = vContent(refPath, nil)
			vMust(err)
			verifReach("ops-only-leftover-wal")
		}
	case 4:
		p.AddWriteMeta(a, []byte("new meta"))
	case 5:
		p.AddMkdirAll(filepath.Join(b, "c"))
	case 6:
		p.AddCopyFile(filepath.Join(a, "f"), filepath.Join(dir, "g"))
	case 7:
		vMust(os.Remove(dbPath + crcSuffix))
		p.AddCalcCRC32(dbPath, dbPath+crcSuffix)
	case 8:
		p.AddVerifyDB(dbPath)
	}
	w.dir, w.a, w.b, w.dbPath, w.w0, w.w1 = dir, a, b, dbPath, w0, w1
	w.wantBoth, w.wantAsIs, w.kind, w.p = wantBoth, wantAsIs, kind, p
	return w
}

// effect checks the effect of the operation, from its documentation.
func (w *vOpsWorld) effect(pfx string) {
	dir, a, b, dbPath := w.dir, w.a, w.b, w.dbPath
	switch w.kind {
	case 0:
		verifAssert(pfx+"-rename", !vExists(a) && vExists(filepath.Join(b, "f")))
	case 1:
		verifAssert(pfx+"-remove", !vExists(filepath.Join(a, "f")) && vExists(a))
	case 2:
		verifAssert(pfx+"-removeall", !vExists(a))
	case 3:
		got, cerr := vContent(dbPath, nil)
		verifAssert(pfx+"-checkpoint-consumes-wals", cerr == nil && !vExists(w.w0) && !vExists(w.w1) && !vExists(dbPath+"-wal"))
		verifAssert(pfx+"-checkpoint-content", got == w.wantBoth)
	case 4:
		data, rerr := os.ReadFile(filepath.Join(a, metaFileName))
		verifAssert(pfx+"-writemeta", rerr == nil && string(data) == "new meta")
	case 5:
		verifAssert(pfx+"-mkdirall", vIsDir(filepath.Join(b, "c")))
	case 6:
		data, rerr := os.ReadFile(filepath.Join(dir, "g"))
		verifAssert(pfx+"-copyfile", rerr == nil && string(data) == "content" && vExists(filepath.Join(a, "f")))
	case 7:
		hf, herr := NewChecksummedFileFromFiles(dbPath, dbPath+crcSuffix)
		ok := false
		if herr == nil {
			ok, herr = hf.Check()
		}
		verifAssert(pfx+"-calccrc32", herr == nil && ok)
	case 8:
		got, cerr := vContent(dbPath, nil)
		verifAssert(pfx+"-verifydb-changes-nothing", cerr == nil && got == w.wantAsIs)
	}
}

// vTreeLogical is vTree with every SQLite database file represented by the database content it
// holds instead of its bytes (two ways of applying the same WALs need not give the same bytes).
func vTreeLogical(dir string) string {
	out := ""
	ents, err := os.ReadDir(dir)
	if err != nil {
		return "<unreadable>"
	}
	for _, e := range ents {
		p := filepath.Join(dir, e.Name())
		if e.IsDir() {
			out += e.Name() + "/{" + vTreeLogical(p) + "}"
			continue
		}
		if strings.HasSuffix(e.Name(), "-shm") {
			continue
		}
		if db.IsValidSQLiteFile(p) {
			c, err := vContent(p, nil)
			if err != nil {
				c = "<unreadable database>"
			}
			out += e.Name() + "~" + c + ";"
			continue
		}
		b, err := os.ReadFile(p)
		if err != nil {
			return "<unreadable>"
		}
		out += e.Name() + "=" + string(b) + ";"
	}
	return out
}

// vSaveTree / vRestoreTree: everything below dir, kept in memory and put back.
type vSavedEntry struct {
	path string
	dir  bool
	data []byte
}

func vSaveTree(dir string, acc []vSavedEntry) []vSavedEntry {
	acc = append(acc, vSavedEntry{path: dir, dir: true})
	ents, err := os.ReadDir(dir)
	vMust(err)
	for _, e := range ents {
		p := filepath.Join(dir, e.Name())
		if e.IsDir() {
			acc = vSaveTree(p, acc)
			continue
		}
		b, err := os.ReadFile(p)
		vMust(err)
		acc = append(acc, vSavedEntry{path: p, data: b})
	}
	return acc
}

func vRestoreTree(dir string, saved []vSavedEntry) {
	vMust(os.RemoveAll(dir))
	for _, e := range saved {
		if e.dir {
			vMust(os.MkdirAll(e.path, 0o755))
		} else {
			vMust(os.WriteFile(e.path, e.data, 0o644))
		}
	}
}

func VerifC07Ops() {
	verifPanicsAreViolations()
	w := vOpsSetup()
	defer vDropRoot(w.root)
	dir, p, kind := w.dir, w.p, w.kind

	ck := plan.NewChecker()
	done, err := p.LastOpDone(ck)
	verifAssert("C07-ops-not-done-before", err == nil && !done)

	verifAssert("C07-ops-execute-succeeds", p.Execute(plan.NewExecutor()) == nil)
	done, err = p.LastOpDone(ck)
	verifAssert("C07-ops-done-after", err == nil && done == (kind != 8))
	after := vTree(dir)

	// the effect, from the documentation of the operation
	w.effect("C07-ops")

	// idempotent
	verifAssert("C07-ops-second-execution-succeeds", p.Execute(plan.NewExecutor()) == nil)
	verifAssert("C07-ops-second-execution-changes-nothing", vTree(dir) == after)
	done, err = p.LastOpDone(ck)
	verifAssert("C07-ops-still-done", err == nil && done == (kind != 8))

	// documented errors
	ex := plan.NewExecutor()
	nowhere, nowhere2 := filepath.Join(dir, "nowhere"), filepath.Join(dir, "nowhere2")
	switch kind {
	case 0:
		verifAssert("C07-ops-rename-of-nothing-fails", ex.Rename(nowhere, nowhere2) != nil)
	case 3:
		vMust(os.WriteFile(w.w0, vWALContent(0), 0o644))
		_, cerr := ex.Checkpoint(filepath.Join(dir, "no.db"), []string{w.w0})
		verifAssert("C07-ops-checkpoint-without-database-fails", cerr != nil && vExists(w.w0))
	case 6:
		verifAssert("C07-ops-copy-of-nothing-fails", ex.CopyFile(nowhere, nowhere2) != nil)
	}
	bogus := &plan.Plan{Ops: []plan.Operation{{Type: plan.OpType("bogus")}}}
	_, lerr := bogus.LastOpDone(ck)
	verifAssert("C07-ops-unknown-type-rejected", bogus.Execute(ex) != nil && lerr != nil)
	empty := plan.New()
	done, err = empty.LastOpDone(ck)
	verifAssert("C07-ops-empty-plan-is-done", err == nil && done && empty.Execute(ex) == nil)
	verifReach("ops-checked")
}

// VerifC07OpsCrash: the same operations when the process dies in the middle of one - at every crash
// point of its execution, in particular INSIDE the operations that are not atomic (a directory
// removal with any subset of the entries gone, a metadata / checksum write or a file copy cut to a
// prefix, a checkpoint between its WALs and inside db.CheckpointRemove). "If the process is
// interrupted during execution, the plan can be re-read and re-executed on restart, since all
// operations are idempotent" (Store.Reap): executing the operation again succeeds and leaves
// exactly the state an uninterrupted execution leaves.
func VerifC07OpsCrash() {
	verifPanicsAreViolations()
	w := vOpsSetup()
	defer vDropRoot(w.root)
	p := w.p
	run := func() { p.Execute(plan.NewExecutor()) }

	// what an uninterrupted execution leaves
	saved := vSaveTree(w.dir, nil)
	run()
	want := vTreeLogical(w.dir)
	vRestoreTree(w.dir, saved)

	n := vCountPoints(run)
	verifAssume(n > 0) // VerifyDB mutates nothing
	at := 1 + verifChoice("crashAt", n)
	verifAssume(vRunCrash(at, run))
	if vCr.inside {
		switch vCr.op {
		case vOpRemoveAll:
			verifReach("ops-crash-inside-removeall")
		case vOpWriteFile:
			verifReach("ops-crash-inside-writemeta")
		case vOpIoCopy:
			verifReach("ops-crash-inside-copy")
		case vOpSidecar:
			verifReach("ops-crash-inside-checksum-write")
		case vOpCkptInside:
			verifReach("ops-crash-inside-checkpoint")
		}
	}

	verifAssert("C07-ops-execution-after-crash-succeeds", p.Execute(plan.NewExecutor()) == nil)
	w.effect("C07-ops-after-crash")
	done, err := p.LastOpDone(plan.NewChecker())
	verifAssert("C07-ops-after-crash-done", err == nil && done == (w.kind != 8))
	verifAssert("C07-ops-after-crash-same-state-as-uninterrupted", vTreeLogical(w.dir) == want)
	after := vTree(w.dir)
	verifAssert("C07-ops-after-crash-further-execution-succeeds", p.Execute(plan.NewExecutor()) == nil)
	verifAssert("C07-ops-after-crash-further-execution-changes-nothing", vTree(w.dir) == after)
	verifReach("ops-crash-checked")
}
