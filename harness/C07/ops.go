package snapshot

// VerifC07Ops: the contract of the single plan operations, from the documentation of
// plan.Executor ("It is idempotent: ...") and plan.Checker ("reports whether ... already applied"):
// for every operation type, in a small world in which the operation has work to do,
//   - before the operation the Checker reports "not done" (VerifyDB: always "not done"),
//   - the operation (dispatched by Plan.Execute) succeeds and has its documented effect,
//     afterwards Plan.LastOpDone reports "done",
//   - executing it a second time succeeds and changes nothing on disk,
//   - where the documentation names a situation that is an error (source and destination both
//     missing; WAL files but no database), the operation fails.
// These are the building blocks the crash-safety argument of reaping and upgrading rests on; the
// crash entries only exercise the operations in the situations real plans produce.

import (
	"os"
	"path/filepath"
	"strings"

	"github.com/rqlite/rqlite/v10/snapshot/plan"
)

// vTree is a digest of everything below dir (names, kinds, contents). SQLite's shared-memory
// files are left out (their content is SQLite's business).
func vTree(dir string) string {
	out := ""
	ents, err := os.ReadDir(dir)
	if err != nil {
		return "<unreadable>"
	}
	for _, e := range ents {
		p := filepath.Join(dir, e.Name())
		if e.IsDir() {
			out += e.Name() + "/{" + vTree(p) + "}"
			continue
		}
		if strings.HasSuffix(e.Name(), "-shm") {
			continue
		}
		b, err := os.ReadFile(p)
		if err != nil {
			return "<unreadable>"
		}
		out += e.Name() + "=" + string(b) + ";"
	}
	return out
}

func VerifC07Ops() {
	verifPanicsAreViolations()
	root := vNewRoot("r")
	defer vDropRoot(root)
	dir := filepath.Join(root, "s")
	a, b := filepath.Join(dir, "a"), filepath.Join(dir, "b")
	vMust(os.MkdirAll(a, 0o755))
	vMust(os.WriteFile(filepath.Join(a, "f"), []byte("content"), 0o644))
	vMust(os.WriteFile(filepath.Join(a, metaFileName), []byte("old meta"), 0o644))
	dbPath := filepath.Join(a, dbfileName)
	vWriteData(dbPath, vDBContent())
	w0, w1 := filepath.Join(dir, "w0.wal"), filepath.Join(dir, "w1.wal")
	vMust(os.WriteFile(w0, vWALContent(0), 0o644))
	vMust(os.WriteFile(w1, vWALContent(1), 0o644))
	// reference: the database with both WALs applied, and as it is
	refPath := filepath.Join(root, "ref.db")
	vMust(os.WriteFile(refPath, vDBWith(2), 0o644))
	wantBoth, err := vContent(refPath, nil)
	vMust(err)
	wantAsIs, err := vContent(dbPath, nil)
	vMust(err)

	p := plan.New()
	kind := verifChoice("op", 9)
	switch kind {
	case 0:
		p.AddRename(a, b)
	case 1:
		p.AddRemove(filepath.Join(a, "f"))
	case 2:
		p.AddRemoveAll(a)
	case 3:
		// variants: the checkpoint was interrupted after the first WAL had been moved into place
		// (1: of two WALs; 2: the only WAL, so the half-applied <db>-wal is all that is left to do)
		switch verifChoice("leftover", 3) {
		case 0:
			p.AddCheckpoint(dbPath, []string{w0, w1})
		case 1:
			p.AddCheckpoint(dbPath, []string{w0, w1})
			vMust(os.Rename(w0, dbPath+"-wal"))
			verifReach("ops-leftover-wal")
		case 2:
			p.AddCheckpoint(dbPath, []string{w0})
			vMust(os.Rename(w0, dbPath+"-wal"))
			vMust(os.Remove(w1))
			vMust(os.WriteFile(refPath, vDBWith(1), 0o644))
			wantBoth, err = vContent(refPath, nil)
			vMust(err)
			verifReach("ops-only-leftover-wal")
		}
	case 4:
		p.AddWriteMeta(a, []byte("new meta"))
	case 5:
		p.AddMkdirAll(filepath.Join(b, "c"))
	case 6:
		p.AddCopyFile(filepath.Join(a, "f"), filepath.Join(dir, "g"))
	case 7:
		vMust(os.Remove(dbPath + crcSuffix))
		p.AddCalcCRC32(dbPath, dbPath+crcSuffix)
	case 8:
		p.AddVerifyDB(dbPath)
	}

	ck := plan.NewChecker()
	done, err := p.LastOpDone(ck)
	verifAssert("C07-ops-not-done-before", err == nil && !done)

	verifAssert("C07-ops-execute-succeeds", p.Execute(plan.NewExecutor()) == nil)
	done, err = p.LastOpDone(ck)
	verifAssert("C07-ops-done-after", err == nil && done == (kind != 8))
	after := vTree(dir)

	// the effect, from the documentation of the operation
	switch kind {
	case 0:
		verifAssert("C07-ops-rename", !vExists(a) && vExists(filepath.Join(b, "f")))
	case 1:
		verifAssert("C07-ops-remove", !vExists(filepath.Join(a, "f")) && vExists(a))
	case 2:
		verifAssert("C07-ops-removeall", !vExists(a))
	case 3:
		got, cerr := vContent(dbPath, nil)
		verifAssert("C07-ops-checkpoint-consumes-wals", cerr == nil && !vExists(w0) && !vExists(w1) && !vExists(dbPath+"-wal"))
		verifAssert("C07-ops-checkpoint-content", got == wantBoth)
	case 4:
		data, rerr := os.ReadFile(filepath.Join(a, metaFileName))
		verifAssert("C07-ops-writemeta", rerr == nil && string(data) == "new meta")
	case 5:
		verifAssert("C07-ops-mkdirall", vIsDir(filepath.Join(b, "c")))
	case 6:
		data, rerr := os.ReadFile(filepath.Join(dir, "g"))
		verifAssert("C07-ops-copyfile", rerr == nil && string(data) == "content" && vExists(filepath.Join(a, "f")))
	case 7:
		hf, herr := NewChecksummedFileFromFiles(dbPath, dbPath+crcSuffix)
		ok := false
		if herr == nil {
			ok, herr = hf.Check()
		}
		verifAssert("C07-ops-calccrc32", herr == nil && ok)
	case 8:
		got, cerr := vContent(dbPath, nil)
		verifAssert("C07-ops-verifydb-changes-nothing", cerr == nil && got == wantAsIs)
	}

	// idempotent
	verifAssert("C07-ops-second-execution-succeeds", p.Execute(plan.NewExecutor()) == nil)
	verifAssert("C07-ops-second-execution-changes-nothing", vTree(dir) == after)
	done, err = p.LastOpDone(ck)
	verifAssert("C07-ops-still-done", err == nil && done == (kind != 8))

	// documented errors
	ex := plan.NewExecutor()
	nowhere, nowhere2 := filepath.Join(dir, "nowhere"), filepath.Join(dir, "nowhere2")
	switch kind {
	case 0:
		verifAssert("C07-ops-rename-of-nothing-fails", ex.Rename(nowhere, nowhere2) != nil)
	case 3:
		vMust(os.WriteFile(w0, vWALContent(0), 0o644))
		_, cerr := ex.Checkpoint(filepath.Join(dir, "no.db"), []string{w0})
		verifAssert("C07-ops-checkpoint-without-database-fails", cerr != nil && vExists(w0))
	case 6:
		verifAssert("C07-ops-copy-of-nothing-fails", ex.CopyFile(nowhere, nowhere2) != nil)
	}
	bogus := &plan.Plan{Ops: []plan.Operation{{Type: plan.OpType("bogus")}}}
	_, lerr := bogus.LastOpDone(ck)
	verifAssert("C07-ops-unknown-type-rejected", bogus.Execute(ex) != nil && lerr != nil)
	empty := plan.New()
	done, err = empty.LastOpDone(ck)
	verifAssert("C07-ops-empty-plan-is-done", err == nil && done && empty.Execute(ex) == nil)
	verifReach("ops-checked")
}
