package store

import "github.com/hashicorp/raft"

// Native replay only: route the *raft.Raft API methods to the harness's raft membership model
// through the hook set of the patched api.go (raft_api.go.txt, spec "native_module_patch").
func init() {
	verifC32HooksInstall = func() {
		raft.VerifHooks = &raft.VerifHookSet{
			BootstrapCluster: verifC32RaftBootstrapCluster,
			Leader:           verifC32RaftLeader,
			LeaderWithID:     verifC32RaftLeaderWithID,
			GetConfiguration: verifC32RaftGetConfiguration,
			AddVoter:         verifC32RaftAddVoter,
			AddNonvoter:      verifC32RaftAddNonvoter,
			RemoveServer:     verifC32RaftRemoveServer,
			DemoteVoter:      verifC32RaftDemoteVoter,
			State:            verifC32RaftState,
		}
	}
	verifC32HooksRemove = func() { raft.VerifHooks = nil }
}
