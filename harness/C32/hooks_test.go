package store

import "github.com/hashicorp/raft"

// Native replay only: route the *raft.Raft API methods to the harness's raft membership model
// through the hook set of the patched api.go (raft_api.go.txt, spec "native_module_patch"), and
// give the model access to the real nextConfiguration / checkConfiguration for cross-checking.
func init() {
	verifC32HooksInstall = func() {
		raft.VerifHooks = &raft.VerifHookSet{
			BootstrapCluster: verifC32RaftBootstrapCluster,
			Leader:           verifC32RaftLeader,
			LeaderWithID:     verifC32RaftLeaderWithID,
			GetConfiguration: verifC32RaftGetConfiguration,
			AddVoter:         verifC32RaftAddVoter,
			AddNonvoter:      verifC32RaftAddNonvoter,
			RemoveServer:     verifC32RaftRemoveServer,
			DemoteVoter:      verifC32RaftDemoteVoter,
			State:            verifC32RaftState,
		}
	}
	verifC32HooksRemove = func() { raft.VerifHooks = nil }

	verifC32RealNext = func(cur []raft.Server, kind int, id raft.ServerID, addr raft.ServerAddress) ([]raft.Server, error) {
		cmd := map[int]raft.ConfigurationChangeCommand{
			vC32AddVoter:    raft.AddVoter,
			vC32AddNonvoter: raft.AddNonvoter,
			vC32Remove:      raft.RemoveServer,
			vC32Demote:      raft.DemoteVoter,
		}[kind]
		next, err := raft.VerifNextConfiguration(raft.Configuration{Servers: verifC32Clone(cur)}, cmd, id, addr)
		return next.Servers, err
	}
	verifC32RealCheck = func(servers []raft.Server) error {
		return raft.VerifCheckConfiguration(raft.Configuration{Servers: servers})
	}
}
