package store

import (
	"testing"

	"github.com/hashicorp/raft"
)

// Conformance of the harness's raft membership model (verifC32Check / verifC32Next in harness.go)
// with the REAL checkConfiguration / nextConfiguration of hashicorp/raft v1.7.3 (exported by the
// patched api.go as raft.VerifCheckConfiguration / raft.VerifNextConfiguration).
//
//	cd /verif && ./bin/symgo nativetest C32 TestVerifC32ModelConformance
//
// Exhaustive over: every list of 0..3 servers with ID in {n1..n4, ""}, address in {a1..a4, ""},
// voter / non-voter (the check), and from every ACCEPTABLE one of them every request
// AddVoter / AddNonvoter / RemoveServer / DemoteVoter with ID in {n1..n5, ""} and address in {a1..a5, ""}.
func TestVerifC32ModelConformance(t *testing.T) {
	ids := []raft.ServerID{"n1", "n2", "n3", "n4", ""}
	addrs := []raft.ServerAddress{"10.0.0.1:4002", "10.0.0.2:4002", "10.0.0.3:4002", "10.0.0.4:4002", ""}
	var one []raft.Server
	for _, id := range ids {
		for _, a := range addrs {
			one = append(one, raft.Server{ID: id, Address: a, Suffrage: raft.Voter}, raft.Server{ID: id, Address: a, Suffrage: raft.Nonvoter})
		}
	}
	var lists [][]raft.Server
	lists = append(lists, nil)
	for _, a := range one {
		lists = append(lists, []raft.Server{a})
		for _, b := range one {
			lists = append(lists, []raft.Server{a, b})
			for _, c := range one {
				lists = append(lists, []raft.Server{a, b, c})
			}
		}
	}
	reqIDs := append(append([]raft.ServerID{}, ids...), "n5")
	reqAddrs := append(append([]raft.ServerAddress{}, addrs...), "10.0.0.5:4002")
	kinds := []int{vC32AddVoter, vC32AddNonvoter, vC32Remove, vC32Demote}
	nCheck, nValid, nNext := 0, 0, 0
	for _, l := range lists {
		nCheck++
		merr, rerr := verifC32Check(l), verifC32RealCheck(l)
		if (merr == nil) != (rerr == nil) {
			t.Fatalf("check disagrees on %v: model %v, raft %v", l, merr, rerr)
		}
		if rerr != nil {
			continue
		}
		nValid++
		for _, k := range kinds {
			for _, id := range reqIDs {
				for _, a := range reqAddrs {
					if (k == vC32Remove || k == vC32Demote) && a != "" {
						continue
					}
					nNext++
					before := verifC32Clone(l)
					mn, merr := verifC32Next(l, k, id, a)
					rn, rerr := verifC32RealNext(l, k, id, a)
					if !verifC32SameList(before, l) {
						t.Fatalf("the current configuration was modified: %v -> %v", before, l)
					}
					if (merr == nil) != (rerr == nil) {
						t.Fatalf("next disagrees on %v kind %d id %q addr %q: model err %v, raft err %v", l, k, id, a, merr, rerr)
					}
					if merr == nil && !verifC32SameList(mn, rn) {
						t.Fatalf("next disagrees on %v kind %d id %q addr %q: model %v, raft %v", l, k, id, a, mn, rn)
					}
				}
			}
		}
	}
	t.Logf("compared: %d lists (check), %d acceptable configurations, %d requests", nCheck, nValid, nNext)
}
