package store

import (
	"context"
	"errors"
	"io"
	"log"
	"time"

	"github.com/hashicorp/raft"
	"github.com/rqlite/rqlite/v10/command/proto"
	"github.com/rqlite/rqlite/v10/internal/rsync"
)

// =============================================================================================
// C32: membership changes keep node IDs and addresses unique (limited claim).
//
// The REAL (*Store).Join, Remove/remove, Notify, the failed-heartbeat arm of observe, Nodes,
// Servers.IsReadReplica and checkRaftConfiguration run against a model of the membership part of
// the hashicorp/raft v1.7.3 API (DESIGN.md section 4.5), written from the documentation of
// AddVoter / AddNonvoter / RemoveServer / BootstrapCluster and the rules of configuration.go
// (nextConfiguration + checkConfiguration):
//
//   - not the leader                         -> ErrNotLeader, configuration unchanged
//   - AddVoter(id, addr): unknown id -> new voter; known id -> address updated, non-voter promoted
//   - AddNonvoter(id, addr): unknown id -> new non-voter; known id -> address updated, suffrage kept
//   - RemoveServer(id): unknown id -> no-op; removing the leader itself -> it steps down
//   - DemoteVoter(id): suffrage becomes non-voter
//   - a resulting configuration with an empty ID/address, a duplicate ID, a duplicate address or
//     without any voter -> error, configuration unchanged
//   - BootstrapCluster: ErrCantBootstrap if the node already has state, else the same check
//
//   - symbolic run: spec.json "models" maps the methods of the concrete *raft.Raft onto the
//     verifC32Raft* functions below;
//   - native replay: the same functions are reached through raft.VerifHooks of a patched copy of
//     api.go (raft_api.go.txt, spec "native_module_patch"), installed by hooks_test.go.
//
// Every membership call is recorded; the oracles speak about the model configuration before and
// after the request and about the recorded calls.
// =============================================================================================

const (
	vC32AddVoter = iota
	vC32AddNonvoter
	vC32Remove
	vC32Demote
	vC32Bootstrap
)

type verifC32Call struct {
	kind int
	id   raft.ServerID
	addr raft.ServerAddress
	conf []raft.Server // BootstrapCluster: the configuration asked for
	err  error
}

type verifC32World struct {
	self        raft.ServerID
	servers     []raft.Server // the configuration (latest)
	leader      bool          // State() == Leader
	leaderKnown bool          // LeaderWithID() non-empty
	hasState    bool          // the node already has raft state (BootstrapCluster refuses)
	confErr     bool          // GetConfiguration fails
	failAt      int           // the failAt-th membership call (0-based) fails with verifC32ErrOther; -1 = never
	loseAt      int           // the node loses its leadership just before the loseAt-th membership call; -1 = never
	nChange     int
	calls       []verifC32Call
}

var verifC32W *verifC32World

var (
	verifC32ErrOther   = errors.New("verif: some other raft error (timeout, shutdown, ...)")
	verifC32ErrEmpty   = errors.New("verif raft: empty ID or address in configuration")
	verifC32ErrDupID   = errors.New("verif raft: found duplicate ID in configuration")
	verifC32ErrDupAddr = errors.New("verif raft: found duplicate address in configuration")
	verifC32ErrNoVoter = errors.New("verif raft: need at least one voter in configuration")
)

type verifC32Future struct {
	err  error
	idx  uint64
	conf raft.Configuration
}

func (f *verifC32Future) Error() error                      { return f.err }
func (f *verifC32Future) Index() uint64                     { return f.idx }
func (f *verifC32Future) Configuration() raft.Configuration { return f.conf }

func verifC32Clone(in []raft.Server) []raft.Server {
	out := make([]raft.Server, len(in))
	copy(out, in)
	return out
}

// verifC32Check is raft's rule for an acceptable configuration.
func verifC32Check(servers []raft.Server) error {
	voters := 0
	for i, sv := range servers {
		if sv.ID == "" || sv.Address == "" {
			return verifC32ErrEmpty
		}
		for j := 0; j < i; j++ {
			if servers[j].ID == sv.ID {
				return verifC32ErrDupID
			}
		}
		for j := 0; j < i; j++ {
			if servers[j].Address == sv.Address {
				return verifC32ErrDupAddr
			}
		}
		if sv.Suffrage == raft.Voter {
			voters++
		}
	}
	if voters == 0 {
		return verifC32ErrNoVoter
	}
	return nil
}

// verifC32Next is the documented effect of one membership request on a configuration.
func verifC32Next(cur []raft.Server, kind int, id raft.ServerID, addr raft.ServerAddress) ([]raft.Server, error) {
	next := verifC32Clone(cur)
	at := -1
	for i := range next {
		if next[i].ID == id {
			at = i
			break
		}
	}
	switch kind {
	case vC32AddVoter:
		if at < 0 {
			next = append(next, raft.Server{Suffrage: raft.Voter, ID: id, Address: addr})
		} else {
			next[at].Address = addr
			next[at].Suffrage = raft.Voter
		}
	case vC32AddNonvoter:
		if at < 0 {
			next = append(next, raft.Server{Suffrage: raft.Nonvoter, ID: id, Address: addr})
		} else {
			next[at].Address = addr // an existing voter keeps its vote
		}
	case vC32Remove:
		if at >= 0 {
			next = append(next[:at], next[at+1:]...)
		}
	case vC32Demote:
		if at >= 0 {
			next[at].Suffrage = raft.Nonvoter
		}
	}
	if err := verifC32Check(next); err != nil {
		return nil, err
	}
	return next, nil
}

func (w *verifC32World) change(kind int, id raft.ServerID, addr raft.ServerAddress) raft.IndexFuture {
	k := w.nChange
	w.nChange++
	c := verifC32Call{kind: kind, id: id, addr: addr}
	if k == w.loseAt {
		w.leader = false
	}
	switch {
	case !w.leader:
		c.err = raft.ErrNotLeader
	case k == w.failAt:
		c.err = verifC32ErrOther
	default:
		next, err := verifC32Next(w.servers, kind, id, addr)
		if verifC32RealNext != nil {
			rn, rerr := verifC32RealNext(w.servers, kind, id, addr)
			if (rerr == nil) != (err == nil) || (err == nil && !verifC32SameList(rn, next)) {
				panic("verif C32: the raft model disagrees with hashicorp/raft nextConfiguration")
			}
		}
		if err != nil {
			c.err = err
		} else {
			w.servers = next
			if kind == vC32Remove && id == w.self {
				// "If the current leader is being removed, it will cause a new election to occur."
				gone := true
				for _, sv := range next {
					if sv.ID == w.self {
						gone = false
					}
				}
				if gone {
					w.leader = false
				}
			}
		}
	}
	w.calls = append(w.calls, c)
	return &verifC32Future{err: c.err, idx: uint64(10 + k)}
}

func verifC32RaftState(r *raft.Raft) raft.RaftState {
	if verifC32W.leader {
		return raft.Leader
	}
	return raft.Follower
}

func verifC32RaftLeaderWithID(r *raft.Raft) (raft.ServerAddress, raft.ServerID) {
	if verifC32W.leaderKnown {
		return "10.0.0.9:4002", "leader-id"
	}
	return "", ""
}

func verifC32RaftLeader(r *raft.Raft) raft.ServerAddress {
	a, _ := verifC32RaftLeaderWithID(r)
	return a
}

func verifC32RaftGetConfiguration(r *raft.Raft) raft.ConfigurationFuture {
	w := verifC32W
	if w.confErr {
		return &verifC32Future{err: verifC32ErrOther}
	}
	return &verifC32Future{conf: raft.Configuration{Servers: verifC32Clone(w.servers)}}
}

func verifC32RaftAddVoter(r *raft.Raft, id raft.ServerID, addr raft.ServerAddress, prev uint64, timeout time.Duration) raft.IndexFuture {
	return verifC32W.change(vC32AddVoter, id, addr)
}

func verifC32RaftAddNonvoter(r *raft.Raft, id raft.ServerID, addr raft.ServerAddress, prev uint64, timeout time.Duration) raft.IndexFuture {
	return verifC32W.change(vC32AddNonvoter, id, addr)
}

func verifC32RaftRemoveServer(r *raft.Raft, id raft.ServerID, prev uint64, timeout time.Duration) raft.IndexFuture {
	return verifC32W.change(vC32Remove, id, "")
}

func verifC32RaftDemoteVoter(r *raft.Raft, id raft.ServerID, prev uint64, timeout time.Duration) raft.IndexFuture {
	return verifC32W.change(vC32Demote, id, "")
}

func verifC32RaftBootstrapCluster(r *raft.Raft, conf raft.Configuration) raft.Future {
	w := verifC32W
	c := verifC32Call{kind: vC32Bootstrap, conf: verifC32Clone(conf.Servers)}
	switch {
	case w.hasState:
		c.err = raft.ErrCantBootstrap
	default:
		err := verifC32Check(conf.Servers)
		if verifC32RealCheck != nil && (verifC32RealCheck(conf.Servers) == nil) != (err == nil) {
			panic("verif C32: the raft model disagrees with hashicorp/raft checkConfiguration")
		}
		if err != nil {
			c.err = err
		} else {
			w.servers = verifC32Clone(conf.Servers)
			w.hasState = true
		}
	}
	w.calls = append(w.calls, c)
	return &verifC32Future{err: c.err}
}

// verifC32LookupHost stands in for net.LookupHost in the symbolic run (natively the real function
// runs: an IP literal resolves to itself without any network traffic, the empty host is refused).
func verifC32LookupHost(host string) ([]string, error) {
	if host == "" {
		return nil, errors.New("lookup : no such host")
	}
	return []string{host}, nil
}

// native replay: installs / removes raft.VerifHooks (set by hooks_test.go; nil in the symbolic run)
var verifC32HooksInstall func()
var verifC32HooksRemove func()

// native replay: the REAL nextConfiguration / checkConfiguration of hashicorp/raft (exported by the
// patched api.go, set by hooks_test.go; nil in the symbolic run). Every model step of a natively
// replayed path is compared with them; a disagreement is a model error (panic), not a finding.
var verifC32RealNext func(cur []raft.Server, kind int, id raft.ServerID, addr raft.ServerAddress) ([]raft.Server, error)
var verifC32RealCheck func(servers []raft.Server) error

func verifC32SameList(a, b []raft.Server) bool {
	if len(a) != len(b) {
		return false
	}
	for i := range a {
		if a[i] != b[i] {
			return false
		}
	}
	return true
}

// ---------------------------------------------------------------------------------------------
// scenario
// ---------------------------------------------------------------------------------------------

var verifC32IDs = []string{"n1", "n2", "n3", "n4", "n5"}
var verifC32Addrs = []string{"10.0.0.1:4002", "10.0.0.2:4002", "10.0.0.3:4002", "10.0.0.4:4002", "10.0.0.5:4002"}

const verifC32Unresolvable = ":4002" // empty host: refused by the resolver without any lookup

var verifC32Perms = [][][]int{
	nil,
	{{0}},
	{{0, 1}, {1, 0}},
	{{0, 1, 2}, {0, 2, 1}, {1, 0, 2}, {1, 2, 0}, {2, 0, 1}, {2, 1, 0}},
}

// verifC32Config chooses a valid configuration of 1..3 servers: server i has ID n(i+1) and
// address 10.0.0.(i+1):4002 (every valid configuration is one of these up to renaming), n1 is this
// node and a voter, the others are voters or non-voters.
// shape 0: the one configuration [n1 voter, n2 voter, n3 non-voter] (for requests that are refused
// before the configuration matters); 1: 1..3 servers, as listed or reversed (every pair of entries
// occurs in both relative orders); 2: 1..3 servers in every order; 3: 2..3 servers as listed.
func verifC32Config(shape int) []raft.Server {
	n := 3
	switch shape {
	case 1, 2:
		n = 1 + verifChoice("nServers", 3)
	case 3:
		n = 2 + verifChoice("nServers", 2)
	}
	base := make([]raft.Server, n)
	for i := 0; i < n; i++ {
		suf := raft.Voter
		if shape == 0 {
			if i == 2 {
				suf = raft.Nonvoter
			}
		} else if i > 0 && verifChoice(verifName("nonvoter", i), 2) == 1 {
			suf = raft.Nonvoter
		}
		base[i] = raft.Server{ID: raft.ServerID(verifC32IDs[i]), Address: raft.ServerAddress(verifC32Addrs[i]), Suffrage: suf}
	}
	perms := verifC32Perms[n]
	switch shape {
	case 0, 3:
		perms = perms[:1]
	case 1:
		perms = [][]int{perms[0], perms[len(perms)-1]}
	}
	perm := perms[0]
	if len(perms) > 1 && n > 1 {
		perm = perms[verifChoice("order", len(perms))]
	}
	out := make([]raft.Server, n)
	for i, p := range perm {
		out[i] = base[p]
	}
	return out
}

// world modes (what the raft side does during the request)
const (
	vC32ModeOK           = iota // leader; every call follows the contract
	vC32ModeFail0               // membership call #0 fails with some other error (timeout ...); still leader
	vC32ModeFail1               // membership call #1 ...
	vC32ModeFail2               // membership call #2 ...
	vC32ModeLose0               // leadership is lost just before membership call #0 (ErrNotLeader from then on)
	vC32ModeLose1               // ... #1
	vC32ModeLose2               // ... #2
	vC32ModeFollower            // not the leader from the start
	vC32ModeConfErr             // GetConfiguration fails
	vC32ModeUnresolvable        // (Join) the address cannot be resolved
	vC32ModeCancelled           // (Remove) the context is cancelled
	vC32ModeNotOpen             // (Remove) the store is not open
)

// modes whose outcome does not depend on the configuration: checked on one configuration only;
// quick tier: the failure modes on the 2..3-server configurations as listed
func verifC32Shape(mode int) int {
	if mode >= vC32ModeFollower {
		return 0
	}
	if verifTier() == 0 && mode != vC32ModeOK {
		return 3
	}
	return 1 + verifTier()
}

type verifC32Scenario struct {
	s        *Store
	w        *verifC32World
	mode     int
	clockSet bool
	obsStop  chan struct{}
	obsDone  chan struct{}
}

func verifC32NewStore() *Store {
	s := &Store{
		open:           rsync.NewAtomicBool(),
		raft:           &raft.Raft{}, // never consulted: every method the paths call is modelled
		raftID:         verifC32IDs[0],
		logger:         log.New(io.Discard, "", 0),
		notifyingNodes: make(map[string]*Server),
		observerChan:   make(chan raft.Observation),
	}
	s.open.Set()
	return s
}

func (sc *verifC32Scenario) setMode(mode int) {
	w := sc.w
	sc.mode = mode
	w.leader = mode != vC32ModeFollower
	w.confErr = mode == vC32ModeConfErr
	w.failAt = -1
	w.loseAt = -1
	w.nChange = 0
	switch mode {
	case vC32ModeFail0, vC32ModeFail1, vC32ModeFail2:
		w.failAt = mode - vC32ModeFail0
	case vC32ModeLose0, vC32ModeLose1, vC32ModeLose2:
		w.loseAt = mode - vC32ModeLose0
	}
}

func verifC32Setup(shape int) *verifC32Scenario {
	w := &verifC32World{self: raft.ServerID(verifC32IDs[0]), leaderKnown: true, hasState: true, failAt: -1, loseAt: -1}
	verifC32W = w
	w.servers = verifC32Config(shape)
	sc := &verifC32Scenario{s: verifC32NewStore(), w: w}
	return sc
}

func (sc *verifC32Scenario) done() {
	if sc.obsStop != nil {
		close(sc.obsStop)
		<-sc.obsDone
	}
}

// ---------------------------------------------------------------------------------------------
// predicates over configurations (the property's vocabulary)
// ---------------------------------------------------------------------------------------------

// verifC32Valid: no two entries with the same ID or the same address (and none empty).
func verifC32Valid(servers []raft.Server) bool {
	for i := range servers {
		if servers[i].ID == "" || servers[i].Address == "" {
			return false
		}
		for j := 0; j < i; j++ {
			if servers[j].ID == servers[i].ID || servers[j].Address == servers[i].Address {
				return false
			}
		}
	}
	return true
}

func verifC32CountID(servers []raft.Server, id string) (n int, last raft.Server) {
	for _, sv := range servers {
		if string(sv.ID) == id {
			n++
			last = sv
		}
	}
	return
}

func verifC32CountAddr(servers []raft.Server, addr string) (n int, last raft.Server) {
	for _, sv := range servers {
		if string(sv.Address) == addr {
			n++
			last = sv
		}
	}
	return
}

// same set of (id, address, suffrage) entries (order is not part of the property)
func verifC32SameSet(a, b []raft.Server) bool {
	if len(a) != len(b) {
		return false
	}
	for _, x := range a {
		found := false
		for _, y := range b {
			if x == y {
				found = true
			}
		}
		if !found {
			return false
		}
	}
	return true
}

func verifC32Has(servers []raft.Server, x raft.Server) bool {
	for _, y := range servers {
		if x == y {
			return true
		}
	}
	return false
}

// ---------------------------------------------------------------------------------------------
// one Join
// ---------------------------------------------------------------------------------------------

func (sc *verifC32Scenario) join(step int, mode int, ids, addrs []string) {
	w, s := sc.w, sc.s
	sc.setMode(mode)
	id := ids[verifChoice(verifName("joinID", step), len(ids))]
	if mode == vC32ModeUnresolvable {
		addrs = []string{verifC32Unresolvable, ""}
	}
	addr := addrs[verifChoice(verifName("joinAddr", step), len(addrs))]
	voter := verifChoice(verifName("joinVoter", step), 2) == 0
	wantSuffrage := raft.Nonvoter
	if voter {
		wantSuffrage = raft.Voter
	}

	before := verifC32Clone(w.servers)
	call0 := len(w.calls)
	verifAssume(verifC32Valid(before)) // (true by construction / by the previous step's assertion)
	nID, oldByID := verifC32CountID(before, id)
	nAddr, oldByAddr := verifC32CountAddr(before, addr)
	identical := nID == 1 && nAddr == 1 && oldByID == oldByAddr

	ignored0 := s.numIgnoredJoins
	err := s.Join(&proto.JoinRequest{Id: id, Address: addr, Voter: voter})

	after := w.servers
	calls := w.calls[call0:]

	// ---- the invariant of the property
	verifAssert("C32-join-keeps-ids-and-addresses-unique", verifC32Valid(after))

	// ---- frame: nodes that have nothing to do with the request are left alone
	for _, b := range before {
		if string(b.ID) != id && string(b.Address) != addr {
			verifAssert("C32-join-leaves-unrelated-nodes-alone", verifC32Has(after, b))
		}
	}
	for _, a := range after {
		if string(a.ID) != id {
			verifAssert("C32-join-does-not-alter-or-invent-other-nodes", verifC32Has(before, a))
		}
	}

	// ---- requests that must be refused without touching the membership
	if sc.mode == vC32ModeFollower {
		verifReach("join-refused-not-leader")
		verifAssert("C32-join-on-follower-is-refused-with-not-leader", err == ErrNotLeader)
		verifAssert("C32-join-on-follower-changes-nothing", len(calls) == 0)
		return
	}
	if mode == vC32ModeUnresolvable {
		verifReach("join-refused-unresolvable-address")
		verifAssert("C32-join-with-unresolvable-address-is-refused", err != nil)
		verifAssert("C32-join-with-unresolvable-address-changes-nothing", len(calls) == 0)
		return
	}
	if sc.mode == vC32ModeConfErr {
		verifAssert("C32-join-without-readable-configuration-is-refused", err != nil)
		verifAssert("C32-join-without-readable-configuration-changes-nothing", len(calls) == 0)
		return
	}

	// ---- a failed join reports the failure
	if len(calls) > 0 {
		if last := calls[len(calls)-1]; last.err != nil {
			verifReach("join-raft-refused")
			verifAssert("C32-join-reports-the-raft-error", err != nil)
			if last.err == raft.ErrNotLeader {
				verifAssert("C32-join-reports-lost-leadership-as-not-leader", err == ErrNotLeader)
			}
		}
	}

	if err != nil {
		verifReach("join-failed")
		// whatever happened, the node ends up with at most one entry (covered by validity) and an
		// entry for it is either the old one or the one asked for
		if n, e := verifC32CountID(after, id); n == 1 && !verifC32Has(before, e) {
			verifAssert("C32-failed-join-leaves-old-or-requested-entry", string(e.Address) == addr)
		}
		// supported requests must not fail when raft cooperates
		if sc.mode == vC32ModeOK && id != "" {
			if nID == 0 && nAddr == 0 {
				verifAssert("C32-join-of-a-new-node-succeeds", false)
			}
			otherVoters := 0
			for _, b := range before {
				if b.Suffrage == raft.Voter && string(b.ID) != id {
					otherVoters++
				}
			}
			if nID == 1 && nAddr == 0 && id != string(w.self) && otherVoters > 0 {
				verifAssert("C32-rejoin-with-a-new-address-succeeds", false)
			}
			if nID == 0 && nAddr == 1 {
				// observation, not an obligation: today a NEW node that reuses the address of another
				// member is always refused (Join removes the joining ID, not the holder of the address,
				// and raft then refuses the duplicate address); uniqueness holds either way
				verifReach("join-new-id-reusing-address-refused")
			}
		}
		return
	}

	// ---- accepted
	verifReach("join-accepted")
	if identical {
		// documented no-op (outside the role clause): nothing is asked of raft, nothing changes
		verifReach("rejoin-identical-is-a-no-op")
		verifAssert("C32-identical-rejoin-changes-nothing", verifC32SameSet(before, after))
		verifAssert("C32-identical-rejoin-asks-nothing-of-raft", len(calls) == 0)
		verifAssert("C32-identical-rejoin-is-counted", s.numIgnoredJoins == ignored0+1)
		return
	}
	n1, e1 := verifC32CountID(after, id)
	n2, e2 := verifC32CountAddr(after, addr)
	verifAssert("C32-accepted-join-has-exactly-one-entry-for-the-id", n1 == 1)
	verifAssert("C32-accepted-join-has-exactly-one-entry-for-the-address", n2 == 1)
	verifAssert("C32-accepted-join-entry-has-the-requested-id-and-address", e1 == e2)
	verifAssert("C32-accepted-join-has-the-requested-role", e1.Suffrage == wantSuffrage)
	// the add itself used the requested suffrage
	lastAdd := -1
	for i, c := range calls {
		if c.kind == vC32AddVoter || c.kind == vC32AddNonvoter {
			lastAdd = i
		}
	}
	verifAssert("C32-accepted-join-results-from-an-add", lastAdd >= 0 && calls[lastAdd].err == nil)
	if lastAdd >= 0 {
		wantKind := vC32AddNonvoter
		if voter {
			wantKind = vC32AddVoter
		}
		verifAssert("C32-add-uses-the-requested-suffrage", calls[lastAdd].kind == wantKind)
		verifAssert("C32-add-uses-the-requested-id-and-address", string(calls[lastAdd].id) == id && string(calls[lastAdd].addr) == addr)
	}
	switch {
	case nID == 0 && nAddr == 0:
		verifReach("join-new-node")
		verifAssert("C32-join-of-a-new-node-only-adds", len(after) == len(before)+1)
	case nID == 1 && nAddr == 0:
		verifReach("rejoin-same-id-new-address")
		verifAssert("C32-rejoin-replaces-the-old-entry", len(after) == len(before))
		if oldByID.Suffrage != wantSuffrage {
			verifReach("rejoin-changes-role")
		}
	case nID == 0 && nAddr == 1:
		// a new node took over the address of another one: the other one must be gone (validity)
		verifReach("join-new-id-reusing-address")
	}
}

// ---------------------------------------------------------------------------------------------
// one Remove
// ---------------------------------------------------------------------------------------------

func (sc *verifC32Scenario) remove(step int, m int) {
	w, s := sc.w, sc.s
	sc.setMode(m)
	ids := []string{"n1", "n2", "n3", "n4", ""}
	id := ids[verifChoice(verifName("removeID", step), len(ids))]
	cancelled := m == vC32ModeCancelled
	notOpen := m == vC32ModeNotOpen
	ctx, cancel := context.WithCancel(context.Background())
	defer cancel()
	if cancelled {
		cancel()
	}
	if notOpen {
		s.open.Unset()
		defer s.open.Set()
	}

	before := verifC32Clone(w.servers)
	call0 := len(w.calls)
	verifAssume(verifC32Valid(before))
	nID, old := verifC32CountID(before, id)

	err := s.Remove(ctx, &proto.RemoveNodeRequest{Id: id})

	after := w.servers
	calls := w.calls[call0:]

	verifAssert("C32-remove-keeps-ids-and-addresses-unique", verifC32Valid(after))
	for _, b := range before {
		if string(b.ID) != id {
			verifAssert("C32-remove-leaves-other-nodes-alone", verifC32Has(after, b))
		}
	}
	for _, a := range after {
		verifAssert("C32-remove-never-adds-or-alters", verifC32Has(before, a))
	}
	for _, c := range calls {
		verifAssert("C32-remove-only-asks-raft-to-remove-that-node", c.kind == vC32Remove && string(c.id) == id)
	}

	if notOpen {
		verifAssert("C32-remove-on-closed-store-is-refused", err == ErrNotOpen && len(calls) == 0)
		return
	}
	if cancelled {
		verifReach("remove-cancelled")
		verifAssert("C32-remove-with-cancelled-context-is-refused", err == context.Canceled && len(calls) == 0)
		return
	}
	if m == vC32ModeFollower || m == vC32ModeLose0 {
		verifReach("remove-refused-not-leader")
		verifAssert("C32-remove-on-follower-is-refused-with-not-leader", err == ErrNotLeader)
		verifAssert("C32-remove-on-follower-changes-nothing", verifC32SameSet(before, after))
		return
	}
	if err == nil {
		verifReach("remove-accepted")
		n, _ := verifC32CountID(after, id)
		verifAssert("C32-accepted-remove-leaves-no-entry-for-the-id", n == 0)
		verifAssert("C32-accepted-remove-was-accepted-by-raft", len(calls) == 1 && calls[0].err == nil)
		if nID == 0 {
			verifReach("remove-unknown-id-is-a-no-op")
			verifAssert("C32-remove-of-unknown-id-changes-nothing", verifC32SameSet(before, after))
		} else {
			verifAssert("C32-accepted-remove-removes-exactly-one", len(after) == len(before)-1)
		}
		return
	}
	verifReach("remove-failed")
	verifAssert("C32-failed-remove-changes-nothing", verifC32SameSet(before, after))
	if m == vC32ModeOK {
		// raft cooperates: the only legitimate refusal is losing the last voter
		voters := 0
		for _, b := range before {
			if b.Suffrage == raft.Voter && string(b.ID) != id {
				voters++
			}
		}
		verifReach("remove-last-voter-refused")
		verifAssert("C32-remove-fails-only-for-the-last-voter", nID == 1 && old.Suffrage == raft.Voter && voters == 0)
	}
}

// ---------------------------------------------------------------------------------------------
// one failed-heartbeat observation (reaping)
// ---------------------------------------------------------------------------------------------

func (sc *verifC32Scenario) reap(step int, m int) {
	w, s := sc.w, sc.s
	const lim = int64(1) << 61
	sc.setMode(m)
	ids := []string{"n1", "n2", "n3", "n4", ""}
	id := ids[verifChoice(verifName("peerID", step), len(ids))]
	if !sc.clockSet {
		sc.clockSet = true
		t0 := verifI64("now")
		verifAssume(t0 > -lim)
		verifAssume(t0 < lim)
		verifSetClock(t0)
	}
	now := verifClock()
	lc := verifI64(verifName("lastContact", step))
	verifAssume(lc > -lim)
	verifAssume(lc < lim)
	rt := verifI64(verifName("reapTimeout", step))
	rot := verifI64(verifName("reapReadOnlyTimeout", step))
	s.ReapTimeout = time.Duration(rt)
	s.ReapReadOnlyTimeout = time.Duration(rot)

	before := verifC32Clone(w.servers)
	call0 := len(w.calls)
	verifAssume(verifC32Valid(before))
	nID, old := verifC32CountID(before, id)

	if sc.obsStop == nil {
		sc.obsStop, sc.obsDone = s.observe()
	}
	s.observerChan <- raft.Observation{Data: raft.FailedHeartbeatObservation{PeerID: raft.ServerID(id), LastContact: verifTime(lc)}}
	verifSettle()

	after := w.servers
	calls := w.calls[call0:]

	verifAssert("C32-reap-keeps-ids-and-addresses-unique", verifC32Valid(after))
	for _, b := range before {
		if string(b.ID) != id {
			verifAssert("C32-reap-leaves-other-nodes-alone", verifC32Has(after, b))
		}
	}
	for _, a := range after {
		verifAssert("C32-reap-never-adds-or-alters", verifC32Has(before, a))
	}
	for _, c := range calls {
		verifAssert("C32-reap-only-asks-raft-to-remove-the-failing-node", c.kind == vC32Remove && string(c.id) == id)
	}
	verifAssert("C32-reap-asks-at-most-once", len(calls) <= 1)

	// the timeout that applies: by the role the node has in the configuration
	known := nID == 1 && m != vC32ModeConfErr
	if !known {
		verifReach("heartbeat-of-unknown-node")
		verifAssert("C32-no-reaping-of-a-node-that-is-not-in-the-configuration", len(calls) == 0)
		return
	}
	timeout := rt
	if old.Suffrage == raft.Nonvoter {
		timeout = rot
	}
	silent := now - lc // time since the node's last contact (no overflow: both within +-2^61)
	due := verifAnd(timeout > 0, silent > timeout)
	if len(calls) == 1 {
		if old.Suffrage == raft.Nonvoter {
			verifReach("reaped-non-voter")
		} else {
			verifReach("reaped-voter")
		}
		verifAssert("C32-reaped-only-after-the-timeout-for-its-role", due)
		if calls[0].err == nil {
			n, _ := verifC32CountID(after, id)
			verifAssert("C32-reaped-node-is-gone", n == 0)
		}
	} else {
		verifReach("not-reaped")
		verifAssert("C32-unresponsive-node-is-reaped-once-the-timeout-has-passed", !due)
		verifAssert("C32-not-reaped-means-unchanged", verifC32SameSet(before, after))
	}
}

// ---------------------------------------------------------------------------------------------
// entries
// ---------------------------------------------------------------------------------------------

func verifC32Hooks() func() {
	if verifC32HooksInstall != nil {
		verifC32HooksInstall()
		return verifC32HooksRemove
	}
	return func() {}
}

// VerifC32JoinStep: inductive step for Join from every valid configuration of 1..3 servers.
func VerifC32JoinStep() {
	defer verifC32Hooks()()
	modes := []int{vC32ModeOK, vC32ModeFail0, vC32ModeFail1, vC32ModeLose0, vC32ModeLose1, vC32ModeFollower, vC32ModeConfErr, vC32ModeUnresolvable}
	ids := []string{"n1", "n2", "n3", "n4"}
	if verifTier() == 1 {
		modes = append(modes, vC32ModeFail2, vC32ModeLose2)
		ids = append(ids, "") // the empty ID
	}
	mode := modes[verifChoice("mode", len(modes))]
	sc := verifC32Setup(verifC32Shape(mode))
	defer sc.done()
	sc.join(0, mode, ids, verifC32Addrs[:4])
}

// VerifC32RemoveStep: inductive step for Remove.
func VerifC32RemoveStep() {
	defer verifC32Hooks()()
	modes := []int{vC32ModeOK, vC32ModeFail0, vC32ModeLose0, vC32ModeFollower, vC32ModeCancelled, vC32ModeNotOpen}
	mode := modes[verifChoice("mode", len(modes))]
	sc := verifC32Setup(verifC32Shape(mode))
	defer sc.done()
	sc.remove(0, mode)
}

// VerifC32ReapStep: inductive step for the failed-heartbeat arm of the observe goroutine.
func VerifC32ReapStep() {
	defer verifC32Hooks()()
	modes := []int{vC32ModeOK, vC32ModeFail0, vC32ModeFollower, vC32ModeConfErr}
	mode := modes[verifChoice("mode", len(modes))]
	shape := verifC32Shape(mode)
	if shape == 1 {
		shape = 3 // (quick: Nodes() sorts, the order of the configuration is immaterial here)
	}
	sc := verifC32Setup(shape)
	defer sc.done()
	sc.reap(0, mode)
}

// VerifC32Sequence (thorough): histories of 2 requests (join / remove / heartbeat failure) from
// start configurations of 2..3 servers while raft cooperates; every step is checked with the same
// oracles (configurations of up to 5 servers occur).
func VerifC32Sequence() {
	defer verifC32Hooks()()
	sc := verifC32Setup(3)
	defer sc.done()
	for step := 0; step < 2; step++ {
		switch verifChoice(verifName("op", step), 3) {
		case 0:
			sc.join(step, vC32ModeOK, verifC32IDs[:4], verifC32Addrs[:4])
		case 1:
			sc.remove(step, vC32ModeOK)
		case 2:
			sc.reap(step, vC32ModeOK)
		}
		if len(sc.w.servers) > 3 {
			verifReach("configuration-of-more-than-3-servers")
		}
		if n, _ := verifC32CountID(sc.w.servers, string(sc.w.self)); n == 0 {
			break // this node removed itself: it is no leader any more, nothing further is accepted
		}
	}
}

// ---------------------------------------------------------------------------------------------
// Notify-driven bootstrap
// ---------------------------------------------------------------------------------------------

func VerifC32Notify() {
	defer verifC32Hooks()()
	w := &verifC32World{self: raft.ServerID(verifC32IDs[0]), failAt: -1}
	verifC32W = w
	s := verifC32NewStore()
	// the raft side: 0 fresh node without a leader; 1 a leader is already known; 2 the node already has state
	world := verifChoice("world", 3)
	w.leaderKnown = world == 1
	w.hasState = world == 2
	// quick: 2 notifications from {n1,n2} at {a1,a2,unresolvable}, expect 0..2;
	// thorough: 3 notifications from {n1,n2,n3} at {a1,a2,a3,unresolvable}, expect 0..3
	rounds, nIDs, nAddrs, maxExpect := 2, 2, 2, 2
	if verifTier() == 1 {
		rounds, nIDs, nAddrs, maxExpect = 3, 3, 3, 3
	}
	switch world {
	case 1:
		rounds = 1 // (nothing ever happens)
	case 2:
		rounds, maxExpect = 2, 2
	}
	s.BootstrapExpect = verifChoice("bootstrapExpect", maxExpect+1)
	type note struct{ id, addr string }
	var counted []note // notifications the store had to count: first resolvable one per ID
	boots := 0
	for r := 0; r < rounds; r++ {
		id := verifC32IDs[verifChoice(verifName("notifyID", r), nIDs)]
		addr := verifC32Unresolvable
		if k := verifChoice(verifName("notifyAddr", r), nAddrs+1); k < nAddrs {
			addr = verifC32Addrs[k]
		}
		call0 := len(w.calls)
		err := s.Notify(&proto.NotifyRequest{Id: id, Address: addr})
		calls := w.calls[call0:]

		verifAssert("C32-notify-keeps-ids-and-addresses-unique", verifC32Valid(w.servers))
		for _, c := range calls {
			verifAssert("C32-notify-only-bootstraps", c.kind == vC32Bootstrap)
		}
		if s.BootstrapExpect == 0 || w.leaderKnown || boots > 0 {
			// "There is no reason this node will bootstrap"
			verifAssert("C32-no-bootstrap-when-not-expected-or-done-or-leader-known", len(calls) == 0)
			verifAssert("C32-notify-is-accepted-when-nothing-is-to-do", err == nil)
			continue
		}
		already := false
		for _, c := range counted {
			if c.id == id {
				already = true
			}
		}
		if already {
			verifReach("notify-repeated")
			verifAssert("C32-notify-is-idempotent", err == nil && len(calls) == 0)
			continue
		}
		if addr == verifC32Unresolvable {
			verifReach("notify-unresolvable")
			verifAssert("C32-notify-with-unresolvable-address-is-refused", err != nil && len(calls) == 0)
			continue
		}
		counted = append(counted, note{id, addr})
		verifAssert("C32-notify-accepted", err == nil)
		if len(counted) < s.BootstrapExpect {
			verifAssert("C32-no-bootstrap-before-the-expected-number-of-nodes", len(calls) == 0)
			continue
		}
		// the expected number of distinct nodes has been reached: bootstrap, exactly once, with them
		verifReach("bootstrap-attempted")
		verifAssert("C32-bootstrap-when-the-expected-number-is-reached", len(calls) == 1)
		if len(calls) != 1 {
			continue
		}
		boots++
		conf := calls[0].conf
		verifAssert("C32-bootstrap-lists-every-notifying-node-once", len(conf) == len(counted))
		for _, c := range counted {
			n, e := verifC32CountID(conf, c.id)
			verifAssert("C32-bootstrap-has-one-entry-per-node", n == 1)
			verifAssert("C32-bootstrap-entry-has-the-notified-address", string(e.Address) == c.addr)
			verifAssert("C32-bootstrap-entries-are-voters", e.Suffrage == raft.Voter)
		}
		if calls[0].err == nil {
			verifReach("bootstrap-accepted")
			verifAssert("C32-bootstrapped-configuration-is-the-one-asked-for", verifC32SameSet(w.servers, conf))
		} else {
			verifReach("bootstrap-refused-by-raft")
			verifAssert("C32-refused-bootstrap-changes-nothing", len(w.servers) == 0)
		}
	}
}

// ---------------------------------------------------------------------------------------------
// pure helpers: Servers.IsReadReplica and checkRaftConfiguration
// ---------------------------------------------------------------------------------------------

func VerifC32IsReadReplica() {
	n := verifChoice("n", 3+verifTier()) // list of 0..2 (quick) / 0..3 (thorough) entries
	var list Servers
	if n > 0 || verifChoice("nilList", 2) == 0 {
		list = Servers{}
	}
	sufs := []proto.Suffrage{proto.Suffrage_VOTER, proto.Suffrage_NON_VOTER, proto.Suffrage_UNKNOWN}
	for i := 0; i < n; i++ {
		k := verifChoice(verifName("entry", i), 10)
		if k == 9 {
			list = append(list, nil)
			continue
		}
		list = append(list, &Server{ID: []string{"", "n1", "n2"}[k/3], Addr: verifC32Addrs[i], Suffrage: sufs[k%3]})
	}
	id := []string{"", "n1", "n2", "n3"}[verifChoice("id", 4)]
	rr, found := list.IsReadReplica(id)

	var first *Server
	for _, e := range list {
		if e != nil && e.ID == id && first == nil {
			first = e
		}
	}
	if id == "" || first == nil {
		verifReach("not-found")
		verifAssert("C32-isreadreplica-unknown-or-empty-id-not-found", !found && !rr)
		return
	}
	verifReach("found")
	verifAssert("C32-isreadreplica-finds-the-node", found)
	verifAssert("C32-isreadreplica-is-the-non-voter-role", rr == (first.Suffrage == proto.Suffrage_NON_VOTER))
}

func VerifC32CheckConfiguration() {
	ids := []string{"n1", "n2", "n3", ""}
	addrs := []string{"10.0.0.1:4002", "10.0.0.2:4002", "10.0.0.3:4002", "", "http://10.0.0.1:4002", "10.0.0.1"}
	n := verifChoice("n", 3+verifTier()) // 0..2 (quick) / 0..3 (thorough) servers
	nIDs, nAddrs := 2, 2
	var servers []raft.Server
	for i := 0; i < n; i++ {
		if i == 1 {
			nIDs, nAddrs = 3, 3
		}
		if i == n-1 {
			nIDs, nAddrs = len(ids), len(addrs) // the malformed values in the last slot (any slot up to order)
		}
		suf := raft.Voter
		if verifChoice(verifName("nonvoter", i), 2) == 1 {
			suf = raft.Nonvoter
		}
		servers = append(servers, raft.Server{
			ID:       raft.ServerID(ids[verifChoice(verifName("id", i), nIDs)]),
			Address:  raft.ServerAddress(addrs[verifChoice(verifName("addr", i), nAddrs)]),
			Suffrage: suf,
		})
	}
	if n > 1 && verifChoice("reverse", 2) == 1 {
		for i, j := 0, n-1; i < j; i, j = i+1, j-1 {
			servers[i], servers[j] = servers[j], servers[i]
		}
	}
	err := checkRaftConfiguration(raft.Configuration{Servers: servers})

	wellFormed := true
	voters := 0
	for _, sv := range servers {
		a := string(sv.Address)
		if sv.ID == "" || a == "" || a == addrs[4] || a == addrs[5] {
			wellFormed = false
		}
		if sv.Suffrage == raft.Voter {
			voters++
		}
	}
	ok := wellFormed && verifC32Valid(servers) && voters > 0
	if ok {
		verifReach("configuration-accepted")
	} else if wellFormed && voters > 0 {
		verifReach("duplicate-refused")
	}
	verifAssert("C32-checkconfiguration-accepts-exactly-the-unique-wellformed-ones", (err == nil) == ok)
}

// Vacuity twin: same scenario as the Join step, claims that a join never changes the membership.
func VerifC32Twin() {
	defer verifC32Hooks()()
	sc := verifC32Setup(0)
	defer sc.done()
	sc.setMode(vC32ModeOK)
	before := verifC32Clone(sc.w.servers)
	id := verifC32IDs[verifChoice("joinID", 4)]
	addr := verifC32Addrs[verifChoice("joinAddr", 4)]
	err := sc.s.Join(&proto.JoinRequest{Id: id, Address: addr, Voter: true})
	verifAssume(err == nil)
	verifAssert("twin", verifC32SameSet(before, sc.w.servers))
}
