package snapshot

// C10 "Snapshot transfer installs exactly the source data or nothing".
//
// Code under test (package snapshot, run from its real source):
//   receiving side  Sink.Open/Write/processHeader/Close/Cancel, NewFullSink,
//                   FullSink.Open/Write/advance/openCurrent/Close/closeFile/validateHeader
//   restore side    Restore (through LockingStreamer.Read), UnmarshalSnapshotHeader
//   sending side    NewSnapshotStreamer/NewSnapshotHeader/NewHeaderFromFile,
//                   SnapshotStreamer.Open/Read/Len, snapshotHeaderPayloadSize, marshalSnapshotHeader
//
// One scenario = a header (kind, declared artifact sizes, declared CRCs), a byte stream
//   [4-byte big-endian length][marshaled header][data ...]
// of ANY length (cut anywhere, exact, or with extra bytes), and a partition of that stream into
// Write calls (sink) / Read results (restore). The oracle is computed from the scenario alone:
// the stream is acceptable iff its length is exactly prefix + header + sum of the declared sizes,
// every declared CRC equals the CRC-32C of the stream slice of that artifact and (sink only) the
// slices look like a SQLite database / WAL files. Acceptable => installed/restored files are
// exactly the slices; not acceptable => an error and nothing installed, WALs never replayed.
//
// Natively (replay of every counterexample) everything is real: temp directory, files, protobuf,
// hash/crc32, sidecar files, db.IsValidSQLite*. Only db.ReplayWAL cannot succeed natively (the
// artifacts are a few bytes long, not SQLite images); see verifRestoreVerdict.
// In the engine the environment is replaced by the models at the bottom (spec.json "models").

import (
	"encoding/binary"
	"errors"
	"hash/crc32"
	"io"
	"io/fs"
	"os"
	"path/filepath"
	"strings"
	"time"

	"github.com/hashicorp/raft"
	"github.com/rqlite/rqlite/v10/db"
	"github.com/rqlite/rqlite/v10/internal/rsum"
	"github.com/rqlite/rqlite/v10/snapshot/proto"
	"github.com/rqlite/rqlite/v10/snapshot/sidecar"
	pb "google.golang.org/protobuf/proto"
)

// verifAbstractLen is intercepted by the engine (engine/sym/intr_C29.go); natively lengths are real.
func verifAbstractLen(key int, n int) {}

// ---------------------------------------------------------------------------
// scenario

const (
	verifKindFull      = iota // FullSnapshot with a db header
	verifKindNoDB             // FullSnapshot without db header
	verifKindIncFile          // IncrementalFileSnapshot (no data may follow)
	verifKindNoPayload        // header without payload
)

const (
	verifDBPre  = 16 // bytes db.IsValidSQLiteFile looks at
	verifWALPre = 8  // bytes db.IsValidSQLiteWALFile looks at
)

var verifDBMagic = []byte("SQLite format 3\x00")
var verifWALMagic = []byte{0x37, 0x7f, 0x06, 0x82, 0x00, 0x2d, 0xe2, 0x18} // magic, version 3007000

type verifCfg struct {
	kind  int
	sizes []int // declared sizes; [0] is the database (ignored for kind != full)
}

// verifConfigs: the header shapes. Sizes are "what SQLite needs to call it a database / a WAL"
// (16 / 8 bytes) plus 0..4 / 0..3 bytes, and a few degenerate ones (0, shorter than the magic).
func verifConfigs(thorough bool) []verifCfg {
	quick := []verifCfg{
		{verifKindFull, []int{verifDBPre + 1}},
		{verifKindFull, []int{verifDBPre + 2, verifWALPre + 1}},
		{verifKindFull, []int{verifDBPre, verifWALPre + 1, verifWALPre}},
		{verifKindNoDB, []int{0, verifWALPre}},
		{verifKindIncFile, nil},
		{verifKindNoPayload, nil},
	}
	if !thorough {
		return quick
	}
	more := []verifCfg{
		{verifKindFull, []int{verifDBPre + 1, 0, verifWALPre + 1}},
		{verifKindFull, []int{verifDBPre, verifWALPre, verifWALPre + 2}},
		{verifKindFull, []int{verifDBPre}},
		{verifKindFull, []int{verifDBPre + 4}},
		{verifKindFull, []int{verifDBPre + 3, verifWALPre + 3}},
		{verifKindFull, []int{verifDBPre + 4, verifWALPre + 3, verifWALPre + 1}},
		{verifKindFull, []int{verifDBPre + 2, verifWALPre + 2, 0}},
		{verifKindFull, []int{verifDBPre + 1, 0, 0}},
		{verifKindFull, []int{0}},
		{verifKindFull, []int{0, verifWALPre + 1}},
		{verifKindFull, []int{3, 2}},
		{verifKindFull, []int{verifDBPre + 1, verifWALPre - 1}},
	}
	return append(quick, more...)
}

type verifScn struct {
	kind   int
	sizes  []int    // declared sizes ([0] = db)
	delta  []uint32 // declared CRC = CRC of the slice XOR delta
	hdr    *proto.SnapshotHeader
	H      int    // length of the marshaled header inside the stream
	stream []byte // the L bytes that travel
	L, E   int    // actual length; exact length (prefix + header + declared sizes)
	cuts   []int  // non-decreasing offsets into stream; piece i = stream[cuts[i-1]:cuts[i]]
	slices [][]byte
	crcs   []uint32 // CRC-32C of slices[i]
	whole  []bool   // slice i is completely inside the stream
}

const verifExtra = 3 // at most this many bytes beyond the exact length

func verifSortedUnique(in []int) []int {
	var out []int
	for _, x := range in {
		// insertion sort, duplicates dropped
		pos := len(out)
		dup := false
		for i, y := range out {
			if y == x {
				dup = true
				break
			}
			if y > x {
				pos = i
				break
			}
		}
		if dup {
			continue
		}
		out = append(out, 0)
		copy(out[pos+1:], out[pos:])
		out[pos] = x
	}
	return out
}

// verifOffsets: the stream offsets (logical: header = 4 bytes) at which the stream may end or
// be split. Every offset inside the length prefix and the header; for every artifact the offset
// after its first byte, its middle, before its last byte, its end; after the exact end.
//
// verifOffSparse leaves out offsets 3 and 7 and the middles; verifOffAll is every offset;
// verifOffExact is the exact end only.
const (
	verifOffSparse = iota
	verifOffRepr
	verifOffAll
	verifOffExact
	verifOffTail // exact end, one byte more
	verifOffEnds // end of every artifact, one byte more
)

func verifOffsets(sizes []int, mode int) []int {
	E := HeaderSizeLen + verifTokLen
	for _, s := range sizes {
		E += s
	}
	switch mode {
	case verifOffExact:
		return []int{E}
	case verifOffTail:
		return []int{E, E + 1}
	case verifOffEnds:
		c := []int{}
		a := HeaderSizeLen + verifTokLen
		for _, s := range sizes {
			a += s
			c = append(c, a)
		}
		return verifSortedUnique(append(c, E, E+1))
	case verifOffAll:
		var out []int
		for o := 0; o <= E+verifExtra; o++ {
			out = append(out, o)
		}
		return out
	}
	c := []int{0, 1, 4, 5, 8}
	if mode == verifOffRepr {
		c = append(c, 3, 7)
	}
	a := HeaderSizeLen + verifTokLen
	for _, s := range sizes {
		b := a + s
		if s > 0 {
			c = append(c, a+1, b-1, b)
			if mode == verifOffRepr {
				c = append(c, (a+b)/2)
			}
		}
		a = b
	}
	c = append(c, E, E+1, E+verifExtra)
	return verifSortedUnique(c)
}

// verifMapOff maps a logical offset (header of verifTokLen bytes) to the real stream.
func verifMapOff(o, H int) int {
	hs := HeaderSizeLen + verifTokLen
	switch {
	case o <= HeaderSizeLen:
		return o
	case o < hs: // strictly inside the header
		in := o - HeaderSizeLen
		if in > H-1 {
			in = H - 1
		}
		return HeaderSizeLen + in
	}
	return o - hs + HeaderSizeLen + H
}

func verifCRC(b []byte) uint32 {
	if !verifSymbolic() {
		return crc32.Checksum(b, crc32.MakeTable(crc32.Castagnoli))
	}
	return verifCRC32C(b)
}

// verifCRC32C: CRC-32C (Castagnoli), bit by bit, without a data dependent branch or table index.
func verifCRC32C(b []byte) uint32 {
	crc := ^uint32(0)
	for _, v := range b {
		crc ^= uint32(v)
		for k := 0; k < 8; k++ {
			crc = (crc >> 1) ^ (0x82F63B78 & -(crc & 1))
		}
	}
	return ^crc
}

func verifBuildHeader(kind int, sizes []int, crcs []uint32) *proto.SnapshotHeader {
	h := &proto.SnapshotHeader{FormatVersion: 1}
	switch kind {
	case verifKindFull, verifKindNoDB:
		full := &proto.FullSnapshot{}
		if kind == verifKindFull {
			full.DbHeader = &proto.Header{SizeBytes: uint64(sizes[0]), Crc32: crcs[0]}
		}
		for i := 1; i < len(sizes); i++ {
			full.WalHeaders = append(full.WalHeaders, &proto.Header{SizeBytes: uint64(sizes[i]), Crc32: crcs[i]})
		}
		h.Payload = &proto.SnapshotHeader_Full{Full: full}
	case verifKindIncFile:
		h.Payload = &proto.SnapshotHeader_IncrementalFile{IncrementalFile: &proto.IncrementalFileSnapshot{WalDirPath: "/verif-no-such-dir/wals"}}
	}
	return h
}

// verifScenario builds the stream. nCuts = number of split points; allOffsets = every offset is a
// candidate (else the representative ones of verifOffsets).
type verifOpt struct {
	nCuts    int  // number of split points (nCuts+1 Writes / Reads)
	cutsBig  int  // if > 0: number of split points for header shapes with three artifacts
	cutOffs  int  // verifOff*: where the stream may be split
	lenOffs  int  // verifOff*: where the stream may end
	restore  bool // scenario for Restore (no damaged magic: Restore does not look at it)
	symbolic bool // declared CRCs, last byte of every artifact, bytes beyond the end: symbolic
	thorough bool // all header shapes
}

func verifScenario(opt verifOpt) *verifScn {
	restore := opt.restore
	cfgs := verifConfigs(opt.thorough)
	cfg := cfgs[verifChoice("config", len(cfgs))]
	sc := &verifScn{kind: cfg.kind, sizes: cfg.sizes}
	full := sc.kind == verifKindFull || sc.kind == verifKindNoDB

	// logical lengths and split points
	lens := verifOffsets(sc.sizes, opt.lenOffs)
	logL := lens[verifChoice("len", len(lens))]
	logE := HeaderSizeLen + verifTokLen
	for _, s := range sc.sizes {
		logE += s
	}
	var cand []int
	for _, o := range verifOffsets(sc.sizes, opt.cutOffs) {
		if o <= logL {
			cand = append(cand, o)
		}
	}
	var logCuts []int
	lo := 0
	nCuts := opt.nCuts
	if opt.cutsBig > 0 && len(sc.sizes) >= 3 {
		nCuts = opt.cutsBig
	}
	for c := 0; c < nCuts; c++ {
		k := lo + verifChoice(verifName("cut", c), len(cand)-lo)
		logCuts = append(logCuts, cand[k])
		lo = k
	}
	logCuts = append(logCuts, logL)

	// data: each artifact = the SQLite magic, then arbitrary bytes. The LAST byte of every
	// artifact that is longer than its magic and the bytes beyond the exact end are symbolic;
	// the others are fixed, all different. (The code under test looks at content only through
	// the CRC and the magic; the declared CRCs are symbolic on their own, see crcDelta.)
	// For streams of exact length one artifact may have its magic damaged.
	total := logE - HeaderSizeLen - verifTokLen + verifExtra
	data := make([]byte, total)
	for j := range data {
		data[j] = byte(0x80 | (j*7+3)&0x7f)
	}
	// (the sink looks at the CRC fields only once the stream is complete; Restore after each artifact)
	symCRC := opt.symbolic && full && (restore || logL == logE)
	damaged := -1
	if logL == logE && sc.kind == verifKindFull && !restore && !opt.symbolic {
		damaged = verifChoice("damagedMagic", len(sc.sizes)+1) - 1
	}
	off := 0
	for i, s := range sc.sizes {
		magic := verifWALMagic
		if i == 0 {
			magic = verifDBMagic
		}
		for j := 0; j < s && j < len(magic); j++ {
			data[off+j] = magic[j]
		}
		if s > len(magic) && symCRC {
			data[off+s-1] = verifU8(verifName("lastByte", i))
		}
		if i == damaged && s > 0 {
			data[off] ^= 0x20
		}
		off += s
	}
	if logL > logE && opt.symbolic {
		copy(data[off:], verifBytes("extra", logL-logE))
	}
	dataLen := logL - HeaderSizeLen - verifTokLen
	if dataLen < 0 {
		dataLen = 0
	}
	data = data[:dataLen]

	// the slices the header talks about, their CRCs, the declared CRCs
	off = 0
	for i, s := range sc.sizes {
		a, b := off, off+s
		if a > len(data) {
			a = len(data)
		}
		if b > len(data) {
			b = len(data)
		}
		sl := append([]byte{}, data[a:b]...)
		sc.slices = append(sc.slices, sl)
		sc.whole = append(sc.whole, off+s <= len(data))
		sc.crcs = append(sc.crcs, verifCRC(sl))
		d := uint32(0)
		if symCRC {
			d = verifU32(verifName("crcDelta", i))
		}
		sc.delta = append(sc.delta, d)
		off += s
	}
	declared := make([]uint32, len(sc.sizes))
	for i := range declared {
		declared[i] = sc.crcs[i] ^ sc.delta[i]
	}
	sc.hdr = verifBuildHeader(sc.kind, sc.sizes, declared)

	hb, err := marshalSnapshotHeader(sc.hdr)
	verifAssume(err == nil)
	sc.H = len(hb)
	var full4 [HeaderSizeLen]byte
	binary.BigEndian.PutUint32(full4[:], uint32(sc.H))
	all := append(append(append([]byte{}, full4[:]...), hb...), data...)

	sc.E = verifMapOff(logE, sc.H)
	sc.L = verifMapOff(logL, sc.H)
	if sc.L > len(all) {
		sc.L = len(all)
	}
	sc.stream = all[:sc.L]
	for _, c := range logCuts {
		m := verifMapOff(c, sc.H)
		if m > sc.L {
			m = sc.L
		}
		sc.cuts = append(sc.cuts, m)
	}
	return sc
}

func (sc *verifScn) hdrComplete() bool { return sc.L >= HeaderSizeLen+sc.H }

// crcsMatch: every declared CRC is the CRC of its slice (strict: no fork).
func (sc *verifScn) crcsMatch() bool {
	ok := true
	for _, d := range sc.delta {
		ok = verifAnd(ok, d == 0)
	}
	return ok
}

// looksLikeSQLite: what `file` would say about the slices (db.IsValidSQLiteData / WALData).
func (sc *verifScn) looksLikeSQLite() bool {
	ok := true
	for i, sl := range sc.slices {
		if i == 0 {
			ok = verifAnd(ok, len(sl) >= verifDBPre && db.IsValidSQLiteData(sl[:verifDBPre]))
		} else {
			ok = verifAnd(ok, len(sl) >= verifWALPre && db.IsValidSQLiteWALData(sl[:verifWALPre]))
		}
	}
	return ok
}

// ---------------------------------------------------------------------------
// observing the file system (model in the engine, real natively)

func verifRootDir() string {
	if verifSymbolic() {
		verifFSReset()
		verifDirs["/vroot"] = true
		return "/vroot"
	}
	dir, err := os.MkdirTemp("", "verif-c10-")
	if err != nil {
		panic(err)
	}
	return dir
}

func verifCleanup(dir string) {
	if !verifSymbolic() {
		os.RemoveAll(dir)
	}
}

func verifExists(path string) bool {
	if verifSymbolic() {
		return verifFSExists(path)
	}
	_, err := os.Lstat(path)
	return err == nil
}

func verifReadFile(path string) ([]byte, bool) {
	if verifSymbolic() {
		n, ok := verifFiles[path]
		if !ok || n.sidecar || n.meta {
			return nil, false
		}
		return n.data, true
	}
	b, err := os.ReadFile(path)
	return b, err == nil
}

func verifSidecarOf(path string) (uint32, bool) {
	if verifSymbolic() {
		n, ok := verifFiles[path]
		if !ok || !n.sidecar {
			return 0, false
		}
		return n.crc, true
	}
	c, err := sidecar.ReadCRC32File(path)
	return c, err == nil
}

// verifEntriesUnder: number of directory entries below dir (files and directories).
func verifEntriesUnder(dir string) int {
	if verifSymbolic() {
		n := 0
		for p := range verifFiles {
			if strings.HasPrefix(p, dir+"/") {
				n++
			}
		}
		for p := range verifDirs {
			if strings.HasPrefix(p, dir+"/") {
				n++
			}
		}
		return n
	}
	n := 0
	filepath.WalkDir(dir, func(p string, d fs.DirEntry, err error) error {
		if err == nil && p != dir {
			n++
		}
		return nil
	})
	return n
}

func verifSameBytes(a, b []byte) bool {
	if len(a) != len(b) {
		return false
	}
	same := true
	for i := range a {
		same = verifAnd(same, a[i] == b[i])
	}
	return same
}

func verifFileIs(path string, want []byte) bool {
	got, ok := verifReadFile(path)
	if !ok {
		return false
	}
	return verifSameBytes(got, want)
}

// ---------------------------------------------------------------------------
// the receiving side: Sink

type verifSinkRun struct {
	dir      string
	final    string // where an installed snapshot appears
	tmp      string
	writeErr error
	failedAt int // index of the piece whose Write failed
	closeErr error
}

func verifDriveSink(sc *verifScn) *verifSinkRun {
	run := &verifSinkRun{dir: verifRootDir(), failedAt: -1}
	meta := &raft.SnapshotMeta{ID: "snap-7-2", Index: 7, Term: 2, Version: 1}
	run.final = filepath.Join(run.dir, meta.ID)
	run.tmp = run.final + ".tmp"
	s := NewSink(run.dir, meta, nil, nil)
	verifAssert("C10-sink-opens", s.Open() == nil)

	prev := 0
	for i, c := range sc.cuts {
		piece := append([]byte{}, sc.stream[prev:c]...)
		prev = c
		n, err := s.Write(piece)
		if err != nil {
			run.writeErr, run.failedAt = err, i
			break
		}
		verifAssert("C10-write-takes-whole-piece", n == len(piece))
	}
	if run.writeErr != nil || (sc.kind == verifKindIncFile && sc.hdrComplete()) {
		// what raft does with a failed transfer. (Closing an accepted IncrementalFile header
		// would move a WAL directory and exit the process when that fails: not this property.)
		s.Cancel()
		return run
	}
	run.closeErr = s.Close()
	return run
}

func verifWalName(dir string, i int) string {
	// documented layout of a snapshot directory: data.db, data-00000000.wal, data-00000001.wal ...
	return filepath.Join(dir, "data-0000000"+string(rune('0'+i))+".wal")
}

// verifCheckInstalled: the snapshot directory holds exactly the slices of the stream.
func verifCheckInstalled(sc *verifScn, run *verifSinkRun) {
	verifAssert("C10-installed-db-is-stream-slice", verifFileIs(filepath.Join(run.final, "data.db"), sc.slices[0]))
	c, ok := verifSidecarOf(filepath.Join(run.final, "data.db.crc32"))
	verifAssert("C10-installed-db-sidecar", verifAnd(ok, c == sc.crcs[0]))
	for i := 1; i < len(sc.slices); i++ {
		p := verifWalName(run.final, i-1)
		verifAssert("C10-installed-wal-is-stream-slice", verifFileIs(p, sc.slices[i]))
		c, ok := verifSidecarOf(p + ".crc32")
		verifAssert("C10-installed-wal-sidecar", verifAnd(ok, c == sc.crcs[i]))
	}
	verifAssert("C10-installed-meta", verifExists(filepath.Join(run.final, "meta.json")))
	verifAssert("C10-installed-nothing-else", verifEntriesUnder(run.final) == 2*len(sc.slices)+1)
	verifAssert("C10-temp-dir-gone", !verifExists(run.tmp))
}

func verifSinkOracle(sc *verifScn, run *verifSinkRun) {
	installed := verifExists(run.final)

	if !sc.hdrComplete() {
		// the stream ends inside the length prefix or the header
		verifAssert("C10-short-header-no-write-error", run.writeErr == nil)
		verifAssert("C10-short-header-nothing-installed", !installed)
		verifReach("stream-ends-in-header")
		if run.closeErr == nil {
			verifFinding("C10-close-ok-on-stream-cut-in-header")
		}
		return
	}

	if sc.kind != verifKindFull {
		// a header that describes no database: the Write that completes it must fail
		// (IncrementalFile headers are legal only without any following data)
		if sc.kind == verifKindIncFile && sc.L == HeaderSizeLen+sc.H {
			if sc.emptyWriteAt(sc.L) {
				verifReach("empty-write-after-end")
			}
			if run.writeErr != nil && verifPieceLen(sc, run.failedAt) == 0 && sc.cuts[run.failedAt] == sc.L {
				verifFinding("C10-empty-write-after-last-byte-refused")
			}
			verifAssert("C10-incfile-header-alone-accepted", run.writeErr == nil)
			return // Close would move a directory that does not exist: not this property
		}
		verifAssert("C10-header-without-database-refused", run.writeErr != nil)
		verifAssert("C10-refused-nothing-installed", !installed)
		verifReach("header-without-database")
		return
	}

	switch {
	case sc.L < sc.E:
		verifAssert("C10-short-stream-no-write-error", run.writeErr == nil)
		verifAssert("C10-short-stream-close-fails", run.closeErr != nil)
		verifAssert("C10-short-stream-nothing-installed", !installed)
		verifAssert("C10-short-stream-says-incomplete", strings.Contains(run.closeErr.Error(), ErrIncomplete.Error()))
		verifReach("short-stream")
	case sc.L > sc.E:
		verifAssert("C10-long-stream-write-fails", run.writeErr != nil)
		verifAssert("C10-long-stream-nothing-installed", !installed)
		// the Write that carries the first byte beyond the end is the one that fails
		first := 0
		for sc.cuts[first] <= sc.E {
			first++
		}
		verifAssert("C10-long-stream-fails-at-the-extra-byte", run.failedAt <= first)
		if run.failedAt < first {
			// an earlier Write failed: only an empty Write issued exactly at the end (see below)
			verifAssert("C10-long-stream-early-failure-is-empty-write-at-end", sc.cuts[run.failedAt] == sc.E && verifPieceLen(sc, run.failedAt) == 0)
		}
		verifAssert("C10-long-stream-says-unexpected-data", errors.Is(run.writeErr, ErrUnexpectedData))
		verifReach("long-stream")
	default:
		if sc.emptyWriteAt(sc.E) {
			verifReach("empty-write-after-end")
		}
		if run.writeErr != nil {
			// exact stream, but a Write failed
			verifAssert("C10-refused-nothing-installed", !installed)
			if verifPieceLen(sc, run.failedAt) == 0 && sc.cuts[run.failedAt] == sc.E && errors.Is(run.writeErr, ErrUnexpectedData) {
				verifFinding("C10-empty-write-after-last-byte-refused")
			}
			verifAssert("C10-exact-stream-writes-accepted", false)
		}
		good := verifAnd(sc.crcsMatch(), sc.looksLikeSQLite())
		if good {
			verifAssert("C10-good-stream-installs", run.closeErr == nil)
			verifAssert("C10-good-stream-installed", installed)
			verifCheckInstalled(sc, run)
			verifReach("installed")
			if len(sc.slices) > 1 {
				verifReach("installed-with-wals")
			}
		} else {
			verifAssert("C10-bad-stream-close-fails", run.closeErr != nil)
			verifAssert("C10-bad-stream-nothing-installed", !installed)
			if !sc.crcsMatch() {
				verifReach("crc-mismatch-refused")
			} else {
				verifReach("not-sqlite-refused")
			}
		}
	}
}

// emptyWriteAt: the split contains a zero-length piece at offset at.
func (sc *verifScn) emptyWriteAt(at int) bool {
	for i := range sc.cuts {
		if sc.cuts[i] == at && verifPieceLen(sc, i) == 0 {
			return true
		}
	}
	return false
}

func verifPieceLen(sc *verifScn, i int) int {
	if i == 0 {
		return sc.cuts[0]
	}
	return sc.cuts[i] - sc.cuts[i-1]
}

func verifCheckSink(opt verifOpt) {
	verifPanicsAreViolations()
	sc := verifScenario(opt)
	run := verifDriveSink(sc)
	verifSinkOracle(sc, run)
	verifCleanup(run.dir)
}

// VerifC10SinkCRC: the declared CRC of every artifact is ANY 32-bit value (equal to or different
// from the CRC of the bytes that arrive), the last byte of every artifact and the bytes beyond
// the end are symbolic; streams of exact length (and one byte too long), two Writes.
func VerifC10SinkCRC() {
	verifCheckSink(verifOpt{nCuts: 1, cutOffs: verifOffSparse, lenOffs: verifOffTail, symbolic: true, thorough: verifTier() == 1})
}

// VerifC10Sink: every header shape, every stream length (representative offsets), declared CRCs
// correct, 3 Writes (2 for the shape with three artifacts) split at the sparse offsets, 6 header
// shapes (quick) / 3 Writes split at the representative offsets, all header shapes (thorough).
func VerifC10Sink() {
	if verifTier() == 1 {
		verifCheckSink(verifOpt{nCuts: 2, cutOffs: verifOffRepr, lenOffs: verifOffRepr, thorough: true})
		return
	}
	verifCheckSink(verifOpt{nCuts: 2, cutsBig: 1, cutOffs: verifOffSparse, lenOffs: verifOffRepr})
}

// VerifC10SinkAnySplit: two Writes split at EVERY offset of the stream; stream of exact length
// (quick) / of every length from 0 to 3 bytes beyond the end, all header shapes (thorough).
func VerifC10SinkAnySplit() {
	if verifTier() == 1 {
		verifCheckSink(verifOpt{nCuts: 1, cutOffs: verifOffAll, lenOffs: verifOffAll, thorough: true})
		return
	}
	verifCheckSink(verifOpt{nCuts: 1, cutOffs: verifOffAll, lenOffs: verifOffExact})
}

// VerifC10Sink4 (thorough only): 4 Writes split at the sparse offsets, the 6 quick header shapes.
func VerifC10Sink4() {
	verifCheckSink(verifOpt{nCuts: 3, cutOffs: verifOffSparse, lenOffs: verifOffRepr})
}

// VerifC10SinkAnySplit3 (thorough only): three Writes split at EVERY pair of offsets of a stream
// of exact length.
func VerifC10SinkAnySplit3() {
	verifCheckSink(verifOpt{nCuts: 2, cutOffs: verifOffAll, lenOffs: verifOffExact})
}

// VerifC10Twin: same set-up as VerifC10Sink; the final claim is false (good streams do install).
func VerifC10Twin() {
	sc := verifScenario(verifOpt{nCuts: 1, cutOffs: verifOffSparse, lenOffs: verifOffRepr})
	run := verifDriveSink(sc)
	verifAssert("C10-twin-never-installs", !verifExists(run.final))
	verifCleanup(run.dir)
}

// ---------------------------------------------------------------------------
// the restore side

// verifPieceReader hands out the stream piece by piece (a Read never crosses a split point).
type verifPieceReader struct {
	sc  *verifScn
	off int
	i   int
}

func (r *verifPieceReader) Read(p []byte) (int, error) {
	for r.i < len(r.sc.cuts) && r.off >= r.sc.cuts[r.i] {
		r.i++
	}
	if r.i >= len(r.sc.cuts) {
		return 0, io.EOF
	}
	if len(p) == 0 {
		return 0, nil
	}
	n := copy(p, r.sc.stream[r.off:r.sc.cuts[r.i]])
	r.off += n
	return n, nil
}

// verifRestoreVerdict: did Restore accept the stream, and did it hand WALs to db.ReplayWAL?
// Engine: the ReplayWAL model records the call and succeeds. Natively the real db.ReplayWAL runs
// on artifacts that are not SQLite images; Restore reports its failure as "checkpointing WALs: ..."
// which is the only way to tell natively that the call was made.
func verifRestoreVerdict(sc *verifScn, err error) (accepted, replayed bool) {
	if verifSymbolic() {
		return err == nil, len(verifReplays) > 0
	}
	if err == nil {
		return true, len(sc.slices) > 1
	}
	if strings.HasPrefix(err.Error(), "checkpointing WALs:") {
		return true, true
	}
	return false, false
}

func verifCatchRestore(r io.Reader, dst string) (n int64, err error, panicked bool) {
	defer func() {
		if x := recover(); x != nil {
			if _, ok := x.(verifStop); ok {
				panic(x)
			}
			panicked = true
		}
	}()
	n, err = Restore(r, dst)
	return
}

// VerifC10Restore: every header shape, every stream length (representative offsets), declared
// CRCs correct, the stream arriving in 3 Reads (2 for the shape with three artifacts; quick) /
// 3 Reads split at the representative offsets, all header shapes (thorough).
func VerifC10Restore() {
	opt := verifOpt{nCuts: 2, cutsBig: 1, cutOffs: verifOffSparse, lenOffs: verifOffRepr, restore: true}
	if verifTier() == 1 {
		opt = verifOpt{nCuts: 2, cutOffs: verifOffRepr, lenOffs: verifOffRepr, restore: true, thorough: true}
	}
	verifCheckRestore(opt)
}

// VerifC10RestoreCRC: declared CRCs ANY 32-bit value, last byte of every artifact and the bytes
// beyond the end symbolic; streams ending at the end of any artifact or one byte beyond the
// exact end, two Reads.
func VerifC10RestoreCRC() {
	verifCheckRestore(verifOpt{nCuts: 1, cutOffs: verifOffSparse, lenOffs: verifOffEnds, restore: true, symbolic: true, thorough: verifTier() == 1})
}

func verifCheckRestore(opt verifOpt) {
	verifPanicsAreViolations()
	sc := verifScenario(opt)
	dir := verifRootDir()
	dst := filepath.Join(dir, "restored.db")

	// the stream reaches Restore through the store's LockingStreamer (no idle timeout)
	ls := NewLockingStreamer(io.NopCloser(&verifPieceReader{sc: sc}), nil, 0)
	n, err, panicked := verifCatchRestore(ls, dst)
	if sc.kind == verifKindNoDB && sc.hdrComplete() {
		verifReach("full-header-without-db-header")
	}
	if panicked {
		verifAssert("C10-restore-panics-only-without-db-header", sc.kind == verifKindNoDB && sc.hdrComplete())
		verifFinding("C10-restore-panics-on-full-header-without-db-header")
	}
	accepted, replayed := verifRestoreVerdict(sc, err)

	if !sc.hdrComplete() || sc.kind != verifKindFull {
		verifAssert("C10-restore-refuses-unusable-header", !accepted)
		verifAssert("C10-restore-no-replay", !replayed)
		verifReach("restore-unusable-header")
		verifCleanup(dir)
		return
	}
	if sc.L < sc.E {
		verifAssert("C10-restore-short-stream-fails", !accepted)
		verifAssert("C10-restore-no-replay", !replayed)
		verifAssert("C10-restore-read-count", n <= int64(sc.L))
		verifReach("restore-short-stream")
		verifCleanup(dir)
		return
	}
	if !sc.crcsMatch() {
		verifAssert("C10-restore-crc-mismatch-fails", !accepted)
		verifAssert("C10-restore-corrupt-never-replayed", !replayed)
		verifReach("restore-crc-mismatch")
		verifCleanup(dir)
		return
	}
	if sc.L > sc.E {
		verifReach("restore-trailing-bytes")
		if !accepted {
			verifAssert("C10-restore-long-stream-never-replayed", !replayed)
			verifCleanup(dir)
			return
		}
	}
	verifAssert("C10-restore-good-stream-accepted", accepted)
	verifAssert("C10-restore-read-count-exact", n == int64(sc.E))
	verifAssert("C10-restore-replays-iff-wals", replayed == (len(sc.slices) > 1))
	if verifSymbolic() {
		verifAssert("C10-restored-db-is-stream-slice", verifFileIs(dst, sc.slices[0]))
		if len(sc.slices) > 1 {
			rp := verifReplays[0]
			verifAssert("C10-replay-target", rp.path == dst && len(rp.wals) == len(sc.slices)-1 && len(verifReplays) == 1)
			for i := 1; i < len(sc.slices); i++ {
				verifAssert("C10-replayed-wal-is-stream-slice", verifSameBytes(rp.wals[i-1], sc.slices[i]))
			}
		}
	} else if len(sc.slices) == 1 {
		verifAssert("C10-restored-db-is-stream-slice", verifFileIs(dst, sc.slices[0]))
	}
	if sc.L > sc.E {
		verifFinding("C10-restore-accepts-trailing-bytes")
	}
	verifReach("restored")
	if len(sc.slices) > 1 {
		verifReach("restored-with-wals")
	}
	verifCleanup(dir)
}

// ---------------------------------------------------------------------------
// the sending side: SnapshotStreamer

// verifChunkReadAll reads r to the end with buffers of the given sizes (cycled).
func verifChunkReadAll(r io.Reader, sizes []int, limit int) ([]byte, error) {
	var out []byte
	for i := 0; i < limit; i++ {
		buf := make([]byte, sizes[i%len(sizes)])
		n, err := r.Read(buf)
		out = append(out, buf[:n]...)
		if err == io.EOF {
			return out, nil
		}
		if err != nil {
			return out, err
		}
	}
	return out, errors.New("verif: stream does not end")
}

// VerifC10Source: a database file and 0..2 WAL files of any content (symbolic bytes); the streamer built from
// their paths delivers [length][header][db][wals...], the header states the files' sizes and
// CRC-32Cs, Len() is the number of bytes delivered.
func VerifC10Source() {
	verifPanicsAreViolations()
	dir := verifRootDir()
	// sizes: quick db 0 or 2, WALs 0 or 1 bytes; thorough db 0..4, WALs 0..3
	maxDB, maxWAL, stepDB := 1, 1, 2
	if verifTier() == 1 {
		maxDB, maxWAL, stepDB = 4, 3, 1
	}
	nw := verifChoice("wals", 3)
	var contents [][]byte
	var paths []string
	for i := 0; i <= nw; i++ {
		m := maxWAL
		if i == 0 {
			m = maxDB
		}
		k := verifChoice(verifName("size", i), m+1)
		if i == 0 {
			k *= stepDB
		}
		b := verifBytes(verifName("file", i), k)
		p := filepath.Join(dir, "src-"+string(rune('0'+i)))
		verifPutFile(p, b)
		contents = append(contents, b)
		paths = append(paths, p)
	}
	encLen := 0
	if verifSymbolic() {
		encLen = verifInt("encodedLen", 0, 1<<30)
		verifPlanLen = encLen
		verifPlanLenSet = true
	}

	str, err := NewSnapshotStreamer(paths[0], paths[1:]...)
	verifAssert("C10-streamer-created", err == nil)
	verifAssert("C10-streamer-opens", str.Open() == nil)
	total, err := str.Len()
	verifAssert("C10-streamer-len-ok", err == nil)

	bufs := []int{1 + verifChoice("buf0", 2), 3}
	got, err := verifChunkReadAll(str, bufs, 64)
	verifAssert("C10-streamer-reads-to-eof", err == nil)
	verifAssert("C10-streamer-closes", str.Close() == nil)

	verifAssert("C10-stream-has-prefix", len(got) >= HeaderSizeLen)
	declared := int(binary.BigEndian.Uint32(got[:HeaderSizeLen]))
	var hb []byte
	if verifSymbolic() {
		// the header travels as a token that stands for encLen bytes
		verifAssert("C10-stream-prefix-is-header-length", declared == encLen)
		verifAssert("C10-stream-has-header", len(got) >= HeaderSizeLen+verifTokLen)
		hb = got[HeaderSizeLen : HeaderSizeLen+verifTokLen]
	} else {
		verifAssert("C10-stream-has-header", len(got) >= HeaderSizeLen+declared)
		hb = got[HeaderSizeLen : HeaderSizeLen+declared]
		encLen = declared
	}
	hdr, err := UnmarshalSnapshotHeader(hb)
	verifAssert("C10-stream-header-decodes", err == nil)
	full := hdr.GetFull()
	verifAssert("C10-stream-header-is-full", full != nil && full.DbHeader != nil && len(full.WalHeaders) == nw)
	rest := got[HeaderSizeLen+len(hb):]
	sum := 0
	for i, c := range contents {
		h := full.DbHeader
		if i > 0 {
			h = full.WalHeaders[i-1]
		}
		verifAssert("C10-header-states-file-size", h.SizeBytes == uint64(len(c)))
		verifAssert("C10-header-states-file-crc", h.Crc32 == verifCRC(c))
		verifAssert("C10-stream-carries-file", len(rest) >= len(c) && verifSameBytes(rest[:len(c)], c))
		rest = rest[len(c):]
		sum += len(c)
	}
	verifAssert("C10-stream-ends-after-files", len(rest) == 0)
	verifAssert("C10-len-is-bytes-delivered", total == int64(HeaderSizeLen+encLen+sum))
	if nw > 0 {
		verifReach("source-with-wals")
	} else {
		verifReach("source-db-only")
	}
	verifCleanup(dir)
}

// verifPutFile creates a source file.
func verifPutFile(path string, b []byte) {
	if verifSymbolic() {
		verifFiles[path] = &verifNode{data: append([]byte{}, b...)}
		return
	}
	if err := os.WriteFile(path, b, 0o644); err != nil {
		panic(err)
	}
}

// ---------------------------------------------------------------------------
// models (engine only; spec.json "models"). None of this runs natively.

type verifNode struct {
	data    []byte
	sidecar bool
	crc     uint32
	meta    bool
}

type verifHandle struct {
	path   string
	node   *verifNode
	closed bool
	off    int
}

type verifReplay struct {
	path string
	wals [][]byte
}

var (
	verifFiles   map[string]*verifNode
	verifDirs    map[string]bool
	verifHandles map[*os.File]*verifHandle
	verifReplays []verifReplay

	verifErrNoEnt  = errors.New("verif: no such file or directory")
	verifErrClosed = errors.New("verif: file already closed")
)

func verifFSReset() {
	verifFiles = map[string]*verifNode{}
	verifDirs = map[string]bool{}
	verifHandles = map[*os.File]*verifHandle{}
	verifReplays = nil
	verifCRCWs = map[*rsum.CRC32Writer]*verifCRCW{}
	verifCRCRs = map[*rsum.CRC32Reader]*verifCRCR{}
}

func verifFSExists(path string) bool {
	if _, ok := verifFiles[path]; ok {
		return true
	}
	return verifDirs[path]
}

// os.MkdirAll
func verifMkdirAll(path string, perm os.FileMode) error {
	if _, ok := verifFiles[path]; ok {
		return errors.New("verif: not a directory")
	}
	for p := path; p != "/" && p != "." && p != ""; p = filepath.Dir(p) {
		verifDirs[p] = true
	}
	return nil
}

// os.Create
func verifCreate(name string) (*os.File, error) {
	if !verifDirs[filepath.Dir(name)] || verifDirs[name] {
		return nil, verifErrNoEnt
	}
	node := &verifNode{}
	verifFiles[name] = node
	f := new(os.File)
	verifHandles[f] = &verifHandle{path: name, node: node}
	return f, nil
}

// os.Open
func verifOpen(name string) (*os.File, error) {
	node, ok := verifFiles[name]
	if !ok {
		return nil, verifErrNoEnt
	}
	f := new(os.File)
	verifHandles[f] = &verifHandle{path: name, node: node}
	return f, nil
}

type verifInfo struct {
	name string
	size int64
}

func (fi verifInfo) Name() string       { return fi.name }
func (fi verifInfo) Size() int64        { return fi.size }
func (fi verifInfo) Mode() fs.FileMode  { return 0o644 }
func (fi verifInfo) ModTime() time.Time { return time.Time{} }
func (fi verifInfo) IsDir() bool        { return false }
func (fi verifInfo) Sys() any           { return nil }

// os.Stat
func verifStat(name string) (os.FileInfo, error) {
	node, ok := verifFiles[name]
	if !ok {
		return nil, verifErrNoEnt
	}
	return verifInfo{name: filepath.Base(name), size: int64(len(node.data))}, nil
}

// (*os.File).Write
func verifFileWrite(f *os.File, p []byte) (int, error) {
	h := verifHandles[f]
	if h == nil || h.closed {
		return 0, verifErrClosed
	}
	h.node.data = append(h.node.data, p...)
	return len(p), nil
}

// (*os.File).Read
func verifFileRead(f *os.File, p []byte) (int, error) {
	h := verifHandles[f]
	if h == nil || h.closed {
		return 0, verifErrClosed
	}
	if len(p) == 0 {
		return 0, nil
	}
	if h.off >= len(h.node.data) {
		return 0, io.EOF
	}
	n := copy(p, h.node.data[h.off:])
	h.off += n
	return n, nil
}

type verifOnlyWriter struct{ f *os.File }

func (w verifOnlyWriter) Write(p []byte) (int, error) { return w.f.Write(p) }

type verifOnlyReader struct{ f *os.File }

func (r verifOnlyReader) Read(p []byte) (int, error) { return r.f.Read(p) }

// (*os.File).ReadFrom / WriteTo: the generic fallback of the real methods.
func verifFileReadFrom(f *os.File, r io.Reader) (int64, error) {
	return io.Copy(verifOnlyWriter{f}, r)
}

func verifFileWriteTo(f *os.File, w io.Writer) (int64, error) {
	return io.Copy(w, verifOnlyReader{f})
}

// (*os.File).Sync
func verifFileSync(f *os.File) error {
	h := verifHandles[f]
	if h == nil || h.closed {
		return verifErrClosed
	}
	return nil
}

// (*os.File).Close
func verifFileClose(f *os.File) error {
	h := verifHandles[f]
	if h == nil || h.closed {
		return verifErrClosed
	}
	h.closed = true
	return nil
}

func verifUnder(p, dir string) bool { return p == dir || strings.HasPrefix(p, dir+"/") }

// os.Rename (file or directory tree)
func verifRename(oldpath, newpath string) error {
	if !verifFSExists(oldpath) {
		return verifErrNoEnt
	}
	if verifDirs[newpath] && verifEntriesUnder(newpath) > 0 {
		return errors.New("verif: directory not empty")
	}
	var fkeys, dkeys []string
	for p := range verifFiles {
		if verifUnder(p, oldpath) {
			fkeys = append(fkeys, p)
		}
	}
	for p := range verifDirs {
		if verifUnder(p, oldpath) {
			dkeys = append(dkeys, p)
		}
	}
	for _, p := range fkeys {
		n := verifFiles[p]
		delete(verifFiles, p)
		verifFiles[newpath+p[len(oldpath):]] = n
	}
	for _, p := range dkeys {
		delete(verifDirs, p)
		verifDirs[newpath+p[len(oldpath):]] = true
	}
	return nil
}

// os.RemoveAll
func verifRemoveAll(path string) error {
	var fkeys, dkeys []string
	for p := range verifFiles {
		if verifUnder(p, path) {
			fkeys = append(fkeys, p)
		}
	}
	for p := range verifDirs {
		if verifUnder(p, path) {
			dkeys = append(dkeys, p)
		}
	}
	for _, p := range fkeys {
		delete(verifFiles, p)
	}
	for _, p := range dkeys {
		delete(verifDirs, p)
	}
	return nil
}

// os.Remove
func verifRemove(path string) error {
	if _, ok := verifFiles[path]; ok {
		delete(verifFiles, path)
		return nil
	}
	if verifDirs[path] {
		if verifEntriesUnder(path) > 0 {
			return errors.New("verif: directory not empty")
		}
		delete(verifDirs, path)
		return nil
	}
	return verifErrNoEnt
}

// db.IsValidSQLiteFile / IsValidSQLiteWALFile: the real predicates over the model file's bytes.
func verifIsValidSQLiteFile(path string) bool {
	n, ok := verifFiles[path]
	if !ok || len(n.data) < 16 {
		return false
	}
	return db.IsValidSQLiteData(n.data[:16])
}

func verifIsValidSQLiteWALFile(path string) bool {
	n, ok := verifFiles[path]
	if !ok || len(n.data) < 8 {
		return false
	}
	return db.IsValidSQLiteWALData(n.data[:8])
}

// sidecar.WriteFile
func verifSidecarWrite(path string, sum uint32) error {
	if !verifDirs[filepath.Dir(path)] {
		return verifErrNoEnt
	}
	verifFiles[path] = &verifNode{sidecar: true, crc: sum}
	return nil
}

// snapshot.writeMeta
func verifWriteMeta(dir string, meta *raft.SnapshotMeta) error {
	if !verifDirs[dir] {
		return verifErrNoEnt
	}
	verifFiles[metaPath(dir)] = &verifNode{meta: true}
	return nil
}

// db.ReplayWAL: records what it was given (contents as of the call) and succeeds.
func verifReplayWAL(path string, wals []string, deleteMode bool) error {
	rp := verifReplay{path: path}
	for _, w := range wals {
		n, ok := verifFiles[w]
		if !ok {
			return verifErrNoEnt
		}
		rp.wals = append(rp.wals, append([]byte{}, n.data...))
	}
	verifReplays = append(verifReplays, rp)
	return nil
}

// rsum.CRC32Writer: bytes go to the underlying writer, the sum is the CRC-32C of what was accepted.
type verifCRCW struct {
	w    io.Writer
	seen []byte
}

var verifCRCWs map[*rsum.CRC32Writer]*verifCRCW

func verifNewCRC32Writer(w io.Writer) *rsum.CRC32Writer {
	c := new(rsum.CRC32Writer)
	verifCRCWs[c] = &verifCRCW{w: w}
	return c
}

func verifCRC32WriterWrite(c *rsum.CRC32Writer, p []byte) (int, error) {
	st := verifCRCWs[c]
	n, err := st.w.Write(p)
	if err != nil {
		return n, err
	}
	if n != len(p) {
		return n, io.ErrShortWrite
	}
	st.seen = append(st.seen, p...)
	return len(p), nil
}

func verifCRC32WriterSum(c *rsum.CRC32Writer) uint32 { return verifCRC32C(verifCRCWs[c].seen) }

// rsum.CRC32Reader
type verifCRCR struct {
	r    io.Reader
	seen []byte
}

var verifCRCRs map[*rsum.CRC32Reader]*verifCRCR

func verifNewCRC32Reader(r io.Reader) *rsum.CRC32Reader {
	c := new(rsum.CRC32Reader)
	verifCRCRs[c] = &verifCRCR{r: r}
	return c
}

func verifCRC32ReaderRead(c *rsum.CRC32Reader, p []byte) (int, error) {
	st := verifCRCRs[c]
	n, err := st.r.Read(p)
	if n > 0 {
		st.seen = append(st.seen, p[:n]...)
	}
	return n, err
}

func verifCRC32ReaderSum(c *rsum.CRC32Reader) uint32 { return verifCRC32C(verifCRCRs[c].seen) }

// rsum.CRC32(path)
func verifRsumCRC32(path string) (uint32, error) {
	n, ok := verifFiles[path]
	if !ok {
		return 0, verifErrNoEnt
	}
	return verifCRC32C(n.data), nil
}

// protobuf: an encoded SnapshotHeader is the token {magic, magic, id, tag} standing for a copy
// of the message; only such a token decodes (into a SnapshotHeader).
const (
	verifMagic0 = 0xF5
	verifMagic1 = 0xC9
	verifTagHdr = 0x48
	verifTokLen = 4
)

var verifEncs []*proto.SnapshotHeader
var verifPlanLen int
var verifPlanLenSet bool

var verifErrCodec = errors.New("verif: cannot parse")

func verifCloneHdr(h *proto.SnapshotHeader) *proto.SnapshotHeader {
	out := &proto.SnapshotHeader{FormatVersion: h.FormatVersion}
	switch p := h.Payload.(type) {
	case *proto.SnapshotHeader_Full:
		full := &proto.FullSnapshot{}
		if p.Full.DbHeader != nil {
			full.DbHeader = &proto.Header{SizeBytes: p.Full.DbHeader.SizeBytes, Crc32: p.Full.DbHeader.Crc32}
		}
		for _, w := range p.Full.WalHeaders {
			full.WalHeaders = append(full.WalHeaders, &proto.Header{SizeBytes: w.SizeBytes, Crc32: w.Crc32})
		}
		out.Payload = &proto.SnapshotHeader_Full{Full: full}
	case *proto.SnapshotHeader_IncrementalFile:
		out.Payload = &proto.SnapshotHeader_IncrementalFile{IncrementalFile: &proto.IncrementalFileSnapshot{WalDirPath: p.IncrementalFile.WalDirPath}}
	}
	return out
}

// proto.Marshal
func verifPbMarshal(m pb.Message) ([]byte, error) {
	h, ok := m.(*proto.SnapshotHeader)
	if !ok || h == nil {
		return nil, errors.New("verif: message type outside the codec model")
	}
	id := len(verifEncs)
	verifEncs = append(verifEncs, verifCloneHdr(h))
	if verifPlanLenSet {
		verifAbstractLen(id, verifPlanLen)
	}
	return []byte{verifMagic0, verifMagic1, byte(id), verifTagHdr}, nil
}

// proto.Unmarshal
func verifPbUnmarshal(b []byte, m pb.Message) error {
	dst, ok := m.(*proto.SnapshotHeader)
	if !ok || len(b) != verifTokLen {
		return verifErrCodec
	}
	if b[0] != verifMagic0 || b[1] != verifMagic1 || b[3] != verifTagHdr || int(b[2]) >= len(verifEncs) {
		return verifErrCodec
	}
	src := verifCloneHdr(verifEncs[b[2]])
	dst.FormatVersion, dst.Payload = src.FormatVersion, src.Payload
	return nil
}
