package zstd

// C10(b) "Snapshot transfer installs exactly the source data or nothing" - the clause
// "for any split of the byte stream ... with or without transport compression".
//
// store/transport.go wires the compression layer like this:
//   sender    NodeTransport.InstallSnapshot: r = zstd.NewCompressor(data, args.Size, DefaultBufferSize);
//             raft's NetworkTransport io.Copy()s r into the connection (args.Size = UNCOMPRESSED size)
//   receiver  NodeTransport.Consumer: rpc.Reader = zstd.NewDecompressor(rpc.Reader) where rpc.Reader is
//             raft's io.LimitReader(bufio.Reader over the TCP connection, req.Size); raft io.Copy()s the
//             Decompressor into the snapshot sink (harness/C10 decides the sink for any split).
// So the Decompressor reads the connection in whatever pieces TCP/bufio hand over and the sink sees
// whatever pieces the Decompressor hands over.
//
// Code under test, run from its real source: NewCompressor, (*Compressor).Read/Close, NewDecompressor,
// (*Decompressor).Read, progress.CountingReader, io.ReadFull / io.LimitReader / io.CopyN / bytes.Buffer /
// encoding/binary. The zstd codec itself (github.com/klauspost/compress/zstd Encoder/Decoder) is replaced
// IN THE ENGINE by the model below (spec "models"); natively (replay of every counterexample) the
// real codec runs. The oracle never looks at the compressed bytes, only at what goes in and comes out,
// so it is the same for the model stream and the real zstd stream.
//
// Model codec ("mz"), an invertible stream transformation with the documented Encoder/Decoder contracts:
//   frame  = 0xFD block* 0x00            (magic, data blocks, end marker; the real frame: magic, header,
//                                         blocks, last-block flag, checksum)
//   block  = 0x01 len(1..8) len bytes    the payload bytes of the block in REVERSE order (a bijection on
//                                         blocks that keeps every byte the same solver term, so that
//                                         comparing output and payload needs no solver call)
//   Encoder: Write/ReadFrom buffer; Flush emits the buffered bytes as one block (nothing when nothing is
//            buffered); Close emits the buffered bytes and the end marker (an empty input still produces
//            a frame, as the real encoder does in its default configuration); errors of the writer
//            are returned. ReadFrom reads until io.EOF and returns any other error; that error is
//            remembered and returned by Flush and Close.
//   Decoder: reads the underlying reader lazily and exactly (never beyond the block it needs - the real
//            decoder with WithDecoderConcurrency(1) behaves like this, see codec_contract_test.go, run by every check), looping over
//            short reads. Read delivers decoded bytes in pieces chosen by the harness (mode 0: fills p
//            across blocks like the real decoder and may return data together with the error of the next
//            block; mode 1/2: at most 1/2 bytes per call, never across a block). Underlying EOF inside a
//            frame = io.ErrUnexpectedEOF; EOF before a frame = io.EOF (zero frames decode to nothing); after
//            the end marker the decoder looks for another frame (that is the probe Decompressor must avoid);
//            wrong magic / unknown tag / bad length = error.

import (
	"encoding/binary"
	"errors"
	"io"

	kzstd "github.com/klauspost/compress/zstd"
)

// ---------------------------------------------------------------------------
// model codec (engine only)

var (
	verifErrMagic   = errors.New("mz: magic number mismatch")
	verifErrCorrupt = errors.New("mz: corrupt block")
	verifErrClosed  = errors.New("mz: decoder closed")
	verifErrSrc     = errors.New("verif: source reader failed")
)

const (
	verifMzMagic    = 0xFD
	verifMzEnd      = 0x00
	verifMzBlock    = 0x01
	verifMzMaxBlock = 8
)

type verifEnc struct {
	w       io.Writer
	err     error // a failed ReadFrom is remembered: Flush and Close return it (as the real encoder does)
	pending []byte
	started bool
	closed  bool
}

type verifDec struct {
	r       io.Reader
	cur     []byte
	err     error
	inFrame bool
	closed  bool
}

var verifEncs map[*kzstd.Encoder]*verifEnc
var verifDecs map[*kzstd.Decoder]*verifDec

// verifDecMode: how the model decoder hands out decoded bytes (see above).
var verifDecMode int

func verifZNewWriter(w io.Writer, opts ...kzstd.EOption) (*kzstd.Encoder, error) {
	e := new(kzstd.Encoder)
	verifEncs[e] = &verifEnc{w: w}
	return e, nil
}

func verifZEncWrite(e *kzstd.Encoder, p []byte) (int, error) {
	st := verifEncs[e]
	st.pending = append(st.pending, p...)
	return len(p), nil
}

func verifZEncReadFrom(e *kzstd.Encoder, r io.Reader) (int64, error) {
	st := verifEncs[e]
	var n int64
	var buf [4]byte
	for i := 0; i < 64; i++ {
		k, err := r.Read(buf[:])
		st.pending = append(st.pending, buf[:k]...)
		n += int64(k)
		if err == io.EOF {
			return n, nil
		}
		if err != nil {
			st.err = err
			return n, err
		}
	}
	return n, io.ErrNoProgress
}

// verifMzEmit writes the buffered bytes as blocks (and the end marker when final).
func verifMzEmit(st *verifEnc, final bool) error {
	var out []byte
	if !st.started && (len(st.pending) > 0 || final) {
		out = append(out, verifMzMagic)
		st.started = true
	}
	for len(st.pending) > 0 {
		k := len(st.pending)
		if k > verifMzMaxBlock {
			k = verifMzMaxBlock
		}
		out = append(out, verifMzBlock, byte(k))
		for i := k - 1; i >= 0; i-- {
			out = append(out, st.pending[i])
		}
		st.pending = st.pending[k:]
	}
	if final {
		out = append(out, verifMzEnd)
	}
	if len(out) == 0 {
		return nil
	}
	n, err := st.w.Write(out)
	if err != nil {
		return err
	}
	if n != len(out) {
		return io.ErrShortWrite
	}
	return nil
}

func verifZEncFlush(e *kzstd.Encoder) error {
	st := verifEncs[e]
	if st.closed {
		return nil
	}
	if st.err != nil {
		return st.err
	}
	return verifMzEmit(st, false)
}

func verifZEncClose(e *kzstd.Encoder) error {
	st := verifEncs[e]
	if st.closed {
		return nil
	}
	if st.err != nil {
		return st.err
	}
	st.closed = true
	return verifMzEmit(st, true)
}

func verifZNewReader(r io.Reader, opts ...kzstd.DOption) (*kzstd.Decoder, error) {
	d := new(kzstd.Decoder)
	verifDecs[d] = &verifDec{r: r}
	return d, nil
}

// verifMzFull reads exactly len(buf) bytes, looping over short reads (io.ReadFull contract).
func verifMzFull(r io.Reader, buf []byte) error {
	got := 0
	for i := 0; got < len(buf); i++ {
		if i > 4*len(buf)+4 {
			return io.ErrNoProgress
		}
		n, err := r.Read(buf[got:])
		got += n
		if got >= len(buf) {
			return nil
		}
		if err == io.EOF {
			if got == 0 {
				return io.EOF
			}
			return io.ErrUnexpectedEOF
		}
		if err != nil {
			return err
		}
	}
	return nil
}

// verifMzNext decodes the next data block into st.cur or sets st.err.
func verifMzNext(st *verifDec) {
	var one [1]byte
	for hops := 0; hops < 3; hops++ {
		if !st.inFrame {
			err := verifMzFull(st.r, one[:])
			if err != nil {
				st.err = err // io.EOF: no (further) frame
				return
			}
			if one[0] != verifMzMagic {
				st.err = verifErrMagic
				return
			}
			st.inFrame = true
		}
		err := verifMzFull(st.r, one[:])
		if err != nil {
			st.err = verifMzMid(err)
			return
		}
		if one[0] == verifMzEnd {
			st.inFrame = false
			continue // look for a following frame
		}
		if one[0] != verifMzBlock {
			st.err = verifErrCorrupt
			return
		}
		err = verifMzFull(st.r, one[:])
		if err != nil {
			st.err = verifMzMid(err)
			return
		}
		k := int(one[0])
		if k < 1 || k > verifMzMaxBlock {
			st.err = verifErrCorrupt
			return
		}
		data := make([]byte, k)
		err = verifMzFull(st.r, data)
		if err != nil {
			st.err = verifMzMid(err)
			return
		}
		st.cur = make([]byte, k)
		for i := range data {
			st.cur[k-1-i] = data[i]
		}
		return
	}
	st.err = verifErrCorrupt
}

func verifMzMid(err error) error {
	if err == io.EOF {
		return io.ErrUnexpectedEOF
	}
	return err
}

func verifZDecRead(d *kzstd.Decoder, p []byte) (int, error) {
	st := verifDecs[d]
	if st.closed {
		return 0, verifErrClosed
	}
	if verifDecMode == 0 {
		// like the real decoder: fill p, across blocks; the error of a failed fetch travels with the data
		n := 0
		for {
			if len(st.cur) > 0 {
				k := copy(p, st.cur)
				p = p[k:]
				st.cur = st.cur[k:]
				n += k
			}
			if len(p) == 0 {
				break
			}
			if len(st.cur) == 0 {
				if st.err != nil {
					break
				}
				verifMzNext(st)
				if st.err != nil {
					return n, st.err
				}
			}
		}
		if len(st.cur) > 0 {
			return n, nil
		}
		return n, st.err
	}
	if len(p) == 0 {
		return 0, nil
	}
	if len(st.cur) == 0 {
		if st.err == nil {
			verifMzNext(st)
		}
		if st.err != nil {
			return 0, st.err
		}
	}
	k := len(st.cur)
	if k > verifDecMode {
		k = verifDecMode
	}
	if k > len(p) {
		k = len(p)
	}
	copy(p, st.cur[:k])
	st.cur = st.cur[k:]
	return k, nil
}

func verifZDecClose(d *kzstd.Decoder) {
	verifDecs[d].closed = true
}

// ---------------------------------------------------------------------------
// environment models passed through interfaces (run natively unchanged)

// verifSrc is the snapshot the sender streams (the io.Reader handed to NewCompressor).
//   mode 0: everything asked for, then (0, io.EOF)   mode 1: one byte per Read
//   mode 2: the last bytes come together with io.EOF  mode 3: fails with verifErrSrc after failAt bytes
type verifSrc struct {
	b      []byte
	off    int
	mode   int
	failAt int
}

func (s *verifSrc) Read(p []byte) (int, error) {
	end := len(s.b)
	if s.mode == 3 {
		end = s.failAt
	}
	if s.off >= end {
		if s.mode == 3 {
			return 0, verifErrSrc
		}
		return 0, io.EOF
	}
	if len(p) == 0 {
		return 0, nil
	}
	n := end - s.off
	if n > len(p) {
		n = len(p)
	}
	if s.mode == 1 {
		n = 1
	}
	copy(p, s.b[s.off:s.off+n])
	s.off += n
	if s.mode == 2 && s.off == end {
		return n, io.EOF
	}
	return n, nil
}

// verifNet is the connection the receiver reads: the byte stream arrives in segments
// [0,first) and then pieces of `rest` bytes (0 = no limit), or - with a boundary mask - in
// the segments the mask marks inside the first 10 bytes; a Read never crosses a segment boundary.
// end < len(b): the stream was cut there (connection closed by the peer: io.EOF). A Read at
// the end of an UNCUT stream is a read that would block on a live connection: counted in pastEnd.
type verifNet struct {
	b       []byte
	end     int
	cut     bool
	off     int
	first   int
	rest    int
	mask    int // bit i set: segment boundary after byte i (i = 0..9); used when useMask
	useMask bool
	pastEnd int
	split   bool // some Read ended strictly inside the 8-byte prefix
	ones    int  // Reads that delivered exactly one byte of the prefix
}

func (t *verifNet) segEnd() int {
	if t.useMask {
		for i := t.off; i < 10; i++ {
			if t.mask&(1<<uint(i)) != 0 {
				return i + 1
			}
		}
		return t.end
	}
	if t.first > 0 && t.off < t.first {
		return t.first
	}
	if t.rest > 0 {
		return t.off + t.rest
	}
	return t.end
}

func (t *verifNet) Read(p []byte) (int, error) {
	if t.off >= t.end {
		if !t.cut {
			t.pastEnd++
		}
		return 0, io.EOF
	}
	if len(p) == 0 {
		return 0, nil
	}
	e := t.segEnd()
	if e > t.end {
		e = t.end
	}
	n := e - t.off
	if n > len(p) {
		n = len(p)
	}
	if n == 1 && t.off < 8 {
		t.ones++
	}
	copy(p, t.b[t.off:t.off+n])
	t.off += n
	if t.off < 8 && t.off < t.end {
		t.split = true
	}
	return n, nil
}

// verifRdSize: buffer length the consumer passes on its i-th Read.
//   0: 1,1,1..   1: 0,1,1..   2: 2,2,2..   3: 64,64..   4: 1,0,3,3..
func verifRdSize(pattern, i int) int {
	switch pattern {
	case 0:
		return 1
	case 1:
		if i == 0 {
			return 0
		}
		return 1
	case 2:
		return 2
	case 3:
		return 64
	}
	if i == 0 {
		return 1
	}
	if i == 1 {
		return 0
	}
	return 3
}

func verifC10bInit() {
	verifEncs = map[*kzstd.Encoder]*verifEnc{}
	verifDecs = map[*kzstd.Decoder]*verifDec{}
	verifDecMode = 0
}

// verifC10bDrain reads r to its end with buffers of the pattern's sizes. final is the error that ended
// the stream (nil: the reader made no progress within the budget).
func verifC10bDrain(r io.Reader, pattern int, budget int) (out []byte, final error, sawEOFWithData bool) {
	for i := 0; i < budget; i++ {
		sz := verifRdSize(pattern, i)
		buf := make([]byte, sz)
		n, err := r.Read(buf)
		verifAssert("C10b-read-count-in-range", n >= 0 && n <= sz)
		out = append(out, buf[:n]...)
		if err != nil {
			if n > 0 && err == io.EOF {
				sawEOFWithData = true
			}
			return out, err, sawEOFWithData
		}
	}
	return out, nil, false
}

// verifC10bCompress runs the real Compressor over payload and returns its whole output.
func verifC10bCompress(payload []byte, declared int64, bufSz int) []byte {
	c, err := NewCompressor(&verifSrc{b: payload}, declared, bufSz)
	verifAssert("C10b-new-compressor", err == nil && c != nil)
	stream, final, _ := verifC10bDrain(c, 3, 4*len(payload)+8)
	verifAssert("C10b-compressor-ends-with-eof", final == io.EOF)
	verifAssert("C10b-compressor-close", c.Close() == nil)
	return stream
}

// ---------------------------------------------------------------------------
// entry: the sender side. For every payload, declared size, CopyN granularity, behaviour of the source
// reader and read sizes of the transport: the Compressor's output is the 8-byte big-endian declared
// size followed by a stream that decodes to exactly the payload; a failing source ends the stream with
// that error, never with a clean io.EOF.

func VerifC10bCompressor() {
	verifPanicsAreViolations()
	verifC10bInit()
	maxN := 3
	if verifTier() == 1 {
		maxN = 5
	}
	n := verifChoice("n", maxN+1)
	payload := verifBytes("p", n)
	declared := verifI64("declared")
	bufSz := []int{1, 2, 3, DefaultBufferSize}[verifChoice("bufsz", 4)]
	src := &verifSrc{b: payload, mode: verifChoice("src", 4)}
	if src.mode == 3 {
		src.failAt = verifChoice("failat", n+1)
	}
	pattern := verifChoice("rd", 5)

	c, err := NewCompressor(src, declared, bufSz)
	verifAssert("C10b-new-compressor", err == nil && c != nil)
	stream, final, _ := verifC10bDrain(c, pattern, 6*n+24)
	verifAssert("C10b-compressor-terminates", final != nil)
	if src.mode == 3 {
		verifReach("source-fails")
		verifAssert("C10b-source-error-not-swallowed", errors.Is(final, verifErrSrc))
		return
	}
	verifAssert("C10b-compressor-ends-with-eof", final == io.EOF)
	if bufSz < n {
		verifReach("several-blocks")
	}

	// documented framing: uint64 big-endian size first
	verifAssert("C10b-stream-has-prefix", len(stream) >= 8)
	var diff byte
	var want [8]byte
	binary.BigEndian.PutUint64(want[:], uint64(declared))
	for i := 0; i < 8; i++ {
		diff |= stream[i] ^ want[i]
	}
	verifAssert("C10b-prefix-is-big-endian-size", diff == 0)

	// the rest is one complete compressed stream of exactly the payload
	dec, err := kzstd.NewReader(&verifNet{b: stream[8:], end: len(stream) - 8, cut: true}, kzstd.WithDecoderConcurrency(1))
	verifAssert("C10b-ref-decoder", err == nil)
	got, dfinal, _ := verifC10bDrain(dec, 3, n+4)
	dec.Close()
	verifAssert("C10b-body-is-complete-frame", dfinal == io.EOF)
	verifAssert("C10b-body-decodes-to-payload-length", len(got) == n)
	diff = 0
	for i := 0; i < len(got) && i < n; i++ {
		diff |= got[i] ^ payload[i]
	}
	verifAssert("C10b-body-decodes-to-payload", diff == 0)

	// at the end: more Reads keep saying EOF, Close is idempotent
	var one [1]byte
	k, err := c.Read(one[:])
	verifAssert("C10b-compressor-eof-is-sticky", k == 0 && err == io.EOF)
	verifAssert("C10b-compressor-close", c.Close() == nil)
	verifAssert("C10b-compressor-close-twice", c.Close() == nil)
	verifReach("compressed")
}

// ---------------------------------------------------------------------------
// entry: the receiver side (and with it the whole chain Compressor -> connection -> Decompressor).

type verifC10bRun struct {
	n       int
	payload []byte
	net     *verifNet
	cutAt   int // -1: not cut
	extra   int
	out     []byte
	final   error
	eofData bool
	d       *Decompressor
	bufSz   int
}

// verifC10bScenario chooses payload, block structure and fault (the segmentation of the connection is
// chosen by the entry BEFORE this runs, so that redundant combinations are pruned before any work).
// cutLimit: cut positions range over [0, min(cutLimit, length of the model stream)).
func verifC10bScenario(maxN int, cutLimit int, withExtension bool) *verifC10bRun {
	verifC10bInit()
	r := &verifC10bRun{cutAt: -1}
	r.n = maxN - verifChoice("n", maxN+1) // longest payload first
	r.payload = verifBytes("p", r.n)
	bufSz := DefaultBufferSize
	if r.n >= 2 {
		// CopyN granularity 1: one Flush (one block) per payload byte; otherwise a single block
		bufSz = []int{1, DefaultBufferSize}[verifChoice("bufsz", 2)]
	}
	// Length of the MODEL stream: what the cut positions range over. Natively the real zstd stream is
	// longer (>= 13 bytes of framing, 3 more per block), so every position is valid there too and a
	// cut at 8+j still removes bytes the payload needs.
	blocks := 0
	if r.n > 0 {
		blocks = 1
		if bufSz < r.n {
			blocks = r.n
			verifReach("several-blocks")
		}
	}
	mlen := 8 + 1 + 2*blocks + r.n + 1
	if cutLimit > mlen {
		cutLimit = mlen
	}
	nf := 2
	if withExtension {
		nf = 3
	}
	fault := verifChoice("fault", nf)
	if fault == 1 {
		r.cutAt = verifChoice("cut", cutLimit)
	}
	if fault == 2 {
		r.extra = 2
		if verifTier() == 1 {
			r.extra = 1 + verifChoice("extra", 2)
		}
	}
	r.bufSz = bufSz
	return r
}

// build runs the real Compressor and puts its output on the connection.
func (r *verifC10bRun) build(net *verifNet) {
	stream := verifC10bCompress(r.payload, int64(r.n), r.bufSz)
	verifAssert("C10b-stream-has-prefix", len(stream) >= 8)
	r.net = net
	net.b = stream
	net.end = len(stream)
	if r.cutAt >= 0 {
		net.end = r.cutAt
		if net.end > len(stream) {
			net.end = len(stream)
		}
		net.cut = true
	}
	if r.extra > 0 {
		// bytes follow the stream on the same connection
		net.b = append(append([]byte{}, stream...), verifBytes("x", r.extra)...)
		net.end = len(net.b)
	}
}

func (r *verifC10bRun) run(pattern int) {
	r.d = NewDecompressor(r.net)
	r.out, r.final, r.eofData = verifC10bDrain(r.d, pattern, 2*r.n+8)
}

// verifC10bOracle: written from the property and the documentation of the two types.
func (r *verifC10bRun) oracle() {
	verifAssert("C10b-decompressor-terminates", r.final != nil)

	// never other or more bytes than the source's
	verifAssert("C10b-never-more-than-payload", len(r.out) <= r.n)
	var diff byte
	for i := 0; i < len(r.out) && i < r.n; i++ {
		diff |= r.out[i] ^ r.payload[i]
	}
	verifAssert("C10b-never-different-bytes", diff == 0)

	clean := r.final == io.EOF
	if clean && len(r.out) == 0 && (r.cutAt == 0 || (r.cutAt == 8 && r.n > 0)) {
		// recorded defect class: the connection is closed before the first byte of the prefix or
		// right behind the prefix (no byte of a frame seen) and Read reports a clean end of stream
		verifFinding("C10-decompressor-clean-eof-on-cut-before-frame")
	}
	if r.cutAt >= 0 && r.cutAt < 8 {
		verifReach("cut-inside-prefix")
		verifAssert("C10b-cut-inside-prefix-is-an-error", !clean)
	}
	if r.cutAt >= 8 {
		verifReach("cut-inside-body")
		if !clean {
			verifReach("cut-inside-body-refused")
		}
	}
	// a clean end of stream means the whole payload was delivered (never a silent short payload)
	if clean {
		verifAssert("C10b-clean-eof-only-after-whole-payload", len(r.out) == r.n)
	}
	// an undamaged stream is delivered whole whatever the splits, with or without bytes following it
	if r.cutAt < 0 {
		verifAssert("C10b-intact-stream-delivered", clean && len(r.out) == r.n)
		// "never asks the zstd decoder to probe for a subsequent frame (which would block on a network stream)"
		verifAssert("C10b-no-read-past-the-stream", r.net.pastEnd == 0)
		if r.extra > 0 {
			verifReach("extra-bytes-ignored")
			verifAssert("C10b-extra-bytes-not-consumed", r.net.off <= len(r.net.b)-r.extra)
		}
		// io.EOF is sticky
		var one [1]byte
		k, err := r.d.Read(one[:])
		verifAssert("C10b-eof-is-sticky", k == 0 && err == io.EOF)
	}
	if r.net.split {
		verifReach("prefix-split-by-short-read")
	}
	if r.net.ones >= 8 {
		verifReach("one-byte-reads")
	}
	if r.eofData {
		verifReach("eof-with-data")
	}
	if r.n > 0 && clean {
		verifReach("payload-delivered")
	}
}

// VerifC10bChain: every fault (cut at every position of the stream, bytes appended) x delivery mode of the
// decoder x read pattern of the consumer x segmentation of the connection (whole / single bytes / a
// first segment of 3 bytes). Quick tier: dimensions that cannot matter for a fault are fixed - a cut
// inside the prefix never reaches the decoder (decoder mode fixed), a cut inside the body is behind the
// prefix (segmentation only drives the codec, fixed to "whole"). Thorough tier: first segment 1..9 bytes,
// then pieces of 1 / 2 / all, and the full cross product.
func VerifC10bChain() {
	verifPanicsAreViolations()
	net := &verifNet{}
	maxN := 2
	if verifTier() == 1 {
		maxN = 4
	}
	r := verifC10bScenario(maxN, 1<<20, true)
	rep := r.cutAt == 0 || (r.cutAt == 8 && r.n > 0) // recorded defect class: one representative here
	mode, pattern := 0, 3
	if verifTier() == 1 {
		if !rep {
			net.first = 1 + verifChoice("first", 9)
			net.rest = verifChoice("rest", 3)
			mode = verifChoice("decmode", 3)
			pattern = verifChoice("rd", 5)
		}
	} else if !rep {
		if r.cutAt < 0 || r.cutAt < 8 {
			switch verifChoice("seg", 3) {
			case 1:
				net.first, net.rest = 1, 1
			case 2:
				net.first = 3
			}
		}
		if r.cutAt < 0 || r.cutAt >= 8 {
			mode = verifChoice("decmode", 3)
			pattern = verifChoice("rd", 5)
		} else {
			pattern = []int{0, 1, 3}[verifChoice("rd3", 3)]
		}
	}
	r.build(net)
	verifDecMode = mode
	r.run(pattern)
	r.oracle()
}

// VerifC10bAnySplit: EVERY segmentation of the first 8 (thorough: 10) bytes of the connection - all
// boundary sets inside the prefix and right after it - for the undamaged stream and for the stream
// cut at every position up to there; the rest of the stream in one piece.
func VerifC10bAnySplit() {
	verifPanicsAreViolations()
	net := &verifNet{useMask: true}
	maxN, bits := 1, 8
	if verifTier() == 1 {
		maxN, bits = 3, 10
	}
	pattern := 3 - 3*verifChoice("rd1", 2) // 64-byte or 1-byte consumer reads
	r := verifC10bScenario(maxN, bits+1, false)
	if r.cutAt > 0 {
		// boundaries at or behind the cut change nothing
		bits = r.cutAt - 1
	}
	if r.cutAt == 0 || (r.cutAt == 8 && r.n > 0 && verifTier() == 0) {
		bits = 0 // (cut at 8, payload expected: recorded defect class, one representative in the quick tier)
	}
	net.mask = verifChoice("mask", 1<<uint(bits))
	r.build(net)
	r.run(pattern)
	r.oracle()
}

// VerifC10bTwin: same scenario shape; the final claim ("a stream is never delivered whole") must fail.
func VerifC10bTwin() {
	net := &verifNet{first: 1 + 8*verifChoice("first", 2)}
	r := verifC10bScenario(1, 2, false)
	r.build(net)
	r.run(3)
	verifAssert("C10b-twin", !(r.final == io.EOF && len(r.out) == r.n && r.n > 0))
}
