package zstd

// Native cross-check of the codec model of harness.go against the real
// github.com/klauspost/compress/zstd (spec "native_checks": run by every check; when it fails the
// symbolic verdict is not to be trusted). Each block states one clause of the model.

import (
	"bytes"
	"errors"
	"io"
	"testing"

	kzstd "github.com/klauspost/compress/zstd"
)

func verifC10bFrame(t *testing.T, payload []byte, flushEach int) []byte {
	var buf bytes.Buffer
	enc, err := kzstd.NewWriter(&buf, kzstd.WithEncoderLevel(kzstd.SpeedFastest))
	if err != nil {
		t.Fatal(err)
	}
	for off := 0; off < len(payload); off += flushEach {
		end := off + flushEach
		if end > len(payload) {
			end = len(payload)
		}
		if _, err := enc.ReadFrom(bytes.NewReader(payload[off:end])); err != nil {
			t.Fatal(err)
		}
		if err := enc.Flush(); err != nil {
			t.Fatal(err)
		}
	}
	if err := enc.Close(); err != nil {
		t.Fatal(err)
	}
	return buf.Bytes()
}

func TestVerifC10bCodecContract(t *testing.T) {
	payloads := [][]byte{{}, {7}, {1, 2}, {1, 2, 3, 4, 5}, bytes.Repeat([]byte{9, 8, 7}, 50)}
	for _, pl := range payloads {
		for _, fe := range []int{1, 2, 1 << 20} {
			frame := verifC10bFrame(t, pl, fe)
			// an empty input still produces a frame
			if len(frame) == 0 {
				t.Fatalf("no frame for %d bytes", len(pl))
			}
			// the decoder reads lazily and exactly: delivering exactly len(pl) bytes never reads at the
			// end of the connection and never touches bytes behind the frame
			for _, seg := range [][2]int{{0, 0}, {1, 1}, {3, 0}} {
				net := &verifNet{b: append(append([]byte{}, frame...), 0xAA, 0xBB), first: seg[0], rest: seg[1]}
				net.end = len(net.b)
				dec, err := kzstd.NewReader(net, kzstd.WithDecoderConcurrency(1))
				if err != nil {
					t.Fatal(err)
				}
				got, err := io.ReadAll(io.LimitReader(dec, int64(len(pl))))
				if err != nil || !bytes.Equal(got, pl) {
					t.Fatalf("limited read: %v %v", got, err)
				}
				if net.pastEnd != 0 || net.off > len(frame) {
					t.Fatalf("decoder read ahead: off=%d frame=%d pastEnd=%d", net.off, len(frame), net.pastEnd)
				}
				// asked for more, it looks for a following frame: bytes behind the frame are an error
				_, err = io.ReadAll(dec)
				if err == nil {
					t.Fatalf("garbage behind the frame accepted")
				}
				dec.Close()
			}
			// whole frame, nothing behind it: the payload, then a clean end
			dec, _ := kzstd.NewReader(bytes.NewReader(frame), kzstd.WithDecoderConcurrency(1))
			got, err := io.ReadAll(dec)
			if err != nil || !bytes.Equal(got, pl) {
				t.Fatalf("round trip: %v %v", got, err)
			}
			dec.Close()
			// cut anywhere inside the frame: reading to the end is an error, never other bytes
			for cut := 1; cut < len(frame) && len(pl) <= 5; cut++ {
				dec, _ := kzstd.NewReader(&verifNet{b: frame, end: cut, cut: true, first: 1, rest: 1}, kzstd.WithDecoderConcurrency(1))
				got, err := io.ReadAll(dec)
				if err == nil {
					t.Fatalf("cut at %d of %d accepted", cut, len(frame))
				}
				if len(got) > len(pl) || !bytes.Equal(got, pl[:len(got)]) {
					t.Fatalf("cut at %d: other bytes %v", cut, got)
				}
				dec.Close()
			}
		}
	}
	// no frame at all decodes to nothing, cleanly
	dec, _ := kzstd.NewReader(bytes.NewReader(nil), kzstd.WithDecoderConcurrency(1))
	got, err := io.ReadAll(dec)
	if err != nil || len(got) != 0 {
		t.Fatalf("empty input: %v %v", got, err)
	}
	// a zero-length Read of a fresh decoder returns 0, nil
	dec, _ = kzstd.NewReader(bytes.NewReader(verifC10bFrame(t, []byte{1}, 1)), kzstd.WithDecoderConcurrency(1))
	if n, err := dec.Read(nil); n != 0 || err != nil {
		t.Fatalf("zero-length read: %d %v", n, err)
	}
	// a failed ReadFrom is remembered by the encoder
	var buf bytes.Buffer
	enc, _ := kzstd.NewWriter(&buf, kzstd.WithEncoderLevel(kzstd.SpeedFastest))
	if _, err := enc.ReadFrom(&verifSrc{b: []byte{1, 2, 3}, mode: 3, failAt: 2}); !errors.Is(err, verifErrSrc) {
		t.Fatalf("ReadFrom: %v", err)
	}
	if err := enc.Close(); !errors.Is(err, verifErrSrc) {
		t.Fatalf("Close after failed ReadFrom: %v", err)
	}
	// ReadFrom returns nil at io.EOF, also when the last bytes come together with it
	enc, _ = kzstd.NewWriter(&buf, kzstd.WithEncoderLevel(kzstd.SpeedFastest))
	if n, err := enc.ReadFrom(&verifSrc{b: []byte{1, 2, 3}, mode: 2}); n != 3 || err != nil {
		t.Fatalf("ReadFrom: %d %v", n, err)
	}
	enc.Close()
}
