package snapshot

// Native sweep (not part of the check; run by hand, see tools note in spec.json "assumptions"):
// every choice vector of every entry is executed on the real file system with the real helper
// functions; no assertion may fail. This is the differential test of the symbolic run's models
// against the real calls on the unchanged tree.

import (
	"encoding/json"
	"fmt"
	"strings"
	"testing"
)

func vSweepRun(f func(), vals map[string]any) (outcome []string) {
	verifLoad()
	verifVals = vals
	defer func() {
		r := recover()
		outcome = verifOutcome
		if r == nil {
			return
		}
		if _, ok := r.(verifStop); ok {
			return
		}
		outcome = append(outcome, fmt.Sprintf("panic %v", r))
	}()
	f()
	return
}

func vSweepEntry(t *testing.T, name string, f func(), symbolic []string) {
	vSweep = &vSweeper{}
	defer func() { vSweep = nil }()
	runs := 0
	for {
		for variant := 0; variant < 3; variant++ {
			vals := map[string]any{}
			for i, s := range symbolic {
				// small values with ties, then spread values
				v := (runs*7 + i*3 + variant*5) % 3
				if variant == 2 {
					v = (runs*2654435761 + i*40503 + 12345) % 1000003
				}
				vals[s] = json.Number(fmt.Sprint(v))
			}
			vSweep.pos, vSweep.ns = 0, vSweep.ns[:0]
			for _, o := range vSweepRun(f, vals) {
				if strings.HasPrefix(o, "violated") || strings.HasPrefix(o, "panic") || strings.HasPrefix(o, "finding") {
					t.Errorf("%s: %s with choices %v values %v", name, o, vSweep.trail[:vSweep.pos], vals)
				}
			}
			if len(symbolic) == 0 {
				break
			}
		}
		runs++
		if !vSweep.next() {
			break
		}
	}
	t.Logf("%s: %d choice vectors", name, runs)
}

func TestVerifSweep(t *testing.T) {
	keys := []string{"term0", "term1", "term2", "term3", "index0", "index1", "index2", "index3"}
	vSweepEntry(t, "VerifC09Order", VerifC09Order, keys)
	vSweepEntry(t, "VerifC09Algebra", VerifC09Algebra, nil)
	vSweepEntry(t, "VerifC09Scan", VerifC09Scan, keys)
	vSweepEntry(t, "VerifC09ScanBroken", VerifC09ScanBroken, nil)
	vSweepEntry(t, "VerifC09Gate", VerifC09Gate, nil)
	vSweepEntry(t, "VerifC09Close", VerifC09Close, nil)
	vSweepEntry(t, "VerifC09Abandon", VerifC09Abandon, nil)
	vSweepEntry(t, "VerifC09History", VerifC09History, nil)
}
