package snapshot

// C09: the snapshot catalog stays well-formed and full-needed is honoured.
//
// (a) catalog algebra
//   VerifC09Order     Snapshot.Less / Equal over three snapshots with symbolic term / index
//   VerifC09Algebra   every SnapshotSet query over every shape of <= 4 snapshots
//   VerifC09Scan      the real SnapshotCatalog.Scan over a store directory (symbolic term / index per
//                     snapshot, directory order independent of age, leftovers in the directory)
//   VerifC09ScanBroken  an incomplete (non-temporary) directory is reported, never listed
// (b) full-needed gate, (c) what a sink leaves behind: sink.go (VerifC09Gate, VerifC09Close,
//     VerifC09Abandon, VerifC09CrashPoints, VerifC09History)
// fsmodel.go: file-system model of the symbolic run (shared with C12); sweep.go / sweep_test.go:
// native differential test of that model (run by hand).
//
// Oracles are written from the documentation of the types (snapshot.go) and the property text.

import (
	"os"
	"path/filepath"

	"github.com/hashicorp/raft"
)

// ---------------------------------------------------------------- the reference description

// (vSnap, the description of one snapshot, lives in fsmodel.go)

// vOlder is the documented order: by (Term, Index, ID).
func vOlder(a, b vSnap) bool {
	if a.term != b.term {
		return a.term < b.term
	}
	if a.index != b.index {
		return a.index < b.index
	}
	return a.id < b.id
}

func vIDs(m []vSnap) []string {
	out := make([]string, len(m))
	for i := range m {
		out[i] = m[i].id
	}
	return out
}

func vFilePaths(fs []*ChecksummedFile) []string {
	out := make([]string, len(fs))
	for i, f := range fs {
		out[i] = f.Path
	}
	return out
}

// ---------------------------------------------------------------- (a) order

var vOrderIDs = [][3]string{{"a", "b", "b0"}, {"b", "a", "a"}, {"a", "a", "a"}, {"b0", "b", "a"}, {"a", "a", "b"}, {"b", "a", "b0"}}

func vMkSnap(id string, term, index uint64) *Snapshot {
	return &Snapshot{id: id, raftMeta: &raft.SnapshotMeta{ID: id, Term: term, Index: index}}
}

// VerifC09Order: Less is a strict total order on snapshots with distinct ids, it is the
// documented (Term, Index, ID) order, and Equal is its equivalence.
func VerifC09Order() {
	verifPanicsAreViolations()
	ids := vOrderIDs[vChoice("ids", 2+4*verifTier())]
	var sp [3]vSnap
	var sn [3]*Snapshot
	for i := range sp {
		sp[i] = vSnap{id: ids[i], term: verifU64(verifName("term", i)), index: verifU64(verifName("index", i))}
		sn[i] = vMkSnap(sp[i].id, sp[i].term, sp[i].index)
	}
	var lt [3][3]bool
	for i := range sn {
		for j := range sn {
			lt[i][j] = sn[i].Less(sn[j])
		}
	}
	for i := range sn {
		verifAssert("C09-less-irreflexive", !lt[i][i])
		verifAssert("C09-equal-reflexive", sn[i].Equal(sn[i]))
		for j := range sn {
			if i == j {
				continue
			}
			// the documented (Term, Index, ID) order, written without branches
			want := verifOr(sp[i].term < sp[j].term, verifAnd(sp[i].term == sp[j].term,
				verifOr(sp[i].index < sp[j].index, verifAnd(sp[i].index == sp[j].index, sp[i].id < sp[j].id))))
			verifAssert("C09-less-is-term-index-id-order", lt[i][j] == want)
			verifAssert("C09-less-asymmetric", !verifAnd(lt[i][j], lt[j][i]))
			if sp[i].id != sp[j].id {
				verifAssert("C09-less-total-on-distinct-ids", verifOr(lt[i][j], lt[j][i]))
				verifReach("order-distinct")
			}
			eq := sn[i].Equal(sn[j])
			same := verifAnd(verifAnd(sp[i].term == sp[j].term, sp[i].index == sp[j].index), sp[i].id == sp[j].id)
			verifAssert("C09-equal-iff-same-term-index-id", eq == same)
			verifAssert("C09-equal-iff-neither-less", eq == verifAnd(!lt[i][j], !lt[j][i]))
			for k := range sn {
				verifAssert("C09-less-transitive", verifImplies(verifAnd(lt[i][j], lt[j][k]), lt[i][k]))
			}
		}
	}
}

// ---------------------------------------------------------------- (a) algebra

// vBuildSet builds the SnapshotSet the catalog would return for the reference list m (oldest
// first), without a directory.
func vBuildSet(dir string, m []vSnap) SnapshotSet {
	items := []*Snapshot{}
	for _, sp := range m {
		sn := &Snapshot{id: sp.id, path: dir + "/" + sp.id, typ: Incremental,
			raftMeta: &raft.SnapshotMeta{ID: sp.id, Term: sp.term, Index: sp.index}}
		if sp.full {
			sn.typ = Full
			sn.dbFile = &ChecksummedFile{Path: sn.path + "/" + dbfileName, CRC32: 1}
		}
		for w := 0; w < sp.wals; w++ {
			sn.walFiles = append(sn.walFiles, &ChecksummedFile{Path: sn.path + "/" + vWALName(w), CRC32: 2})
		}
		items = append(items, sn)
	}
	return SnapshotSet{dir: dir, items: items}
}

// vExpectFiles: "nearest full at or before it, then every WAL of that full and of each later
// snapshot up to it, in order"; ok == false iff no full snapshot precedes it.
func vExpectFiles(dir string, m []vSnap, i int) (db string, wals []string, ok bool) {
	j := i
	for j >= 0 && !m[j].full {
		j--
	}
	if j < 0 {
		return "", nil, false
	}
	db = dir + "/" + m[j].id + "/" + dbfileName
	for k := j; k <= i; k++ {
		for w := 0; w < m[k].wals; w++ {
			wals = append(wals, dir+"/"+m[k].id+"/"+vWALName(w))
		}
	}
	return db, wals, true
}

// vCheckAlgebra compares every query of the set with the reference list m (oldest first).
func vCheckAlgebra(ss SnapshotSet, dir string, m []vSnap, absent string) {
	n := len(m)
	ids := vIDs(m)
	verifAssert("C09-set-len", ss.Len() == n)
	verifAssert("C09-set-ids-oldest-first", vSameStrings(ss.IDs(), ids))
	metas := ss.RaftMetas()
	verifAssert("C09-set-metas-len", len(metas) == n)
	for i := range m {
		verifAssert("C09-set-metas-in-order", metas[i].ID == m[i].id && metas[i].Term == m[i].term && metas[i].Index == m[i].index)
	}

	// newest full
	nf := -1
	for i := range m {
		if m[i].full {
			nf = i
		}
	}
	got, ok := ss.NewestFull()
	verifAssert("C09-newest-full-present-iff-a-full-exists", ok == (nf >= 0))
	if nf >= 0 {
		verifAssert("C09-newest-full-is-the-last-full", got != nil && got.id == m[nf].id)
	} else {
		verifReach("no-full")
	}
	old, ok := ss.Oldest()
	verifAssert("C09-oldest", ok == (n > 0) && (n == 0 || old.id == m[0].id))
	nw, ok := ss.Newest()
	verifAssert("C09-newest", ok == (n > 0) && (n == 0 || nw.id == m[n-1].id))

	// partition at the newest full
	fullSet, newer := ss.PartitionAtFull()
	if nf < 0 {
		verifAssert("C09-partition-empty-without-full", fullSet.Len() == 0 && newer.Len() == 0)
	} else {
		verifAssert("C09-partition-full-is-newest-full", vSameStrings(fullSet.IDs(), ids[nf:nf+1]))
		verifAssert("C09-partition-newer-is-everything-after", vSameStrings(newer.IDs(), ids[nf+1:]))
	}
	verr := ss.ValidateIncrementalChain()
	verifAssert("C09-validate-chain-error-iff-no-full", (verr != nil) == (nf < 0))

	// fulls / incrementals keep the order
	var wantF, wantI []string
	for i := range m {
		if m[i].full {
			wantF = append(wantF, m[i].id)
		} else {
			wantI = append(wantI, m[i].id)
		}
	}
	verifAssert("C09-fulls", vSameStrings(ss.Fulls().IDs(), wantF))
	verifAssert("C09-incrementals", vSameStrings(ss.Incrementals().IDs(), wantI))

	// per id
	for i := range m {
		id := m[i].id
		sn, ok := ss.WithID(id)
		verifAssert("C09-with-id", ok && sn.id == id)
		verifAssert("C09-before-id-strictly-older", vSameStrings(ss.BeforeID(id).IDs(), ids[:i]))
		verifAssert("C09-after-id-strictly-newer", vSameStrings(ss.AfterID(id).IDs(), ids[i+1:]))
		verifAssert("C09-range-to-end", vSameStrings(ss.Range(id, "").IDs(), ids[i:]))
		for j := range m {
			var want []string
			if j > i {
				want = ids[i:j]
			}
			verifAssert("C09-range-half-open", vSameStrings(ss.Range(id, m[j].id).IDs(), want))
		}
		verifAssert("C09-range-unknown-to-is-empty", ss.Range(id, absent).Len() == 0)
		verifAssert("C09-range-unknown-from-is-empty", ss.Range(absent, id).Len() == 0)

		db, wals, err := ss.ResolveFiles(id)
		wantDB, wantWALs, wantOK := vExpectFiles(dir, m, i)
		verifAssert("C09-resolve-error-iff-no-full-at-or-before", (err == nil) == wantOK)
		if wantOK {
			verifReach("resolved")
			if !m[i].full {
				verifReach("resolved-chain")
			}
			verifAssert("C09-resolve-db-is-nearest-full", db != nil && db.Path == wantDB)
			verifAssert("C09-resolve-wals-are-the-chain-in-order", vSameStrings(vFilePaths(wals), wantWALs))
		} else {
			verifReach("unresolvable")
			verifAssert("C09-resolve-error-returns-nothing", db == nil && len(wals) == 0)
		}
	}
	_, ok = ss.WithID(absent)
	verifAssert("C09-with-unknown-id", !ok)
	verifAssert("C09-before-unknown-id-is-empty", ss.BeforeID(absent).Len() == 0)
	verifAssert("C09-after-unknown-id-is-empty", ss.AfterID(absent).Len() == 0)
	verifAssert("C09-range-unknown-is-empty", ss.Range(absent, "").Len() == 0)
	_, _, err := ss.ResolveFiles(absent)
	verifAssert("C09-resolve-unknown-id-not-found", err == ErrSnapshotNotFound)
}

var vAlgebraIDs = []string{"s1", "s2", "s3", "s4"}

// vShape picks n snapshots (ids in age order), each full or incremental with 0..2 WAL files.
func vShape(maxN int) []vSnap {
	n := vChoice("n", maxN+1)
	m := make([]vSnap, n)
	for i := range m {
		m[i] = vSnap{id: vAlgebraIDs[i], term: 1, index: uint64(10 * (i + 1))}
		m[i].full = vChoice(verifName("full", i), 2) == 1
		m[i].wals = vChoice(verifName("wals", i), 3)
	}
	return m
}

// VerifC09Algebra: every query over every shape of at most 4 snapshots.
func VerifC09Algebra() {
	verifPanicsAreViolations()
	m := vShape(3 + verifTier())
	ss := vBuildSet("/vc09", m)
	vCheckAlgebra(ss, "/vc09", m, "nope")
}

// ---------------------------------------------------------------- (a) the real Scan

var vDirNames = []string{"d1", "d2", "d3", "d4"}

// type patterns in directory (= name) order; F = full, I = incremental
var vTypePatterns = [][]string{
	{""},
	{"F", "I"},
	{"FI", "IF", "FF", "II"},
	{"FII", "IFI", "IIF", "FIF", "FFI", "III"},
	{"FIIF", "IFIF", "FIFI", "IIFI", "FFII", "IFFI"},
}

// vScanWorld writes a store directory with n snapshots whose age (term, index) is symbolic and
// independent of the order of their directory names, plus what a running store leaves around:
// the temporary directory of a snapshot that is being written, flag files.
func vScanWorld(dir string, maxN int) []vSnap {
	n := vChoice("n", maxN+1)
	pats := vTypePatterns[n]
	if verifTier() == 0 && n == 3 {
		pats = pats[:2] // the other shapes of three: thorough tier (and VerifC09Algebra)
	}
	pat := pats[vChoice("types", len(pats))]
	manyWALs := 1
	if verifTier() == 1 {
		manyWALs = vChoice("manyWALs", 2)
	}
	m := make([]vSnap, n)
	for i := range m {
		m[i] = vSnap{id: vDirNames[i], term: 1, index: verifU64(verifName("index", i))}
		if verifTier() == 1 || n < 3 {
			m[i].term = verifU64(verifName("term", i)) // (quick tier, three snapshots: same term)
		}
		m[i].full = pat[i] == 'F'
		if m[i].full {
			m[i].wals = manyWALs
		} else {
			m[i].wals = 1 + manyWALs
		}
		vPutSnapshot(dir, m[i])
	}
	// leftovers
	tmp := filepath.Join(dir, "d0"+tmpSuffix)
	vMust(os.MkdirAll(tmp, 0o755))
	vMust(os.WriteFile(filepath.Join(tmp, dbfileName), vSQLiteHdr[:40], 0o644))
	vMust(os.WriteFile(filepath.Join(dir, fullNeededFile), nil, 0o644))
	return m
}

// VerifC09Scan: the catalog lists exactly the complete snapshot directories, oldest first by
// (term, index, id), classifies them by their content, and every query on the result agrees
// with the reference.
func VerifC09Scan() {
	verifPanicsAreViolations()
	dir := vNewRoot("vc09")
	defer vDropRoot(dir)
	m := vScanWorld(dir, 3+verifTier())

	ss, err := (&SnapshotCatalog{}).Scan(dir)
	verifAssert("C09-scan-ok-on-well-formed-store", err == nil)
	verifAssert("C09-scan-lists-exactly-the-complete-snapshots", ss.Len() == len(m))
	// the result is a permutation of the reference, classified as written ...
	sorted := make([]vSnap, 0, len(m))
	for _, it := range ss.items {
		k := -1
		for i := range m {
			if m[i].id == it.id {
				k = i
			}
		}
		verifAssert("C09-scan-lists-only-snapshot-directories", k >= 0)
		for _, prev := range sorted {
			verifAssert("C09-scan-lists-each-once", prev.id != it.id)
		}
		sp := m[k]
		verifAssert("C09-scan-type-from-content", (it.typ == Full) == sp.full && (it.dbFile != nil) == sp.full)
		verifAssert("C09-scan-wal-count", len(it.walFiles) == sp.wals)
		verifAssert("C09-scan-meta", it.raftMeta != nil && it.raftMeta.Term == sp.term && it.raftMeta.Index == sp.index)
		sorted = append(sorted, sp)
	}
	// ... and ordered oldest first
	for i := 1; i < len(sorted); i++ {
		verifAssert("C09-scan-sorted-oldest-first", vOlder(sorted[i-1], sorted[i]))
		if sorted[i-1].id > sorted[i].id {
			verifReach("scan-reordered")
		}
	}
	if len(sorted) == 3 {
		verifReach("scan-three")
	}
	vCheckAlgebra(ss, dir, sorted, "d0"+tmpSuffix)
}

// VerifC09ScanBroken: a directory that is not a complete snapshot (and is not a temporary one)
// is reported, never listed.
func VerifC09ScanBroken() {
	verifPanicsAreViolations()
	dir := vNewRoot("vc09")
	defer vDropRoot(dir)
	vPutSnapshot(dir, vSnap{id: "d1", full: true, term: 1, index: 5})
	bad := filepath.Join(dir, "d2")
	vMust(os.MkdirAll(bad, 0o755))
	switch vChoice("broken", 4) {
	case 0: // no meta.json
		vWriteData(filepath.Join(bad, dbfileName), vSQLiteHdr)
	case 1: // no data file
		vMust(writeMeta(bad, &raft.SnapshotMeta{Version: 1, ID: "d2", Index: 9, Term: 1}))
	case 2: // data file without its checksum record
		vMust(writeMeta(bad, &raft.SnapshotMeta{Version: 1, ID: "d2", Index: 9, Term: 1}))
		vMust(os.WriteFile(filepath.Join(bad, vWALName(0)), vWALHdr, 0o644))
	case 3: // data file that is not a database
		vMust(writeMeta(bad, &raft.SnapshotMeta{Version: 1, ID: "d2", Index: 9, Term: 1}))
		vWriteData(filepath.Join(bad, dbfileName), []byte("not a database, not a database"))
	}
	ss, err := (&SnapshotCatalog{}).Scan(dir)
	verifReach("scan-broken")
	verifAssert("C09-scan-reports-incomplete-directory", err != nil && ss.Len() == 0)
}

// VerifC09Twin: claims an incremental resolves without its full's WAL files - must be violated.
func VerifC09Twin() {
	m := []vSnap{{id: "s1", full: true, term: 1, index: 10, wals: 1}, {id: "s2", term: 1, index: 20, wals: 1}}
	ss := vBuildSet("/vc09", m)
	_, wals, err := ss.ResolveFiles("s2")
	verifAssert("twin", err == nil && len(wals) == 1)
}
