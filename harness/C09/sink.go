package snapshot

// C09 (b) the full-needed gate and (c) what a snapshot sink leaves behind.
//
//   VerifC09Gate      Sink.Write / processHeader with the header arriving in any split, the
//                     snapshot-type controller as an interface model; after a refused Write the
//                     caller stops, goes on writing or offers the stream again; then Close or Cancel
//   VerifC09Close     Sink.Close (incremental and full) with every step failing in turn - which for
//                     an incremental snapshot ends the process - then a restart (Store.check) and
//                     a catalog scan
//   VerifC09History   sequences of snapshot attempts, "full needed" requests and restarts with
//                     the real Store as the controller (FULL_NEEDED flag file)
//
// No protocol is assumed of the caller: hashicorp/raft and the FSM snapshot cancel a sink after
// a Write error, but the property speaks of every sequence of create / write / close / cancel, so
// VerifC09Gate and VerifC09History also close a sink whose Write was refused (and write to it
// again before that). VerifC09Close / Abandon / CrashPoints start from an accepted stream.

import (
	"encoding/binary"
	"errors"
	"io"
	"log"
	"os"
	"path/filepath"

	"github.com/hashicorp/raft"
	"github.com/rqlite/rqlite/v10/internal/rsync"
	"github.com/rqlite/rqlite/v10/snapshot/proto"
	pb "google.golang.org/protobuf/proto"
)

// ---------------------------------------------------------------- the snapshot-type controller model

type vSTC struct {
	due      Type
	dueErr   error
	setErr   error
	setDies  bool // the process dies inside SetDueNext
	dueCalls int
	sets     []Type

	// what the store directory looked like when SetDueNext was called
	final, tmp      string
	sawFinal, sawTmp bool
}

var vErrSTC = errors.New("verif: controller failure")

func (c *vSTC) DueNext() (Type, error) {
	c.dueCalls++
	return c.due, c.dueErr
}

func (c *vSTC) SetDueNext(t Type) error {
	c.sets = append(c.sets, t)
	c.sawFinal = vIsDir(c.final) && vExists(metaPath(c.final))
	c.sawTmp = vExists(c.tmp)
	if c.setDies {
		panic(vCrash{"in SetDueNext"})
	}
	return c.setErr
}

// ---------------------------------------------------------------- headers

const (
	vHdrIncremental = iota
	vHdrFull
	vHdrNoPayload
	vHdrGarbage
	vHdrKinds
)

type vSinkWorld struct {
	root   string
	dir    string // store directory
	walDir string // staged WAL files of the incremental snapshot
	src    string // native: the database file a full snapshot is streamed from
	pre    []vSnap
	meta   *raft.SnapshotMeta
}

var vSW *vSinkWorld

var vToyMagic byte = 0xC9

// vHeaderBytes is the marshalled snapshot header of the given kind: the real protobuf encoding
// natively, a toy encoding understood by vPbUnmarshal in the symbolic run.
func (w *vSinkWorld) headerBytes(kind int) []byte {
	if verifSymbolic() {
		return []byte{vToyMagic, byte(kind), 1, 2, 3, 4}
	}
	var h *proto.SnapshotHeader
	var err error
	switch kind {
	case vHdrIncremental:
		h, err = NewIncrementalFileSnapshotHeader(w.walDir)
	case vHdrFull:
		h, err = NewSnapshotHeader(w.src)
	case vHdrNoPayload:
		h = &proto.SnapshotHeader{FormatVersion: 1}
	default:
		return []byte{0xff, 0xff, 0xff, 0xff, 0xff, 0xff}
	}
	vMust(err)
	b, err := marshalSnapshotHeader(h)
	vMust(err)
	return b
}

// google.golang.org/protobuf/proto.Unmarshal (symbolic run): decodes the toy encoding.
func vPbUnmarshal(b []byte, m pb.Message) error {
	h, ok := m.(*proto.SnapshotHeader)
	if !ok || len(b) != 6 || b[0] != vToyMagic {
		return errors.New("verif: cannot parse invalid wire-format data")
	}
	h.FormatVersion = 1
	switch int(b[1]) {
	case vHdrIncremental:
		h.Payload = &proto.SnapshotHeader_IncrementalFile{IncrementalFile: &proto.IncrementalFileSnapshot{WalDirPath: vSW.walDir}}
	case vHdrFull:
		h.Payload = &proto.SnapshotHeader_Full{Full: &proto.FullSnapshot{DbHeader: &proto.Header{SizeBytes: uint64(len(vSQLiteHdr)), Crc32: vCRCOf(vSQLiteHdr)}}}
	case vHdrNoPayload:
	default:
		return errors.New("verif: cannot parse invalid wire-format data")
	}
	return nil
}

// Models of the streaming sink of a full snapshot (its own correctness is C10's subject):
// Open creates the database file in the temporary directory, Write appends, Close succeeds
// exactly when all announced bytes arrived and then records the checksum.
func vFullSinkOpen(s *FullSink) error {
	if s.opened {
		return ErrSinkOpen
	}
	if s.header == nil || s.header.DbHeader == nil {
		return ErrHeaderInvalid
	}
	if err := os.MkdirAll(s.dir, 0o755); err != nil {
		return err
	}
	if err := os.WriteFile(s.dbFile, nil, 0o644); err != nil {
		return err
	}
	s.opened = true
	s.remaining = s.header.DbHeader.SizeBytes
	return nil
}

func vFullSinkWrite(s *FullSink, p []byte) (int, error) {
	if !s.opened {
		return 0, ErrSinkNotOpen
	}
	if len(p) == 0 {
		return 0, nil
	}
	// as the real sink: the announced bytes are taken, whatever follows them is refused
	k := len(p)
	if uint64(k) > s.remaining {
		k = int(s.remaining)
	}
	if k > 0 {
		n := vFS.nodes[s.dbFile]
		vFS.tick("append " + s.dbFile)
		n.data = append(n.data, p[:k]...)
		s.remaining -= uint64(k)
	}
	if k < len(p) {
		return k, ErrUnexpectedData
	}
	return k, nil
}

func vFullSinkClose(s *FullSink) error {
	if !s.opened {
		return ErrSinkNotOpen
	}
	s.opened = false
	if s.remaining != 0 {
		return ErrIncomplete
	}
	if !vIsValidSQLiteFile(s.dbFile) {
		return ErrInvalidSQLiteFile
	}
	n := vFS.nodes[s.dbFile]
	n.crc = vCRCOf(n.data)
	if n.crc != s.header.DbHeader.Crc32 {
		return errors.New("verif: CRC32 mismatch for DB file")
	}
	return vSidecarWrite(s.dbFile+crcSuffix, n.crc)
}

// ---------------------------------------------------------------- world

var vPreWorlds = [][]vSnap{
	nil,
	{{id: "1-10-100", full: true, term: 1, index: 10}},
	{{id: "1-10-100", full: true, term: 1, index: 10, wals: 1}, {id: "1-20-200", term: 1, index: 20, wals: 1}},
}

const vNewID = "1-30-300"

var vStagedWALs = []string{"000000000000000000000001-000001.wal", "000000000000000000000002-000002.wal"}

func vNewSinkWorld(pre []vSnap, stagedWALs int) *vSinkWorld {
	root := vNewRoot("vc09")
	w := &vSinkWorld{root: root, dir: filepath.Join(root, "store"), walDir: filepath.Join(root, "wal"),
		src: filepath.Join(root, "src.db"), pre: pre}
	vSW = w
	vMust(os.MkdirAll(w.dir, 0o755))
	for _, sp := range pre {
		vPutSnapshot(w.dir, sp)
	}
	vMust(os.MkdirAll(w.walDir, 0o755))
	for i := 0; i < stagedWALs; i++ {
		vWriteData(filepath.Join(w.walDir, vStagedWALs[i]), vWALHdr)
	}
	vMust(os.WriteFile(w.src, vSQLiteHdr, 0o644))
	w.meta = &raft.SnapshotMeta{Version: 1, ID: vNewID, Index: 30, Term: 1}
	return w
}

func (w *vSinkWorld) drop() { vDropRoot(w.root) }

func (w *vSinkWorld) finalPath() string { return filepath.Join(w.dir, vNewID) }
func (w *vSinkWorld) tmpPath() string   { return tmpName(w.finalPath()) }

func (w *vSinkWorld) newSink(stc snapshotTypeController, ch chan struct{}) *Sink {
	s := NewSink(w.dir, w.meta, stc, ch)
	s.logger = log.New(io.Discard, "", 0)
	// production: an error while closing an incremental snapshot ends the process
	s.fatalFn = func(err error) { panic(vCrash{"fatal: " + err.Error()}) }
	return s
}

// vBareStore is a Store over the directory as NewStore builds it, minus the reaper goroutine and
// the start-up check (the harness calls check itself).
func vBareStore(dir string) *Store {
	return &Store{
		dir:            dir,
		fullNeededPath: filepath.Join(dir, fullNeededFile),
		reapPlanPath:   filepath.Join(dir, reapPlanFile),
		logger:         log.New(io.Discard, "", 0),
		catalog:        &SnapshotCatalog{},
		mrsw:           rsync.NewMultiRSW(),
		reapDisabled:   &rsync.AtomicBool{},
		noVerifyDB:     &rsync.AtomicBool{},
		reapThreshold:  defaultReapThreshold,
		reapCh:         make(chan struct{}, 1),
		reapDoneCh:     make(chan struct{}),
		observers:      newObserverSet(),
	}
}

// vDies runs f; it reports whether the process "died" inside it (fatalFn or a dying controller).
func vDies(f func()) (died bool) {
	defer func() {
		if r := recover(); r != nil {
			if _, ok := r.(vCrash); ok {
				died = true
				return
			}
			panic(r)
		}
	}()
	f()
	return false
}

// vCheckCatalog: the directory lists exactly `want` (oldest first), newest first through the
// store API, no temporary directory is ever listed, and (when asked) everything listed resolves
// to one database plus an ordered chain of WAL files.
func vCheckCatalog(tag string, dir string, want []vSnap, resolvable bool) {
	ss, err := (&SnapshotCatalog{}).Scan(dir)
	verifAssert("C09-"+tag+"-scan-ok", err == nil)
	verifAssert("C09-"+tag+"-lists-exactly-the-installed-snapshots", vSameStrings(ss.IDs(), vIDs(want)))
	for _, it := range ss.items {
		verifAssert("C09-"+tag+"-no-tmp-listed", !isTmpName(it.id))
	}
	st := vBareStore(dir)
	metas, err := st.ListAll()
	verifAssert("C09-"+tag+"-listall-ok", err == nil && len(metas) == len(want))
	for i := range metas {
		verifAssert("C09-"+tag+"-listall-newest-first", metas[i].ID == want[len(want)-1-i].id)
	}
	latest, err := st.List()
	verifAssert("C09-"+tag+"-list-is-newest", err == nil && (len(want) == 0 && len(latest) == 0 || len(latest) == 1 && latest[0].ID == want[len(want)-1].id))
	if resolvable {
		for i := range want {
			db, wals, err := ss.ResolveFiles(want[i].id)
			wantDB, wantWALs, ok := vExpectFiles(dir, want, i)
			verifAssert("C09-"+tag+"-every-listed-snapshot-resolves", ok && err == nil && db != nil && db.Path == wantDB && len(wals) == len(wantWALs))
		}
	}
}

// vRestart: what NewStore does with the directory before anything else.
func vRestart(dir string) {
	st := vBareStore(dir)
	verifAssert("C09-restart-check-ok", st.check() == nil)
	for _, name := range vList(dir) {
		verifAssert("C09-restart-removes-temporary-directories", !isTmpName(name))
	}
}

// ---------------------------------------------------------------- (b) the gate

// vCuts: where the stream may be cut, relative to its parts (the encodings of the two worlds
// differ in length): inside the length prefix, at its end, inside the header, at its end, inside
// the announced payload, at its end, at the end of whatever follows it (xlen bytes nobody
// announced).
func vCuts(hlen, plen, xlen int) []int {
	c := []int{1, HeaderSizeLen, HeaderSizeLen + 1, HeaderSizeLen + hlen - 1, HeaderSizeLen + hlen}
	if plen > 0 {
		c = append(c, HeaderSizeLen+hlen+1)
		if plen > 1 {
			c = append(c, HeaderSizeLen+hlen+plen)
		}
	}
	if xlen > 0 {
		c = append(c, HeaderSizeLen+hlen+plen+xlen)
	}
	return c
}

// VerifC09Gate: an incremental header is accepted only if the controller does not ask for a
// full snapshot, whatever the split of the stream; nothing but a completely and successfully
// written snapshot is installed, and only that clears the requirement - whatever the caller does
// with the sink after a Write was refused (stop, go on writing, offer the stream again; then
// Close or Cancel).
func VerifC09Gate() {
	verifPanicsAreViolations()
	kind := vChoice("kind", vHdrKinds)
	w := vNewSinkWorld(vPreWorlds[1], 1)
	defer w.drop()

	stc := &vSTC{due: Incremental, final: w.finalPath(), tmp: w.tmpPath()}
	due := 0
	if kind == vHdrIncremental {
		due = vChoice("due", 3) // what is due matters to incremental headers only
	} else if kind == vHdrFull {
		due = vChoice("dueFull", 2)
	}
	switch due {
	case 1:
		stc.due = Full
	case 2:
		stc.due, stc.dueErr = Incremental, vErrSTC
	}
	gateOpen := stc.due != Full && stc.dueErr == nil

	// the stream: length prefix, header, the payload the header announces, optionally one byte
	// nobody announced
	hdr := w.headerBytes(kind)
	var payload, extra []byte
	if kind == vHdrFull {
		payload = vSQLiteHdr
	}
	if kind == vHdrFull || kind == vHdrIncremental {
		if vChoice("trailing", 2) == 1 {
			extra = []byte{0xEE}
		}
	}
	stream := make([]byte, HeaderSizeLen, HeaderSizeLen+len(hdr)+len(payload)+len(extra))
	binary.BigEndian.PutUint32(stream, uint32(len(hdr)))
	stream = append(stream, hdr...)
	stream = append(stream, payload...)
	stream = append(stream, extra...)
	hdrEnd := HeaderSizeLen + len(hdr)
	dataEnd := hdrEnd + len(payload)

	// cut it into at most three writes; optionally the stream ends early
	// (quick tier: every single cut, and three writes around the end of the header; thorough:
	// every pair of cuts)
	cuts := vCuts(len(hdr), len(payload), len(extra))
	i := vChoice("cut1", len(cuts))
	j := i
	if verifTier() == 1 {
		j = i + vChoice("cut2", len(cuts)-i)
	} else if i == 1 && vChoice("cut2", 2) == 1 {
		j = 4
	}
	bounds := []int{0, cuts[i]}
	if j > i {
		bounds = append(bounds, cuts[j])
	}
	if bounds[len(bounds)-1] < len(stream) && (due != 0 || vChoice("truncated", 2) == 0) {
		bounds = append(bounds, len(stream))
	}
	sent := bounds[len(bounds)-1]

	ch := make(chan struct{}, 1)
	sink := w.newSink(stc, ch)
	verifAssert("C09-sink-open-ok", sink.Open() == nil)
	verifAssert("C09-open-creates-only-a-temporary-directory", vIsDir(w.tmpPath()) && !vExists(w.finalPath()))

	// what must happen, from the description of the stream alone:
	//   written  everything a snapshot consists of arrived and was acceptable (an incremental
	//            header is acceptable only while no full snapshot is due)
	//   good     ... and nothing else arrived: every Write must succeed, Close must install it
	// A snapshot that is not `written` must never be installed, whatever the caller does.
	written := kind == vHdrFull && sent >= dataEnd || kind == vHdrIncremental && sent >= hdrEnd && gateOpen
	good := written && sent == dataEnd

	failed := false // some Write reported an error
	for k := 1; k < len(bounds); k++ {
		p := stream[bounds[k-1]:bounds[k]]
		n, err := sink.Write(p)
		if failed {
			continue // the caller goes on writing after a refusal: no answer is prescribed
		}
		if err != nil {
			failed = true
			// what the caller does next: finish at once (0), offer the whole stream again (1),
			// or go on with the rest of the stream (2)
			opts := 2
			if k < len(bounds)-1 {
				opts = 3
			}
			after := vChoice("afterFail", opts)
			if after == 1 {
				sink.Write(stream)
				verifReach("wrote-after-refusal")
			}
			if after != 2 {
				break
			}
			verifReach("wrote-after-refusal")
			continue
		}
		verifAssert("C09-write-consumes-everything-it-accepts", n == len(p))
		if bounds[k] >= hdrEnd && kind == vHdrIncremental && !gateOpen {
			// the header is complete and asks for an incremental snapshot while a full one is due
			verifAssert("C09-incremental-refused-while-full-needed", false)
		}
		if bounds[k] >= hdrEnd && (kind == vHdrNoPayload || kind == vHdrGarbage) {
			verifAssert("C09-bad-header-refused", false)
		}
		if bounds[k] > hdrEnd && kind == vHdrIncremental {
			verifAssert("C09-data-after-incremental-header-refused", false)
		}
	}
	if kind == vHdrIncremental && sent >= hdrEnd {
		verifAssert("C09-controller-consulted-for-incremental", stc.dueCalls >= 1)
		if !gateOpen {
			verifReach("gate-closed")
			verifAssert("C09-gate-closed-write-fails", failed)
		}
	}
	if good {
		verifAssert("C09-good-stream-accepted", !failed)
	}
	verifAssert("C09-writes-never-touch-the-requirement", len(stc.sets) == 0)
	verifAssert("C09-writes-never-publish", !vExists(w.finalPath()))

	// finish: the caller closes or cancels, also after a refused Write (hashicorp/raft cancels
	// then; the property speaks of every sequence)
	cancel := vChoice("finish", 2) == 1
	// a full snapshot whose header arrived but whose data did not: finishing it reports the
	// missing data (and may leave the temporary directory to the next start)
	shortFull := kind == vHdrFull && sent >= hdrEnd && sent < dataEnd
	var cerr error
	if cancel {
		cerr = sink.Cancel()
		verifAssert("C09-cancel-ok", cerr == nil || shortFull)
		verifReach("cancelled")
	} else {
		died := vDies(func() { cerr = sink.Close() })
		if !failed {
			verifAssert("C09-close-does-not-die-without-faults", !died)
		} else if died {
			// a process that ends here is a crash like any other: the next start cleans up
			vRestart(w.dir)
		}
	}
	// Installed: a good stream that is closed must be; a written snapshot followed by bytes
	// nobody announced (which Write refuses) may or may not be - the snapshot itself is whole;
	// everything else must not be.
	installed := good && !cancel
	if written && !good && !cancel {
		verifReach("closed-after-excess-data")
		installed = vExists(w.finalPath())
	}
	want := append([]vSnap(nil), w.pre...)
	if installed {
		verifReach("installed")
		if kind == vHdrFull {
			verifReach("installed-full")
		}
		ns := vSnap{id: vNewID, full: kind == vHdrFull, term: 1, index: 30}
		if !ns.full {
			ns.wals = 1
		}
		want = append(want, ns)
		if good {
			verifAssert("C09-close-ok-on-good-stream", cerr == nil)
		}
		verifAssert("C09-requirement-cleared-once-by-install", len(stc.sets) == 1 && stc.sets[0] == Incremental)
		verifAssert("C09-requirement-cleared-after-publication", stc.sawFinal && !stc.sawTmp)
		if cerr == nil {
			verifAssert("C09-close-signals-reaper", len(ch) == 1)
		}
	} else {
		verifAssert("C09-requirement-cleared-only-by-install", len(stc.sets) == 0)
		verifAssert("C09-nothing-published", !vExists(w.finalPath()))
		verifAssert("C09-no-signal-without-install", len(ch) == 0)
		if !cancel && shortFull {
			verifReach("closed-short-full")
			verifAssert("C09-close-of-short-full-snapshot-fails", cerr != nil)
		} else if !cancel && failed {
			// (what Close answers after a refused Write is not C09's subject)
			verifReach("closed-after-refused-write")
			if kind == vHdrIncremental && !gateOpen {
				verifReach("closed-after-gate-refusal")
			}
		} else if !cancel {
			verifReach("closed-without-header")
			verifAssert("C09-header-never-completed", sent < hdrEnd)
			// (what Close answers for a stream that ended inside the header is C10's subject:
			// since fix 37e7b49 it is an error; C09 only needs that nothing was published)
		}
		if kind == vHdrIncremental {
			verifAssert("C09-refused-incremental-leaves-staged-wals", vExists(filepath.Join(w.walDir, vStagedWALs[0])))
		}
	}
	if cerr == nil {
		verifAssert("C09-finished-sink-leaves-no-temporary-directory", !vExists(w.tmpPath()))
	}
	// finishing twice changes nothing
	verifAssert("C09-second-close-is-noop", sink.Close() == nil && sink.Cancel() == nil)
	verifAssert("C09-second-close-leaves-requirement", len(stc.sets) <= 1)
	vCheckCatalog("gate", w.dir, want, true)
}

// ---------------------------------------------------------------- (c) Close, step by step

const (
	vFailNone       = iota
	vFailFirstStep  // incremental: the staged directory has vanished; full: the stream is short
	vFailMoveWALs   // incremental: a staged WAL file has no checksum record
	vFailRemoveDir  // incremental: something else sits in the staged directory
	vFailWriteMeta  // meta.json cannot be created
	vFailPublish    // the final name is taken by a non-empty directory
	vFailController // SetDueNext reports an error
	vDieController  // the process dies inside SetDueNext
	vFailCount
)

// VerifC09Close: whatever step of Close fails (for an incremental snapshot that ends the
// process, as does a crash), the store lists exactly the snapshots whose final rename happened,
// before and after a restart; temporary directories are never listed and are gone after the
// restart; the requirement is cleared only after a publication every earlier step of which
// succeeded.
func VerifC09Close() {
	verifPanicsAreViolations()
	incremental := vChoice("incremental", 2) == 1
	fail := vChoice("fail", vFailCount)
	if !incremental && (fail == vFailMoveWALs || fail == vFailRemoveDir) {
		return
	}
	pre, staged := vPreWorlds[2], 2
	if verifTier() == 1 {
		pre = vPreWorlds[1+vChoice("pre", 2)]
		staged = 1 + vChoice("stagedWALs", 2)
	}
	if !incremental {
		staged = 0
	}
	w := vNewSinkWorld(pre, staged)
	defer w.drop()
	newSnap := vSnap{id: vNewID, full: !incremental, term: 1, index: 30, wals: staged}
	want := append([]vSnap(nil), w.pre...)

	stc := &vSTC{due: Incremental, final: w.finalPath(), tmp: w.tmpPath()}
	ch := make(chan struct{}, 1)
	sink := w.newSink(stc, ch)
	if incremental && vChoice("fatalOff", 2) == 1 {
		sink.fatalFn = nil // as in the package's tests: the error is returned instead
	}

	// faults that exist before the sink is opened
	switch fail {
	case vFailPublish:
		// a complete snapshot already sits under the new snapshot's name
		vPutSnapshot(w.dir, vSnap{id: vNewID, full: true, term: 1, index: 30})
		want = append(want, vSnap{id: vNewID, full: true, term: 1, index: 30})
	case vFailFirstStep:
		if incremental {
			vMust(os.RemoveAll(w.walDir))
		}
	case vFailMoveWALs:
		vMust(os.Remove(filepath.Join(w.walDir, vStagedWALs[staged-1]) + crcSuffix))
	case vFailRemoveDir:
		vMust(os.WriteFile(filepath.Join(w.walDir, "junk"), []byte{1}, 0o644))
	case vFailController:
		stc.setErr = vErrSTC
	case vDieController:
		stc.setDies = true
	}

	verifAssert("C09-sink-open-ok", sink.Open() == nil)
	kind := vHdrFull
	payload := vSQLiteHdr
	if incremental {
		kind, payload = vHdrIncremental, nil
	} else if fail == vFailFirstStep {
		payload = payload[:len(payload)-1]
	}
	hdr := w.headerBytes(kind)
	stream := make([]byte, HeaderSizeLen, HeaderSizeLen+len(hdr)+len(payload))
	binary.BigEndian.PutUint32(stream, uint32(len(hdr)))
	stream = append(stream, hdr...)
	stream = append(stream, payload...)
	n, err := sink.Write(stream)
	verifAssert("C09-stream-accepted", err == nil && n == len(stream))
	if fail == vFailWriteMeta {
		vMust(os.MkdirAll(metaPath(w.tmpPath()), 0o755))
	}

	var cerr error
	died := vDies(func() { cerr = sink.Close() })

	// the oracle: the snapshot is published iff every step up to the rename succeeded
	published := fail == vFailNone || fail == vFailController || fail == vDieController
	if published {
		want = append(want, newSnap)
		verifReach("published")
	} else {
		verifReach("not-published")
	}
	wantDeath := fail == vDieController || fail != vFailNone && incremental && sink.fatalFn != nil
	verifAssert("C09-failed-incremental-close-ends-the-process", died == wantDeath)
	if died {
		verifReach("died")
	} else {
		verifAssert("C09-close-error-iff-a-step-failed", (cerr == nil) == (fail == vFailNone))
		verifAssert("C09-close-signals-reaper-iff-ok", len(ch) == 1 == (cerr == nil))
	}
	if published {
		verifAssert("C09-requirement-cleared-once-by-install", len(stc.sets) == 1 && stc.sets[0] == Incremental)
		verifAssert("C09-requirement-cleared-after-publication", stc.sawFinal && !stc.sawTmp)
	} else {
		verifAssert("C09-requirement-cleared-only-after-every-step-succeeded", len(stc.sets) == 0)
	}
	if fail != vFailPublish {
		verifAssert("C09-published-iff-steps-succeeded", vExists(w.finalPath()) == published)
	}

	// the running store (if the process survived) sees a well-formed catalog ...
	if !died {
		if vChoice("cancelAfter", 2) == 1 {
			verifAssert("C09-cancel-after-close-ok", sink.Cancel() == nil)
		}
		vCheckCatalog("live", w.dir, want, true)
	}
	// ... and so does the next start, which also clears away what was left behind
	if !published {
		if vExists(w.tmpPath()) {
			verifReach("tmp-left-behind")
		}
	}
	vRestart(w.dir)
	vCheckCatalog("restarted", w.dir, want, true)
}

// VerifC09Abandon: the process dies at any moment before Close (temporary directory with
// whatever was written so far): nothing is listed, the restart removes it.
func VerifC09Abandon() {
	verifPanicsAreViolations()
	pre := vPreWorlds[2]
	if verifTier() == 1 {
		pre = vPreWorlds[vChoice("pre", 3)]
	}
	w := vNewSinkWorld(pre, 1)
	defer w.drop()
	stc := &vSTC{due: Incremental, final: w.finalPath(), tmp: w.tmpPath()}
	sink := w.newSink(stc, nil)
	verifAssert("C09-sink-open-ok", sink.Open() == nil)
	kind := vChoice("kind", 2)
	hdr := w.headerBytes(kind)
	stream := make([]byte, HeaderSizeLen, HeaderSizeLen+len(hdr)+len(vSQLiteHdr))
	binary.BigEndian.PutUint32(stream, uint32(len(hdr)))
	stream = append(stream, hdr...)
	if kind == vHdrFull {
		stream = append(stream, vSQLiteHdr...)
	}
	cuts := []int{0, 2, HeaderSizeLen + len(hdr), len(stream) - 1, len(stream)}
	upto := cuts[vChoice("upto", len(cuts))]
	if upto > 0 {
		_, err := sink.Write(stream[:upto])
		verifAssert("C09-prefix-of-good-stream-accepted", err == nil)
	}
	verifReach("abandoned")
	verifAssert("C09-unfinished-sink-publishes-nothing", !vExists(w.finalPath()) && len(stc.sets) == 0)
	vCheckCatalog("abandoned", w.dir, w.pre, true)
	vRestart(w.dir)
	vCheckCatalog("abandoned-restarted", w.dir, w.pre, true)
}

// VerifC09CrashPoints (symbolic run only - the real file system cannot be stopped between two
// calls): the process dies instead of the k-th mutating file-system call of the sink's life
// (Open, Write, Close), for every k. Calls that completed persist, the interrupted one does not
// happen. After the restart the store lists exactly the snapshots whose final rename happened.
func VerifC09CrashPoints() {
	if !verifSymbolic() {
		return
	}
	verifPanicsAreViolations()
	incremental := vChoice("incremental", 2) == 1
	pre, staged := vPreWorlds[2], 2
	if verifTier() == 1 {
		pre = vPreWorlds[1+vChoice("pre", 2)]
	}
	if !incremental {
		staged = 0
	}
	w := vNewSinkWorld(pre, staged)
	defer w.drop()
	stc := &vSTC{due: Incremental, final: w.finalPath(), tmp: w.tmpPath()}
	sink := w.newSink(stc, nil)
	kind, payload := vHdrFull, vSQLiteHdr
	if incremental {
		kind, payload = vHdrIncremental, nil
	}
	hdr := w.headerBytes(kind)
	stream := make([]byte, HeaderSizeLen, HeaderSizeLen+len(hdr)+len(payload))
	binary.BigEndian.PutUint32(stream, uint32(len(hdr)))
	stream = append(stream, hdr...)
	stream = append(stream, payload...)

	j0 := len(vFS.journal)
	k := vChoice("crashAt", 14)
	t0 := vFS.ticks
	vFS.crashAt = t0 + k
	var cerr error
	died := vDies(func() {
		verifAssert("C09-sink-open-ok", sink.Open() == nil)
		_, err := sink.Write(stream)
		verifAssert("C09-stream-accepted", err == nil)
		cerr = sink.Close()
	})
	steps := vFS.ticks - t0
	vFS.crashAt = -1
	if died {
		verifReach("crashed")
		verifAssert("C09-crash-is-the-injected-one", steps == k)
	} else {
		verifReach("ran-to-completion")
		verifAssert("C09-close-ok", cerr == nil)
	}
	// the oracle: what the journal says about the final rename
	renamed := false
	for _, e := range vFS.journal[j0:] {
		if e == "rename "+w.tmpPath()+" "+w.finalPath() {
			renamed = true
		}
	}
	want := append([]vSnap(nil), w.pre...)
	if renamed {
		if died {
			verifReach("crashed-after-publication")
		}
		want = append(want, vSnap{id: vNewID, full: !incremental, term: 1, index: 30, wals: staged})
	} else {
		verifReach("crashed-before-publication")
		verifAssert("C09-requirement-cleared-only-after-publication", len(stc.sets) == 0)
	}
	verifAssert("C09-published-iff-final-rename-happened", vExists(w.finalPath()) == renamed)
	if len(stc.sets) > 0 {
		verifAssert("C09-requirement-cleared-after-publication", len(stc.sets) == 1 && stc.sets[0] == Incremental && stc.sawFinal && !stc.sawTmp)
	}
	// what a store that kept running would list (nothing here depends on the dead process) ...
	vCheckCatalog("crash-live", w.dir, want, true)
	// ... and the next start
	vRestart(w.dir)
	vCheckCatalog("crash-restarted", w.dir, want, true)
}

// ---------------------------------------------------------------- histories with the real controller

// VerifC09History: sequences of snapshot attempts (full / incremental; closed, cancelled,
// abandoned), explicit "full needed" requests and restarts against the real Store methods
// DueNext / SetDueNext. Reference: the list of installed snapshots and one flag.
func VerifC09History() {
	verifPanicsAreViolations()
	root := vNewRoot("vc09")
	defer vDropRoot(root)
	dir := filepath.Join(root, "store")
	vMust(os.MkdirAll(dir, 0o755))
	w := &vSinkWorld{root: root, dir: dir, src: filepath.Join(root, "src.db")}
	vSW = w
	vMust(os.WriteFile(w.src, vSQLiteHdr, 0o644))
	st := vBareStore(dir)

	var installed []vSnap
	fullNeeded := false // the reference flag
	// start: a new store, or one that holds a full snapshot (with or without a pending request
	// for a full snapshot)
	if start := vChoice("start", 3); start > 0 {
		installed = append(installed, vSnap{id: "1-05-050", full: true, term: 1, index: 5})
		vPutSnapshot(dir, installed[0])
		if start == 2 {
			vMust(os.WriteFile(st.fullNeededPath, nil, 0o644))
			fullNeeded = true
		}
	}
	steps := 2 + verifTier()
	// quick tier: 6 of the 8 operations (a cancelled full and an abandoned incremental attempt
	// are left to the thorough tier)
	ops := []int{0, 2, 3, 4, 6, 7}
	if verifTier() == 1 {
		ops = []int{0, 1, 2, 3, 4, 5, 6, 7}
	}
	for step := 0; step < steps; step++ {
		// what the store says is due must follow the reference
		due, err := st.DueNext()
		wantFull := fullNeeded || len(installed) == 0
		verifAssert("C09-due-next-ok", err == nil)
		verifAssert("C09-full-due-iff-needed-or-empty", (due == Full) == wantFull)

		op := ops[vChoice(verifName("op", step), len(ops))]
		switch {
		case op == 6: // somebody asks for a full snapshot (e.g. after a failed incremental)
			verifAssert("C09-set-full-needed-ok", st.SetDueNext(Full) == nil)
			fullNeeded = true
			verifReach("full-requested")
		case op == 7: // restart
			vRestart(dir)
			st = vBareStore(dir)
			verifReach("restarted")
		default:
			incremental := op >= 3
			finish := op % 3 // 0 close, 1 cancel, 2 abandon (the process dies before Close)
			id := "1-" + string(rune('1'+step)) + "0-" + string(rune('1'+step)) + "00"
			w.meta = &raft.SnapshotMeta{Version: 1, ID: id, Index: uint64(10 * (step + 1)), Term: 1}
			w.walDir = filepath.Join(root, "wal"+string(rune('1'+step)))
			vMust(os.MkdirAll(w.walDir, 0o755))
			vWriteData(filepath.Join(w.walDir, vStagedWALs[0]), vWALHdr)
			sink := w.newSink(st, nil)
			verifAssert("C09-sink-open-ok", sink.Open() == nil)
			kind, payload := vHdrFull, vSQLiteHdr
			if incremental {
				kind, payload = vHdrIncremental, nil
			}
			hdr := w.headerBytes(kind)
			stream := make([]byte, HeaderSizeLen, HeaderSizeLen+len(hdr)+len(payload))
			binary.BigEndian.PutUint32(stream, uint32(len(hdr)))
			stream = append(stream, hdr...)
			stream = append(stream, payload...)
			_, werr := sink.Write(stream)
			if incremental {
				verifAssert("C09-incremental-accepted-iff-no-full-due", (werr == nil) == !wantFull)
				if wantFull {
					verifReach("history-gate-closed")
				}
			} else {
				verifAssert("C09-full-always-accepted", werr == nil)
			}
			if werr != nil && vChoice(verifName("again", step), 2) == 1 {
				// the caller offers the refused payload once more
				sink.Write(stream)
				verifReach("history-wrote-after-refusal")
			}
			switch {
			case finish == 1:
				verifAssert("C09-cancel-ok", sink.Cancel() == nil)
			case finish == 0 && werr != nil:
				// Close after a refused Write (whatever it answers): nothing is installed, the
				// requirement stays - checked below against the unchanged reference
				verifReach("history-closed-after-refusal")
				if vDies(func() { sink.Close() }) {
					vRestart(dir)
					st = vBareStore(dir)
				}
				verifAssert("C09-refused-snapshot-never-installed", !vExists(filepath.Join(dir, id)))
			case finish == 0:
				var cerr error
				died := vDies(func() { cerr = sink.Close() })
				verifAssert("C09-close-ok", !died && cerr == nil)
				installed = append(installed, vSnap{id: id, full: !incremental, term: 1, index: uint64(10 * (step + 1)), wals: 0})
				if incremental {
					installed[len(installed)-1].wals = 1
					verifReach("history-incremental-installed")
				}
				if fullNeeded {
					verifReach("requirement-cleared")
				}
				fullNeeded = false // cleared by, and only by, a successfully installed snapshot
			default:
				// abandoned: the sink is never finished; the next start finds its directory
			}
		}
		vCheckCatalog("history", dir, installed, true)
		verifAssert("C09-flag-file-follows-requirement", vExists(st.fullNeededPath) == fullNeeded)
	}
	due, err := st.DueNext()
	verifAssert("C09-due-next-ok", err == nil)
	verifAssert("C09-full-due-iff-needed-or-empty", (due == Full) == (fullNeeded || len(installed) == 0))
}
