package snapshot

// vChoice is verifChoice, except in the native sweep test (sweep_test.go), which walks through
// every choice vector of an entry on the real file system to confirm that the real calls behave
// as the models of fsmodel.go say.

type vSweeper struct {
	trail []int // the choices of this run (a prefix is given, the rest is filled with 0)
	ns    []int // the number of alternatives of each choice made in this run
	pos   int
}

var vSweep *vSweeper

func vChoice(name string, n int) int {
	if vSweep == nil {
		return verifChoice(name, n)
	}
	s := vSweep
	if s.pos == len(s.trail) {
		s.trail = append(s.trail, 0)
	}
	v := s.trail[s.pos]
	s.ns = append(s.ns, n)
	s.pos++
	return v
}

// next advances to the next choice vector (depth first); false when all have been visited.
func (s *vSweeper) next() bool {
	s.trail = s.trail[:s.pos]
	for i := len(s.trail) - 1; i >= 0; i-- {
		if s.trail[i]+1 < s.ns[i] {
			s.trail[i]++
			s.trail = s.trail[:i+1]
			return true
		}
	}
	return false
}
