package wal

import (
	"bytes"
	"encoding/binary"
	"io"
)

// C05: a WAL image is built frame by frame from symbolic fields, served through the real
// bytes.Reader to the real compacting scanner + writer, and the output is judged by a
// reference written from the SQLite file-format document (not from the code under test):
//   valid prefix  = longest run of frames carrying the header's salts and a correct cumulative checksum
//   committed     = frames of that run up to its last commit frame
//   checkpoint(F) = per page the last image in F, pages beyond the final size dropped, size = last commit field

const (
	vPg  = 8        // page size used in the harness (one checksum round per page)
	vFrm = 24 + vPg // frame size
)

// reference checksum (SQLite file format, "WAL checksum algorithm")
func vSum(le bool, s0, s1 uint32, b []byte) (uint32, uint32) {
	for i := 0; i+8 <= len(b); i += 8 {
		var x, y uint32
		if le {
			x = uint32(b[i]) | uint32(b[i+1])<<8 | uint32(b[i+2])<<16 | uint32(b[i+3])<<24
			y = uint32(b[i+4]) | uint32(b[i+5])<<8 | uint32(b[i+6])<<16 | uint32(b[i+7])<<24
		} else {
			x = uint32(b[i])<<24 | uint32(b[i+1])<<16 | uint32(b[i+2])<<8 | uint32(b[i+3])
			y = uint32(b[i+4])<<24 | uint32(b[i+5])<<16 | uint32(b[i+6])<<8 | uint32(b[i+7])
		}
		s0 += x + s1
		s1 += y + s0
	}
	return s0, s1
}

func vPut32(b []byte, v uint32) {
	b[0], b[1], b[2], b[3] = byte(v>>24), byte(v>>16), byte(v>>8), byte(v)
}
func vGet32(b []byte) uint32 {
	return uint32(b[0])<<24 | uint32(b[1])<<16 | uint32(b[2])<<8 | uint32(b[3])
}

type vWAL struct {
	le           bool
	salt1, salt2 uint32
	n            int      // frames written into the image
	pgno         []uint32 // per frame
	commit       []uint32
	data         [][]byte
	valid        int // number of leading frames that are valid by the reference definition
	img          []byte
}

const (
	vFaultNone = iota
	vFaultSalt
	vFaultCksum
	vFaultTruncHdr  // the image ends inside the frame header
	vFaultTruncData // the image ends inside the page data
	vNumFaults
)

// vBuild creates a WAL with n frames; frame `at` (if fault != none) is the first invalid one.
// Frames after an invalid frame look like a plausible continuation.
func vBuild(le bool, n, pages int, fault, at int) *vWAL {
	w := &vWAL{le: le, n: n, valid: n}
	w.salt1, w.salt2 = verifU32("salt1"), verifU32("salt2")
	img := make([]byte, WALHeaderSize+n*vFrm)
	magic := uint32(0x377f0683)
	if le {
		magic = 0x377f0682
	}
	vPut32(img[0:], magic)
	vPut32(img[4:], WALSupportedVersion)
	vPut32(img[8:], vPg)
	vPut32(img[12:], verifU32("seq"))
	vPut32(img[16:], w.salt1)
	vPut32(img[20:], w.salt2)
	c1, c2 := vSum(le, 0, 0, img[:24])
	vPut32(img[24:], c1)
	vPut32(img[28:], c2)
	for i := 0; i < n; i++ {
		f := img[WALHeaderSize+i*vFrm:]
		pg := uint32(1 + verifChoice(verifName("pgno", i), pages))
		cm := verifU32(verifName("commit", i))
		verifAssume(cm <= uint32(pages))
		d := verifBytes(verifName("data", i), vPg)
		w.pgno = append(w.pgno, pg)
		w.commit = append(w.commit, cm)
		w.data = append(w.data, d)
		vPut32(f[0:], pg)
		vPut32(f[4:], cm)
		s1, s2 := w.salt1, w.salt2
		if fault == vFaultSalt && i == at {
			s1, s2 = verifU32("badsalt1"), verifU32("badsalt2")
			verifAssume(verifOr(s1 != w.salt1, s2 != w.salt2))
		}
		vPut32(f[8:], s1)
		vPut32(f[12:], s2)
		copy(f[24:], d)
		c1, c2 = vSum(le, c1, c2, f[:8])
		c1, c2 = vSum(le, c1, c2, f[24:24+vPg])
		k1, k2 := c1, c2
		if fault == vFaultCksum && i == at {
			k1, k2 = verifU32("badck1"), verifU32("badck2")
			verifAssume(verifOr(k1 != c1, k2 != c2))
		}
		vPut32(f[16:], k1)
		vPut32(f[20:], k2)
	}
	switch fault {
	case vFaultSalt, vFaultCksum:
		w.valid = at
	case vFaultTruncHdr:
		w.valid = at
		img = img[:WALHeaderSize+at*vFrm+[]int{1, 10, 23}[verifChoice("hdrkeep", 3)]]
	case vFaultTruncData:
		w.valid = at
		// 0 bytes of page data kept: the image ends exactly behind the frame header
		img = img[:WALHeaderSize+at*vFrm+24+[]int{0, 3, vPg - 1}[verifChoice("datakeep", 3)]]
	}
	w.img = img
	return w
}

// reference checkpoint of frames [from,to): image per page, presence, final size
type vCkpt struct {
	has  [4]bool
	img  [4][]byte
	size uint32
	any  bool
}

func vCheckpoint(pg, cm []uint32, data [][]byte, from, to int) vCkpt {
	var c vCkpt
	for i := from; i < to; i++ {
		c.has[pg[i]] = true
		c.img[pg[i]] = data[i]
		c.any = true
	}
	if to > from {
		c.size = cm[to-1]
	}
	return c
}

// vParse is the reference reader of the output WAL: every frame must carry the header salts and a
// correct cumulative checksum; returns the frames.
func vParse(out []byte, in *vWAL) (pg, cm []uint32, data [][]byte, ok bool) {
	if len(out) < WALHeaderSize || (len(out)-WALHeaderSize)%vFrm != 0 {
		return nil, nil, nil, false
	}
	if !bytes.Equal(out[:WALHeaderSize], in.img[:WALHeaderSize]) {
		return nil, nil, nil, false
	}
	c1, c2 := vGet32(out[24:]), vGet32(out[28:])
	good := true
	for off := WALHeaderSize; off < len(out); off += vFrm {
		f := out[off:]
		good = verifAnd(good, verifAnd(vGet32(f[8:]) == in.salt1, vGet32(f[12:]) == in.salt2))
		c1, c2 = vSum(in.le, c1, c2, f[:8])
		c1, c2 = vSum(in.le, c1, c2, f[24:24+vPg])
		good = verifAnd(good, verifAnd(vGet32(f[16:]) == c1, vGet32(f[20:]) == c2))
		pg = append(pg, vGet32(f[0:]))
		cm = append(cm, vGet32(f[4:]))
		data = append(data, f[24:24+vPg])
	}
	return pg, cm, data, good
}

func vRun(le, full bool, n, pages, fault, at, start int) {
	w := vBuild(le, n, pages, fault, at)
	// reference: committed frames of the valid prefix from `start`
	if start > w.valid {
		return
	}
	lastCommit := -1
	for i := start; i < w.valid; i++ {
		if w.commit[i] != 0 {
			lastCommit = i
		}
	}
	// `start` must be a transaction boundary (documented precondition of resuming)
	if start > 0 {
		verifAssume(w.commit[start-1] != 0)
	}
	openTx := w.valid > start && lastCommit != w.valid-1

	s, err := NewCompactingFrameScanner(bytes.NewReader(w.img), int64(start), full)
	if fault == vFaultTruncData && !full {
		// the fast scanner does not read page data while scanning; a frame whose data is cut off
		// must then fail when the output is produced, or be left out - never be emitted
		if err == nil {
			if _, berr := s.Bytes(); berr == nil {
				pg, _, _, _ := vParse(mustBytes(s), w)
				verifAssert("C05-truncated-frame-never-emitted", len(pg) <= lastCommit+1-start)
			}
			// the streaming writer (what db.CheckpointManager uses) must not do better or worse:
			// an error, or only frames of the committed valid prefix - never a "successful"
			// output that keeps part of the transaction whose last frame is cut off
			if wr, werr := NewWriter(s); werr == nil {
				var buf bytes.Buffer
				if _, werr := wr.WriteTo(&buf); werr == nil {
					verifReach("writer-ok-on-truncated-image")
					pg, _, _, okw := vParse(buf.Bytes(), w)
					most := lastCommit + 1 - start // committed frames of the valid prefix from start
					if most < 0 {
						most = 0
					}
					verifAssert("C05-writer-never-emits-beyond-valid-prefix", okw && len(pg) <= most)
				}
			}
		}
		return
	}
	if openTx {
		verifReach("open-transaction")
		verifAssert("C05-open-transaction-is-an-error", err == ErrOpenTransaction)
		return
	}
	verifAssert("C05-scan-succeeds-on-committed-prefix", err == nil)
	out, err := s.Bytes()
	verifAssert("C05-bytes-succeeds", err == nil)

	// (iv) the streaming writer produces the same bytes
	wr, err := NewWriter(s)
	verifAssert("C05-writer-created", err == nil)
	var buf bytes.Buffer
	nw, err := wr.WriteTo(&buf)
	verifAssert("C05-writer-agrees-with-bytes", err == nil && nw == int64(len(out)) && bytes.Equal(buf.Bytes(), out))

	pg, cm, data, good := vParse(out, w)
	verifAssert("C05-output-is-a-valid-wal", good)
	want := vCheckpoint(w.pgno, w.commit, w.data, start, lastCommit+1)
	got := vCheckpoint(pg, cm, data, 0, len(pg))
	if !want.any {
		verifReach("nothing-committed")
		verifAssert("C05-empty-output-when-nothing-committed", len(pg) == 0 && s.Empty())
		return
	}
	verifReach("compacted")
	verifAssert("C05-output-ends-with-commit-of-same-size", len(pg) > 0 && cm[len(pg)-1] != 0 && got.size == want.size)
	verifAssert("C05-no-more-frames-than-pages", len(pg) <= pages && len(pg) <= lastCommit+1-start)
	for p := 1; p <= pages; p++ {
		inRange := uint32(p) <= want.size
		verifAssert("C05-same-pages-present", verifImplies(inRange, got.has[p] == want.has[p]))
		if got.has[p] && want.has[p] {
			verifAssert("C05-same-page-image", verifImplies(inRange, bytes.Equal(got.img[p], want.img[p])))
		}
	}
}

func mustBytes(s *CompactingFrameScanner) []byte {
	b, _ := s.Bytes()
	return b
}

func vBounds() (maxFrames, pages int) {
	if verifTier() == 1 {
		return 4, 3
	}
	return 3, 2
}

// Full scanner (validates checksums): every fault kind, big-endian checksums.
func VerifC05Full() {
	maxN, pages := vBounds()
	n := verifChoice("frames", maxN+1)
	fault, at := vFaultNone, 0
	if n > 0 {
		fault = verifChoice("fault", vNumFaults)
		if fault != vFaultNone {
			at = verifChoice("faultAt", n)
		}
	}
	vRun(false, true, n, pages, fault, at, 0)
}

// Fast scanner (documented precondition: frames with the header's salts have valid checksums),
// every resume position at a transaction boundary.
func VerifC05Fast() {
	maxN, pages := vBounds()
	n := verifChoice("frames", maxN+1)
	fault, at := vFaultNone, 0
	if n > 0 {
		switch verifChoice("fault", 4) {
		case 1:
			fault = vFaultSalt
		case 2:
			fault = vFaultTruncHdr
		case 3:
			fault = vFaultTruncData
		}
		if fault != vFaultNone {
			at = verifChoice("faultAt", n)
		}
	}
	start := verifChoice("start", n+1)
	vRun(false, false, n, pages, fault, at, start)
}

// Little-endian checksum variant, smaller shape.
func VerifC05LittleEndian() {
	n := verifChoice("frames", 3)
	full := verifChoice("full", 2) == 1
	fault, at := vFaultNone, 0
	// a wrong checksum is only in scope for the full scanner (the fast one assumes valid checksums)
	if full && n > 0 && verifChoice("corrupt", 2) == 1 {
		fault, at = vFaultCksum, verifChoice("faultAt", n)
	}
	vRun(true, full, n, 2, fault, at, 0)
}

// Header handling: a header whose checksum is wrong is "no WAL" (io.EOF), a bad magic is an error.
func VerifC05Header() {
	w := vBuild(false, 1, 1, vFaultNone, 0)
	verifAssume(w.commit[0] != 0)
	switch verifChoice("hdr", 3) {
	case 0:
		c := verifU32("hdrck")
		verifAssume(c != vGet32(w.img[24:]))
		vPut32(w.img[24:], c)
		_, err := NewCompactingFrameScanner(bytes.NewReader(w.img), 0, true)
		verifAssert("C05-bad-header-checksum-is-eof", err == io.EOF)
	case 1:
		m := verifU32("magic")
		verifAssume(m != 0x377f0682 && m != 0x377f0683)
		vPut32(w.img[0:], m)
		_, err := NewCompactingFrameScanner(bytes.NewReader(w.img), 0, true)
		verifAssert("C05-bad-magic-is-an-error", err != nil && err != io.EOF)
	case 2:
		_, err := NewCompactingFrameScanner(bytes.NewReader(w.img), 0, true)
		verifAssert("C05-good-header", err == nil)
		_, err = NewCompactingFrameScanner(bytes.NewReader(w.img), 1, true)
		verifAssert("C05-full-scan-needs-start-0", err != nil)
		_, err = NewCompactingFrameScanner(bytes.NewReader(w.img), -1, false)
		verifAssert("C05-negative-start-rejected", err != nil)
	}
	_ = binary.BigEndian
}

func VerifC05Twin() {
	w := vBuild(false, 2, 2, vFaultNone, 0)
	verifAssume(w.commit[1] != 0)
	s, err := NewCompactingFrameScanner(bytes.NewReader(w.img), 0, true)
	verifAssume(err == nil)
	out, _ := s.Bytes()
	pg, _, _, _ := vParse(out, w)
	verifAssert("twin", len(pg) == 2)
}
