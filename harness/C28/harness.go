package chunking

// C28 "Chunked loads reassemble the original bytes".
//
// The code under test is the real Chunker / Dechunker / DechunkerManager. Natively (replay) it
// runs against the real compress/gzip, real temp files and the real sync.Pool. In the engine
// compress/gzip, the os temp-file calls, sync.Pool and random.Bytes are replaced (spec.json
// "models") by the small models at the bottom of this file.

import (
	"bytes"
	"compress/gzip"
	"errors"
	"io"
	"os"
	"strconv"
	"strings"
	"sync"

	"github.com/rqlite/rqlite/v10/command/proto"
)

// ---------------------------------------------------------------------------
// harness helpers (run natively and in the engine)

// verifKeep is what a consumer that serialises each chunk before it asks for the next one keeps.
func verifKeep(c *proto.LoadChunkRequest) *proto.LoadChunkRequest {
	out := &proto.LoadChunkRequest{StreamId: c.StreamId, SequenceNum: c.SequenceNum, IsLast: c.IsLast, Abort: c.Abort}
	if c.Data != nil {
		out.Data = append([]byte{}, c.Data...)
	}
	return out
}

// verifGunzip decodes the payload of a chunk the way any receiver would.
func verifGunzip(data []byte) ([]byte, error) {
	if data == nil {
		return nil, nil
	}
	zr, err := gzip.NewReader(bytes.NewReader(data))
	if err != nil {
		return nil, err
	}
	defer zr.Close()
	return io.ReadAll(zr)
}

// verifGzip encodes a payload the way any sender would.
func verifGzip(payload []byte) []byte {
	var buf bytes.Buffer
	zw, err := gzip.NewWriterLevel(&buf, gzip.BestSpeed)
	if err != nil {
		panic(err)
	}
	if _, err := zw.Write(payload); err != nil {
		panic(err)
	}
	if err := zw.Close(); err != nil {
		panic(err)
	}
	return buf.Bytes()
}

const verifModelDir = "/verif-c28"

// verifDir returns the directory the dechunkers write to.
func verifDir() (string, func()) {
	if verifSymbolic() {
		return verifModelDir, func() {}
	}
	d, err := os.MkdirTemp("", "verif-c28-")
	if err != nil {
		panic(err)
	}
	return d, func() { os.RemoveAll(d) }
}

// verifReadFile returns the content of path and whether it exists.
func verifReadFile(path string) ([]byte, bool) {
	if verifSymbolic() {
		n, ok := verifFSFiles[path]
		if !ok {
			return nil, false
		}
		return n.data, true
	}
	b, err := os.ReadFile(path)
	if err != nil {
		return nil, false
	}
	return b, true
}

// verifDirFiles counts the entries of the dechunker directory.
func verifDirFiles(dir string) int {
	if verifSymbolic() {
		n := 0
		for name := range verifFSFiles {
			if strings.HasPrefix(name, dir+"/") {
				n++
			}
		}
		return n
	}
	es, err := os.ReadDir(dir)
	if err != nil {
		panic(err)
	}
	return len(es)
}

// verifSplit drains a Chunker; every chunk is kept as a serialising consumer would keep it.
func verifSplit(c *Chunker, maxChunks int) []*proto.LoadChunkRequest {
	var out []*proto.LoadChunkRequest
	for i := 0; ; i++ {
		ch, err := c.Next()
		if err == io.EOF {
			verifAssert("C28-eof-carries-no-chunk", ch == nil)
			break
		}
		verifAssert("C28-next-no-error", err == nil)
		verifAssert("C28-next-returns-chunk", ch != nil)
		verifAssert("C28-split-terminates", i < maxChunks)
		out = append(out, verifKeep(ch))
	}
	ch, err := c.Next()
	verifAssert("C28-eof-is-sticky", ch == nil && err == io.EOF)
	return out
}

// verifCheckChunks is the sender-side oracle: one stream id, sequence numbers 1,2,3.., exactly the
// final chunk is marked last, payloads concatenate to data. exact: the reader fills every read,
// so every chunk but the last carries exactly size bytes and none carries more.
func verifCheckChunks(chunks []*proto.LoadChunkRequest, data []byte, size int64, exact bool) [][]byte {
	if len(chunks) == 0 {
		// only an empty stream may produce no chunk at all
		verifAssert("C28-no-chunks-only-for-empty-stream", len(data) == 0)
		return nil
	}
	id := chunks[0].StreamId
	verifAssert("C28-stream-id-not-empty", id != "")
	var cat []byte
	payloads := make([][]byte, len(chunks))
	for i, ch := range chunks {
		final := i == len(chunks)-1
		verifAssert("C28-one-stream-id", ch.StreamId == id)
		verifAssert("C28-sequence-from-one", ch.SequenceNum == int64(i+1))
		verifAssert("C28-not-abort", !ch.Abort)
		verifAssert("C28-last-flag-only-on-final-chunk", ch.IsLast == final)
		p, err := verifGunzip(ch.Data)
		verifAssert("C28-chunk-decodes", err == nil)
		if exact {
			verifAssert("C28-chunk-size-bound", int64(len(p)) <= size)
			if !final {
				verifAssert("C28-full-chunk", int64(len(p)) == size)
			}
		}
		payloads[i] = p
		cat = append(cat, p...)
	}
	verifAssert("C28-split-length", len(cat) == len(data))
	verifAssert("C28-split-bytes", bytes.Equal(cat, data))
	return payloads
}

// verifDeliverAll feeds an unmodified chunk sequence through the manager and checks the result.
func verifDeliverAll(mgr *DechunkerManager, dir string, chunks []*proto.LoadChunkRequest, data []byte) {
	if len(chunks) == 0 {
		return
	}
	id := chunks[0].StreamId
	var first *Dechunker
	for i, ch := range chunks {
		dec, err := mgr.Get(ch.StreamId)
		verifAssert("C28-manager-get", err == nil && dec != nil)
		if i == 0 {
			first = dec
		}
		verifAssert("C28-manager-same-dechunker-per-stream", dec == first)
		last, err := dec.WriteChunk(ch)
		verifAssert("C28-in-order-chunk-accepted", err == nil)
		verifAssert("C28-true-exactly-on-final-chunk", last == (i == len(chunks)-1))
	}
	path, err := first.Close()
	verifAssert("C28-close-ok", err == nil)
	got, ok := verifReadFile(path)
	verifAssert("C28-reassembled-file-exists", ok)
	verifAssert("C28-reassembled-length", len(got) == len(data))
	verifAssert("C28-reassembled-bytes", bytes.Equal(got, data))
	mgr.Delete(id)
	os.Remove(path)
	verifAssert("C28-nothing-left-in-dir", verifDirFiles(dir) == 0)
}

func verifBounds() (maxLen, maxSize int) {
	if verifTier() == 1 {
		return 16, 17
	}
	return 6, 7
}

// ---------------------------------------------------------------------------
// entries

// VerifC28RoundTrip: every byte string of length 0..N served by the real bytes.Reader, every
// chunk size 1..M (covers empty, shorter than a chunk, exact multiples, remainder).
func VerifC28RoundTrip() {
	verifPanicsAreViolations()
	maxLen, maxSize := verifBounds()
	n := verifChoice("len", maxLen+1)
	size := int64(1 + verifChoice("chunkSize", maxSize))
	data := verifBytes("data", n)
	orig := append([]byte{}, data...)

	c := NewChunker(bytes.NewReader(data), size)
	chunks := verifSplit(c, n+2)
	verifCheckChunks(chunks, orig, size, true)
	if n == 0 {
		verifReach("empty-stream")
	}
	if n > 0 && int64(n)%size == 0 {
		verifReach("exact-multiple")
	}
	if int64(n)%size != 0 {
		verifReach("remainder")
	}
	// (the end of a stream that stops on a chunk boundary may be signalled by one more, empty chunk)
	verifAssert("C28-no-superfluous-chunks", int64(len(chunks)) <= int64(n)/size+1)
	_, nRead, _ := c.Counts()
	verifAssert("C28-counts-bytes-read", nRead == int64(n))

	dir, cleanup := verifDir()
	defer cleanup()
	mgr, err := NewDechunkerManager(dir)
	verifAssert("C28-manager-created", err == nil && mgr != nil)
	verifAssert("C28-manager-probe-file-removed", verifDirFiles(dir) == 0)
	verifDeliverAll(mgr, dir, chunks, orig)
	mgr.Close()
}

// verifReader serves data with harness-chosen short reads; the final bytes may arrive together
// with io.EOF (allowed by the io.Reader contract). EOF is sticky. failAt >= 0: after failAt bytes
// every Read fails with verifErrRead.
type verifReader struct {
	data        []byte
	off         int
	calls       int
	eofWithData bool
	failAt      int
}

var verifErrRead = errors.New("verif: read failed")

func (r *verifReader) Read(p []byte) (int, error) {
	if r.failAt >= 0 && r.off >= r.failAt {
		return 0, verifErrRead
	}
	rem := len(r.data) - r.off
	if r.failAt >= 0 {
		rem = r.failAt - r.off
	}
	if rem == 0 {
		return 0, io.EOF
	}
	if len(p) == 0 {
		return 0, nil
	}
	max := rem
	if len(p) < max {
		max = len(p)
	}
	k := 1 + verifChoice(verifName("read", r.calls), max)
	r.calls++
	copy(p, r.data[r.off:r.off+k])
	r.off += k
	if r.failAt < 0 && r.off == len(r.data) && r.eofWithData {
		return k, io.EOF
	}
	return k, nil
}

// VerifC28Readers: the same round trip for readers that return short reads and data together
// with io.EOF; chunk sizes are then not exact, everything else must hold.
func VerifC28Readers() {
	verifPanicsAreViolations()
	maxLen, maxSize := 4, 3
	if verifTier() == 1 {
		maxLen, maxSize = 8, 4
	}
	n := verifChoice("len", maxLen+1)
	size := int64(1 + verifChoice("chunkSize", maxSize))
	data := verifBytes("data", n)
	orig := append([]byte{}, data...)
	r := &verifReader{data: data, failAt: -1, eofWithData: verifChoice("eofWithData", 2) == 1}

	c := NewChunker(r, size)
	chunks := verifSplit(c, 2*n+2)
	verifCheckChunks(chunks, orig, size, false)
	if r.eofWithData && n > 0 {
		verifReach("eof-with-data")
	}
	if r.calls > 0 && r.calls < n {
		verifReach("short-and-long-reads")
	}
	dir, cleanup := verifDir()
	defer cleanup()
	mgr, err := NewDechunkerManager(dir)
	verifAssert("C28-manager-created", err == nil && mgr != nil)
	verifDeliverAll(mgr, dir, chunks, orig)
}

// VerifC28ReadError: a reader that fails after k bytes never yields a stream that looks complete.
func VerifC28ReadError() {
	verifPanicsAreViolations()
	n := 1 + verifChoice("len", 4)
	size := int64(1 + verifChoice("chunkSize", 3))
	failAt := verifChoice("failAt", n)
	data := verifBytes("data", n)
	r := &verifReader{data: data, failAt: failAt}
	c := NewChunker(r, size)
	sawErr := false
	for i := 0; i < 2*n+3; i++ {
		ch, err := c.Next()
		if err != nil {
			verifAssert("C28-read-error-is-not-eof", err != io.EOF)
			verifAssert("C28-read-error-reported", errors.Is(err, verifErrRead))
			sawErr = true
			break
		}
		verifAssert("C28-next-returns-chunk", ch != nil)
		verifAssert("C28-truncated-stream-not-marked-last", !ch.IsLast)
	}
	verifReach("read-error")
	verifAssert("C28-read-error-surfaces", sawErr)
}

// VerifC28Sequences: one altered delivery (drop, replay, swap, chunk of another stream) against a
// reference receiver: a chunk that does not belong to the stream the dechunker is bound to, or
// does not carry the next sequence number, is rejected; until the first rejection every in-order
// chunk is accepted; rejected chunks leave nothing in the file; "true" is returned only when the
// file is the complete stream.
func VerifC28Sequences() {
	verifPanicsAreViolations()
	maxLen, maxSize := 4, 3
	if verifTier() == 1 {
		maxLen = 5
	}
	n := 1 + verifChoice("len", maxLen)
	size := int64(1 + verifChoice("chunkSize", maxSize))
	dataA := verifBytes("data", n)
	origA := append([]byte{}, dataA...)
	a := verifSplit(NewChunker(bytes.NewReader(dataA), size), n+2)
	payA := verifCheckChunks(a, origA, size, true)

	nb := 1 + verifChoice("lenB", 2)
	dataB := verifBytes("dataB", nb)
	origB := append([]byte{}, dataB...)
	b := verifSplit(NewChunker(bytes.NewReader(dataB), 1), nb+2)
	payB := verifCheckChunks(b, origB, 1, true)
	verifAssert("C28-streams-have-different-ids", a[0].StreamId != b[0].StreamId)

	nA := len(a)
	pool := append(append([]*proto.LoadChunkRequest{}, a...), b...)
	pays := append(append([][]byte{}, payA...), payB...)
	order := make([]int, nA)
	for i := range order {
		order[i] = i
	}
	insert := func(at, v int) {
		order = append(order, 0)
		copy(order[at+1:], order[at:])
		order[at] = v
	}
	// one alteration (quick) or two successive ones (thorough); positions refer to the current list
	rounds := 1
	if verifTier() == 1 {
		rounds = 2
	}
	for m := 0; m < rounds; m++ {
		sfx := strconv.Itoa(m)
		cur := len(order)
		kind := verifChoice("mutation"+sfx, 5)
		if kind != 0 && kind != 4 && cur == 0 {
			verifAssume(false)
		}
		switch kind {
		case 1: // the chunk at position i is lost
			i := verifChoice("i"+sfx, cur)
			order = append(order[:i], order[i+1:]...)
			verifReach("dropped")
		case 2: // the chunk at position i is delivered once more, at position j
			i := verifChoice("i"+sfx, cur)
			j := verifChoice("j"+sfx, cur+1)
			insert(j, order[i])
			verifReach("replayed")
		case 3: // the chunks at positions i<j change places
			i := verifChoice("i"+sfx, cur)
			j := verifChoice("j"+sfx, cur)
			verifAssume(i < j)
			order[i], order[j] = order[j], order[i]
			verifReach("swapped")
		case 4: // chunk k of another stream arrives at position j
			k := verifChoice("k"+sfx, len(b))
			j := verifChoice("j"+sfx, cur+1)
			insert(j, nA+k)
			verifReach("foreign")
			if j > 0 && pool[nA+k].SequenceNum == int64(j+1) {
				verifReach("foreign-with-expected-sequence-number")
			}
		}
	}
	identity := len(order) == nA
	foreign := false
	for i, idx := range order {
		if idx != i {
			identity = false
		}
		if idx >= nA {
			foreign = true
		}
	}
	// Which stream a dechunker is bound to when the very first chunk it sees is out of sequence is
	// not part of the property: with chunks of two streams in play the first one carries number 1.
	if foreign {
		verifAssume(pool[order[0]].SequenceNum == 1)
	}

	dir, cleanup := verifDir()
	defer cleanup()
	dec, err := NewDechunker(dir)
	verifAssert("C28-dechunker-created", err == nil && dec != nil)

	bound := ""
	next := int64(1)
	var want []byte
	sawErr, sawTrue := false, false
	for _, idx := range order {
		ch := pool[idx]
		last, err := dec.WriteChunk(ch)
		if bound == "" {
			bound = ch.StreamId
		}
		if ch.StreamId == bound && ch.SequenceNum == next {
			if !sawErr {
				verifAssert("C28-in-order-chunk-accepted", err == nil)
			}
			// (whether a stream may go on after one of its chunks was rejected is not part of
			// the property: from then on an in-order chunk may be accepted or refused)
			if err == nil {
				verifAssert("C28-last-reported-as-sent", last == ch.IsLast)
				next++
				want = append(want, pays[idx]...)
			} else {
				verifAssert("C28-rejected-chunk-not-last", !last)
			}
		} else {
			if ch.StreamId != bound {
				verifAssert("C28-foreign-chunk-rejected", err != nil)
			}
			verifAssert("C28-out-of-sequence-chunk-rejected", err != nil)
			verifAssert("C28-rejected-chunk-not-last", !last)
			sawErr = true
		}
		if last {
			sawTrue = true
			full := origA
			if bound != a[0].StreamId {
				full = origB
			}
			verifAssert("C28-true-only-for-complete-stream", len(want) == len(full) && bytes.Equal(want, full))
		}
	}
	path, err := dec.Close()
	verifAssert("C28-close-ok", err == nil)
	got, ok := verifReadFile(path)
	verifAssert("C28-file-exists", ok)
	verifAssert("C28-file-holds-exactly-accepted-chunks-length", len(got) == len(want))
	verifAssert("C28-file-holds-exactly-accepted-chunks", bytes.Equal(got, want))
	if identity {
		verifAssert("C28-unaltered-completes", sawTrue && !sawErr)
	} else {
		verifAssert("C28-altered-sequence-detected", sawErr || !sawTrue)
	}
	os.Remove(path)
}

// VerifC28SeqStep: one WriteChunk from an arbitrary dechunker state (any sequence numbers).
func VerifC28SeqStep() {
	verifPanicsAreViolations()
	dir, cleanup := verifDir()
	defer cleanup()
	dec, err := NewDechunker(dir)
	verifAssert("C28-dechunker-created", err == nil && dec != nil)

	s := verifI64("seq")
	verifAssume(s >= 0 && s < 1<<62)
	boundTo := verifChoice("bound", 2) == 1
	if boundTo {
		dec.streamID = "stream-A"
	} else {
		verifAssume(s == 0) // nothing received yet
	}
	dec.seqNum = s

	q := verifI64("chunkSeq")
	id := "stream-A"
	if verifChoice("chunkStream", 2) == 1 {
		id = "stream-B"
	}
	isLast := verifBool("isLast")
	payload := verifBytes("payload", verifChoice("payloadLen", 3))
	chunk := &proto.LoadChunkRequest{StreamId: id, SequenceNum: q, IsLast: isLast}
	if verifChoice("hasData", 2) == 1 {
		chunk.Data = verifGzip(payload)
	} else {
		payload = nil
	}
	last, err := dec.WriteChunk(chunk)
	sameStream := !boundTo || id == "stream-A"
	if sameStream && q == s+1 {
		verifReach("accepted")
		verifAssert("C28-step-accepted", err == nil)
		verifAssert("C28-step-last", last == isLast)
		verifAssert("C28-step-sequence-advances", dec.seqNum == q)
		verifAssert("C28-step-bound", dec.streamID == id)
	} else {
		if sameStream {
			verifReach("out-of-sequence")
		} else {
			verifReach("other-stream")
		}
		verifAssert("C28-step-rejected", err != nil)
		verifAssert("C28-step-rejected-not-last", !last)
		verifAssert("C28-step-rejected-sequence-unchanged", dec.seqNum == s)
		if boundTo {
			verifAssert("C28-step-rejected-binding-unchanged", dec.streamID == "stream-A")
		}
		payload = nil
	}
	path, err := dec.Close()
	verifAssert("C28-close-ok", err == nil)
	got, ok := verifReadFile(path)
	verifAssert("C28-file-exists", ok)
	verifAssert("C28-step-file-length", len(got) == len(payload))
	verifAssert("C28-step-file-bytes", bytes.Equal(got, payload))
	os.Remove(path)
}

// verifAbortAsReceiver does what the receiver of an abort chunk does (store/command_processor.go:
// Get, Close, Delete, remove the file).
func verifAbortAsReceiver(mgr *DechunkerManager, ab *proto.LoadChunkRequest) string {
	dec, err := mgr.Get(ab.StreamId)
	verifAssert("C28-manager-get", err == nil && dec != nil)
	path, err := dec.Close()
	verifAssert("C28-close-ok", err == nil)
	mgr.Delete(ab.StreamId)
	os.Remove(path)
	return path
}

// VerifC28Abort: j chunks of a stream arrive, then the sender aborts. Nothing of the stream is
// left (no file, no manager entry); the same stream id sent again from the start reassembles
// exactly the data; closing the manager closes what it still manages.
func VerifC28Abort() {
	verifPanicsAreViolations()
	maxLen, maxSize := 4, 3
	if verifTier() == 1 {
		maxLen, maxSize = 8, 5
	}
	n := 1 + verifChoice("len", maxLen)
	size := int64(1 + verifChoice("chunkSize", maxSize))
	data := verifBytes("data", n)
	orig := append([]byte{}, data...)
	c := NewChunker(bytes.NewReader(data), size)
	chunks := verifSplit(c, n+2)
	verifCheckChunks(chunks, orig, size, true)
	ab := c.Abort()
	verifAssert("C28-abort-chunk-flag", ab != nil && ab.Abort)
	verifAssert("C28-abort-chunk-names-the-stream", ab.StreamId == chunks[0].StreamId)

	dir, cleanup := verifDir()
	defer cleanup()
	mgr, err := NewDechunkerManager(dir)
	verifAssert("C28-manager-created", err == nil && mgr != nil)

	// an unrelated stream that is in flight must survive the abort
	other := &proto.LoadChunkRequest{StreamId: "other-stream", SequenceNum: 1, Data: verifGzip([]byte{42})}
	od, err := mgr.Get(other.StreamId)
	verifAssert("C28-manager-get", err == nil && od != nil)
	_, err = od.WriteChunk(other)
	verifAssert("C28-in-order-chunk-accepted", err == nil)

	j := verifChoice("delivered", len(chunks)) // 0..len-1 chunks arrive before the abort
	var old *Dechunker
	for i := 0; i < j; i++ {
		dec, err := mgr.Get(chunks[i].StreamId)
		verifAssert("C28-manager-get", err == nil && dec != nil)
		old = dec
		last, err := dec.WriteChunk(chunks[i])
		verifAssert("C28-in-order-chunk-accepted", err == nil)
		verifAssert("C28-not-last-yet", !last)
	}
	if j > 0 {
		verifReach("abort-with-partial-data")
		verifAssert("C28-two-streams-two-files", verifDirFiles(dir) == 2)
	}
	path := verifAbortAsReceiver(mgr, ab)
	_, exists := verifReadFile(path)
	verifAssert("C28-abort-removes-file", !exists)
	verifAssert("C28-abort-leaves-only-the-other-stream", verifDirFiles(dir) == 1)

	switch verifChoice("then", 2) {
	case 0:
		// the stream id is sent again from the start: a fresh dechunker, no stale prefix
		dec, err := mgr.Get(ab.StreamId)
		verifAssert("C28-manager-get", err == nil && dec != nil)
		if old != nil {
			verifAssert("C28-abort-forgets-dechunker", dec != old)
		}
		verifAssert("C28-one-file-per-stream", verifDirFiles(dir) == 2)
		last := false
		for i, ch := range chunks {
			last, err = dec.WriteChunk(ch)
			verifAssert("C28-resend-accepted", err == nil)
			verifAssert("C28-true-exactly-on-final-chunk", last == (i == len(chunks)-1))
		}
		p2, err := dec.Close()
		verifAssert("C28-close-ok", err == nil)
		got, ok := verifReadFile(p2)
		verifAssert("C28-file-exists", ok)
		verifAssert("C28-resend-length", len(got) == len(orig))
		verifAssert("C28-resend-bytes", bytes.Equal(got, orig))
		mgr.Delete(ab.StreamId)
		os.Remove(p2)
		verifReach("resent-after-abort")
	case 1:
		// the other stream is untouched and still in sequence
		od2, err := mgr.Get(other.StreamId)
		verifAssert("C28-abort-keeps-other-stream", err == nil && od2 == od)
		_, err = od2.WriteChunk(&proto.LoadChunkRequest{StreamId: "other-stream", SequenceNum: 2, Data: verifGzip([]byte{43})})
		verifAssert("C28-other-stream-continues", err == nil)
		// closing the manager closes every dechunker it manages: no more data can be added
		mgr.Close()
		_, err = od.WriteChunk(&proto.LoadChunkRequest{StreamId: "other-stream", SequenceNum: 3, Data: verifGzip([]byte{44})})
		verifAssert("C28-manager-close-closes-dechunkers", err != nil)
		verifReach("manager-closed")
	}
}

// VerifC28CutChunk: a chunk whose payload was cut short (any proper prefix of a valid encoding,
// including the empty non-nil payload) is in sequence but must not be accepted as if it were whole.
func VerifC28CutChunk() {
	verifPanicsAreViolations()
	dir, cleanup := verifDir()
	defer cleanup()
	dec, err := NewDechunker(dir)
	verifAssert("C28-dechunker-created", err == nil && dec != nil)
	payload := verifBytes("payload", verifChoice("payloadLen", 3))
	enc := verifGzip(payload)
	verifAssert("C28-encoding-not-empty", len(enc) >= 3)
	keep := verifChoice("keep", 6+len(payload)) // the model encoding has len(payload)+6 bytes, the real one more
	if keep >= len(enc) {
		return
	}
	chunk := &proto.LoadChunkRequest{StreamId: "stream-A", SequenceNum: 1, IsLast: verifChoice("isLast", 2) == 1, Data: enc[:keep]}
	last, err := dec.WriteChunk(chunk)
	verifReach("cut-chunk")
	verifAssert("C28-cut-chunk-rejected", err != nil)
	verifAssert("C28-cut-chunk-not-last", !last)
	path, _ := dec.Close()
	os.Remove(path)
}

// VerifC28HeldChunk: a chunk handed out by Next is looked at again after the following call to
// Next (a consumer that batches or pipelines chunks). It must still decode to the same bytes.
func VerifC28HeldChunk() {
	verifPanicsAreViolations()
	size := int64(1 + verifChoice("chunkSize", 2))
	n := int(size) + 1 + verifChoice("extra", 2)
	data := verifBytes("data", n)
	orig := append([]byte{}, data...)
	c := NewChunker(bytes.NewReader(data), size)
	first, err := c.Next()
	verifAssert("C28-next-no-error", err == nil && first != nil)
	before, err := verifGunzip(first.Data)
	verifAssert("C28-chunk-decodes", err == nil)
	verifAssert("C28-held-first-chunk-length", int64(len(before)) == size)
	verifAssert("C28-held-first-chunk-bytes", bytes.Equal(before, orig[:size]))
	second, err := c.Next()
	verifAssert("C28-next-no-error", err == nil && second != nil)
	verifReach("held-across-next")
	after, err := verifGunzip(first.Data)
	intact := err == nil && len(after) == len(before) && bytes.Equal(after, orig[:size])
	if !intact && len(first.Data) > 0 && len(second.Data) > 0 && &first.Data[0] == &second.Data[0] {
		// recorded class: the held chunk's Data and the later chunk's Data are the same memory
		// (both are buf.Bytes() of the buffer Next puts back into bufferPool)
		verifFinding("C28-chunk-data-aliases-pooled-buffer")
	}
	verifAssert("C28-held-chunk-intact", intact)
}

// verifPatterned returns n bytes whose value depends on the position with period 251 (co-prime with
// every power-of-two buffer size, so a block that is lost, repeated or moved shows in the content and
// not only in the length); the bytes at the given positions (those inside the stream) are symbolic.
func verifPatterned(n int, marks []int) []byte {
	d := make([]byte, 0, n)
	for i := 0; i < 251 && i < n; i++ {
		d = append(d, byte(i*7+3))
	}
	for len(d) > 0 && len(d) < n {
		k := len(d)
		if k > n-len(d) {
			k = n - len(d)
		}
		d = append(d, d[:k]...)
	}
	sym := verifBytes("marks", len(marks))
	for i, m := range marks {
		if m >= 0 && m < n {
			d[m] = sym[i]
		}
	}
	return d
}

// verifSizeCases: the chunk sizes and stream lengths of VerifC28SizeConstants. The size constants the
// two types contain: internalChunkSize (the Chunker's read buffer; chunk sizes below it shrink the
// buffer, chunk sizes above it make Next fill one chunk with several reads) - the Dechunker has none
// of its own, it copies a chunk's payload with io.Copy. Chunk sizes: one below, at, one above the
// constant, twice the constant and one above that. Stream lengths relative to the chunk size: one
// byte short of a chunk, exactly a chunk, a chunk and a byte, two chunks and three bytes (for the
// chunk sizes of 2 MiB and more: a chunk, 1 MiB and three bytes).
func verifSizeCases() (sizes []int64, lens func(size int64) []int) {
	if verifTier() == 1 {
		return []int64{internalChunkSize - 1, internalChunkSize, internalChunkSize + 1, 2 * internalChunkSize, 2*internalChunkSize + 1},
			func(size int64) []int {
				long := 2*int(size) + 3
				if long > 3*internalChunkSize+4 {
					// (the engine holds at most 4 Mi elements in one allocation)
					long = int(size) + internalChunkSize + 3
				}
				return []int{int(size) - 1, int(size), int(size) + 1, long}
			}
	}
	return []int64{internalChunkSize, internalChunkSize + 1},
		func(size int64) []int { return []int{int(size) + 1} }
}

// VerifC28SizeConstants: the round trip with chunk sizes below, at and above the size constant of the
// code (internalChunkSize), real megabyte streams. The statement's oracle: the chunks are one
// numbered stream whose payloads concatenate to the input, and the reassembled file equals the input.
// (How many bytes a single chunk carries is not part of the statement: above internalChunkSize a
// chunk may carry more than chunkSize bytes.)
func VerifC28SizeConstants() {
	verifPanicsAreViolations()
	sizes, lens := verifSizeCases()
	size := sizes[verifChoice("chunkSize", len(sizes))]
	ls := lens(size)
	n := ls[verifChoice("len", len(ls))]
	data := verifPatterned(n, []int{0, internalChunkSize - 1, internalChunkSize, int(size) - 1, int(size), n - 1})
	orig := append([]byte{}, data...)

	c := NewChunker(bytes.NewReader(data), size)
	chunks := verifSplit(c, n/int(size)+2)
	payloads := verifCheckChunks(chunks, orig, size, false)
	for _, p := range payloads {
		if len(p) > internalChunkSize {
			verifReach("chunk-payload-above-internal-buffer")
		}
		if len(p) == internalChunkSize {
			verifReach("chunk-payload-equals-internal-buffer")
		}
	}
	if size > internalChunkSize {
		verifReach("chunk-size-above-internal-buffer")
	}
	_, nRead, _ := c.Counts()
	verifAssert("C28-counts-bytes-read", nRead == int64(n))

	dir, cleanup := verifDir()
	defer cleanup()
	mgr, err := NewDechunkerManager(dir)
	verifAssert("C28-manager-created", err == nil && mgr != nil)
	verifDeliverAll(mgr, dir, chunks, orig)
	mgr.Close()
}

// VerifC28Twin: vacuity guard – same shape as the round trip, final claim is false.
func VerifC28Twin() {
	data := verifBytes("data", 3)
	orig := append([]byte{}, data...)
	c := NewChunker(bytes.NewReader(data), 2)
	chunks := verifSplit(c, 5)
	verifCheckChunks(chunks, orig, 2, true)
	dir, cleanup := verifDir()
	defer cleanup()
	dec, err := NewDechunker(dir)
	verifAssume(err == nil)
	for _, ch := range chunks {
		_, err := dec.WriteChunk(ch)
		verifAssume(err == nil)
	}
	path, _ := dec.Close()
	got, _ := verifReadFile(path)
	os.Remove(path)
	verifAssert("twin", !bytes.Equal(got, orig))
}

// ---------------------------------------------------------------------------
// engine-only models (spec.json "models"); never called natively

// gzip: identity with framing. A member is: magic, payload length (4 bytes), payload, end marker. Like the
// real writer the model emits its header (the magic) with the first Write and may hold everything
// else back until Close. Like the real reader the model checks the header when it is created,
// rejects a truncated member or a wrong end marker while it is read, and reads concatenated
// members as one stream.
const (
	verifGzMagic = 0xC7
	verifGzEnd   = 0x7C
)

var (
	verifErrGzHeader   = errors.New("verif gzip model: invalid header")
	verifErrGzChecksum = errors.New("verif gzip model: invalid trailer")
	verifErrGzLevel    = errors.New("verif gzip model: invalid compression level")
	verifErrGzTooLong  = errors.New("verif gzip model: payload longer than the model supports")
	verifErrFileClosed = errors.New("verif file model: file already closed")
	verifErrNoEnt      = errors.New("verif file model: no such file or directory")
)

type verifGzWState struct {
	w      io.Writer
	buf    []byte
	header bool
	closed bool
}

type verifGzRState struct {
	r       io.Reader
	needLen bool
	left    int
	err     error
}

var verifGzW = map[*gzip.Writer]*verifGzWState{}
var verifGzR = map[*gzip.Reader]*verifGzRState{}

func verifGzNewWriterLevel(w io.Writer, level int) (*gzip.Writer, error) {
	if level < gzip.HuffmanOnly || level > gzip.BestCompression {
		return nil, verifErrGzLevel
	}
	z := new(gzip.Writer)
	verifGzW[z] = &verifGzWState{w: w}
	return z, nil
}

func verifGzWriterReset(z *gzip.Writer, w io.Writer) {
	verifGzW[z] = &verifGzWState{w: w}
}

func verifGzWriterHeader(st *verifGzWState) error {
	if st.header {
		return nil
	}
	st.header = true
	_, err := st.w.Write([]byte{verifGzMagic})
	return err
}

func verifGzWriterWrite(z *gzip.Writer, p []byte) (int, error) {
	st := verifGzW[z]
	if st.closed {
		return 0, verifErrFileClosed
	}
	if err := verifGzWriterHeader(st); err != nil {
		return 0, err
	}
	st.buf = append(st.buf, p...)
	return len(p), nil
}

func verifGzWriterClose(z *gzip.Writer) error {
	st := verifGzW[z]
	if st.closed {
		return nil
	}
	st.closed = true
	if err := verifGzWriterHeader(st); err != nil {
		return err
	}
	n := len(st.buf)
	if n >= 1<<31 {
		return verifErrGzTooLong
	}
	rest := append(append([]byte{byte(n >> 24), byte(n >> 16), byte(n >> 8), byte(n)}, st.buf...), verifGzEnd)
	_, err := st.w.Write(rest)
	return err
}

func verifGzNewReader(r io.Reader) (*gzip.Reader, error) {
	var hdr [1]byte
	if _, err := io.ReadFull(r, hdr[:]); err != nil {
		return nil, err // io.EOF on empty input (as gzip)
	}
	if hdr[0] != verifGzMagic {
		return nil, verifErrGzHeader
	}
	z := new(gzip.Reader)
	verifGzR[z] = &verifGzRState{r: r, needLen: true}
	return z, nil
}

func verifGzReaderRead(z *gzip.Reader, p []byte) (int, error) {
	st := verifGzR[z]
	if len(p) == 0 {
		return 0, nil
	}
	var one [1]byte
	for {
		if st.err != nil {
			return 0, st.err
		}
		if st.needLen {
			var l [4]byte
			if _, err := io.ReadFull(st.r, l[:]); err != nil {
				st.err = io.ErrUnexpectedEOF
				continue
			}
			st.left = int(l[0])<<24 | int(l[1])<<16 | int(l[2])<<8 | int(l[3])
			st.needLen = false
		}
		if st.left > 0 {
			n := len(p)
			if n > st.left {
				n = st.left
			}
			k, err := io.ReadFull(st.r, p[:n])
			st.left -= k
			if err != nil {
				st.err = io.ErrUnexpectedEOF
				if k > 0 {
					return k, nil
				}
				continue
			}
			return k, nil
		}
		// end of a member
		if _, err := io.ReadFull(st.r, one[:]); err != nil {
			st.err = io.ErrUnexpectedEOF
			continue
		}
		if one[0] != verifGzEnd {
			st.err = verifErrGzChecksum
			continue
		}
		// another member may follow
		if _, err := io.ReadFull(st.r, one[:]); err != nil {
			st.err = io.EOF
			continue
		}
		if one[0] != verifGzMagic {
			st.err = verifErrGzHeader
			continue
		}
		st.needLen = true
	}
}

func verifGzReaderClose(z *gzip.Reader) error { return nil }

// temp files: a name -> content map plus open handles.
type verifFileNode struct{ data []byte }

type verifHandle struct {
	name   string
	node   *verifFileNode
	closed bool
}

var verifFSFiles = map[string]*verifFileNode{}
var verifFSHandles = map[*os.File]*verifHandle{}
var verifFSSeq int

func verifCreateTemp(dir, pattern string) (*os.File, error) {
	if dir != verifModelDir {
		return nil, verifErrNoEnt
	}
	prefix, suffix := pattern, ""
	if i := strings.LastIndex(pattern, "*"); i >= 0 {
		prefix, suffix = pattern[:i], pattern[i+1:]
	}
	verifFSSeq++
	name := dir + "/" + prefix + strconv.Itoa(verifFSSeq) + suffix
	node := &verifFileNode{}
	verifFSFiles[name] = node
	f := new(os.File)
	verifFSHandles[f] = &verifHandle{name: name, node: node}
	return f, nil
}

func verifFileName(f *os.File) string { return verifFSHandles[f].name }

func verifFileWrite(f *os.File, b []byte) (int, error) {
	h := verifFSHandles[f]
	if h.closed {
		return 0, verifErrFileClosed
	}
	h.node.data = append(h.node.data, b...)
	return len(b), nil
}

func verifFileReadFrom(f *os.File, r io.Reader) (int64, error) {
	h := verifFSHandles[f]
	if h.closed {
		return 0, verifErrFileClosed
	}
	// (the file reads with buffers of 4, 8, 16 .. 65536 bytes: short ones first so that small payloads
	// arrive in several pieces, long ones later so that megabyte payloads take few reads)
	var total int64
	buf := make([]byte, 4)
	for {
		k, err := r.Read(buf)
		if k > 0 {
			h.node.data = append(h.node.data, buf[:k]...)
			total += int64(k)
		}
		if err == io.EOF {
			return total, nil
		}
		if err != nil {
			return total, err
		}
		if k == len(buf) && len(buf) < 1<<16 {
			buf = make([]byte, 2*len(buf))
		}
	}
}

func verifFileClose(f *os.File) error {
	h := verifFSHandles[f]
	if h.closed {
		return verifErrFileClosed
	}
	h.closed = true
	return nil
}

func verifRemove(name string) error {
	if _, ok := verifFSFiles[name]; !ok {
		return verifErrNoEnt
	}
	delete(verifFSFiles, name)
	return nil
}

// sync.Pool: last in, first out (what one goroutine observes from the real pool between GCs).
var verifPools = map[*sync.Pool][]any{}

func verifPoolGet(p *sync.Pool) any {
	l := verifPools[p]
	if n := len(l); n > 0 {
		x := l[n-1]
		verifPools[p] = l[:n-1]
		return x
	}
	if p.New != nil {
		return p.New()
	}
	return nil
}

func verifPoolPut(p *sync.Pool, x any) {
	if x == nil {
		return
	}
	verifPools[p] = append(verifPools[p], x)
}

// random.Bytes: distinct chunkers get distinct stream ids.
var verifRandCtr byte

func verifRandomBytes(n int) []byte {
	verifRandCtr++
	b := make([]byte, n)
	for i := range b {
		b[i] = verifRandCtr
	}
	return b
}
