package db

import (
	"context"
	"database/sql"
	"os"
	"path/filepath"
)

// Native side of C17: a real on-disk database per run, opened by the real Open/OpenWithDriver
// with the default driver. Table foo holds the single row id 1.

var c17Dirs = map[*DB]string{}

func init() {
	c17OpenNative = c17OpenReal
	c17CloseNative = func(d *DB) {
		d.Close()
		os.RemoveAll(c17Dirs[d])
		delete(c17Dirs, d)
	}
	c17ProbeNative = c17ProbeReal
	c17RowsNative = c17RowsReal
}

func c17OpenReal(name string, fk, wal bool) (*DB, error) {
	dir, err := os.MkdirTemp("", "verif-c17-")
	if err != nil {
		return nil, err
	}
	// the database file is prepared through a connection of our own (not through the handles under test)
	path := filepath.Join(dir, name)
	DefaultDriver()
	h, err := sql.Open(defaultDriverName, "file:"+path)
	if err != nil {
		return nil, err
	}
	for _, q := range []string{"CREATE TABLE foo (id INTEGER PRIMARY KEY, name TEXT)", "INSERT INTO foo(id,name) VALUES(1,'base')"} {
		if _, err := h.Exec(q); err != nil {
			h.Close()
			return nil, err
		}
	}
	h.Close()
	d, err := OpenWithDriver(DefaultDriver(), path, fk, wal)
	if err != nil {
		return nil, err
	}
	c17Dirs[d] = dir
	return d, nil
}

// c17ProbeReal asks the real SQLite, on one connection of the handle:
//
//	queryOnly = PRAGMA query_only reports 1 on a fresh connection
//	modeRO    = with query_only switched OFF a schema change is still refused
//
// (and puts query_only back, drops the probe table if it could be created).
func c17ProbeReal(h *sql.DB) (modeRO, queryOnly bool) {
	ctx := context.Background()
	conn, err := h.Conn(ctx)
	if err != nil {
		panic(err)
	}
	defer conn.Close()
	var qo int
	if err := conn.QueryRowContext(ctx, "PRAGMA query_only").Scan(&qo); err != nil {
		panic(err)
	}
	queryOnly = qo == 1
	if _, err := conn.ExecContext(ctx, "PRAGMA query_only=OFF"); err != nil {
		panic(err)
	}
	_, werr := conn.ExecContext(ctx, "CREATE TABLE verif_c17_probe(x)")
	modeRO = werr != nil
	if werr == nil {
		conn.ExecContext(ctx, "DROP TABLE verif_c17_probe")
	}
	if queryOnly {
		conn.ExecContext(ctx, "PRAGMA query_only=ON")
	}
	return modeRO, queryOnly
}

// committed rows, seen from an independent connection (neither of the DB's two pools)
func c17RowsReal(d *DB) []int64 {
	h, err := sql.Open(defaultDriverName, "file:"+d.path)
	if err != nil {
		panic(err)
	}
	defer h.Close()
	rs, err := h.Query("SELECT id FROM foo ORDER BY id")
	if err != nil {
		panic(err)
	}
	defer rs.Close()
	var out []int64
	for rs.Next() {
		var i int64
		if err := rs.Scan(&i); err != nil {
			panic(err)
		}
		out = append(out, i)
	}
	return out
}
