package db

import (
	"context"
	"database/sql"
	"net/url"
	"strings"

	sqlite3 "github.com/mattn/go-sqlite3"
	command "github.com/rqlite/rqlite/v10/command/proto"
)

// C17 (limited claim): reads never modify data - ROUTING ONLY.
//
// What is decided here (package db):
//   - VerifC17DSN:   MakeDSN(path, readOnly=true, fk, wal) yields, for every flag combination and
//     every path of a concrete set, a connection string whose parameter part (what go-sqlite3 and
//     SQLite's URI parser read) carries exactly one mode=ro and exactly one _query_only=<true>.
//   - VerifC17Open:  the pool set-up of OpenWithDriver: the handle stored as DB.roDB is a handle
//     that was opened read-only AND query-only (it is not the read-write handle, it was not opened
//     with the read-write DSN, the two handles are not swapped).
//   - VerifC17Query: (*DB).Query / QueryWithContext on a DB that came out of the real
//     OpenWithDriver: whatever statements a client sends through the read path (SELECT, INSERT,
//     INSERT..RETURNING, DELETE, "PRAGMA query_only=OFF" followed by writes, with or without
//     Transaction, over up to two consecutive requests that reuse the pooled connection), the
//     committed contents of the database are the same afterwards, and every data-changing
//     statement is answered with an error.
//
// Two worlds, one harness:
//   - symbolic run: database/sql is replaced (spec "models") by the abstract connection below.
//     A handle remembers the DSN it was opened with; whether a connection of that handle may write
//     is derived from that DSN the way the go-sqlite3 / SQLite documentation says (mode=ro opens
//     the file read-only for good; _query_only=true starts every connection with PRAGMA
//     query_only=ON, which a client may switch off again with a PRAGMA statement).
//   - native replay: the same entries run on a real on-disk SQLite database (replay_test.go).
//     "May this handle write?" is then answered by really trying.
//
// Whether SQLite classifies a text as read-only (sqlite3_stmt_readonly) and whether SQLite honours
// mode=ro / query_only is outside (cgo): the model takes the documentation at its word.

// ---------------------------------------------------------------------------------------------
// statement classes (concrete SQL so that both worlds run exactly the same request)

const (
	c17Read      = iota // SELECT id FROM foo ORDER BY id
	c17Insert           // INSERT of a fresh row
	c17InsertRet        // INSERT ... RETURNING id
	c17Delete           // DELETE of the base row
	c17PragmaOff        // PRAGMA query_only=OFF (a "read" that re-enables writing on a query-only connection)
	c17Empty            // ""
	c17NumClasses
)

const (
	c17SQLRead      = "SELECT id FROM foo ORDER BY id"
	c17SQLDelete    = "DELETE FROM foo WHERE id=1"
	c17SQLPragmaOff = "PRAGMA query_only=OFF"
	c17BaseRow      = int64(1)
	c17MsgReadonly  = "attempt to write a readonly database"
)

func c17RowID(req, pos int) int64 { return int64(100 + 10*req + pos) }

func c17InsertSQL(req, pos int) string {
	return "INSERT INTO foo(id,name) VALUES(1" + string(rune('0'+req)) + string(rune('0'+pos)) + ",'w')"
}
func c17InsertRetSQL(req, pos int) string { return c17InsertSQL(req, pos) + " RETURNING id" }

func c17SQLOf(class, req, pos int) string {
	switch class {
	case c17Read:
		return c17SQLRead
	case c17Insert:
		return c17InsertSQL(req, pos)
	case c17InsertRet:
		return c17InsertRetSQL(req, pos)
	case c17Delete:
		return c17SQLDelete
	case c17PragmaOff:
		return c17SQLPragmaOff
	}
	return ""
}

const (
	c17kRead = iota
	c17kInsert
	c17kDelete
	c17kPragmaOff
	c17kOther // set-up statements issued by OpenWithDriver (PRAGMA wal_autocheckpoint, BEGIN IMMEDIATE, ROLLBACK ...)
)

// c17Classify is the model's parser.
func c17Classify(q string) (kind int, id int64, returning bool) {
	switch q {
	case c17SQLRead:
		return c17kRead, 0, false
	case c17SQLDelete:
		return c17kDelete, c17BaseRow, false
	case c17SQLPragmaOff:
		return c17kPragmaOff, 0, false
	}
	for r := 0; r < 3; r++ {
		for p := 0; p < 6; p++ {
			if q == c17InsertSQL(r, p) {
				return c17kInsert, c17RowID(r, p), false
			}
			if q == c17InsertRetSQL(r, p) {
				return c17kInsert, c17RowID(r, p), true
			}
		}
	}
	if strings.HasPrefix(q, "INSERT") || strings.HasPrefix(q, "DELETE") || strings.HasPrefix(q, "SELECT") {
		panic("verif C17: SQL outside the statement table: " + q)
	}
	return c17kOther, 0, false
}

// ---------------------------------------------------------------------------------------------
// what a DSN means (go-sqlite3 README "Connection String", https://www.sqlite.org/uri.html):
// everything after the first '?' is a list of key=value pairs; mode=ro opens the database file
// read-only; _query_only=<bool> sets PRAGMA query_only on every new connection. The oracle demands
// that each of the two keys occurs exactly once (then "first value wins / last value wins"
// questions cannot arise) and has the read-only value.

func c17ParseDSN(dsn string) (modeRO, queryOnly, unambiguous bool) {
	pos := strings.IndexByte(dsn, '?')
	if pos < 0 {
		return false, false, true
	}
	params, err := url.ParseQuery(dsn[pos+1:])
	if err != nil {
		return false, false, false
	}
	unambiguous = len(params["mode"]) <= 1 && len(params["_query_only"]) <= 1
	modeRO = len(params["mode"]) >= 1 && params["mode"][0] == "ro"
	if len(params["_query_only"]) >= 1 {
		switch params["_query_only"][0] {
		case "1", "yes", "true", "on":
			queryOnly = true
		}
	}
	return modeRO, queryOnly, unambiguous
}

// ---------------------------------------------------------------------------------------------
// the abstract database + database/sql on top of it (symbolic run only)

type c17Handle struct {
	h         *sql.DB
	driver    string
	dsn       string
	modeRO    bool // from the DSN
	queryOnly bool // PRAGMA query_only of the (single, pooled, reused) connection of this handle
	inTx      bool
	pending   []int64 // rows inserted inside the open transaction
	pendDel   []int64 // rows deleted inside the open transaction
	closed    bool
}

type c17World struct {
	handles   []*c17Handle
	conns     []*sql.Conn
	connOf    []*c17Handle
	txs       []*sql.Tx
	txOf      []*c17Handle
	txDone    []bool
	committed []int64
	walExists bool
	opened    int
}

var c17W *c17World

func (w *c17World) handle(h *sql.DB) *c17Handle {
	for _, x := range w.handles {
		if x.h == h {
			return x
		}
	}
	panic("verif C17: unknown *sql.DB")
}
func (w *c17World) conn(c *sql.Conn) *c17Handle {
	for i, x := range w.conns {
		if x == c {
			return w.connOf[i]
		}
	}
	panic("verif C17: unknown *sql.Conn")
}
func (w *c17World) tx(t *sql.Tx) (int, *c17Handle) {
	for i, x := range w.txs {
		if x == t {
			return i, w.txOf[i]
		}
	}
	panic("runtime error: invalid memory address or nil pointer dereference (nil or unknown *sql.Tx)")
}

func c17Has(xs []int64, id int64) bool {
	for _, x := range xs {
		if x == id {
			return true
		}
	}
	return false
}
func c17Without(xs []int64, id int64) []int64 {
	var out []int64
	for _, x := range xs {
		if x != id {
			out = append(out, x)
		}
	}
	return out
}

// visible: what a SELECT on a connection of this handle sees
func (w *c17World) visible(x *c17Handle) []int64 {
	var out []int64
	for _, id := range w.committed {
		if !c17Has(x.pendDel, id) {
			out = append(out, id)
		}
	}
	return append(out, x.pending...)
}

func c17ReadonlyErr() error { return sqlite3.Error{Code: sqlite3.ErrReadonly} }

// step runs one statement to completion on a connection of handle x.
func (w *c17World) step(x *c17Handle, kind int, id int64) error {
	switch kind {
	case c17kInsert, c17kDelete:
		if x.modeRO || x.queryOnly {
			return c17ReadonlyErr()
		}
		if kind == c17kInsert {
			if c17Has(w.visible(x), id) {
				return sqlite3.Error{Code: sqlite3.ErrConstraint}
			}
			if x.inTx {
				x.pending = append(x.pending, id)
			} else {
				w.committed = append(w.committed, id)
			}
		} else {
			if x.inTx {
				if c17Has(x.pending, id) {
					x.pending = c17Without(x.pending, id)
				} else if c17Has(w.committed, id) {
					x.pendDel = append(x.pendDel, id)
				}
			} else {
				w.committed = c17Without(w.committed, id)
			}
		}
	case c17kPragmaOff:
		x.queryOnly = false
	}
	return nil
}

func (w *c17World) begin(x *c17Handle) error {
	if x.inTx {
		return sqlite3.Error{Code: sqlite3.ErrError}
	}
	x.inTx = true
	return nil
}
func (w *c17World) commit(x *c17Handle) {
	for _, id := range x.pendDel {
		w.committed = c17Without(w.committed, id)
	}
	w.committed = append(w.committed, x.pending...)
	x.pending, x.pendDel, x.inTx = nil, nil, false
}
func (w *c17World) rollback(x *c17Handle) { x.pending, x.pendDel, x.inTx = nil, nil, false }

// ---- models (spec.json "models") --------------------------------------------------------------

func c17SqlOpen(driver, dsn string) (*sql.DB, error) {
	w := c17W
	x := &c17Handle{h: &sql.DB{}, driver: driver, dsn: dsn}
	x.modeRO, x.queryOnly, _ = c17ParseDSN(dsn)
	w.handles = append(w.handles, x)
	w.opened++
	return x.h, nil
}
func c17DBClose(h *sql.DB) error { c17W.handle(h).closed = true; return nil }
func c17DBPing(h *sql.DB) error  { c17W.handle(h); return nil }
func c17DBExec(h *sql.DB, q string, args ...any) (sql.Result, error) {
	w := c17W
	x := w.handle(h)
	kind, id, _ := c17Classify(q)
	if err := w.step(x, kind, id); err != nil {
		return nil, err
	}
	return c17Res{}, nil
}
func c17DBConn(h *sql.DB, ctx context.Context) (*sql.Conn, error) {
	w := c17W
	c := &sql.Conn{}
	w.conns = append(w.conns, c)
	w.connOf = append(w.connOf, w.handle(h))
	return c, nil
}
func c17ConnClose(c *sql.Conn) error { c17W.conn(c); return nil }

type c17Res struct{ id, n int64 }

func (r c17Res) LastInsertId() (int64, error) { return r.id, nil }
func (r c17Res) RowsAffected() (int64, error) { return r.n, nil }

func c17Exec(x *c17Handle, q string) (sql.Result, error) {
	kind, id, _ := c17Classify(q)
	if err := c17W.step(x, kind, id); err != nil {
		return nil, err
	}
	return c17Res{id, 1}, nil
}

type c17RowsM struct {
	rs      *sql.Rows
	x       *c17Handle
	kind    int
	id      int64
	ret     bool
	stepped bool
	vals    []int64
	pos     int
	err     error
	cols    []string
}

var c17Rows []*c17RowsM

func c17Query(x *c17Handle, q string) (*sql.Rows, error) {
	kind, id, ret := c17Classify(q)
	m := &c17RowsM{rs: &sql.Rows{}, x: x, kind: kind, id: id, ret: ret}
	if kind == c17kRead || ret {
		m.cols = []string{"id"}
	}
	c17Rows = append(c17Rows, m)
	return m.rs, nil
}
func c17RowsOf(rs *sql.Rows) *c17RowsM {
	for _, m := range c17Rows {
		if m.rs == rs {
			return m
		}
	}
	panic("verif C17: unknown *sql.Rows")
}

func c17ConnBeginTx(c *sql.Conn, ctx context.Context, opts *sql.TxOptions) (*sql.Tx, error) {
	w := c17W
	x := w.conn(c)
	if err := w.begin(x); err != nil {
		return nil, err
	}
	t := &sql.Tx{}
	w.txs = append(w.txs, t)
	w.txOf = append(w.txOf, x)
	w.txDone = append(w.txDone, false)
	return t, nil
}
func c17ConnExec(c *sql.Conn, ctx context.Context, q string, args ...any) (sql.Result, error) {
	return c17Exec(c17W.conn(c), q)
}
func c17ConnQuery(c *sql.Conn, ctx context.Context, q string, args ...any) (*sql.Rows, error) {
	return c17Query(c17W.conn(c), q)
}
func c17TxExec(t *sql.Tx, ctx context.Context, q string, args ...any) (sql.Result, error) {
	i, x := c17W.tx(t)
	if c17W.txDone[i] {
		return nil, sql.ErrTxDone
	}
	return c17Exec(x, q)
}
func c17TxQuery(t *sql.Tx, ctx context.Context, q string, args ...any) (*sql.Rows, error) {
	i, x := c17W.tx(t)
	if c17W.txDone[i] {
		return nil, sql.ErrTxDone
	}
	return c17Query(x, q)
}
func c17TxCommit(t *sql.Tx) error {
	i, x := c17W.tx(t)
	if c17W.txDone[i] {
		return sql.ErrTxDone
	}
	c17W.txDone[i] = true
	c17W.commit(x)
	return nil
}
func c17TxRollback(t *sql.Tx) error {
	i, x := c17W.tx(t)
	if c17W.txDone[i] {
		return sql.ErrTxDone
	}
	c17W.txDone[i] = true
	c17W.rollback(x)
	return nil
}

func c17RowsColumns(rs *sql.Rows) ([]string, error) { return c17RowsOf(rs).cols, nil }
func c17RowsColumnTypes(rs *sql.Rows) ([]*sql.ColumnType, error) {
	m := c17RowsOf(rs)
	out := make([]*sql.ColumnType, len(m.cols))
	for i := range out {
		out[i] = &sql.ColumnType{}
	}
	return out, nil
}
func c17ColumnTypeName(ct *sql.ColumnType) string { return "INTEGER" }
func c17RowsNext(rs *sql.Rows) bool {
	m := c17RowsOf(rs)
	if !m.stepped {
		// SQLite runs the statement when the cursor is first advanced
		m.stepped = true
		if m.kind == c17kRead {
			m.vals = c17W.visible(m.x)
		} else if err := c17W.step(m.x, m.kind, m.id); err != nil {
			m.err = err
		} else if m.ret {
			m.vals = []int64{m.id}
		}
	}
	if m.err != nil || m.pos >= len(m.vals) {
		return false
	}
	m.pos++
	return true
}
func c17RowsScan(rs *sql.Rows, dest ...any) error {
	m := c17RowsOf(rs)
	if m.pos == 0 || len(dest) != 1 {
		panic("verif C17: bad Scan")
	}
	*(dest[0].(*any)) = m.vals[m.pos-1]
	return nil
}
func c17RowsErr(rs *sql.Rows) error   { return c17RowsOf(rs).err }
func c17RowsClose(rs *sql.Rows) error { return nil }

// the message of a go-sqlite3 error comes from C (sqlite3_errstr)
func c17SqliteErrorString(e sqlite3.Error) string {
	if e.Code == sqlite3.ErrReadonly {
		return c17MsgReadonly
	}
	return "verif C17: some other SQLite error"
}

func c17FileExists(path string) bool { return c17W.walExists }
func c17CheckpointDB(rwDB *sql.DB, mode CheckpointMode) (ok, pages, moved int, err error) {
	c17W.handle(rwDB)
	return 0, 0, 0, nil
}

// ---------------------------------------------------------------------------------------------
// the world switch: symbolic = model, native = real database (hooks set by replay_test.go)

var c17OpenNative func(name string, fk, wal bool) (*DB, error)
var c17CloseNative func(d *DB)
var c17ProbeNative func(h *sql.DB) (modeRO, queryOnly bool)
var c17RowsNative func(d *DB) []int64

// the path set: file names with characters that are special in a query string but legal in a
// SQLite URI path. ('?', '#' and '%' are SQLite URI metacharacters that MakeDSN does not escape:
// outside, see spec.json.)
var c17Names = []string{"db.sqlite", "my db.sqlite", "a&mode=rw&_query_only=false.sqlite", "dätä=1;x.sqlite"}

const c17SymDir = "/verif-c17/"

// c17Open runs the real OpenWithDriver. The database then holds table foo with the single row 1.
func c17Open(name string, fk, wal, walExists bool) *DB {
	if !verifSymbolic() {
		d, err := c17OpenNative(name, fk, wal)
		if err != nil {
			panic(err)
		}
		return d
	}
	c17W = &c17World{committed: []int64{c17BaseRow}, walExists: walExists}
	c17Rows = nil
	d, err := OpenWithDriver(&Driver{name: "verif-sqlite3"}, c17SymDir+name, fk, wal)
	if err != nil {
		panic("verif C17: model open failed: " + err.Error())
	}
	return d
}

func c17Close(d *DB) {
	if !verifSymbolic() {
		c17CloseNative(d)
	}
}

// c17Probe: is a connection of this handle unable to write, (a) because the file was opened
// read-only, (b) because it starts in query-only mode?
func c17Probe(h *sql.DB) (modeRO, queryOnly bool) {
	if !verifSymbolic() {
		return c17ProbeNative(h)
	}
	x := c17W.handle(h)
	m, q, unamb := c17ParseDSN(x.dsn)
	return m && unamb, q && unamb
}

// c17Committed: the committed rows of foo (seen from a connection that has nothing to do with the read path)
func c17Committed(d *DB) []int64 {
	if !verifSymbolic() {
		return c17RowsNative(d)
	}
	return append([]int64(nil), c17W.committed...)
}

func c17Same(a, b []int64) bool {
	if len(a) != len(b) {
		return false
	}
	for i := range a {
		if a[i] != b[i] {
			return false
		}
	}
	return true
}

// ---------------------------------------------------------------------------------------------
// entries

// VerifC17DSN: the read-only connection string.
func VerifC17DSN() {
	verifPanicsAreViolations()
	names := append([]string{"x#frag.sqlite", "p%20q.sqlite", "/abs/olute.db", ":memory:", "", "-wal"}, c17Names...)
	path := names[verifChoice("path", len(names))]
	if verifChoice("dir", 2) == 1 {
		path = "/var/lib/rqlite data/" + path
	}
	fk := verifChoice("fk", 2) == 1
	wal := verifChoice("wal", 2) == 1
	dsn := MakeDSN(path, ModeReadOnly, fk, wal)
	modeRO, queryOnly, unamb := c17ParseDSN(dsn)
	verifAssert("C17-ro-dsn-has-mode-ro", modeRO)
	verifAssert("C17-ro-dsn-has-query-only", queryOnly)
	verifAssert("C17-ro-dsn-unambiguous", unamb)
	// the parameters belong to the very file that was asked for
	verifAssert("C17-ro-dsn-names-the-file", strings.HasPrefix(dsn, "file:"+path+"?"))
	verifReach("dsn-built")
}

// VerifC17Open: the pool set-up of OpenWithDriver.
func VerifC17Open() {
	verifPanicsAreViolations()
	name := c17Names[verifChoice("path", len(c17Names))]
	fk := verifChoice("fk", 2) == 1
	wal := verifChoice("wal", 2) == 1
	walExists := verifChoice("walFileExists", 2) == 1
	d := c17Open(name, fk, wal, walExists)
	defer c17Close(d)

	verifAssert("C17-read-handle-is-not-the-write-handle", d.roDB != d.rwDB)
	verifAssert("C17-read-handle-exists", d.roDB != nil)
	modeRO, queryOnly := c17Probe(d.roDB)
	verifAssert("C17-read-handle-opened-read-only", modeRO)
	verifAssert("C17-read-handle-is-query-only", queryOnly)
	// what the DB reports as its read-only DSN is a read-only DSN, too
	m, q, u := c17ParseDSN(d.roDSN)
	verifAssert("C17-recorded-ro-dsn-is-read-only", m && q && u)
	if wal {
		verifReach("opened-wal")
	} else {
		verifReach("opened-delete-mode")
	}
	if wal && !walExists {
		verifReach("opened-wal-files-forced")
	}
}

type c17Shape struct {
	fk, wal bool
	tx      [2]bool
	kinds   [2][]int
}

func c17Request(s c17Shape, r int) *command.Request {
	req := &command.Request{Transaction: s.tx[r]}
	for pos, c := range s.kinds[r] {
		req.Statements = append(req.Statements, &command.Statement{Sql: c17SQLOf(c, r, pos)})
	}
	return req
}

func c17IsWrite(c int) bool { return c == c17Insert || c == c17InsertRet || c == c17Delete }

// VerifC17Query: the read path end to end on a database opened by the real OpenWithDriver.
func VerifC17Query() {
	verifPanicsAreViolations()
	var s c17Shape
	s.wal = true
	s.fk = false
	// bounds: first request 1..n1 statements of all classes, second request 0..1 statements;
	// WAL mode (rqlite's mode of operation) in the quick tier, both journal modes in the thorough tier
	n1max, n2max := 2, 1
	if verifTier() == 1 {
		n1max = 3
		s.wal = verifChoice("wal", 2) == 1
	}
	n1 := 1 + verifChoice("n1", n1max)
	n2 := verifChoice("n2", n2max+1)
	for r, n := range []int{n1, n2} {
		if n > 0 && (r == 0 || verifTier() == 1) {
			s.tx[r] = verifChoice(verifName("transaction", r), 2) == 1
		}
		for i := 0; i < n; i++ {
			if r == 1 && verifTier() == 0 {
				// quick tier: the follow-up request is a plain INSERT (what matters is the state the
				// first request left on the pooled connection); thorough: any class, Transaction on/off
				s.kinds[r] = append(s.kinds[r], c17Insert)
				continue
			}
			s.kinds[r] = append(s.kinds[r], verifChoice(verifName("class", 10*r+i), c17NumClasses))
		}
	}

	d := c17Open("db.sqlite", s.fk, s.wal, false)
	defer c17Close(d)
	before := c17Committed(d)
	verifAssume(c17Same(before, []int64{c17BaseRow}))

	sawWrite, sawPragmaThenWrite, pragma := false, false, false
	for r := 0; r < 2; r++ {
		if len(s.kinds[r]) == 0 {
			continue
		}
		rows, err := d.Query(c17Request(s, r), false)
		verifAssert("C17-query-request-served", err == nil)
		// one answer per non-empty statement; a data-changing statement is answered with an error
		k := 0
		for _, c := range s.kinds[r] {
			if c == c17Empty {
				continue
			}
			verifAssert("C17-one-answer-per-statement", k < len(rows) && rows[k] != nil)
			if c17IsWrite(c) {
				sawWrite = true
				if pragma {
					sawPragmaThenWrite = true
				}
				verifAssert("C17-write-through-read-path-is-refused", rows[k].Error != "")
				if rows[k].Error == ErrQueryWrite.Error() {
					verifReach("write-refused-with-documented-error")
				}
			}
			if c == c17PragmaOff {
				pragma = true
			}
			if c == c17Read && rows[k].Error == "" && len(rows[k].Values) == 1 {
				verifReach("read-served")
			}
			k++
		}
		verifAssert("C17-no-extra-answers", k == len(rows))
		// checked after every request: nothing changed
		verifAssert("C17-read-path-leaves-database-unchanged", c17Same(c17Committed(d), before))
	}
	if sawWrite {
		verifReach("write-attempted-through-read-path")
	}
	if sawPragmaThenWrite {
		verifReach("write-after-query-only-switched-off")
	}
	if s.tx[0] {
		verifReach("transaction-on-read-path")
	}
}

// Twin: the same machinery must be able to SEE a change: an INSERT through the write path
// (Execute) "leaves the database unchanged" - must be violated.
func VerifC17Twin() {
	d := c17Open("db.sqlite", false, verifChoice("wal", 2) == 1, false)
	defer c17Close(d)
	before := c17Committed(d)
	req := &command.Request{Statements: []*command.Statement{{Sql: c17InsertSQL(0, 0)}}}
	_, err := d.Execute(req, false)
	verifAssume(err == nil)
	verifAssert("twin-write-path-leaves-database-unchanged", c17Same(c17Committed(d), before))
}
