package store

import (
	"context"
	"errors"
	"io"
	"log"
	"sync/atomic"
	"time"

	"github.com/hashicorp/raft"
	"github.com/rqlite/rqlite/v10/command"
	"github.com/rqlite/rqlite/v10/command/proto"
	sql "github.com/rqlite/rqlite/v10/db"
	"github.com/rqlite/rqlite/v10/internal/rsync"
	"github.com/rqlite/rqlite/v10/store/throttler"
	pb "google.golang.org/protobuf/proto"
)

// C15b (store half of C15): the guard is applied to EVERY statement of EVERY request on the three
// entry points through which statement text reaches a node's database: the real (*Store).Execute,
// (*Store).Query and (*Store).Request (with RORWCount, fsmApply and (*CommandProcessor).Process
// behind them) run against
//   - the raft contract of DESIGN 4.5 (model below; spec "models" in the symbolic run, the patched
//     api.go + raft.VerifHooks in the native replay - the same Go functions). Apply decodes the
//     command it is handed (recording every statement text that reached raft) and gives it to the
//     REAL FSM before the future completes;
//   - a database: in the symbolic run a recording model behind the methods of *db.SwappableDB (every
//     statement text any of them is asked to run, or merely to prepare, is recorded); natively a
//     real on-disk database whose guarded settings and main file are observed before and after.
//
// Which TEXTS are dangerous is the question harness C15 (package db) decides; here the texts are a
// table of representatives of its regions (native precondition TestVerifC15bTexts: each of them
// really changes a setting or checkpoints when SQLite runs it, with and without superfluous
// parameters; none of the harmless ones does) and db.IsBreakingPragma runs for real.
//
// Oracle, from the statement ("no request accepted through any endpoint can change ..."):
//   a request that holds a guarded PRAGMA in ANY of its statements - whatever parameters that or the
//   other statements carry, whatever the flags, the level and the node's role - is refused, no
//   statement text of it is handed to raft and none reaches the database; on a node that would have
//   served the request the refusal is the error "disallowed pragma". A request without such a text
//   is never refused with that error.

// ---------------------------------------------------------------------------------------------
// statement texts

// guarded: representatives of the regions of harness C15 (plain assignment, schema prefix + case +
// white space, call syntax, quoted name, leading comment, comment between tokens, later statement
// of a multi-statement text - once behind a statement that HAS a placeholder, so that a parameter
// is not even superfluous - and white space other than a blank)
var cgGuarded = []string{
	"PRAGMA synchronous=FULL",
	"pragma main.journal_mode = DELETE",
	"PRAGMA wal_autocheckpoint(7)",
	"PRAGMA \"query_only\"=1",
	"/* c */ PRAGMA wal_checkpoint(TRUNCATE)",
	"PRAGMA/**/synchronous/**/=2",
	"INSERT INTO foo(name) VALUES(?); PRAGMA synchronous=EXTRA",
	"SELECT 1;\n--x\nPRAGMA\twal_checkpoint",
}

const cgSQLRead = "SELECT id FROM foo ORDER BY id"

// harmless: a read, writes with a positional / a named placeholder, reading a guarded setting
var cgHarmless = []string{
	cgSQLRead,
	"INSERT INTO foo(name) VALUES(?)",
	"INSERT INTO foo(name) VALUES(:name)",
	"PRAGMA synchronous",
}

func cgIsGuarded(q string) bool {
	for _, g := range cgGuarded {
		if q == g {
			return true
		}
	}
	return false
}

func cgIsWrite(q string) bool { return q == cgHarmless[1] || q == cgHarmless[2] }

// parameter shapes: none, one / two positional, one / two named, positional + named.
// String values are themselves the text of a guarded PRAGMA: a bound value is data.
const cgNumParamShapes = 6

func cgParams(shape int) []*proto.Parameter {
	i := func(v int64) *proto.Parameter { return &proto.Parameter{Value: &proto.Parameter_I{I: v}} }
	s := func(name string) *proto.Parameter {
		return &proto.Parameter{Name: name, Value: &proto.Parameter_S{S: cgGuarded[0]}}
	}
	switch shape {
	case 1:
		return []*proto.Parameter{i(1)}
	case 2:
		return []*proto.Parameter{s(""), i(2)}
	case 3:
		return []*proto.Parameter{s("name")}
	case 4:
		return []*proto.Parameter{s("name"), {Name: "v", Value: &proto.Parameter_I{I: 3}}}
	case 5:
		return []*proto.Parameter{i(4), s("name")}
	}
	return nil
}

// the harmless companions used where the full product is too large: (text, parameter shape)
var cgCompanions = [][2]int{{0, 0}, {1, 1}, {2, 3}, {3, 0}, {1, 0}, {0, 2}}

// ---------------------------------------------------------------------------------------------
// recording database behind *db.SwappableDB (symbolic run only; spec "models")

type cgDB struct {
	texts []string // every statement text the database was asked to run or to prepare
	rows  int
}

var cgD *cgDB

func (d *cgDB) see(q *proto.Request) {
	for _, st := range q.Statements {
		d.texts = append(d.texts, st.Sql)
	}
}

func cgSwQueryCtx(s *sql.SwappableDB, ctx context.Context, q *proto.Request, xTime bool) ([]*proto.QueryRows, error) {
	cgD.see(q)
	var out []*proto.QueryRows
	for _, st := range q.Statements {
		if cgIsWrite(st.Sql) {
			out = append(out, &proto.QueryRows{Error: sql.ErrQueryWrite.Error()})
			continue
		}
		out = append(out, &proto.QueryRows{Columns: []string{"id"}, Types: []string{"integer"}})
	}
	return out, nil
}
func cgSwQuery(s *sql.SwappableDB, q *proto.Request, xTime bool) ([]*proto.QueryRows, error) {
	return cgSwQueryCtx(s, context.Background(), q, xTime)
}

func cgSwExecuteCtx(s *sql.SwappableDB, ctx context.Context, q *proto.Request, xTime bool) ([]*proto.ExecuteQueryResponse, error) {
	cgD.see(q)
	var out []*proto.ExecuteQueryResponse
	for _, st := range q.Statements {
		if cgIsWrite(st.Sql) {
			cgD.rows++
		}
		out = append(out, &proto.ExecuteQueryResponse{Result: &proto.ExecuteQueryResponse_E{E: &proto.ExecuteResult{}}})
	}
	return out, nil
}
func cgSwExecute(s *sql.SwappableDB, q *proto.Request, xTime bool) ([]*proto.ExecuteQueryResponse, error) {
	return cgSwExecuteCtx(s, context.Background(), q, xTime)
}

func cgSwRequestCtx(s *sql.SwappableDB, ctx context.Context, q *proto.Request, xTime bool) ([]*proto.ExecuteQueryResponse, error) {
	cgD.see(q)
	var out []*proto.ExecuteQueryResponse
	for _, st := range q.Statements {
		if cgIsWrite(st.Sql) {
			cgD.rows++
			out = append(out, &proto.ExecuteQueryResponse{Result: &proto.ExecuteQueryResponse_E{E: &proto.ExecuteResult{}}})
		} else {
			out = append(out, &proto.ExecuteQueryResponse{Result: &proto.ExecuteQueryResponse_Q{Q: &proto.QueryRows{Columns: []string{"id"}, Types: []string{"integer"}}}})
		}
	}
	return out, nil
}
func cgSwRequest(s *sql.SwappableDB, q *proto.Request, xTime bool) ([]*proto.ExecuteQueryResponse, error) {
	return cgSwRequestCtx(s, context.Background(), q, xTime)
}

// sqlite3_stmt_readonly needs the statement PREPARED, and SQLite carries out several PRAGMAs
// (synchronous, wal_autocheckpoint, query_only among them) while preparing: a text that is handed
// to StmtReadOnly has reached the database.
func cgSwStmtReadOnly(s *sql.SwappableDB, q string) (bool, error) {
	cgD.texts = append(cgD.texts, q)
	return cgModelReadOnly(q), nil
}

// cgModelReadOnly: what sqlite3_stmt_readonly answers for the FIRST statement of the text (that is
// what gets prepared): not read-only are the INSERTs and the PRAGMAs that compile to a journal-mode
// change or a checkpoint; the PRAGMAs SQLite carries out while preparing count as read-only
// (checked against SQLite by the native test TestVerifC15bReadOnlyModel).
func cgModelReadOnly(q string) bool {
	switch q {
	case cgHarmless[1], cgHarmless[2], cgGuarded[1], cgGuarded[4], cgGuarded[6]:
		return false
	}
	return true
}

// ---------------------------------------------------------------------------------------------
// codec algebra (symbolic run only): protobuf is not executable symbolically. Marshal hands out
// a token, Unmarshal gives back what was marshalled (as in harness C17b).

type cgCodec struct {
	subs []command.Requester
	cmds []*proto.Command
}

var cgC *cgCodec

func cgTryCompress(s *Store, rq command.Requester) ([]byte, bool, error) {
	cgC.subs = append(cgC.subs, rq)
	return []byte{0xC1, byte(len(cgC.subs) - 1)}, false, nil
}
func cgCommandMarshal(c *proto.Command) ([]byte, error) {
	cgC.cmds = append(cgC.cmds, &proto.Command{Type: c.Type, SubCommand: c.SubCommand, Compressed: c.Compressed})
	return []byte{0xC0, byte(len(cgC.cmds) - 1)}, nil
}
func cgCommandUnmarshal(b []byte, c *proto.Command) error {
	if len(b) != 2 || b[0] != 0xC0 || int(b[1]) >= len(cgC.cmds) {
		return errors.New("verif C15b: not a marshalled command")
	}
	src := cgC.cmds[b[1]]
	c.Type, c.SubCommand, c.Compressed = src.Type, src.SubCommand, src.Compressed
	return nil
}
func cgUnmarshalSub(c *proto.Command, m pb.Message) error {
	b := c.SubCommand
	if len(b) != 2 || b[0] != 0xC1 || int(b[1]) >= len(cgC.subs) {
		return errors.New("verif C15b: not a marshalled sub-command")
	}
	src := cgC.subs[b[1]]
	var lvl proto.ConsistencyLevel
	var fresh int64
	var strict bool
	switch x := src.(type) {
	case *proto.QueryRequest:
		lvl, fresh, strict = x.Level, x.Freshness, x.FreshnessStrict
	case *proto.ExecuteQueryRequest:
		lvl, fresh, strict = x.Level, x.Freshness, x.FreshnessStrict
	}
	timings := false
	switch x := src.(type) {
	case *proto.QueryRequest:
		timings = x.Timings
	case *proto.ExecuteRequest:
		timings = x.Timings
	case *proto.ExecuteQueryRequest:
		timings = x.Timings
	}
	switch dst := m.(type) {
	case *proto.QueryRequest:
		dst.Request, dst.Timings, dst.Level, dst.Freshness, dst.FreshnessStrict = src.GetRequest(), timings, lvl, fresh, strict
	case *proto.ExecuteRequest:
		dst.Request, dst.Timings = src.GetRequest(), timings
	case *proto.ExecuteQueryRequest:
		dst.Request, dst.Timings, dst.Level, dst.Freshness, dst.FreshnessStrict = src.GetRequest(), timings, lvl, fresh, strict
	default:
		return errors.New("verif C15b: unexpected sub-command target")
	}
	return nil
}

// ---------------------------------------------------------------------------------------------
// raft contract (DESIGN 4.5), both worlds. Role, term and membership do not change during a call;
// a leader's VerifyLeader and Apply succeed, a follower's fail with ErrNotLeader (what the store
// does with the other outcomes is decided by C16b / C17b).

type cgRaftWorld struct {
	leader  bool
	known   bool
	term    uint64
	commit  uint64
	voter   int // 0 voter, 1 non-voter, 2 not in the configuration (chosen when the store asks)
	voterChosen bool
	fsm     *FSM
	applies int
	texts   []string // every statement text inside a command handed to Apply
	opaque  int      // commands handed to Apply that could not be decoded
}

var cgW *cgRaftWorld

const cgSelfID = "self"

type cgFuture struct {
	err  error
	idx  uint64
	resp any
	conf raft.Configuration
}

func (f *cgFuture) Error() error                      { return f.err }
func (f *cgFuture) Index() uint64                     { return f.idx }
func (f *cgFuture) Response() interface{}             { return f.resp }
func (f *cgFuture) Configuration() raft.Configuration { return f.conf }

func cgRaftState(r *raft.Raft) raft.RaftState {
	if cgW.leader {
		return raft.Leader
	}
	return raft.Follower
}
func cgRaftCurrentTerm(r *raft.Raft) uint64    { return cgW.term }
func cgRaftCommitIndex(r *raft.Raft) uint64    { return cgW.commit }
func cgRaftAppliedIndex(r *raft.Raft) uint64   { return cgW.commit }
func cgRaftLastContact(r *raft.Raft) time.Time { return time.Time{} }
func cgRaftLeaderWithID(r *raft.Raft) (raft.ServerAddress, raft.ServerID) {
	if cgW.known {
		return "leader-addr", "leader-id"
	}
	return "", ""
}
func cgRaftLeader(r *raft.Raft) raft.ServerAddress { a, _ := cgRaftLeaderWithID(r); return a }
func cgRaftVerifyLeader(r *raft.Raft) raft.Future {
	if !cgW.leader {
		return &cgFuture{err: raft.ErrNotLeader}
	}
	return &cgFuture{}
}
func cgRaftBarrier(r *raft.Raft, timeout time.Duration) raft.Future {
	cgW.commit++
	return &cgFuture{}
}
func cgRaftGetConfiguration(r *raft.Raft) raft.ConfigurationFuture {
	servers := []raft.Server{{ID: "other", Address: "other-addr", Suffrage: raft.Voter}}
	if !cgW.voterChosen {
		cgW.voter, cgW.voterChosen = verifChoice("voter", 3), true
	}
	switch cgW.voter {
	case 0:
		servers = append(servers, raft.Server{ID: cgSelfID, Address: "self-addr", Suffrage: raft.Voter})
	case 1:
		servers = append(servers, raft.Server{ID: cgSelfID, Address: "self-addr", Suffrage: raft.Nonvoter})
	}
	return &cgFuture{conf: raft.Configuration{Servers: servers}}
}

// cgSeen: what is inside a command handed to raft (decoded with the same functions the FSM uses:
// the token algebra symbolically, the real decoders natively).
func (w *cgRaftWorld) cgSeen(cmd []byte) {
	var c proto.Command
	if err := command.Unmarshal(cmd, &c); err != nil {
		w.opaque++
		return
	}
	var req *proto.Request
	switch c.Type {
	case proto.Command_COMMAND_TYPE_QUERY:
		var m proto.QueryRequest
		if command.UnmarshalSubCommand(&c, &m) == nil {
			req = m.Request
		}
	case proto.Command_COMMAND_TYPE_EXECUTE:
		var m proto.ExecuteRequest
		if command.UnmarshalSubCommand(&c, &m) == nil {
			req = m.Request
		}
	case proto.Command_COMMAND_TYPE_EXECUTE_QUERY:
		var m proto.ExecuteQueryRequest
		if command.UnmarshalSubCommand(&c, &m) == nil {
			req = m.Request
		}
	}
	if req == nil {
		w.opaque++
		return
	}
	for _, st := range req.Statements {
		w.texts = append(w.texts, st.Sql)
	}
}

func cgRaftApply(r *raft.Raft, cmd []byte, timeout time.Duration) raft.ApplyFuture {
	w := cgW
	w.applies++
	w.cgSeen(cmd)
	if !w.leader {
		return &cgFuture{err: raft.ErrNotLeader}
	}
	w.commit++
	resp := w.fsm.Apply(&raft.Log{Index: w.commit, Term: w.term, Type: raft.LogCommand, Data: cmd, AppendedAt: time.Now()})
	return &cgFuture{idx: w.commit, resp: resp}
}

// native replay: installs / removes raft.VerifHooks (set by hooks_test.go; nil in the symbolic run)
var cgRaftHooksInstall func()
var cgRaftHooksRemove func()

// ---------------------------------------------------------------------------------------------
// the world

var cgOpenNative func() *sql.SwappableDB
var cgCloseNative func(d *sql.SwappableDB)

// cgStateNative: the guarded settings of the read-write and the read-only connections and a digest
// of the main database file (with wal_autocheckpoint=0 it changes only when a checkpoint runs)
var cgStateNative func(d *sql.SwappableDB, before bool) string

// levels: the five values of proto.ConsistencyLevel (none, weak, strong, auto, linearizable = 0..4)
var cgLevels = []proto.ConsistencyLevel{
	proto.ConsistencyLevel_NONE, proto.ConsistencyLevel_WEAK, proto.ConsistencyLevel_STRONG,
	proto.ConsistencyLevel_AUTO, proto.ConsistencyLevel_LINEARIZABLE,
}

type cgScenario struct {
	s       *Store
	w       *cgRaftWorld
	level   proto.ConsistencyLevel
	req     *proto.Request
	guarded bool // one statement of the request is a guarded PRAGMA text
	timings bool
	state0  string
}

func (sc *cgScenario) close() {
	if !verifSymbolic() {
		cgCloseNative(sc.s.db)
	}
	if cgRaftHooksRemove != nil {
		cgRaftHooksRemove()
	}
}

// cgRequest chooses the request: 1..maxN statements, at most one of them (any position) a guarded
// text, the others harmless, every statement with one of the parameter shapes; Transaction,
// RollbackOnError and Timings are free.
//
// What is enumerated (the rest of this function only keeps the product affordable):
//   guarded statement: every parameter shape; every text when it is the only statement (and, in the
//     thorough tier, in requests of two); else the plain text and the multi-statement text;
//   harmless statements: a request of one: every (text, shape) pair (quick: the six companions);
//     next to a guarded statement or to each other: the first four companions (thorough, requests
//     of two: all six; harmless requests of three: the first three).
func cgRequest(maxN int) (*proto.Request, bool, bool) {
	thorough := verifTier() == 1
	n := 1 + verifChoice("n", maxN)
	g := verifChoice("guardedAt", n+1) - 1 // -1: no guarded statement
	nComp := 4
	switch {
	case n == 1 || (n == 2 && thorough):
		nComp = len(cgCompanions)
	case n == 3 && g < 0:
		nComp = 3
	}
	req := &proto.Request{}
	for i := 0; i < n; i++ {
		st := &proto.Statement{}
		switch {
		case i == g:
			if n == 1 || (n == 2 && thorough) {
				st.Sql = cgGuarded[verifChoice("guardedText", len(cgGuarded))]
			} else {
				st.Sql = cgGuarded[[]int{0, 6}[verifChoice("guardedText", 2)]]
			}
			st.Parameters = cgParams(verifChoice(verifName("params", i), cgNumParamShapes))
		case n == 1 && thorough:
			st.Sql = cgHarmless[verifChoice(verifName("text", i), len(cgHarmless))]
			st.Parameters = cgParams(verifChoice(verifName("params", i), cgNumParamShapes))
		default:
			c := cgCompanions[verifChoice(verifName("companion", i), nComp)]
			st.Sql, st.Parameters = cgHarmless[c[0]], cgParams(c[1])
		}
		req.Statements = append(req.Statements, st)
	}
	// flags: free (symbolic) - nothing may depend on them before the guard has looked at the texts
	req.Transaction = verifBool("transaction")
	req.RollbackOnError = verifBool("rollbackOnError")
	return req, verifBool("timings"), g >= 0
}

// cgSetup chooses the node (role, leader known, membership for level auto, whether a strong read
// was already made in this term for level linearizable) and the level.
func cgSetup(withLevel, guarded bool) *cgScenario {
	if cgRaftHooksInstall != nil {
		cgRaftHooksInstall()
	}
	sc := &cgScenario{}
	w := &cgRaftWorld{term: 3, commit: 5}
	cgW, sc.w = w, w
	// role and level are free. For a request with a guarded statement they are symbolic: a path
	// splits on them only where the code under test looks at them - when the guard refuses the
	// request, nowhere. For a harmless request, which is served, every value is a path of its own.
	// (Quick tier, harmless requests: a voter, no strong read made yet in this term.)
	strongRead := uint64(0)
	if guarded {
		w.leader = verifBool("leader")
		if withLevel {
			sc.level = proto.ConsistencyLevel(verifU8("level") % uint8(len(cgLevels)))
			strongRead = uint64(verifU8("strongReadInThisTerm") & 1)
		}
	} else {
		w.leader = verifChoice("leader", 2) == 0
		if withLevel {
			sc.level = cgLevels[verifChoice("level", len(cgLevels))]
			if sc.level == proto.ConsistencyLevel_LINEARIZABLE && verifTier() == 1 {
				strongRead = uint64(verifChoice("strongReadInThisTerm", 2))
			}
		}
		w.voterChosen = verifTier() == 0
	}
	w.known = true

	s := &Store{
		open:           rsync.NewAtomicBool(),
		raft:           &raft.Raft{}, // never consulted: every method the paths call is modelled
		raftID:         cgSelfID,
		raftTn:         &NodeTransport{commandCommitIndex: &atomic.Uint64{}, leaderCommitIndex: &atomic.Uint64{}},
		readyChans:     rsync.NewReadyChannels(),
		fsmTarget:      rsync.NewReadyTarget[uint64](),
		appliedTarget:  rsync.NewReadyTarget[uint64](),
		fsmUpdateTime:  rsync.NewAtomicTime(),
		appendedAtTime: rsync.NewAtomicTime(),
		dbModifiedTime: rsync.NewAtomicTime(),
		reqMarshaller:  command.NewRequestMarshaler(),
		throttler:      throttler.New(nil, 1, 0),
		logger:         log.New(io.Discard, "", 0),
		ApplyTimeout:   applyTimeout,
	}
	s.cmdProc = NewCommandProcessor(s.logger, nil)
	s.open.Set()
	s.fsmIdx.Store(w.commit)
	s.fsmTarget.Signal(w.commit)
	s.fsmTerm.Store(w.term)
	s.strongReadTerm.Store(strongRead * w.term) // level linearizable: a strong read was (term) / was not (0) made in this term
	if verifSymbolic() {
		cgD = &cgDB{}
		cgC = &cgCodec{}
		s.db = &sql.SwappableDB{}
	} else {
		s.db = cgOpenNative()
		sc.state0 = cgStateNative(s.db, true)
	}
	sc.s = s
	w.fsm = NewFSM(s)
	return sc
}

func cgAnyGuarded(texts []string) bool {
	for _, q := range texts {
		if cgIsGuarded(q) {
			return true
		}
	}
	return false
}

// reachedDatabase: did the guarded statement get to the database. Symbolic run: the model saw its
// text. Native replay: a guarded setting of one of the connections changed, or a checkpoint ran.
func (sc *cgScenario) reachedDatabase() bool {
	if verifSymbolic() {
		return cgAnyGuarded(cgD.texts)
	}
	return cgStateNative(sc.s.db, false) != sc.state0
}

const cgDocumentedError = "disallowed pragma"

// the oracle, common to the three entry points
func (sc *cgScenario) check(ep string, err error) {
	w := sc.w
	refusedByGuard := err != nil && err.Error() == cgDocumentedError
	if !sc.guarded {
		verifAssert("C15-request-without-guarded-pragma-is-not-refused-by-the-guard", !refusedByGuard)
		if err == nil {
			verifReach(ep + "-harmless-request-served")
			if w.applies > 0 {
				verifReach(ep + "-harmless-request-through-the-log")
			}
		}
		return
	}
	verifAssert("C15-guarded-pragma-is-not-handed-to-raft", !cgAnyGuarded(w.texts) && w.opaque == 0)
	verifAssert("C15-guarded-pragma-does-not-reach-the-database", !sc.reachedDatabase())
	verifAssert("C15-request-with-guarded-pragma-is-refused", err != nil)
	// a leader serves every request of this harness at every level: there the refusal can only be the guard's
	// (the concrete operand first: no path split when it holds)
	verifAssert("C15-refusal-is-the-documented-error", refusedByGuard || !w.leader)
	verifAssert("C15-refused-request-leaves-no-trace-in-the-log", w.applies == 0 || !w.leader)
	verifReach(ep + "-guarded-request-refused")
	if len(sc.req.Statements) > 1 && !cgIsGuarded(sc.req.Statements[0].Sql) {
		verifReach(ep + "-guarded-later-statement-refused")
	}
	for _, st := range sc.req.Statements {
		if cgIsGuarded(st.Sql) && len(st.Parameters) > 0 {
			verifReach(ep + "-guarded-statement-with-parameters-refused")
		}
	}
}

func cgMaxN() int {
	if verifTier() == 1 {
		return 3
	}
	return 2
}

// VerifC15bExecute: the execute endpoint (also what /db/load with SQL text and the write queue use).
func VerifC15bExecute() {
	verifPanicsAreViolations()
	req, timings, guarded := cgRequest(cgMaxN())
	sc := cgSetup(false, guarded)
	defer sc.close()
	sc.req, sc.timings, sc.guarded = req, timings, guarded
	_, _, err := sc.s.Execute(context.Background(), &proto.ExecuteRequest{Request: sc.req, Timings: sc.timings})
	sc.check("execute", err)
}

// VerifC15bQuery: the query endpoint, every level.
func VerifC15bQuery() {
	verifPanicsAreViolations()
	req, timings, guarded := cgRequest(cgMaxN())
	sc := cgSetup(true, guarded)
	defer sc.close()
	sc.req, sc.timings, sc.guarded = req, timings, guarded
	_, _, _, err := sc.s.Query(context.Background(), &proto.QueryRequest{Request: sc.req, Timings: sc.timings, Level: sc.level})
	sc.check("query", err)
}

// VerifC15bRequest: the unified endpoint, every level.
func VerifC15bRequest() {
	verifPanicsAreViolations()
	req, timings, guarded := cgRequest(cgMaxN())
	sc := cgSetup(true, guarded)
	defer sc.close()
	sc.req, sc.timings, sc.guarded = req, timings, guarded
	_, _, _, err := sc.s.Request(context.Background(), &proto.ExecuteQueryRequest{Request: sc.req, Timings: sc.timings, Level: sc.level})
	sc.check("request", err)
}

// Twin: the same machinery claims that reading a guarded setting is refused like changing it.
// Must be violated.
func VerifC15bTwin() {
	sc := cgSetup(false, false)
	defer sc.close()
	sc.req = &proto.Request{Statements: []*proto.Statement{{Sql: cgHarmless[3], Parameters: cgParams(1)}}}
	_, _, err := sc.s.Execute(context.Background(), &proto.ExecuteRequest{Request: sc.req})
	verifAssert("twin-reading-a-setting-is-refused", err != nil && err.Error() == cgDocumentedError)
}
