package store

import (
	"crypto/sha256"
	"fmt"
	"os"
	"path/filepath"
	"testing"

	"github.com/hashicorp/raft"
	"github.com/rqlite/rqlite/v10/command/proto"
	sql "github.com/rqlite/rqlite/v10/db"
)

// Native replay only.
// (1) route the *raft.Raft API methods to the harness's raft contract model through the hook set
//     of the patched api.go (raft_api.go.txt, spec "native_module_patch");
// (2) the database is a real on-disk SQLite database behind a real *db.SwappableDB (opened the way
//     the store opens it: WAL mode, synchronous off, wal_autocheckpoint 0) with table foo and some
//     rows in the WAL, so that a checkpoint has something to move into the main file.
func init() {
	cgRaftHooksInstall = func() {
		raft.VerifHooks = &raft.VerifHookSet{
			Leader:           cgRaftLeader,
			LeaderWithID:     cgRaftLeaderWithID,
			Apply:            cgRaftApply,
			Barrier:          cgRaftBarrier,
			VerifyLeader:     cgRaftVerifyLeader,
			GetConfiguration: cgRaftGetConfiguration,
			State:            cgRaftState,
			LastContact:      cgRaftLastContact,
			CurrentTerm:      cgRaftCurrentTerm,
			CommitIndex:      cgRaftCommitIndex,
			AppliedIndex:     cgRaftAppliedIndex,
		}
	}
	cgRaftHooksRemove = func() { raft.VerifHooks = nil }

	dirs := map[*sql.SwappableDB]string{}
	cgOpenNative = func() *sql.SwappableDB {
		dir, err := os.MkdirTemp("", "verif-c15b-")
		if err != nil {
			panic(err)
		}
		d, err := sql.OpenSwappable(filepath.Join(dir, "db.sqlite"), nil, false, true, 4)
		if err != nil {
			panic(err)
		}
		dirs[d] = dir
		qs := []string{"CREATE TABLE foo (id INTEGER PRIMARY KEY, name TEXT)"}
		for i := 0; i < 5; i++ {
			qs = append(qs, fmt.Sprintf("INSERT INTO foo(name) VALUES('base %d')", i))
		}
		for _, q := range qs {
			r, err := d.Execute(&proto.Request{Statements: []*proto.Statement{{Sql: q}}}, false)
			if err != nil || len(r) != 1 || r[0].GetError() != "" {
				panic("verif C15b: cannot prepare the native database")
			}
		}
		return d
	}
	cgCloseNative = func(d *sql.SwappableDB) {
		d.Close()
		os.RemoveAll(dirs[d])
		delete(dirs, d)
	}
	// The state before a call is taken WITHOUT opening a read-only connection (SQLite leaves WAL mode
	// only when no other connection is open, so looking first would hide a journal-mode change); the
	// read-only settings every database starts with are read once from a throw-away database opened
	// in the same way.
	roBaseline := ""
	cgStateNative = func(d *sql.SwappableDB, before bool) string {
		out := "rw:" + d.VerifC15bSettings(false)
		b, err := os.ReadFile(d.Path())
		if err != nil {
			panic(err)
		}
		out += fmt.Sprintf(" main=%d:%x", len(b), sha256.Sum256(b))
		if !before {
			return out + " ro:" + d.VerifC15bSettings(true)
		}
		if roBaseline == "" {
			t := cgOpenNative()
			roBaseline = t.VerifC15bSettings(true)
			cgCloseNative(t)
		}
		return out + " ro:" + roBaseline
	}
}

// TestVerifC15bTexts (spec "native_checks"): the precondition of the text table. Executed by SQLite
// on the read-write connection - without parameters and with each parameter shape - every guarded
// text changes a guarded setting or runs a checkpoint; no harmless text does.
func TestVerifC15bTexts(t *testing.T) {
	run := func(q string, shape int) (changed bool, detail string) {
		d := cgOpenNative()
		defer cgCloseNative(d)
		before := cgStateNative(d, true)
		d.Execute(&proto.Request{Statements: []*proto.Statement{{Sql: q, Parameters: cgParams(shape)}}}, false)
		after := cgStateNative(d, false)
		return before != after, before + " -> " + after
	}
	for _, q := range cgGuarded {
		for shape := 0; shape < cgNumParamShapes; shape++ {
			if changed, _ := run(q, shape); !changed {
				t.Errorf("guarded text %q with parameter shape %d changes nothing", q, shape)
			}
		}
	}
	for _, q := range cgHarmless {
		for shape := 0; shape < cgNumParamShapes; shape++ {
			if changed, detail := run(q, shape); changed {
				t.Errorf("harmless text %q with parameter shape %d changes a guarded setting: %s", q, shape, detail)
			}
		}
	}
}

// TestVerifC15bReadOnlyModel: the model's answer for StmtReadOnly (cgSwStmtReadOnly) is SQLite's for
// every text of the two tables (it decides whether the unified endpoint serves a request locally or
// through the log, so a replay follows the symbolic path only if the two agree).
func TestVerifC15bReadOnlyModel(t *testing.T) {
	d := cgOpenNative()
	defer cgCloseNative(d)
	for _, q := range append(append([]string{}, cgGuarded...), cgHarmless...) {
		ro, err := d.StmtReadOnly(q)
		if err != nil {
			t.Errorf("StmtReadOnly(%q): %v", q, err)
			continue
		}
		if ro != cgModelReadOnly(q) {
			t.Errorf("StmtReadOnly(%q) = %v, the model says %v", q, ro, cgModelReadOnly(q))
		}
	}
}
