package backup

// Native side of VerifC37Provider: a real *store.Store, constructed as far as the binary,
// non-vacuum path of (*Store).Backup needs (open flag, a non-WAL database handle so that no
// pre-backup snapshot is attempted, the snapshot gate, the database path), with setters for the
// unexported state the harness world drives. Only compiled for the native replay.

import (
	"os"
	"path/filepath"
	"reflect"
	"sync/atomic"
	"unsafe"

	sql "github.com/rqlite/rqlite/v10/db"
	"github.com/rqlite/rqlite/v10/internal/rsync"
	"github.com/rqlite/rqlite/v10/store"
)

func verifField(obj any, name string) reflect.Value {
	f := reflect.ValueOf(obj).Elem().FieldByName(name)
	if !f.IsValid() {
		panic("verif: no field " + name)
	}
	return reflect.NewAt(f.Type(), unsafe.Pointer(f.UnsafeAddr())).Elem()
}

func init() {
	verifNativeStore = func() *verifStoreCtl {
		dir, err := os.MkdirTemp("/tmp", "verif-c37-store-")
		if err != nil {
			panic(err)
		}
		s := store.New(&store.Config{DBConf: store.NewDBConfig(), Dir: dir, ID: "verif"}, nil)
		s.RaftLogLevel = "WARN" // no "backed up" log line (it would ask the database for its size)
		sdb := &sql.SwappableDB{}
		verifField(sdb, "db").Set(reflect.ValueOf(&sql.DB{}))
		verifField(s, "db").Set(reflect.ValueOf(sdb))
		open := verifField(s, "open").Interface().(*rsync.AtomicBool)
		idx := (*atomic.Uint64)(unsafe.Pointer(verifField(s, "dbAppliedIdx").UnsafeAddr()))
		dbPath := verifField(s, "dbPath").String()
		if filepath.Dir(dbPath) != dir {
			panic("verif: unexpected database path " + dbPath)
		}
		return &verifStoreCtl{
			store:    s,
			setOpen:  open.SetBool,
			setIndex: idx.Store,
			setImage: func(b []byte) {
				if err := os.WriteFile(dbPath, b, 0o644); err != nil {
					panic(err)
				}
			},
			cleanup: func() { os.RemoveAll(dir) },
		}
	}
}
