package backup

// C37: automatic backups upload every change.
//
// Entries
//   VerifC37Step      one round of the real (*Uploader).upload from ANY uploader state (inductive step)
//   VerifC37Rounds    K rounds of a fresh uploader: failures are retried by later rounds
//   VerifC37Ticker    the ticker loop of (*Uploader).Start on the model clock
//   VerifC37Provider  real Uploader over the real store.Provider while the store refuses backups
//   VerifC37Provide   real (*Provider).LastIndex / Provide on a failing disk
//   VerifC37Twin      vacuity twin
//
// In the first three the real uploader code runs against
//   - a model DataProvider: a database whose index never decreases and receives a symbolic number
//     of writes between rounds AND between LastIndex and Provide (and later, while the round is
//     still uploading); Provide writes an image that encodes the state it contains, or fails
//     (before writing / after a partial write);
//   - a model StorageClient that records what it is given (label, every byte it can read) and
//     fails CurrentID / Upload on command; the remote object left by an earlier incarnation is
//     symbolic (non-numeric id, any numeric id).
// The oracle is written from the property statement; it keeps its OWN notion of "last successful
// upload" (the label of the last Upload call that returned nil) and never derives it from the code.

import (
	"context"
	"errors"
	"expvar"
	"io"
	"log"
	"os"
	"strconv"
	"time"

	"github.com/rqlite/rqlite/v10/command/proto"
	"github.com/rqlite/rqlite/v10/store"
)

// ---------------------------------------------------------------- ids and images

// verifID is the label an object carrying index x must have.
func verifID(x uint64) string { return strconv.FormatUint(x, 10) }

// verifFormatUint replaces strconv.FormatUint in the SYMBOLIC run only (spec "models"): decimal
// formatting is abstracted to an injective fixed-width encoding, so that label comparisons stay
// bit-vector equalities. The native replay uses the real strconv.FormatUint.
func verifFormatUint(i uint64, base int) string {
	b := make([]byte, 8)
	for k := 0; k < 8; k++ {
		b[k] = byte(i >> uint(56-8*k))
	}
	return string(b)
}

const verifImageLen = 11

// verifImage is the backup image of a database whose last change has index s.
func verifImage(s uint64) []byte {
	b := make([]byte, 0, verifImageLen)
	for k := 0; k < 8; k++ {
		b = append(b, byte(s>>uint(56-8*k)))
	}
	return append(b, 'E', 'N', 'D')
}

func verifSameBytes(a, b []byte) bool {
	if len(a) != len(b) {
		return false
	}
	same := true
	for i := range a {
		same = same && a[i] == b[i] // straight-line: one obligation, no fork per byte
	}
	return same
}

// ---------------------------------------------------------------- context

type verifCtx struct {
	done chan struct{}
	err  error
}

func (c *verifCtx) Deadline() (time.Time, bool) { return time.Time{}, false }
func (c *verifCtx) Done() <-chan struct{}       { return c.done }
func (c *verifCtx) Err() error                  { return c.err }
func (c *verifCtx) Value(any) any               { return nil }
func (c *verifCtx) cancel() {
	if c.err == nil {
		c.err = context.Canceled
		close(c.done)
	}
}

// ---------------------------------------------------------------- temp file (symbolic run only)

// In the symbolic run the temporary file of upload() is an in-memory file: tempFD, the *os.File
// methods used on it and os.Remove are mapped to the functions below (spec "models"). The native
// replay uses real files; the only injected local failure is "cannot create the temp file"
// (natively: TMPDIR points to a missing directory).

type verifMemFile struct {
	f       *os.File
	name    string
	data    []byte
	pos     int
	closed  bool
	removed bool
}

var verifErrClosed = errors.New("verif: file already closed")
var verifErrNotExist = errors.New("verif: file does not exist")
var verifFiles []*verifMemFile
var verifTempFail bool
var verifOrigTmp string
var verifOrigTmpSet bool

func verifSetTempFail(fail bool) {
	verifTempFail = fail
	if verifSymbolic() {
		return
	}
	if !verifOrigTmpSet {
		verifOrigTmp, verifOrigTmpSet = os.Getenv("TMPDIR"), true
	}
	if fail {
		os.Setenv("TMPDIR", "/nonexistent-verif-c37/tmp")
	} else {
		os.Setenv("TMPDIR", verifOrigTmp)
	}
}

func verifMF(f *os.File) *verifMemFile {
	for _, m := range verifFiles {
		if m.f == f {
			return m
		}
	}
	panic("verif: operation on an unknown *os.File")
}

func verifTempFD() (*os.File, error) {
	if verifTempFail {
		return nil, errors.New("verif: cannot create temp file")
	}
	m := &verifMemFile{f: &os.File{}, name: verifName("/tmp/rqlite-upload-verif", len(verifFiles))}
	verifFiles = append(verifFiles, m)
	return m.f, nil
}

func verifFileWrite(f *os.File, b []byte) (int, error) {
	m := verifMF(f)
	if m.closed {
		return 0, verifErrClosed
	}
	for _, c := range b {
		if m.pos < len(m.data) {
			m.data[m.pos] = c
		} else {
			m.data = append(m.data, c)
		}
		m.pos++
	}
	return len(b), nil
}

func verifFileRead(f *os.File, b []byte) (int, error) {
	m := verifMF(f)
	if m.closed {
		return 0, verifErrClosed
	}
	if len(b) == 0 {
		return 0, nil
	}
	if m.pos >= len(m.data) {
		return 0, io.EOF
	}
	n := copy(b, m.data[m.pos:])
	m.pos += n
	return n, nil
}

func verifFileSeek(f *os.File, off int64, whence int) (int64, error) {
	m := verifMF(f)
	if m.closed {
		return 0, verifErrClosed
	}
	var p int64
	switch whence {
	case io.SeekStart:
		p = off
	case io.SeekCurrent:
		p = int64(m.pos) + off
	case io.SeekEnd:
		p = int64(len(m.data)) + off
	}
	if p < 0 || p > int64(len(m.data)) {
		return 0, errors.New("verif: seek outside the file (not modelled)")
	}
	m.pos = int(p)
	return p, nil
}

func verifFileClose(f *os.File) error {
	m := verifMF(f)
	if m.closed {
		return verifErrClosed
	}
	m.closed = true
	return nil
}

func verifFileName(f *os.File) string { return verifMF(f).name }

func verifFileTruncate(f *os.File, size int64) error {
	m := verifMF(f)
	if m.closed {
		return verifErrClosed
	}
	if size < 0 || size > int64(len(m.data)) {
		return errors.New("verif: truncate beyond the file (not modelled)")
	}
	m.data = m.data[:size]
	return nil
}

func verifOsRemove(name string) error {
	for _, m := range verifFiles {
		if m.name == name && !m.removed {
			m.removed = true
			return nil
		}
	}
	return verifErrNotExist
}

// verifExpvarGet stands in for (*expvar.Map).Get in the symbolic run (statistics only).
var verifStatInt = new(expvar.Int)

func verifExpvarGet(m *expvar.Map, key string) expvar.Var { return verifStatInt }

// ---------------------------------------------------------------- the database (model DataProvider)

// verifFaults selects which failures an entry injects (every enabled one is a choice point of
// every round).
type verifFaults struct {
	lastIndex bool // LastIndex returns an error
	temp      bool // the local temp file cannot be created
	provide   bool // Provide fails before writing anything
	partial   bool // Provide fails after a partial write
	rewind    bool // Provide succeeds after an internal partial attempt and a rewind
	currentID bool // CurrentID returns an error
	upload    bool // Upload returns an error
}

var verifAllFaults = verifFaults{true, true, true, true, true, true, true}
var verifLeanFaults = verifFaults{partial: true, upload: true}

type verifProv struct {
	idx    uint64 // index of the last change made to the database
	round  int    // number of the round being run (names of nondets)
	faults verifFaults

	// outcome of this round's calls (false when the call was not made)
	lastFailed bool
	tempFails  bool
	provFailed bool

	// observations
	nLast     int
	nProvide  int
	lastRet   uint64 // what LastIndex returned most recently
	lastRound int    // round of that LastIndex call
	imgState  uint64 // state contained in the most recent COMPLETE image
	imgRound  int    // round it was produced in (-1: none)
}

// verifPick is a concrete choice among the enabled alternatives; alternative 0 is always "no
// fault". It returns the tag of the chosen alternative.
func verifPick(name string, tags ...string) string {
	return tags[verifChoice(name, len(tags))]
}

func verifOpts(base string, more ...string) []string {
	out := []string{base}
	for _, m := range more {
		if m != "" {
			out = append(out, m)
		}
	}
	return out
}

func verifIf(on bool, tag string) string {
	if on {
		return tag
	}
	return ""
}

// verifWrites lets a symbolic number of writes (possibly none) reach the database: the index
// moves to any value that is not smaller. (A fresh value constrained by >= instead of
// "old + delta" keeps every obligation free of 64-bit adders.)
func (p *verifProv) verifWrites(name string) {
	n := verifU64(verifName(name, p.round))
	verifAssume(n >= p.idx)
	p.idx = n
}

func (p *verifProv) LastIndex() (uint64, error) {
	p.nLast++
	again := p.lastRound == p.round
	if again {
		// asked again within one round: the database may have moved on meanwhile
		n := verifU64(verifName("writesBeforeLastIndexCall", p.nLast))
		verifAssume(n >= p.idx)
		p.idx = n
	}
	switch verifPick(verifName("lastIndexCall", p.nLast), verifOpts("ok", verifIf(p.faults.lastIndex, "fail"), verifIf(p.faults.temp && !again, "temp"))...) {
	case "fail":
		p.lastFailed = true
		return 0, errors.New("verif: LastIndex failed")
	case "temp":
		// the next attempt to create the local temp file fails
		p.tempFails = true
		verifSetTempFail(true)
	}
	p.lastRet, p.lastRound = p.idx, p.round
	return p.idx, nil
}

func (p *verifProv) Provide(w io.WriteSeeker) error {
	p.nProvide++
	// writes keep arriving: the image contains whatever is committed when it is taken
	p.verifWrites("writesBeforeProvide")
	img := verifImage(p.idx)
	switch verifPick(verifName("provide", p.round), verifOpts("ok", verifIf(p.faults.rewind, "rewind"),
		verifIf(p.faults.provide, "fail"), verifIf(p.faults.partial, "partial"))...) {
	case "rewind": // a first internal attempt dies half-way, the provider rewinds and writes again
		if _, err := w.Write(img[:5]); err != nil {
			return err
		}
		if _, err := w.Seek(0, io.SeekStart); err != nil {
			return err
		}
	case "fail":
		p.provFailed = true
		return errors.New("verif: Provide failed")
	case "partial":
		w.Write(img[:6])
		p.provFailed = true
		return errors.New("verif: Provide failed after a partial write")
	}
	if n, err := w.Write(img); err != nil || n != len(img) {
		p.provFailed = true
		return errors.New("verif: write to the upload file failed")
	}
	p.imgState, p.imgRound = p.idx, p.round
	return nil
}

// ---------------------------------------------------------------- the storage service (model StorageClient)

type verifClient struct {
	p *verifProv

	remoteChosen bool
	remoteID     string // id of the object in the storage service

	// outcome of this round's calls
	idAnswered   bool
	idFailed     bool
	answeredID   string
	uploadFailed bool

	// observations
	nCurrentID  int
	nUpload     int
	lastLabel   string
	lastContent []byte
	lastReadErr error
}

func (c *verifClient) String() string { return "verif-storage" }

// verifChooseRemote fixes, once, what an earlier incarnation left in the storage service.
func (c *verifClient) verifChooseRemote() {
	if c.remoteChosen {
		return
	}
	c.remoteChosen = true
	switch verifChoice("remoteKind", 3) {
	case 0:
		c.remoteID = "not-a-number"
	case 1:
		c.remoteID = verifID(verifU64("remoteIndex"))
	case 2:
		// a fixed numeric id left by another cluster: below, among or above the indexes of this
		// node (which stay symbolic). Concrete text, so that code which parses the id runs on it
		// exactly.
		c.remoteID = verifPick("remoteFixed", "1", "5000", "18446744073709551615")
	}
}

func (c *verifClient) CurrentID(ctx context.Context) (string, error) {
	c.nCurrentID++
	c.verifChooseRemote()
	if verifPick(verifName("currentID", c.p.round), verifOpts("ok", verifIf(c.p.faults.currentID, "fail"))...) == "fail" {
		c.idFailed = true
		return "", errors.New("verif: CurrentID failed")
	}
	c.idAnswered, c.answeredID = true, c.remoteID
	return c.remoteID, nil
}

func (c *verifClient) Upload(ctx context.Context, r io.Reader, id string) error {
	c.nUpload++
	// the database keeps changing while the round is busy with the storage service
	c.p.verifWrites("writesBeforeUpload")
	c.lastLabel = id
	c.lastContent = nil
	c.lastReadErr = nil
	buf := make([]byte, 4)
	for i := 0; i < 16; i++ {
		n, err := r.Read(buf)
		c.lastContent = append(c.lastContent, buf[:n]...)
		if err == io.EOF {
			break
		}
		if err != nil {
			c.lastReadErr = err
			break
		}
	}
	if verifPick(verifName("upload", c.p.round), verifOpts("ok", verifIf(c.p.faults.upload, "fail"))...) == "fail" {
		c.uploadFailed = true
		return errors.New("verif: Upload failed")
	}
	c.remoteChosen = true
	c.remoteID = id
	return nil
}

// ---------------------------------------------------------------- the oracle

type verifOracle struct {
	p *verifProv
	c *verifClient
	u *Uploader

	lastOK uint64 // label of the last Upload that returned nil (0: none so far)
	known  uint64 // newest index the storage service is known to hold (>= lastOK)

	// snapshot taken at the start of a round
	idx0         uint64
	nUpload0     int
	nLast0       int
	remote0      string // id held by the storage service (only tracked while lastOK == 0)
	remote0Known bool
}

func verifNewSystem(interval time.Duration, faults verifFaults) *verifOracle {
	verifFiles = nil
	p := &verifProv{imgRound: -1, lastRound: -1, faults: faults}
	p.idx = verifU64("startIndex")
	c := &verifClient{p: p}
	// NewUploader without its os.Stderr logger
	u := &Uploader{storageClient: c, dataProvider: p, interval: interval, logger: log.New(io.Discard, "", 0)}
	return &verifOracle{p: p, c: c, u: u}
}

// begin: writes arrive, then the round's bookkeeping is reset.
func (o *verifOracle) begin(round int) {
	p, c := o.p, o.c
	p.round = round
	p.verifWrites("writes")
	p.lastFailed, p.tempFails, p.provFailed = false, false, false
	c.idAnswered, c.idFailed, c.uploadFailed = false, false, false
	verifSetTempFail(false)
	o.remote0, o.remote0Known = "", false
	if o.lastOK == 0 {
		// no upload of its own yet: what an earlier incarnation left in the service matters
		c.verifChooseRemote()
		o.remote0, o.remote0Known = c.remoteID, true
	}
	o.idx0 = p.idx
	o.nUpload0 = c.nUpload
	o.nLast0 = p.nLast
}

// check: what the property demands of one finished round.
func (o *verifOracle) check() {
	p, c := o.p, o.c
	verifSetTempFail(false)
	uploads := c.nUpload - o.nUpload0
	verifAssert("C37-at-most-one-upload-per-round", uploads <= 1)

	// "the database has changed since the last successful automatic upload" (by this uploader)
	changed := o.idx0 > o.lastOK
	// the storage service already holds exactly this index (left by an earlier incarnation, or
	// answered so in this round) and can be asked: nothing has changed since the last
	// successful upload
	sameAsRemote := false
	if o.remote0Known && !c.idFailed {
		sameAsRemote = o.remote0 == verifID(o.idx0)
	}
	if c.idAnswered && !sameAsRemote {
		sameAsRemote = c.answeredID == verifID(o.idx0)
	}
	localFailure := p.lastFailed || p.tempFails || p.provFailed
	// o.known >= o.lastOK is the newest index the service is KNOWN to hold (own successful
	// uploads and confirmations by CurrentID). A round whose index is covered by a confirmation
	// but not by an own upload may or may not upload (the uploader need not remember
	// confirmations); every other round is decided.
	mustNot := !changed || sameAsRemote || localFailure
	must := o.idx0 > o.known && !sameAsRemote && !localFailure

	if !changed && !p.lastFailed {
		verifReach("unchanged-round")
	}
	if sameAsRemote && changed {
		verifReach("skipped-by-remote-id")
	}
	if uploads == 1 && mustNot {
		// name the broken clause
		verifAssert("C37-no-change-uploads-nothing", changed)
		verifAssert("C37-same-remote-id-uploads-nothing", !sameAsRemote)
		verifAssert("C37-no-upload-without-a-complete-image", !localFailure)
	}
	verifAssert("C37-change-is-uploaded", uploads == 1 || !must)
	if c.idAnswered && c.answeredID == verifID(o.idx0) {
		o.known = o.idx0 // confirmed by the service in this round
	}

	if uploads == 1 {
		verifReach("uploaded")
		// the label is the index the provider reported for THIS round ...
		verifAssert("C37-label-is-this-rounds-index", p.lastRound == p.round && c.lastLabel == verifID(p.lastRet))
		// ... and the object is the complete image produced in this round, which contains
		// every change up to (at least) the label
		verifAssert("C37-image-from-this-round", p.imgRound == p.round)
		verifAssert("C37-object-read-cleanly", c.lastReadErr == nil)
		verifAssert("C37-object-is-the-complete-image", verifSameBytes(c.lastContent, verifImage(p.imgState)))
		verifAssert("C37-label-not-ahead-of-content", p.lastRet <= p.imgState)
		if !c.uploadFailed {
			o.lastOK, o.known = p.lastRet, p.lastRet
		} else {
			verifReach("upload-failed")
		}
	}
	// "recorded as done" only by a successful upload (or a confirmation by the service)
	verifAssert("C37-lastIndex-advances-only-on-success", o.u.lastIndex == o.lastOK || o.u.lastIndex == o.known)
}

// ---------------------------------------------------------------- entries

// VerifC37Step: ONE round from an arbitrary uploader state (inductive step). The state of an
// Uploader between rounds is its lastIndex; the invariant carried from round to round is
// "lastIndex == label of the last successful upload" (asserted at the end of every round, true
// initially), and the database index is never below an index it reported earlier.
func VerifC37Step() {
	verifPanicsAreViolations()
	o := verifNewSystem(time.Minute, verifAllFaults)
	ctx := &verifCtx{done: make(chan struct{})}
	o.lastOK = verifU64("lastUploaded")
	o.known = o.lastOK
	o.u.lastIndex = o.lastOK
	if verifChoice("confirmedEarlier", 2) == 1 {
		// no own upload yet, but an earlier round was told by the service that it holds index R
		// (nobody else writes there); the uploader may or may not have remembered that
		verifAssume(o.lastOK == 0)
		r := verifU64("confirmedIndex")
		verifAssume(r > 0)
		o.known = r
		o.c.remoteChosen, o.c.remoteID = true, verifID(r)
		if verifChoice("remembersConfirmation", 2) == 1 {
			o.u.lastIndex = r
		}
	}
	verifAssume(o.p.idx >= o.known)
	o.begin(0)
	err := o.u.upload(ctx)
	o.check()
	if o.c.uploadFailed {
		verifAssert("C37-failed-upload-is-reported", err != nil)
	}
}

// VerifC37Rounds: K upload rounds of a fresh uploader (direct calls of upload) interleaved with
// writes and failures; a failed round is retried by the next one.
func VerifC37Rounds() {
	verifPanicsAreViolations()
	o := verifNewSystem(time.Minute, verifLeanFaults)
	ctx := &verifCtx{done: make(chan struct{})}
	K := 3
	if verifTier() == 1 {
		K = 5
	}
	failedBefore := false
	for r := 0; r < K; r++ {
		o.begin(r)
		err := o.u.upload(ctx)
		o.check()
		if o.c.uploadFailed {
			verifAssert("C37-failed-upload-is-reported", err != nil)
		}
		if failedBefore && o.c.nUpload-o.nUpload0 == 1 && !o.c.uploadFailed {
			verifReach("retried-after-failure")
		}
		failedBefore = o.c.uploadFailed
	}
}

// VerifC37Ticker: the service loop. Ticks of the interval ticker start rounds when uploads are
// enabled; nothing runs between ticks, while disabled, or after the context ends.
func VerifC37Ticker() {
	verifPanicsAreViolations()
	const interval = 10 * time.Second
	o := verifNewSystem(interval, verifFaults{upload: verifTier() == 1})
	ctx := &verifCtx{done: make(chan struct{})}
	defer ctx.cancel()
	enabled := true
	var enabledFn func() bool
	if verifChoice("enabledFn", 2) == 1 {
		enabledFn = func() bool { return enabled }
	}
	doneCh := o.u.Start(ctx, enabledFn)
	verifSettle()
	verifAssert("C37-no-round-before-first-tick", o.p.nLast == 0)

	K := 3
	if verifTier() == 1 {
		K = 5
	}
	sinceTick := time.Duration(0)
	cancelled := false
	for s := 0; s < K; s++ {
		nOps := 3
		if enabledFn != nil {
			nOps = 4
		}
		op := verifChoice(verifName("op", s), nOps)
		o.begin(s)
		tick := false
		switch op {
		case 0: // a whole interval passes
			verifAdvanceClock(int64(interval))
			tick = true
		case 1: // half an interval passes
			verifAdvanceClock(int64(interval / 2))
			sinceTick += interval / 2
			if sinceTick == interval {
				sinceTick = 0
				tick = true
			}
		case 2:
			ctx.cancel()
			cancelled = true
		case 3:
			enabled = !enabled
		}
		verifSettle()
		if tick && enabled && !cancelled {
			verifReach("tick-round")
			verifAssert("C37-enabled-tick-starts-a-round", o.p.nLast > o.nLast0)
			o.check()
		} else {
			if tick {
				verifReach("tick-without-round")
			}
			verifAssert("C37-no-round-without-enabled-tick", o.p.nLast == o.nLast0 && o.c.nUpload == o.nUpload0)
		}
		closed := false
		select {
		case <-doneCh:
			closed = true
		default:
		}
		verifAssert("C37-done-channel-closed-iff-stopped", closed == cancelled)
	}
}

// ---------------------------------------------------------------- the real store.Provider

// The Provider that rqlited hands to the Uploader is store.Provider over a *store.Store. Here
// the real Uploader runs over the real Provider; the Store is the environment:
//   - symbolic run: (*Store).DBAppliedIndex and (*Store).Backup are mapped (spec "models") to
//     the two functions below, which read the world state verifW;
//   - native replay: a partially constructed real Store (native_test.go: store.New plus the
//     fields Backup's binary, non-vacuum path needs) whose database file, open flag and applied
//     index are set from the same world state, so the REAL Backup copies exactly the image the
//     model writes, or fails with ErrNotOpen where the model fails.
// The world changes on the model clock, half-way between two attempts of Provide.

type verifWorld struct {
	open     bool
	idx      uint64
	attempts int // symbolic run only: calls of Backup
	ctl      *verifStoreCtl
}

type verifStoreCtl struct {
	store    *store.Store
	setOpen  func(bool)
	setIndex func(uint64)
	setImage func([]byte)
	cleanup  func()
}

// verifNativeStore is set by native_test.go (native replay only).
var verifNativeStore func() *verifStoreCtl

var verifW *verifWorld
var verifWImage []byte // symbolic run: the image Backup copies, when it is not verifImage(idx)

func verifNewWorld() *verifWorld {
	w := &verifWorld{}
	if verifSymbolic() {
		w.ctl = &verifStoreCtl{store: &store.Store{}}
	} else {
		w.ctl = verifNativeStore()
	}
	verifW, verifWImage = w, nil
	return w
}

func (w *verifWorld) set(open bool, idx uint64) {
	w.open, w.idx = open, idx
	if !verifSymbolic() {
		w.ctl.setImage(verifImage(idx))
		w.ctl.setIndex(idx)
		w.ctl.setOpen(open)
	}
}

func (w *verifWorld) close() {
	if w.ctl.cleanup != nil {
		w.ctl.cleanup()
	}
}

func verifStoreDBAppliedIndex(s *store.Store) uint64 { return verifW.idx }

func verifStoreBackup(s *store.Store, ctx context.Context, br *proto.BackupRequest, dst io.Writer) error {
	w := verifW
	w.attempts++
	if !w.open {
		return store.ErrNotOpen
	}
	img := verifImage(w.idx)
	if verifWImage != nil {
		img = verifWImage
	}
	_, err := dst.Write(img)
	return err
}

const verifRetryGap = 500 * time.Millisecond // store.NewProvider: retryInterval

// VerifC37Provider: one round of the real Uploader over the real store.Provider while the
// store refuses the first f backup attempts and keeps receiving writes.
func VerifC37Provider() {
	verifPanicsAreViolations()
	w := verifNewWorld()
	defer w.close()
	c := &verifClient{p: &verifProv{faults: verifFaults{upload: true}}}
	u := &Uploader{storageClient: c, dataProvider: store.NewProvider(w.ctl.store, false, false), interval: time.Minute, logger: log.New(io.Discard, "", 0)}
	ctx := &verifCtx{done: make(chan struct{})}
	lastOK := verifU64("lastUploaded")
	u.lastIndex = lastOK

	// f = number of failing attempts before the store can be backed up; the last alternative:
	// the store never recovers
	fs := []int{0, 1, 2, -1}
	if verifTier() == 1 {
		fs = []int{0, 1, 2, 5, 10, -1}
	}
	f := fs[verifChoice("failingAttempts", len(fs))]
	const maxStates = 13
	states := maxStates
	if f >= 0 {
		states = f + 1
	}
	idxAt := make([]uint64, states)
	for k := range idxAt {
		idxAt[k] = verifU64(verifName("indexAtAttempt", k))
		if k == 0 {
			verifAssume(idxAt[0] >= lastOK)
		} else {
			verifAssume(idxAt[k] >= idxAt[k-1])
		}
	}
	w.set(f == 0, idxAt[0])
	worldDone := make(chan struct{})
	go func() {
		defer close(worldDone)
		time.Sleep(verifRetryGap / 2)
		for k := 1; k < states; k++ {
			w.set(k == f, idxAt[k])
			time.Sleep(verifRetryGap)
		}
	}()

	t0 := verifClock()
	err := u.upload(ctx)
	elapsed := verifClock() - t0
	<-worldDone

	changed := idxAt[0] > lastOK
	sameAsRemote := false
	if c.idAnswered {
		sameAsRemote = c.answeredID == verifID(idxAt[0])
	}
	verifAssert("C37p-at-most-one-upload", c.nUpload <= 1)
	switch {
	case !changed:
		verifReach("provider-unchanged")
		verifAssert("C37p-no-change-uploads-nothing", c.nUpload == 0)
	case f < 0:
		verifReach("provider-gave-up")
		verifAssert("C37p-no-image-no-upload", c.nUpload == 0)
		verifAssert("C37p-failure-is-reported", err != nil)
		verifAssert("C37p-not-recorded-as-done", u.lastIndex == lastOK)
	case sameAsRemote:
		verifAssert("C37p-same-remote-id-uploads-nothing", c.nUpload == 0)
	default:
		// a transient failure of the backup is retried within the round
		if f > 0 {
			verifReach("provider-retried")
		}
		verifAssert("C37p-change-is-uploaded", c.nUpload == 1)
		verifAssert("C37p-label-is-index-at-round-start", c.lastLabel == verifID(idxAt[0]))
		verifAssert("C37p-object-read-cleanly", c.lastReadErr == nil)
		verifAssert("C37p-object-is-the-image-of-the-successful-attempt", verifSameBytes(c.lastContent, verifImage(idxAt[f])))
		verifAssert("C37p-label-not-ahead-of-content", idxAt[0] <= idxAt[f])
		verifAssert("C37p-retries-are-spaced", elapsed >= int64(f)*int64(verifRetryGap)-int64(verifRetryGap)/2)
		if c.uploadFailed {
			verifAssert("C37p-failed-upload-not-recorded", u.lastIndex == lastOK && err != nil)
		} else {
			verifAssert("C37p-successful-upload-recorded", u.lastIndex == idxAt[0] && err == nil)
		}
	}
}

// ---------------------------------------------------------------- Provide in isolation

// verifImageN: like verifImage, with n filler bytes (the database file can grow and shrink).
func verifImageN(s uint64, n int) []byte {
	b := verifImage(s)[:8]
	for i := 0; i < n; i++ {
		b = append(b, 'x')
	}
	return append(b, 'E', 'N', 'D')
}

// verifDisk is the upload file as Provide sees it (an io.WriteSeeker): a file that can run out
// of space in the middle of a write and whose Seek can fail.
type verifDisk struct {
	data     []byte
	pos      int
	budget   int  // bytes that can still be written before "no space left" (-1: unlimited)
	failSeek bool // Seek fails
}

func (d *verifDisk) Seek(off int64, whence int) (int64, error) {
	if d.failSeek {
		return 0, errors.New("verif: seek failed")
	}
	var p int64
	switch whence {
	case io.SeekStart:
		p = off
	case io.SeekCurrent:
		p = int64(d.pos) + off
	case io.SeekEnd:
		p = int64(len(d.data)) + off
	}
	if p < 0 || p > int64(len(d.data)) {
		return 0, errors.New("verif: seek outside the file (not modelled)")
	}
	d.pos = int(p)
	return p, nil
}

// Truncate exists on *os.File too (the uploader's temp file); the current Provide never calls it.
func (d *verifDisk) Truncate(size int64) error {
	if size < 0 || size > int64(len(d.data)) {
		return errors.New("verif: truncate outside the file (not modelled)")
	}
	d.data = d.data[:size]
	return nil
}

func (d *verifDisk) Write(b []byte) (int, error) {
	n := len(b)
	var err error
	if d.budget >= 0 && n > d.budget {
		n, err = d.budget, errors.New("verif: no space left on device")
	}
	for _, c := range b[:n] {
		if d.pos < len(d.data) {
			d.data[d.pos] = c
		} else {
			d.data = append(d.data, c)
		}
		d.pos++
	}
	if d.budget >= 0 {
		d.budget -= n
	}
	return n, err
}

// what one backup attempt meets
type verifAttempt struct {
	kind  string // "ok", "closed" (the store refuses), "nospace" (the disk fills up 2 bytes short)
	idx   uint64
	image []byte
}

// VerifC37Provide: the real (*Provider).LastIndex / Provide over the store world, with a disk
// that fails. Transient failures are retried; a Provide that returns nil has left exactly one
// complete image, of a state not older than the index reported before. As in
// VerifC37Provider the world moves on the model clock, half-way between two attempts.
func VerifC37Provide() {
	verifPanicsAreViolations()
	w := verifNewWorld()
	defer w.close()
	prov := store.NewProvider(w.ctl.store, false, false)

	idx := verifU64("startIndex")
	w.set(true, idx)
	li, lerr := prov.LastIndex()
	verifAssert("C37p-LastIndex-is-the-database-index", lerr == nil && li == idx)

	// the plan: up to 2 failing attempts followed by a good one; or a store that never
	// recovers; or a file that cannot be rewound
	var plan []verifAttempt
	dead, seekFails := false, false
	for k := 0; k < 3; k++ {
		kind := "ok"
		switch k {
		case 0:
			kind = verifPick("attempt0", "ok", "closed", "nospace", "seekfail", "dead")
		case 1:
			kind = verifPick("attempt1", "ok", "closed", "nospace")
		}
		switch kind {
		case "seekfail":
			seekFails, kind = true, "ok"
		case "dead":
			dead, kind = true, "closed"
		}
		n := verifU64(verifName("indexAtAttempt", k))
		verifAssume(n >= idx)
		idx = n
		// writes arrive, the database file may grow or shrink
		fill := 3 * verifChoice(verifName("fillerAtAttempt", k), 2)
		plan = append(plan, verifAttempt{kind: kind, idx: idx, image: verifImageN(idx, fill)})
		if kind == "ok" || dead {
			break
		}
	}
	d := &verifDisk{budget: -1, failSeek: seekFails}
	maxFailedLen := 0 // most bytes a failed attempt left in the file
	apply := func(a verifAttempt) {
		d.budget = -1
		if a.kind == "nospace" {
			d.budget = len(a.image) - 2
		}
		w.open, w.idx = a.kind != "closed", a.idx
		if verifSymbolic() {
			verifWImage = a.image
		} else {
			w.ctl.setImage(a.image)
			w.ctl.setIndex(a.idx)
			w.ctl.setOpen(w.open)
		}
	}
	apply(plan[0])
	worldDone := make(chan struct{})
	go func() {
		defer close(worldDone)
		time.Sleep(verifRetryGap / 2)
		for k := 1; k < len(plan); k++ {
			if d.pos > maxFailedLen {
				maxFailedLen = d.pos // plan[k-1] was a failing attempt
			}
			apply(plan[k])
			time.Sleep(verifRetryGap)
		}
	}()

	err := prov.Provide(d)
	<-worldDone

	last := plan[len(plan)-1]
	switch {
	case seekFails:
		verifAssert("C37p-seek-failure-is-reported", err != nil)
	case dead:
		verifReach("provide-gave-up")
		verifAssert("C37p-dead-store-is-reported", err != nil)
	default:
		// at most 2 transient failures: the retries must get through
		verifAssert("C37p-transient-failures-are-retried", err == nil)
	}
	if err == nil {
		verifAssert("C37p-nil-only-after-a-successful-attempt", last.kind == "ok" && !seekFails)
		verifAssert("C37p-image-not-older-than-reported-index", li <= last.idx)
		if len(plan) > 1 {
			verifReach("provide-retried")
		}
		// the file holds exactly the image of the successful attempt
		prefixOK := len(d.data) >= len(last.image) && verifSameBytes(d.data[:len(last.image)], last.image)
		if prefixOK && len(d.data) > len(last.image) && maxFailedLen > len(last.image) && len(d.data) == maxFailedLen {
			// Provide rewinds before every attempt but cannot truncate an io.WriteSeeker: bytes of a
			// longer, failed attempt stay behind the shorter image of the successful one
			verifFinding("C37-provide-stale-tail")
		}
		verifAssert("C37p-file-is-exactly-one-image", verifSameBytes(d.data, last.image))
	}
}

func VerifC37Twin() {
	o := verifNewSystem(time.Minute, verifFaults{})
	ctx := &verifCtx{done: make(chan struct{})}
	o.begin(0)
	verifAssume(o.idx0 > 0)
	o.u.upload(ctx)
	// must FAIL: a changed database with a working provider and storage service is uploaded
	verifAssert("twin", o.c.nUpload == 0)
}
