package cdc

// C26: the CDC disk queue is ordered, durable and duplicate-suppressing.
//
// The real Queue (NewQueue, the run goroutine with its five select arms, loadHead/advanceHead,
// Enqueue, DeleteRange, the query calls, Close) is driven from the harness main loop; after every
// operation the harness waits until the manager goroutine is parked again (verifSettle), so the
// native replay under testing/synctest follows the same schedule. VerifC26InFlight adds several
// Enqueue calls in flight at once (their requests pile up in enqueueChan while the manager is
// parked on a response hand-over).
//
// bbolt cannot be executed by the engine (mmap/unsafe). In the symbolic run the concrete bbolt
// functions the queue calls are mapped (spec "models") to the model below: a database file is a
// list of buckets, a bucket an ordered list of key/value pairs, Update is all-or-nothing, and the
// byte slices a transaction hands out are only valid until it ends. The native replay runs the
// real bbolt on a temporary file.
//
// The oracle is the sequential model of the property statement:
//   - an enqueue at or below the highest index ever stored (remembered across restarts) is
//     ignored (and acknowledged); any other acknowledged enqueue stores the item;
//   - DeleteRange(i) removes exactly the items with index <= i;
//   - the queue offers the stored items that were not yet emitted since the last open, smallest
//     index first, with the data of the (first) acknowledged enqueue; nothing else, nothing twice;
//   - reopening (clean Close, or a kill: the file as it is on disk at that moment is opened by a
//     new process) keeps the stored items and the highest index and offers every stored item again;
//   - an enqueue that is not acknowledged because the commit failed stores nothing and leaves the
//     highest index alone.

import (
	"encoding/binary"
	"errors"
	"os"
	"path/filepath"

	"go.etcd.io/bbolt"
)

// ---------------------------------------------------------------- bbolt model (symbolic run only)

type verifKV struct {
	key []byte
	ik  uint64 // value of an 8-byte key (big endian): byte order = numeric order
	val []byte
}

type verifMBucket struct {
	name string
	kvs  []verifKV
	gen  int // bumped by every Put/Delete (cursor validity)
}

// verifMFile is a database file on disk: the committed state.
type verifMFile struct {
	path     string
	buckets  []*verifMBucket
	lockedBy *verifMDB
}

type verifMDB struct {
	db         *bbolt.DB
	file       *verifMFile
	open       bool
	failCommit bool // the next Update fails at commit (after its function returned nil)
	failed     int
}

type verifMTx struct {
	tx       *bbolt.Tx
	mdb      *verifMDB
	buckets  []*verifMBucket
	writable bool
	live     bool
	handed   [][]byte
}

type verifMBkt struct {
	b   *bbolt.Bucket
	mtx *verifMTx
	mb  *verifMBucket
}

type verifMCur struct {
	c   *bbolt.Cursor
	bk  *verifMBkt
	pos int
	gen int
}

var verifDisk []*verifMFile
var verifDBs []*verifMDB
var verifTxs []*verifMTx
var verifBkts []*verifMBkt
var verifCurs []*verifMCur

var verifErrDBNotOpen = errors.New("verif bbolt model: database not open")
var verifErrTimeout = errors.New("verif bbolt model: timeout (file locked by another open handle)")
var verifErrTxNotWritable = errors.New("verif bbolt model: tx not writable")
var verifErrTxClosed = errors.New("verif bbolt model: tx closed")
var verifErrKeyRequired = errors.New("verif bbolt model: key required")
var verifErrCommit = errors.New("verif bbolt model: commit failed (database reached maximum size)")

func verifResetModel() {
	verifDisk, verifDBs, verifTxs, verifBkts, verifCurs = nil, nil, nil, nil, nil
}

func verifFileOf(path string, create bool) *verifMFile {
	for _, f := range verifDisk {
		if f.path == path {
			return f
		}
	}
	if !create {
		return nil
	}
	f := &verifMFile{path: path}
	verifDisk = append(verifDisk, f)
	return f
}

func verifDBOf(db *bbolt.DB) *verifMDB {
	for _, m := range verifDBs {
		if m.db == db {
			return m
		}
	}
	panic("verif bbolt model: unknown *bbolt.DB")
}

func verifTxOf(tx *bbolt.Tx) *verifMTx {
	for _, m := range verifTxs {
		if m.tx == tx {
			return m
		}
	}
	panic("verif bbolt model: unknown *bbolt.Tx")
}

func verifBktOf(b *bbolt.Bucket) *verifMBkt {
	for _, m := range verifBkts {
		if m.b == b {
			return m
		}
	}
	panic("verif bbolt model: unknown *bbolt.Bucket")
}

func verifCurOf(c *bbolt.Cursor) *verifMCur {
	for _, m := range verifCurs {
		if m.c == c {
			return m
		}
	}
	panic("verif bbolt model: unknown *bbolt.Cursor")
}

func verifCloneBuckets(bs []*verifMBucket) []*verifMBucket {
	out := make([]*verifMBucket, 0, len(bs))
	for _, b := range bs {
		nb := &verifMBucket{name: b.name, kvs: make([]verifKV, len(b.kvs))}
		copy(nb.kvs, b.kvs) // keys and values are never modified in place
		out = append(out, nb)
	}
	return out
}

func verifCopyBytes(b []byte) []byte {
	out := make([]byte, len(b))
	copy(out, b)
	return out
}

func verifIK(k []byte) uint64 {
	if len(k) == 8 {
		return binary.BigEndian.Uint64(k)
	}
	return 0
}

// verifCmpKey compares the stored pair's key with key (byte-wise order): -1, 0, 1.
func verifCmpKey(kv *verifKV, key []byte, ik uint64) int {
	if len(kv.key) == 8 && len(key) == 8 {
		if kv.ik < ik {
			return -1
		}
		if kv.ik == ik {
			return 0
		}
		return 1
	}
	n := len(kv.key)
	if len(key) < n {
		n = len(key)
	}
	for i := 0; i < n; i++ {
		if kv.key[i] < key[i] {
			return -1
		}
		if kv.key[i] > key[i] {
			return 1
		}
	}
	if len(kv.key) < len(key) {
		return -1
	}
	if len(kv.key) > len(key) {
		return 1
	}
	return 0
}

func verifBoltOpen(path string, mode os.FileMode, o *bbolt.Options) (*bbolt.DB, error) {
	f := verifFileOf(path, true)
	if f.lockedBy != nil {
		return nil, verifErrTimeout
	}
	m := &verifMDB{db: &bbolt.DB{}, file: f, open: true}
	f.lockedBy = m
	verifDBs = append(verifDBs, m)
	return m.db, nil
}

func verifBoltClose(db *bbolt.DB) error {
	m := verifDBOf(db)
	if m.open {
		m.open = false
		m.file.lockedBy = nil
	}
	return nil
}

func verifBeginTx(m *verifMDB, writable bool) *verifMTx {
	mtx := &verifMTx{tx: &bbolt.Tx{}, mdb: m, writable: writable, live: true}
	if writable {
		mtx.buckets = verifCloneBuckets(m.file.buckets)
	} else {
		mtx.buckets = m.file.buckets
	}
	verifTxs = append(verifTxs, mtx)
	return mtx
}

// verifEndTx: memory handed out by a transaction is only valid for its life.
func verifEndTx(mtx *verifMTx) {
	mtx.live = false
	for _, b := range mtx.handed {
		for i := range b {
			b[i] = 0xEE
		}
	}
	mtx.handed = nil
	// forget the handles of finished transactions (keeps the look-ups short); a later use of
	// one of them panics with "unknown ..."
	txs := verifTxs[:0:0]
	for _, t := range verifTxs {
		if t.live {
			txs = append(txs, t)
		}
	}
	verifTxs = txs
	bks := verifBkts[:0:0]
	for _, b := range verifBkts {
		if b.mtx.live {
			bks = append(bks, b)
		}
	}
	verifBkts = bks
	cs := verifCurs[:0:0]
	for _, c := range verifCurs {
		if c.bk.mtx.live {
			cs = append(cs, c)
		}
	}
	verifCurs = cs
}

func verifBoltUpdate(db *bbolt.DB, fn func(*bbolt.Tx) error) error {
	m := verifDBOf(db)
	if !m.open {
		return verifErrDBNotOpen
	}
	mtx := verifBeginTx(m, true)
	err := fn(mtx.tx)
	if err == nil && m.failCommit {
		m.failed++
		err = verifErrCommit
	}
	if err == nil {
		m.file.buckets = mtx.buckets
	}
	verifEndTx(mtx)
	return err
}

func verifBoltView(db *bbolt.DB, fn func(*bbolt.Tx) error) error {
	m := verifDBOf(db)
	if !m.open {
		return verifErrDBNotOpen
	}
	mtx := verifBeginTx(m, false)
	err := fn(mtx.tx)
	verifEndTx(mtx)
	return err
}

func verifNewBkt(mtx *verifMTx, mb *verifMBucket) *bbolt.Bucket {
	bk := &verifMBkt{b: &bbolt.Bucket{}, mtx: mtx, mb: mb}
	verifBkts = append(verifBkts, bk)
	return bk.b
}

func verifBoltTxBucket(tx *bbolt.Tx, name []byte) *bbolt.Bucket {
	mtx := verifTxOf(tx)
	for _, mb := range mtx.buckets {
		if mb.name == string(name) {
			return verifNewBkt(mtx, mb)
		}
	}
	return nil
}

func verifBoltTxCreateBucketIfNotExists(tx *bbolt.Tx, name []byte) (*bbolt.Bucket, error) {
	mtx := verifTxOf(tx)
	if !mtx.live {
		return nil, verifErrTxClosed
	}
	if !mtx.writable {
		return nil, verifErrTxNotWritable
	}
	if len(name) == 0 {
		return nil, verifErrKeyRequired
	}
	for _, mb := range mtx.buckets {
		if mb.name == string(name) {
			return verifNewBkt(mtx, mb), nil
		}
	}
	mb := &verifMBucket{name: string(name)}
	mtx.buckets = append(mtx.buckets, mb)
	return verifNewBkt(mtx, mb), nil
}

func verifHand(mtx *verifMTx, b []byte) []byte {
	c := verifCopyBytes(b)
	mtx.handed = append(mtx.handed, c)
	return c
}

func verifBoltBucketGet(b *bbolt.Bucket, key []byte) []byte {
	bk := verifBktOf(b)
	ik := verifIK(key)
	for i := range bk.mb.kvs {
		if verifCmpKey(&bk.mb.kvs[i], key, ik) == 0 {
			return verifHand(bk.mtx, bk.mb.kvs[i].val)
		}
	}
	return nil
}

func verifBoltBucketPut(b *bbolt.Bucket, key []byte, value []byte) error {
	bk := verifBktOf(b)
	if !bk.mtx.live {
		return verifErrTxClosed
	}
	if !bk.mtx.writable {
		return verifErrTxNotWritable
	}
	if len(key) == 0 {
		return verifErrKeyRequired
	}
	k, v := verifCopyBytes(key), verifCopyBytes(value)
	ik := verifIK(k)
	mb := bk.mb
	mb.gen++
	i := 0
	for i < len(mb.kvs) {
		c := verifCmpKey(&mb.kvs[i], k, ik)
		if c == 0 {
			mb.kvs[i] = verifKV{key: k, ik: ik, val: v}
			return nil
		}
		if c > 0 {
			break
		}
		i++
	}
	kvs := make([]verifKV, 0, len(mb.kvs)+1)
	kvs = append(kvs, mb.kvs[:i]...)
	kvs = append(kvs, verifKV{key: k, ik: ik, val: v})
	kvs = append(kvs, mb.kvs[i:]...)
	mb.kvs = kvs
	return nil
}

func verifBoltBucketDelete(b *bbolt.Bucket, key []byte) error {
	bk := verifBktOf(b)
	if !bk.mtx.live {
		return verifErrTxClosed
	}
	if !bk.mtx.writable {
		return verifErrTxNotWritable
	}
	ik := verifIK(key)
	mb := bk.mb
	for i := range mb.kvs {
		if verifCmpKey(&mb.kvs[i], key, ik) == 0 {
			mb.gen++
			kvs := make([]verifKV, 0, len(mb.kvs))
			kvs = append(kvs, mb.kvs[:i]...)
			kvs = append(kvs, mb.kvs[i+1:]...)
			mb.kvs = kvs
			return nil
		}
	}
	return nil
}

func verifBoltBucketStats(b *bbolt.Bucket) bbolt.BucketStats {
	bk := verifBktOf(b)
	return bbolt.BucketStats{KeyN: len(bk.mb.kvs)}
}

func verifBoltBucketCursor(b *bbolt.Bucket) *bbolt.Cursor {
	bk := verifBktOf(b)
	c := &verifMCur{c: &bbolt.Cursor{}, bk: bk, pos: -1, gen: bk.mb.gen}
	verifCurs = append(verifCurs, c)
	return c.c
}

func verifCurAt(c *verifMCur) ([]byte, []byte) {
	c.gen = c.bk.mb.gen
	if c.pos < 0 || c.pos >= len(c.bk.mb.kvs) {
		c.pos = len(c.bk.mb.kvs)
		return nil, nil
	}
	kv := &c.bk.mb.kvs[c.pos]
	return verifHand(c.bk.mtx, kv.key), verifHand(c.bk.mtx, kv.val)
}

func verifBoltCursorFirst(cur *bbolt.Cursor) ([]byte, []byte) {
	c := verifCurOf(cur)
	c.pos = 0
	return verifCurAt(c)
}

func verifBoltCursorNext(cur *bbolt.Cursor) ([]byte, []byte) {
	c := verifCurOf(cur)
	// bbolt: changing the bucket while iterating leaves the cursor position undefined
	// (https://github.com/etcd-io/bbolt/pull/611); the model refuses to guess.
	verifAssert("C26-bbolt-contract-no-change-while-iterating", c.gen == c.bk.mb.gen)
	c.pos++
	return verifCurAt(c)
}

func verifBoltCursorLast(cur *bbolt.Cursor) ([]byte, []byte) {
	c := verifCurOf(cur)
	c.pos = len(c.bk.mb.kvs) - 1
	if c.pos < 0 {
		c.gen = c.bk.mb.gen
		return nil, nil
	}
	return verifCurAt(c)
}

func verifBoltCursorPrev(cur *bbolt.Cursor) ([]byte, []byte) {
	c := verifCurOf(cur)
	verifAssert("C26-bbolt-contract-no-change-while-iterating", c.gen == c.bk.mb.gen)
	if c.pos <= 0 {
		c.pos = -1
		c.gen = c.bk.mb.gen
		return nil, nil
	}
	c.pos--
	return verifCurAt(c)
}

func verifBoltCursorSeek(cur *bbolt.Cursor, seek []byte) ([]byte, []byte) {
	c := verifCurOf(cur)
	ik := verifIK(seek)
	kvs := c.bk.mb.kvs
	i := 0
	for i < len(kvs) && verifCmpKey(&kvs[i], seek, ik) < 0 {
		i++
	}
	c.pos = i
	return verifCurAt(c)
}

// ---------------------------------------------------------------- files (both runs)

var verifModelDir = "/verif-c26"

func verifCopyDBFile(src, dst string) {
	if verifSymbolic() {
		f := verifFileOf(src, false)
		if f == nil {
			panic("verif: copy of a missing database file")
		}
		nf := verifFileOf(dst, true)
		nf.buckets = verifCloneBuckets(f.buckets)
		return
	}
	b, err := os.ReadFile(src)
	if err != nil {
		panic(err)
	}
	if err := os.WriteFile(dst, b, 0o600); err != nil {
		panic(err)
	}
}

// verifSeedDB writes a database file as an earlier incarnation of the queue could have left it:
// both buckets, the given items, and max_key.
func verifSeedDB(path string, keys []uint64, data [][]byte, maxKey uint64) {
	db, err := bbolt.Open(path, 0600, &bbolt.Options{NoFreelistSync: true})
	if err != nil {
		panic(err)
	}
	err = db.Update(func(tx *bbolt.Tx) error {
		b, err := tx.CreateBucketIfNotExists([]byte("fifo_queue"))
		if err != nil {
			return err
		}
		mb, err := tx.CreateBucketIfNotExists([]byte("fifo_queue_meta"))
		if err != nil {
			return err
		}
		for i, k := range keys {
			kb := make([]byte, 8)
			binary.BigEndian.PutUint64(kb, k)
			if err := b.Put(kb, data[i]); err != nil {
				return err
			}
		}
		mk := make([]byte, 8)
		binary.BigEndian.PutUint64(mk, maxKey)
		return mb.Put([]byte("max_key"), mk)
	})
	if err != nil {
		panic(err)
	}
	if err := db.Close(); err != nil {
		panic(err)
	}
}

// verifSetCommitFailure makes the next bbolt Update of q fail at commit time (after the
// transaction function has returned nil). Natively: bbolt's public MaxSize limit, which is
// enforced when the commit allocates pages (the harness enqueues a value far larger than the
// free list could serve).
func verifSetCommitFailure(q *Queue, on bool) {
	if verifSymbolic() {
		verifDBOf(q.db).failCommit = on
		return
	}
	if on {
		q.db.MaxSize = 1
	} else {
		q.db.MaxSize = 0
	}
}

// ---------------------------------------------------------------- the world and its reference model

const verifMaxU64 = ^uint64(0)

type verifC26 struct {
	dir   string
	nfile int
	path  string
	q     *Queue
	olds  []*Queue // incarnations that were "killed": closed when the harness finishes

	// reference model (from the property statement)
	keys    []uint64 // stored indexes, ascending
	data    [][]byte
	highest uint64 // highest index ever stored
	next    int    // keys[next:] have not been emitted since the last open

	emittedAny  bool
	lastEmitted uint64
	ndata       int

	failSet bool // since the last open an enqueue of failIdx (> highest then) was refused by a failed commit
	failIdx uint64

	skipSet bool // since the last open, and after an emission, DeleteRange was called; skipTo = its largest argument
	skipTo  uint64
}

func verifNewC26() *verifC26 {
	verifResetModel()
	h := &verifC26{}
	if verifSymbolic() {
		h.dir = verifModelDir
	} else {
		// The harness is sequential: one operation at a time, and the manager goroutine comes to
		// rest (verifSettle) before the next one, so the native run needs no forced schedule. The
		// forced-schedule replay loses alignment at `return <-req.respChan` in DeleteRange (no
		// place for the "operation completed" scheduling point after a return statement).
		verifSchedOff()
		d, err := os.MkdirTemp("", "verif-c26-")
		if err != nil {
			panic(err)
		}
		h.dir = d
	}
	h.newPath()
	return h
}

func (h *verifC26) newPath() {
	h.nfile++
	h.path = filepath.Join(h.dir, verifName("fifo", h.nfile)+".db")
}

// finish closes every queue (the native replay runs in a synctest bubble, which must not be
// left with parked goroutines) and removes the files.
func (h *verifC26) finish() {
	if h.q != nil {
		h.q.Close()
		h.q = nil
	}
	for _, q := range h.olds {
		q.Close()
	}
	h.olds = nil
	if !verifSymbolic() {
		os.RemoveAll(h.dir)
	}
}

func (h *verifC26) payload() []byte {
	h.ndata++
	return []byte{byte(h.ndata), 0xA5, byte(h.ndata) ^ 0xFF}
}

func (h *verifC26) open() {
	q, err := NewQueue(h.path)
	if err != nil {
		verifAssert("C26-open-succeeds", false)
		return
	}
	h.q = q
	h.next = 0
	h.emittedAny = false
	h.failSet = false
	h.skipSet = false
	verifSettle()
}

func (h *verifC26) reopen() {
	h.q.Close()
	h.q = nil
	h.open()
}

// kill: the process dies now. Whatever is on disk at this moment is what a new process finds;
// the old manager goroutine gets no chance to do anything first (it is closed later, only to
// release it).
func (h *verifC26) kill() {
	old := h.path
	h.newPath()
	verifCopyDBFile(old, h.path)
	h.olds = append(h.olds, h.q)
	h.q = nil
	h.open()
}

func verifBytesEqual(a, b []byte) bool {
	if len(a) != len(b) {
		return false
	}
	for i := range a {
		if a[i] != b[i] {
			return false
		}
	}
	return true
}

// wrapped: an item with index 2^64-1 has been emitted since the last open (recorded finding class).
func (h *verifC26) wrapped() bool {
	return h.emittedAny && h.lastEmitted == verifMaxU64
}

// skipped: the item the model expects next was stored after a DeleteRange whose argument was at
// or above its index, issued after something had been emitted (recorded finding class: the
// manager moves its read position past the DeleteRange argument, not just past what it deleted).
func (h *verifC26) skipped() bool {
	return h.skipSet && h.next < len(h.keys) && h.keys[h.next] <= h.skipTo
}

// observe compares every query call with the reference model.
func (h *verifC26) observe() {
	verifSettle()
	hasNext := h.q.HasNext()
	wantNext := h.next < len(h.keys)
	if hasNext != wantNext && h.wrapped() {
		verifFinding("C26-index-maxuint64-wraps-cursor")
	}
	if wantNext && !hasNext && h.skipped() {
		verifFinding("C26-delete-range-skips-later-items")
	}
	if wantNext {
		verifAssert("C26-stored-item-offered", hasNext)
	} else {
		verifAssert("C26-nothing-offered-when-all-emitted", !hasNext)
	}
	verifAssert("C26-len", h.q.Len() == len(h.keys))
	empty, err := h.q.Empty()
	verifAssert("C26-empty", err == nil && empty == (len(h.keys) == 0))
	fk, err := h.q.FirstKey()
	if len(h.keys) > 0 {
		verifAssert("C26-first-key", err == nil && fk == h.keys[0])
	} else {
		verifAssert("C26-first-key-of-empty-queue", err == nil && fk == 0)
	}
	hk, err := h.q.HighestKey()
	if h.failSet && hk != h.highest && hk == h.failIdx {
		verifFinding("C26-failed-commit-advances-highest")
	}
	verifAssert("C26-highest-key", err == nil && hk == h.highest)
}

// enqueue: fail = the commit of this enqueue fails (only injected for an index above the highest).
func (h *verifC26) enqueue(idx uint64, fail bool) {
	isNew := idx > h.highest
	d := h.payload()
	if fail && isNew {
		if !verifSymbolic() {
			big := make([]byte, 1<<16)
			copy(big, d)
			d = big
		}
		verifSetCommitFailure(h.q, true)
		err := h.q.Enqueue(&Event{Index: idx, Data: d})
		verifSetCommitFailure(h.q, false)
		verifReach("commit-failed")
		verifAssert("C26-no-ack-when-commit-failed", err != nil)
		h.failSet, h.failIdx = true, idx
		return
	}
	err := h.q.Enqueue(&Event{Index: idx, Data: d})
	verifAssert("C26-enqueue-acknowledged", err == nil)
	if isNew {
		h.keys = append(h.keys, idx)
		h.data = append(h.data, d)
		h.highest = idx
	} else {
		verifReach("dup-ignored")
	}
}

func (h *verifC26) deleteRange(idx uint64) {
	err := h.q.DeleteRange(idx)
	verifAssert("C26-delete-range-ok", err == nil)
	if h.emittedAny {
		if !h.skipSet || idx > h.skipTo {
			h.skipTo = idx
		}
		h.skipSet = true
	}
	n := 0
	for n < len(h.keys) && h.keys[n] <= idx {
		n++
	}
	if n > h.next {
		verifReach("deleted-unemitted")
	}
	h.keys = h.keys[n:]
	h.data = h.data[n:]
	h.next -= n
	if h.next < 0 {
		h.next = 0
	}
}

// consume takes what the queue offers right now (without blocking) and compares it with the model.
func (h *verifC26) consume() {
	verifSettle()
	var ev *Event
	got := false
	select {
	case e, ok := <-h.q.C:
		verifAssert("C26-events-channel-open", ok)
		ev, got = e, true
	default:
	}
	want := h.next < len(h.keys)
	if got != want && h.wrapped() {
		verifFinding("C26-index-maxuint64-wraps-cursor")
	}
	if want && !got && h.skipped() {
		verifFinding("C26-delete-range-skips-later-items")
	}
	if !want {
		verifAssert("C26-no-event-when-all-emitted", !got)
		return
	}
	verifAssert("C26-stored-item-emitted", got)
	verifAssert("C26-event-not-nil", ev != nil)
	if h.emittedAny {
		verifAssert("C26-increasing-order", ev.Index > h.lastEmitted)
	}
	verifAssert("C26-next-event-is-smallest-pending", ev.Index == h.keys[h.next])
	verifAssert("C26-event-data", verifBytesEqual(ev.Data, h.data[h.next]))
	h.emittedAny, h.lastEmitted = true, ev.Index
	h.next++
	verifSettle()
}

func (h *verifC26) drain() {
	for h.next < len(h.keys) {
		h.consume()
	}
	h.consume() // and nothing more
}

// epilogue: everything stored is offered (in order), also after a restart.
func (h *verifC26) epilogue() {
	h.drain() // (the state was compared with the model at the end of the last step)
	n := len(h.keys)
	h.reopen()
	h.observe() // reading did not remove anything; highest index and items survived
	h.drain()
	if n > 0 {
		verifReach("reemitted-after-reopen")
	}
	h.observe()
}

const (
	vC26Enqueue = iota
	vC26Delete
	vC26Consume
	vC26Reopen
	vC26Kill
	vC26EnqueueFail
	vC26NumOps
)

// step performs one operation; idx supplies an index for the operations that need one.
func (h *verifC26) step(i int, nops int, idx func(name string) uint64) {
	switch verifChoice(verifName("op", i), nops) {
	case vC26Enqueue:
		h.enqueue(idx(verifName("idx", i)), false)
	case vC26Delete:
		h.deleteRange(idx(verifName("idx", i)))
	case vC26Consume:
		h.consume()
	case vC26Reopen:
		h.reopen()
	case vC26Kill:
		verifReach("kill")
		h.kill()
	case vC26EnqueueFail:
		h.enqueue(idx(verifName("fidx", i)), true)
	}
	h.observe()
}

// ---------------------------------------------------------------- entries

// VerifC26History: bounded histories from a fresh file. Indexes come from a small domain
// (0..dom-1), so every order type of up to dom distinct indexes is covered, without the solver.
func VerifC26History() {
	verifPanicsAreViolations()
	k, dom := 3, 4
	if verifTier() == 1 {
		k, dom = 4, 4
	}
	h := verifNewC26()
	defer h.finish()
	h.open()
	h.observe()
	idx := func(name string) uint64 {
		if name[0] == 'f' {
			return h.highest + 1 // the enqueue whose commit fails is always a new index
		}
		return uint64(verifChoice(name, dom))
	}
	for i := 0; i < k; i++ {
		h.step(i, vC26NumOps, idx)
	}
	h.epilogue()
}

// VerifC26Step: the inductive step. The file holds ANY state an earlier incarnation could have
// left (0..3 items with arbitrary increasing indexes, max_key at or above them), the new
// incarnation has emitted any number of them, then operations with arbitrary uint64 arguments
// follow, and the queue is compared with the model (queries, drain, restart, drain).
func VerifC26Step() {
	verifPanicsAreViolations()
	// shapes (items in the file, operations): quick (2,1) (1,2); thorough (3,2) (1,3)
	maxN, steps := 2, 1
	if verifChoice("shape", 2) == 1 {
		maxN, steps = 1, 2
	}
	if verifTier() == 1 {
		maxN, steps = maxN+1, steps+1
		if maxN == 2 {
			maxN = 1
		}
	}
	h := verifNewC26()
	defer h.finish()

	n := verifChoice("n", maxN+1)
	var prev uint64
	for i := 0; i < n; i++ {
		k := verifU64(verifName("key", i))
		if i > 0 {
			verifAssume(k > prev)
		}
		prev = k
		h.keys = append(h.keys, k)
		h.data = append(h.data, h.payload())
	}
	h.highest = verifU64("maxKey")
	if n > 0 {
		verifAssume(h.highest >= prev)
	}
	verifSeedDB(h.path, h.keys, h.data, h.highest)

	h.open()
	h.observe()
	for c := verifChoice("consumed", n+1); c > 0; c-- {
		h.consume()
	}
	idx := func(name string) uint64 { return verifU64(name) }
	for i := 0; i < steps; i++ {
		h.step(i, vC26NumOps, idx)
	}
	h.epilogue()
}

// verifC26Call is one Enqueue call in flight, seen from the manager: the request the caller has
// put into enqueueChan (first half of Enqueue) and the acknowledgement it is waiting for (second
// half of Enqueue, played by a goroutine of its own, as a real caller is).
type verifC26Call struct {
	idx  uint64
	data []byte
	resp chan enqueueResp
	err  error
	done bool
}

func (h *verifC26) submit(idx uint64) *verifC26Call {
	c := &verifC26Call{idx: idx, data: h.payload(), resp: make(chan enqueueResp)}
	h.q.enqueueChan <- enqueueReq{idx: c.idx, item: c.data, respChan: c.resp}
	return c
}

func verifC26Await(c *verifC26Call) {
	r := <-c.resp
	c.err = r.err
	c.done = true
}

// VerifC26InFlight: several Enqueue calls are in flight at once. The manager is busy with one
// caller (it has handled the request and waits for that caller to take its acknowledgement, as it
// does whenever the caller's goroutine is slow to be scheduled) while the requests of 2 (quick)
// / 1..3 (thorough) further callers arrive in enqueueChan; then every caller takes its
// acknowledgement. The file holds no item and any max_key (quick) / ANY state of 0..1 items left
// by an earlier incarnation, emitted or not (thorough); the indexes are arbitrary uint64s.
// Oracle: the statement's sequential model applied to the requests in the order in which they
// arrived at the manager (the order of a FIFO channel; every call is acknowledged; an index at or
// below the highest index stored BEFORE IT - by an earlier incarnation or by a request that arrived
// earlier - is ignored, every other one is stored with its own payload), compared through the
// queries, the emitted events and the state after a restart.
func VerifC26InFlight() {
	verifPanicsAreViolations()
	maxLate := 3
	h := verifNewC26()
	defer h.finish()

	n := 0 // quick: an empty file with any max_key (everything stored earlier was deleted)
	if verifTier() == 1 {
		n = verifChoice("n", 2)
	}
	for i := 0; i < n; i++ {
		h.keys = append(h.keys, verifU64(verifName("key", i)))
		h.data = append(h.data, h.payload())
	}
	h.highest = verifU64("maxKey")
	if n > 0 {
		verifAssume(h.highest >= h.keys[n-1])
	}
	verifSeedDB(h.path, h.keys, h.data, h.highest)
	h.open()
	h.observe()
	for c := verifChoice("consumed", n+1); c > 0; c-- {
		h.consume()
	}

	late := 2
	if verifTier() == 1 {
		late = 1 + verifChoice("late", maxLate)
	}
	calls := make([]*verifC26Call, 0, late+1)
	// the first caller's request is handled; the manager now offers the acknowledgement
	calls = append(calls, h.submit(verifU64("idx0")))
	verifSettle()
	// meanwhile the other callers' requests pile up
	for i := 1; i <= late; i++ {
		calls = append(calls, h.submit(verifU64(verifName("idx", i))))
	}
	for _, c := range calls {
		go verifC26Await(c)
	}
	verifSettle()

	stored := 0
	for _, c := range calls {
		verifAssert("C26-in-flight-enqueue-returns", c.done)
		verifAssert("C26-in-flight-enqueue-acknowledged", c.err == nil)
		if c.idx > h.highest {
			h.keys = append(h.keys, c.idx)
			h.data = append(h.data, c.data)
			h.highest = c.idx
			stored++
		} else {
			verifReach("in-flight-dup-ignored")
		}
	}
	if stored >= 2 {
		verifReach("in-flight-several-stored")
	}
	h.observe()
	h.epilogue()
}

// VerifC26Twin: same world; the final assertion contradicts the property and must fail.
func VerifC26Twin() {
	h := verifNewC26()
	defer h.finish()
	h.open()
	h.enqueue(verifU64("idx"), false)
	h.observe()
	h.reopen()
	verifAssert("C26-twin-item-lost-by-restart", h.q.Len() == 0)
}
